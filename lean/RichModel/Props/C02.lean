import RichModel.Lemmas.WrapLine
import RichModel.Lemmas.WrapDivide
import RichModel.Lemmas.WrapSplit
import RichModel.Lemmas.WrapFold
import RichModel.Lemmas.WrapKept
import RichModel.Lemmas.WrapFullFold
import RichModel.Lemmas.WrapNorm
import RichModel.Lemmas.WrapTabs
import RichModel.Lemmas.WrapWhole
import RichModel.Lemmas.WrapRstrip
import RichModel.Lemmas.WrapFullKept
import RichModel.Lemmas.TotalityWrap
import RichModel.Lemmas.WrapRealStyle
import RichModel.Lemmas.WrapExact
import RichModel.Lemmas.WrapNarrow
import RichModel.Props.C13
/-!
# C02 — word wrapping keeps every character, in order, with its own style

Property theorems only, 42 of them (helper lemmas: `Lemmas/Wrap*.lean`; `divideLine_weak`, the offsets at any width,
comes from C14's `Lemmas/TotalityWrap.lean`).  Model: `Model/Wrap.lean` (`_wrap.py`, `Text.wrap`,
`Lines.justify`) on top of `Model/Text.lean` (C05) and `Model/Cells.lean` (C13); `Model/Style.lean` (C06) is used
read-only by the three theorems about rich's real `Style` algebra.  All statements quantify over an arbitrary cell-width function `cw` with only the hypotheses they use
(`cw ' ' = 1`, `cw '…' = 1`, `∀ c, cw c ≤ 2`, and `∀ c, cw c ≤ w` "every character fits a line" or just `1 ≤ w` — see
"the boundary of the property" near the end: the stated range, widths ≥ 2 with characters of at most 2 cells, is one
instance, `statement_range`) — instantiated at the table generated from `rich/_cell_widths.py` at the end — and over an
arbitrary type `σ` of opaque style names (`wrap_fold_keeps_real_styles` interprets them in rich's real `Style`
algebra).  No theorem bounds the length of the text, the number of spans or the width.

Reference semantics (C05): `Text.view t : List (Char × List σ)` — every character with the list of style names that
apply to it, base style first, then the covering spans in span order ("later spans win" is the order of that
list).  `nsv v` is the sub-list of the non-whitespace characters (Python's `str.isspace` class, generated).

Variants.  `WVariant.fixed chars` = rich 9.10.0 with the two repairs this property's machinery asked for
(`fix:` commits aad03fe "Text.divide keeps the order of equal spans" — found by C05, reproduced through `wrap` here —
and 90b2e96 "Lines.justify does not pad by a negative amount" — found by C02), with `Text.rstrip_end` in either form:
`chars = true` compares the *character* count of a line with the cell width (rich 9.10.0 as found, before fix f5f2be9),
`chars = false` the cell length (fix f5f2be9 "Text.rstrip_end compares cell widths", found by C08).  The code in /repo
now is `WVariant.fixed false` = `WVariant.repaired`.  **Every theorem below that mentions `chars` holds for both values**
(`rstrip_end` removes nothing but trailing whitespace either way); what the C08 repair adds is stated separately
(`fold_lines_fit_before_crop`, repaired form only) with the witness `old_wrap_ellipsis_drops_fitting_char` for the
as-found form.  `WVariant.repaired = WVariant.fixed false`; `WVariant.released` = rich 9.10.0 as released.  The `old_…` theorems
exhibit, by evaluation, a concrete input on which the older code violates the statement proved for the repaired code;
the harness passes the flags that match the code it runs against, so a regression of any repair shows up as a
correspondence mismatch and a direct-evaluation failure.

Justify "full" rebuilds every line but the last as `Text("").join(tokens)`, which puts the null style `""` of
`Text("")` in front of every effective style; statements that include "full" therefore compare styled strings after
erasing the null style (`dropNull`: `""` is the identity of rich's style algebra), the statements for the other four
modes are exact.

Tab expansion (`Text.expand_tabs`) re-applies the base style to every character; the headline theorem
`wrap_fold_keeps_nonspace` therefore compares styles in the normal form `normView` (null style erased, adjacent
repetitions merged); the sharper comparisons hold under the stated extra hypotheses.  The normal form is not an
assumption about styles: `normal_form_sound` proves it sound in every algebra whose `+` is associative, has an identity
and is idempotent, `real_styles_idempotent` proves that rich's real `Style` algebra (C06 model, empty link stored as
`None`: fix c566893) is one, and `wrap_fold_keeps_real_styles` restates the headline theorem there: the fields
`Style.__eq__` compares, of the `Style` every non-whitespace character is rendered with, are the same before and after.

`wrapLine_style_preserved` (every overflow mode) covers the four justify modes that treat lines separately and
`wrapLine_style_preserved_full` justify "full"; both speak about the paragraph after tab expansion (which
`expandTabs_ink'` relates to the paragraph before it).  No open obligation remains for the statement of C02.
-/
namespace RichModel.C02
open RichModel RichModel.Text RichModel.Wrap

variable {σ : Type}
variable {chars : Bool}

/-! ## `divide_line` -/

/-- The break offsets computed on the plain string are strictly increasing and strictly inside the string, for every
string, every width into which every character fits, folding or not. -/
theorem divideLine_offsets (cw : Char → Nat) (text : List Char) (w : Nat) (fold : Bool) (hwc : ∀ c, cw c ≤ w) :
    (divideLine cw text w fold).Pairwise (· < ·) ∧ ∀ o ∈ divideLine cw text w fold, 0 < o ∧ o < text.length :=
  Wrap.divideLine_offsets cw text w fold hwc

/-- With folding, every piece between two consecutive offsets fits the width once its trailing whitespace is
removed — the reason why wrapping never has to cut a non-whitespace character. -/
theorem divideLine_pieces_fit (cw : Char → Nat) (text : List Char) (w : Nat) (hwc : ∀ c, cw c ≤ w) :
    ∀ p ∈ pieces (divideLine cw text w true) text, cellLen cw (pyRstrip p) ≤ w :=
  Wrap.divideLine_pieces_fit cw text w hwc

/-- **A word is broken only when it is too wide.**  An offset between two non-whitespace characters lies strictly
inside a match `word` of `\s*\S+\s*`, folding is on, and that word without its trailing whitespace — i.e. the run of
non-whitespace together with the indentation before it when it starts the paragraph — is wider than the width. -/
theorem break_only_when_too_wide (cw : Char → Nat) (text : List Char) (w : Nat) (fold : Bool)
    (hwc : ∀ c, cw c ≤ w) (o : Nat) (ho : o ∈ divideLine cw text w fold)
    (hl : ∃ c, text[o - 1]? = some c ∧ pyIsSpace c = false) (hr : ∃ c, text[o]? = some c ∧ pyIsSpace c = false) :
    fold = true ∧ ∃ a b word, (a, b, word) ∈ words text ∧ a < o ∧ o < b ∧ word = (text.drop a).take (b - a) ∧
      w < cellLen cw (pyRstrip word) :=
  Wrap.break_only_when_too_wide cw text w fold hwc o ho hl hr

/-- what a match of `\s*\S+\s*` is: indentation (only at the very beginning), one run of non-whitespace, trailing
whitespace; a later match is preceded by whitespace -/
theorem words_shape (text : List Char) (a b : Nat) (word : List Char) (h : (a, b, word) ∈ words text) :
    b = a + word.length ∧ b ≤ text.length ∧ word = (text.drop a).take (b - a) ∧
    (∃ lead body trail, word = lead ++ body ++ trail ∧ (∀ c ∈ lead, pyIsSpace c = true) ∧
      (∀ c ∈ trail, pyIsSpace c = true) ∧ body ≠ [] ∧ (∀ c ∈ body, pyIsSpace c = false) ∧ (lead ≠ [] → a = 0)) ∧
    (a ≠ 0 → ∃ c, text[a - 1]? = some c ∧ pyIsSpace c = true) :=
  Wrap.words_spec text a b word h

/-! ## every produced line fits -/

/-- **Every line `Text.wrap` produces fits the width**, unless the effective overflow is "ignore" — for every text,
span set, justify mode (including "full"), tab size, `no_wrap`, and for the released as well as the repaired code. -/
theorem wrap_lines_fit [BEq σ] (wv : WVariant) (cw : Char → Nat) (hsp : cw ' ' = 1) (h2 : ∀ c, cw c ≤ 2) (hel : cw '…' = 1)
    (A : StyleAlg σ) (t : Text σ) (w : Nat) (hw : 1 ≤ w) (justify : Option Justify) (overflow : Option Overflow)
    (tabSize : Option Nat) (noWrap : Option Bool) (out : List (Text σ))
    (h : wrap wv cw A t w justify overflow tabSize noWrap = .ok out)
    (hov : wrapOverflowOf t overflow ≠ Overflow.ignore) : ∀ l ∈ out, cellLen cw l.plain ≤ w := by
  unfold wrap at h
  obtain ⟨ps, _, h⟩ := bind_ok.mp h
  intro l hl
  obtain ⟨l0, rfl⟩ := wrapParagraphs_all_truncated wv cw A w _ _ _ _ ps out h l hl
  exact truncate_fits cw hsp h2 hel l0 w hw _ hov false

/-- `Text.truncate(w, overflow, pad)` on its own — the crop / ellipsis / pad step that `Lines.justify("left")` and the
end of `wrap` apply to every line: for every text, every span set, overflow "fold", "crop" or "ellipsis", padding on or
off, width ≥ 1, the result fits the width. -/
theorem truncate_line_fits (cw : Char → Nat) (hsp : cw ' ' = 1) (h2 : ∀ c, cw c ≤ 2) (hel : cw '…' = 1)
    (t : Text σ) (w : Nat) (hw : 1 ≤ w) (ov : Overflow) (hov : ov ≠ Overflow.ignore) (pad : Bool) :
    cellLen cw (t.truncate cw (w : Int) (some ov) pad).plain ≤ w :=
  truncate_fits cw hsp h2 hel t w hw ov hov pad

example : ((Text.new Variant.repaired ['a', 'b', 'c', 'd', 'e'] (0 : Nat)).truncate (fun _ => 1) 4 (some .ellipsis) true).plain
    = ['a', 'b', 'c', '…'] := by rfl

/-- `divide_line` with `fold=False` (overflow "crop" / "ellipsis": a word wider than the line is not cut) and at ANY
width, also below the boundary: the offsets ascend and stay inside the text (weakly: `narrow_offset_zero` shows why not
strictly) — what `Text.divide` needs to cut the styled string (`divide_effStyle`). -/
theorem divideLine_offsets_any_width (cw : Char → Nat) (text : List Char) (w : Nat) (fold : Bool) :
    AscFrom 0 (divideLine cw text w fold) ∧ ∀ o ∈ divideLine cw text w fold, o ≤ text.length :=
  divideLine_weak cw text w fold

/-! ## the heart: `divide` cuts the styled string -/

/-- `Text.divide` at ascending offsets (repeats allowed) cuts the *styled string*: line `i` shows the characters
between offsets `i` and `i+1`, each with exactly the effective style it had — base style, then all covering spans in
their original order, whatever the spans are (overlapping, nested, duplicated, empty). -/
theorem divide_effStyle [BEq σ] (t : Text σ) (offs : List Nat) (h : Inv t) (hs : AscFrom 0 offs)
    (hb : ∀ o ∈ offs, o ≤ t.plain.length) :
    ∃ lines, t.divide Variant.repaired offs = .ok lines ∧ lines.map Text.view = pieces offs t.view ∧
      lines.map (·.plain) = pieces offs t.plain ∧
      (∀ l ∈ lines, Inv l ∧ l.style = t.style ∧ l.justify = t.justify ∧ l.overflow = t.overflow) :=
  Text.divide_view t offs h hs hb

/-- the released `divide` keys its `order` dict by span *value*: when the remainder of a span split at a line end equals
a later span, the styles of the next line are re-ordered.  `"a b"` with spans 1:(0,3) 2:(2,3) 1:(2,3) wrapped at width 2:
`b` is `0,1,2,1` (style 1 wins) but the second line shows `0,1,1,2` (style 2 wins). -/
theorem old_wrap_reorders_styles :
    (wrap WVariant.released (fun _ => 1) (⟨0, List.sum, (· == ·)⟩ : StyleAlg Nat)
        (Text.new Variant.released ['a', ' ', 'b'] 0 [⟨0, 3, 1⟩, ⟨2, 3, 2⟩, ⟨2, 3, 1⟩]) 2).map (fun ls => ls.map Text.view)
      = .ok [[('a', [0, 1]), (' ', [0, 1])], [('b', [0, 1, 1, 2])]] ∧
    (Text.new Variant.released ['a', ' ', 'b'] (0 : Nat) [⟨0, 3, 1⟩, ⟨2, 3, 2⟩, ⟨2, 3, 1⟩]).effStyle 2 = [0, 1, 2, 1] := by
  constructor <;> rfl

example :
    (wrap WVariant.repaired (fun _ => 1) (⟨0, List.sum, (· == ·)⟩ : StyleAlg Nat)
        (Text.new Variant.repaired ['a', ' ', 'b'] 0 [⟨0, 3, 1⟩, ⟨2, 3, 2⟩, ⟨2, 3, 1⟩]) 2).map (fun ls => ls.map Text.view)
      = .ok [[('a', [0, 1]), (' ', [0, 1])], [('b', [0, 1, 2, 1])]] := by rfl

/-! ## folding keeps every non-whitespace character, in order, with its style -/

/-- One paragraph (no newline; tabs already expanded), overflow "fold", justify "default", "left", "center" or
"right": the non-whitespace characters of the produced lines, concatenated, **with their effective styles**, are
exactly those of the paragraph — nothing dropped, duplicated, reordered or restyled. -/
theorem wrapLine_fold_keeps [BEq σ] (cw : Char → Nat) (hsp : cw ' ' = 1) (h2 : ∀ c, cw c ≤ 2) (A : StyleAlg σ) (w : Nat)
    (hwc : ∀ c, cw c ≤ w) (j : Justify) (hj : j ≠ Justify.full) (P : Text σ) (hP : Inv P) :
    ∃ out, wrapLine (WVariant.fixed chars) cw A P w j Overflow.fold false = .ok out ∧
      nsv (out.flatMap Text.view) = nsv P.view ∧ ∀ l ∈ out, Inv l := by
  obtain ⟨hpw, hin⟩ := Wrap.divideLine_offsets cw P.plain w true hwc
  have hasc : AscFrom 0 (divideLine cw P.plain w true) :=
    ascFrom_of_pairwise _ 0 (hpw.imp (fun h => Nat.le_of_lt h)) (fun o _ => Nat.zero_le o)
  obtain ⟨lines, hdiv, hview, hplain, hall⟩ :=
    Text.divide_view P _ hP hasc (fun o ho => Nat.le_of_lt (hin o ho).2)
  obtain ⟨h1, h2', h3⟩ := wrapLine_fold_ink cw hsp h2 A w j hj P lines hasc hdiv hview hplain
    (fun l hl => (hall l hl).1) (Wrap.divideLine_pieces_fit cw P.plain w hwc)
  exact ⟨_, h1, h2', h3⟩

/-- the characters alone -/
theorem wrapLine_fold_keeps_chars [BEq σ] (cw : Char → Nat) (hsp : cw ' ' = 1) (h2 : ∀ c, cw c ≤ 2) (A : StyleAlg σ)
    (w : Nat) (hwc : ∀ c, cw c ≤ w) (j : Justify) (hj : j ≠ Justify.full) (P : Text σ) (hP : Inv P) :
    ∃ out, wrapLine (WVariant.fixed chars) cw A P w j Overflow.fold false = .ok out ∧
      (out.flatMap (·.plain)).filter (fun c => !pyIsSpace c) = P.plain.filter (fun c => !pyIsSpace c) := by
  obtain ⟨out, h1, h3, _⟩ := wrapLine_fold_keeps cw hsp h2 A w hwc j hj P hP
  refine ⟨out, h1, ?_⟩
  have key : ∀ (v : List (Char × List σ)), (nsv v).map (·.1) = (v.map (·.1)).filter (fun c => !pyIsSpace c) := by
    intro v; simp only [nsv, List.filter_map]; rfl
  have h4 := congrArg (List.map (·.1)) h3
  rw [key, key, view_eq_annot, annot_map_fst] at h4
  rw [← h4]
  congr 1
  simp only [List.map_flatMap]
  congr 1
  funext l
  rw [view_eq_annot, annot_map_fst]

/-- The same for justify **"full"**: every line but the last of the paragraph is rebuilt from its words with the
blanks spread out; the non-whitespace characters of the produced lines and their effective styles are those of the
paragraph (up to the null style `""` that `Text("").join` puts in front). -/
theorem wrapLine_fold_keeps_full [BEq σ] [LawfulBEq σ] (cw : Char → Nat) (hsp : cw ' ' = 1)
    (A : StyleAlg σ) (w : Nat) (hwc : ∀ c, cw c ≤ w) (P : Text σ) (hP : Inv P) :
    ∃ out, wrapLine (WVariant.fixed chars) cw A P w Justify.full Overflow.fold false = .ok out ∧
      dropNull A (nsv (out.flatMap Text.view)) = dropNull A (nsv P.view) ∧ ∀ l ∈ out, Inv l := by
  obtain ⟨hpw, hin⟩ := Wrap.divideLine_offsets cw P.plain w true hwc
  have hasc : AscFrom 0 (divideLine cw P.plain w true) :=
    ascFrom_of_pairwise _ 0 (hpw.imp (fun h => Nat.le_of_lt h)) (fun o _ => Nat.zero_le o)
  obtain ⟨lines, hdiv, hview, hplain, hall⟩ :=
    Text.divide_view P _ hP hasc (fun o ho => Nat.le_of_lt (hin o ho).2)
  exact wrapLine_fold_full_ink cw hsp A w P lines hasc hdiv hview hplain (fun l hl => (hall l hl).1)
    (Wrap.divideLine_pieces_fit cw P.plain w hwc)

/-- **Every justify mode** ("default", "left", "center", "right", "full"): with overflow "fold" the non-whitespace
characters of the produced lines, concatenated, are exactly those of the paragraph — none dropped, duplicated or
reordered — and each carries the effective style it had (compared modulo the null style, see the header). -/
theorem wrapLine_fold_keeps_every_justify [BEq σ] [LawfulBEq σ] (cw : Char → Nat) (hsp : cw ' ' = 1) (h2 : ∀ c, cw c ≤ 2)
    (A : StyleAlg σ) (w : Nat) (hwc : ∀ c, cw c ≤ w) (j : Justify) (P : Text σ) (hP : Inv P) :
    ∃ out, wrapLine (WVariant.fixed chars) cw A P w j Overflow.fold false = .ok out ∧
      dropNull A (nsv (out.flatMap Text.view)) = dropNull A (nsv P.view) ∧ (∀ l ∈ out, Inv l) ∧
      (out.flatMap (·.plain)).filter (fun c => !pyIsSpace c) = P.plain.filter (fun c => !pyIsSpace c) := by
  have hmain : ∃ out, wrapLine (WVariant.fixed chars) cw A P w j Overflow.fold false = .ok out ∧
      dropNull A (nsv (out.flatMap Text.view)) = dropNull A (nsv P.view) ∧ (∀ l ∈ out, Inv l) := by
    by_cases hj : j = Justify.full
    · subst hj; exact wrapLine_fold_keeps_full cw hsp A w hwc P hP
    · obtain ⟨out, h1, h3, h4⟩ := wrapLine_fold_keeps cw hsp h2 A w hwc j hj P hP
      exact ⟨out, h1, by rw [h3], h4⟩
  obtain ⟨out, h1, h3, h4⟩ := hmain
  refine ⟨out, h1, h3, h4, ?_⟩
  have key : ∀ (v : List (Char × List σ)), (dropNull A (nsv v)).map (·.1) = (v.map (·.1)).filter (fun c => !pyIsSpace c) := by
    intro v; simp only [dropNull, nsv, List.map_map, List.filter_map]; rfl
  have h5 := congrArg (List.map (·.1)) h3
  rw [key, key, view_eq_annot, annot_map_fst] at h5
  rw [← h5]
  congr 1
  simp only [List.map_flatMap]
  congr 1
  funext l
  rw [view_eq_annot, annot_map_fst]

/-- **Word wrapping keeps every character, in order, with its own style** — the whole of `Text.wrap` (split on
newlines, tab expansion with any tab size ≥ 1, division at the computed offsets, `rstrip_end`, justification, final
crop), **every justify mode**, effective overflow "fold", wrapping enabled, any width into which every character fits
(every width ≥ 2: `statement_range`; width 1 with single-cell characters: `width_one_single_cells`), any text, any span set:
the call succeeds, and the non-whitespace characters of all produced lines, concatenated, are exactly those of the
text — none dropped, duplicated or reordered — each with the effective style it had before wrapping.  Styles are
compared in the normal form `normView` (null style erased, adjacent repetitions merged), i.e. up to the two laws of
rich's style algebra that `wrap` itself relies on when `expand_tabs` re-applies the base style and `Text("").join`
puts the null style in front; for texts without tabs and justify other than "full" the comparison is exact
(`wrap_fold_keeps_styles_exact`). -/
theorem wrap_fold_keeps_nonspace [BEq σ] [LawfulBEq σ] (cw : Char → Nat) (hsp : cw ' ' = 1) (h2 : ∀ c, cw c ≤ 2)
    (A : StyleAlg σ) (t : Text σ) (ht : Inv t) (w : Nat) (hwc : ∀ c, cw c ≤ w) (justify : Option Justify)
    (overflow : Option Overflow) (ts : Nat) (hts : 0 < ts) (noWrap : Option Bool)
    (hov : wrapOverflowOf t overflow = Overflow.fold) (hnw : noWrapOf t overflow noWrap = false) :
    ∃ out, wrap (WVariant.fixed chars) cw A t w justify overflow (some ts) noWrap = .ok out ∧
      normView A (nsv (out.flatMap Text.view)) = normView A (nsv t.view) ∧
      (out.flatMap (·.plain)).filter (fun c => !pyIsSpace c) = t.plain.filter (fun c => !pyIsSpace c) := by
  have hmain : ∃ out, wrap (WVariant.fixed chars) cw A t w justify overflow (some ts) noWrap = .ok out ∧
      normView A (nsv (out.flatMap Text.view)) = normView A (nsv t.view) := by
    apply wrap_over_paragraphs cw A t ht w justify overflow (some ts) noWrap (normView A) (normView_append A)
    intro P hP _
    rw [hov, hnw]
    obtain ⟨Q, hQ, hQi, _, hno, hyes⟩ := expandTabs_ink' P hP ts hts
    by_cases hc : P.plain.contains '\t' = true
    · obtain ⟨out, h1, h3, _⟩ := wrapLine_fold_keeps_every_justify cw hsp h2 A w hwc (wrapJustifyOf t justify) Q hQi
      refine ⟨Q, out, by rw [if_pos hc]; exact hQ, h1, ?_⟩
      rw [normView_of_dropNull A _ _ h3, hyes hc]
      exact normView_cons_base A P.style _ (nsv_styles_start_with_base P)
    · obtain ⟨out, h1, h3, _⟩ := wrapLine_fold_keeps_every_justify cw hsp h2 A w hwc (wrapJustifyOf t justify) P hP
      exact ⟨P, out, by rw [if_neg hc], h1, normView_of_dropNull A _ _ h3⟩
  obtain ⟨out, h1, h3⟩ := hmain
  refine ⟨out, h1, h3, ?_⟩
  have key : ∀ (v : List (Char × List σ)), (normView A (nsv v)).map (·.1) = (v.map (·.1)).filter (fun c => !pyIsSpace c) := by
    intro v; simp only [normView, nsv, List.map_map, List.filter_map]; rfl
  have h5 := congrArg (List.map (·.1)) h3
  rw [key, key, view_eq_annot, annot_map_fst] at h5
  rw [← h5]
  congr 1
  simp only [List.map_flatMap]
  congr 1
  funext l
  rw [view_eq_annot, annot_map_fst]

/-- for a text without tab characters the null style is the only thing to erase, in every justify mode -/
theorem wrap_fold_keeps_nonspace_notabs [BEq σ] [LawfulBEq σ] (cw : Char → Nat) (hsp : cw ' ' = 1) (h2 : ∀ c, cw c ≤ 2)
    (A : StyleAlg σ) (t : Text σ) (ht : Inv t) (w : Nat) (hwc : ∀ c, cw c ≤ w) (justify : Option Justify)
    (overflow : Option Overflow) (tabSize : Option Nat) (noWrap : Option Bool)
    (hov : wrapOverflowOf t overflow = Overflow.fold) (hnw : noWrapOf t overflow noWrap = false)
    (htab : '\t' ∉ t.plain) :
    ∃ out, wrap (WVariant.fixed chars) cw A t w justify overflow tabSize noWrap = .ok out ∧
      dropNull A (nsv (out.flatMap Text.view)) = dropNull A (nsv t.view) := by
  apply wrap_over_paragraphs cw A t ht w justify overflow tabSize noWrap (dropNull A) (dropNull_append A)
  intro P hP hPc
  rw [hov, hnw]
  obtain ⟨out, h1, h3, _⟩ := wrapLine_fold_keeps_every_justify cw hsp h2 A w hwc (wrapJustifyOf t justify) P hP
  exact ⟨P, out, no_tab_paragraph t P tabSize htab hPc, h1, h3⟩

/-- … and for the four justify modes that treat lines separately the styles are compared **exactly** -/
theorem wrap_fold_keeps_styles_exact [BEq σ] (cw : Char → Nat) (hsp : cw ' ' = 1) (h2 : ∀ c, cw c ≤ 2)
    (A : StyleAlg σ) (t : Text σ) (ht : Inv t) (w : Nat) (hwc : ∀ c, cw c ≤ w) (justify : Option Justify)
    (overflow : Option Overflow) (tabSize : Option Nat) (noWrap : Option Bool)
    (hov : wrapOverflowOf t overflow = Overflow.fold) (hnw : noWrapOf t overflow noWrap = false)
    (hj : wrapJustifyOf t justify ≠ Justify.full) (htab : '\t' ∉ t.plain) :
    ∃ out, wrap (WVariant.fixed chars) cw A t w justify overflow tabSize noWrap = .ok out ∧
      nsv (out.flatMap Text.view) = nsv t.view := by
  apply wrap_over_paragraphs cw A t ht w justify overflow tabSize noWrap id (fun _ _ => rfl)
  intro P hP hPc
  rw [hov, hnw]
  obtain ⟨out, h1, h3, _⟩ := wrapLine_fold_keeps cw hsp h2 A w hwc _ hj P hP
  exact ⟨P, out, no_tab_paragraph t P tabSize htab hPc, h1, h3⟩

/-! ## the exact form where `wrap` itself adds style names: tabs and justify "full"

`wrap_fold_keeps_styles_exact` compares name lists exactly for tab-free texts and justify other than "full".  The two
remaining cases are not weaker in kind — `wrap` adds a style name **in front** of the effective style, and exactly
there: `Text.expand_tabs` rebuilds a paragraph that contains a tab through `Text.append(part)` (span of the part's
base style first, then the part's spans), so every character of such a paragraph carries the base style once more in
front (`tabMark`); `Lines.justify(…, "full")` rebuilds every line of a paragraph but the last as
`Text("").join(tokens)`, so every character of such a line carries the null style `""` in front (`fullMark`).  The
theorems below state this as equalities of name lists; `tabs_exact_form_fails` / `full_exact_form_fails` are the
machine-checked reasons why the unmarked equality cannot hold there. -/

/-- `expand_tabs` exactly: a paragraph with a tab shows its non-whitespace characters, in order, each with the base
style followed by the effective style it had (base style, then the covering spans in span order) — the order of the
part's base-style span and the part's own spans in `Text.append` is what this pins down. -/
theorem expandTabs_exact [BEq σ] (P : Text σ) (h : Inv P) (ts : Nat) (hts : 0 < ts) :
    ∃ Q, (if P.plain.contains '\t' then P.expandTabs Variant.repaired (some ts) else .ok P) = .ok Q ∧ Inv Q ∧
      Q.style = P.style ∧ nsv Q.view = tabMark P := by
  obtain ⟨Q, hQ, hQi, hst, hno, hyes⟩ := expandTabs_ink' P h ts hts
  by_cases hc : P.plain.contains '\t' = true
  · exact ⟨Q, by rw [if_pos hc]; exact hQ, hQi, hst, by rw [hyes hc, tabMark, if_pos hc]⟩
  · exact ⟨P, by rw [if_neg hc], h, rfl, by rw [tabMark, if_neg hc]⟩

/-- **Exact styles for texts with tabs** (justify "default", "left", "center", "right"; any tab size ≥ 1): the
non-whitespace characters of the produced lines, with their style lists, are those of the paragraphs of the text
(`split` on newlines: same characters, same styles), where exactly the characters of a paragraph that contains a tab
carry the base style once more in front. -/
theorem wrap_fold_keeps_styles_exact_tabs [BEq σ] (cw : Char → Nat) (hsp : cw ' ' = 1) (h2 : ∀ c, cw c ≤ 2)
    (A : StyleAlg σ) (t : Text σ) (ht : Inv t) (w : Nat) (hwc : ∀ c, cw c ≤ w) (justify : Option Justify)
    (overflow : Option Overflow) (ts : Nat) (hts : 0 < ts) (noWrap : Option Bool)
    (hov : wrapOverflowOf t overflow = Overflow.fold) (hnw : noWrapOf t overflow noWrap = false)
    (hj : wrapJustifyOf t justify ≠ Justify.full) :
    ∃ out ps, wrap (WVariant.fixed chars) cw A t w justify overflow (some ts) noWrap = .ok out ∧
      t.split Variant.repaired ['\n'] false true = .ok ps ∧ nsv (ps.flatMap Text.view) = nsv t.view ∧
      (∀ P ∈ ps, Inv P ∧ P.style = t.style ∧ '\n' ∉ P.plain) ∧
      nsv (out.flatMap Text.view) = ps.flatMap tabMark := by
  apply wrap_over_paragraphs_exact cw A t ht w justify overflow (some ts) noWrap tabMark
  intro P hP _
  rw [hov, hnw]
  obtain ⟨Q, hQ, hQi, _, hQv⟩ := expandTabs_exact P hP ts hts
  obtain ⟨out, h1, h3, _⟩ := wrapLine_fold_keeps (chars := chars) cw hsp h2 A w hwc _ hj Q hQi
  exact ⟨Q, out, hQ, h1, h3.trans hQv⟩

/-- **Exact styles for justify "full"**, one paragraph (tabs expanded): cut the paragraph's styled string at the
offsets of `divide_line`; the non-whitespace characters of the produced lines are those of the pieces, in order, the
characters of every piece but the last with the null style `""` in front of their style list, those of the last piece
with exactly their style list. -/
theorem wrapLine_fold_keeps_full_exact [BEq σ] (cw : Char → Nat) (hsp : cw ' ' = 1) (A : StyleAlg σ) (w : Nat)
    (hwc : ∀ c, cw c ≤ w) (P : Text σ) (hP : Inv P) :
    ∃ out, wrapLine (WVariant.fixed chars) cw A P w Justify.full Overflow.fold false = .ok out ∧
      nsv (out.flatMap Text.view) =
        fullMark A.null ((pieces (divideLine cw P.plain w true) P.view).map nsv) := by
  obtain ⟨out, h1, h2⟩ := wrapLine_fold_full_exact (chars := chars) cw hsp A w hwc P hP
  exact ⟨out, h1, by rw [h2, paraInk, if_pos rfl]⟩

/-- what `fullMark` is: the characters of the lines, in order; each style list is kept or gets the null style in
front — nothing else -/
theorem fullMark_chars (null : σ) (ls : List (List (Char × List σ))) :
    (fullMark null ls).length = ls.flatten.length ∧
      ∀ p ∈ (fullMark null ls).zip ls.flatten, p.1.1 = p.2.1 ∧ (p.1.2 = p.2.2 ∨ p.1.2 = null :: p.2.2) :=
  fullMark_spec null ls

/-- **The whole of `Text.wrap`, every justify mode, tabs, exactly**: the non-whitespace characters of the produced
lines with their style lists are, paragraph by paragraph, `wrapInk`: expand the tabs (`expandTabs_exact`: base style
once more in front when there is a tab), then — for "full" only — the null style in front on every line of the
paragraph but the last (`fullMark` over the pieces cut at `divide_line`'s offsets).  No normal form. -/
theorem wrap_fold_keeps_exact [BEq σ] (cw : Char → Nat) (hsp : cw ' ' = 1) (h2 : ∀ c, cw c ≤ 2)
    (A : StyleAlg σ) (t : Text σ) (ht : Inv t) (w : Nat) (hwc : ∀ c, cw c ≤ w) (justify : Option Justify)
    (overflow : Option Overflow) (ts : Nat) (hts : 0 < ts) (noWrap : Option Bool)
    (hov : wrapOverflowOf t overflow = Overflow.fold) (hnw : noWrapOf t overflow noWrap = false) :
    ∃ out ps, wrap (WVariant.fixed chars) cw A t w justify overflow (some ts) noWrap = .ok out ∧
      t.split Variant.repaired ['\n'] false true = .ok ps ∧ nsv (ps.flatMap Text.view) = nsv t.view ∧
      (∀ P ∈ ps, Inv P ∧ P.style = t.style ∧ '\n' ∉ P.plain) ∧
      nsv (out.flatMap Text.view) = ps.flatMap (wrapInk cw A w (wrapJustifyOf t justify) (some ts)) := by
  apply wrap_over_paragraphs_exact cw A t ht w justify overflow (some ts) noWrap
  intro P hP _
  rw [hov, hnw]
  obtain ⟨Q, hQ, hQi, _, _⟩ := expandTabs_exact P hP ts hts
  have hF : wrapInk cw A w (wrapJustifyOf t justify) (some ts) P = paraInk cw A w (wrapJustifyOf t justify) Q := by
    unfold wrapInk; rw [hQ]
  by_cases hj : wrapJustifyOf t justify = Justify.full
  · rw [hj] at hF ⊢
    obtain ⟨out, h1, h3⟩ := wrapLine_fold_full_exact (chars := chars) cw hsp A w hwc Q hQi
    exact ⟨Q, out, hQ, h1, by rw [hF, h3]⟩
  · obtain ⟨out, h1, h3, _⟩ := wrapLine_fold_keeps (chars := chars) cw hsp h2 A w hwc _ hj Q hQi
    exact ⟨Q, out, hQ, h1, by rw [hF, h3, paraInk, if_neg hj]⟩

/-- **The blanks full justification inserts**: the complete styled string of a rebuilt line — not only its
non-whitespace characters — is that of its tokens one after the other, every character with the null style in front;
the tokens are the words of `line.split(" ")` and between two words `spaces[i]` blanks (`fullTokens`), and such a blank
token shows each blank with exactly ONE style (`full_blank_style`): the `Style` `get_style_at_offset` computes at the
last character of the word when it is `==` the one at the first character of the next word, otherwise the line's base
style.  So an inserted blank renders with `null + that style`: it continues a style its two neighbours share
(underline, background) and never picks up the style of only one of them. -/
theorem justify_full_line_exact [BEq σ] (cw : Char → Nat) (A : StyleAlg σ) (line : Text σ) (h : Inv line) (w : Nat) :
    ∃ (ws : List (Text σ)) (out : Text σ), line.split Variant.repaired [' '] = .ok ws ∧
      justifyFullLine Variant.repaired cw A line w = .ok out ∧
      out.view = (fullTokens Variant.repaired A line.style ws
          (fullSpaces (ws.map (fun x => cellLen cw x.plain)).sum ws.length w)).flatMap
        (fun x => x.view.map (fun p => (p.1, A.null :: p.2))) :=
  justifyFullLine_view cw A line h w

/-- the blank token `Text(" " * n, style=space_style)`: `n` blanks, each with `space_style` and nothing else -/
theorem full_blank_style (n : Nat) (st : σ) :
    (Text.new Variant.repaired (List.replicate n ' ') st).view = List.replicate n (' ', [st]) :=
  blank_view n st

/-- `"ab cd "` with style 7 on `b c`, width 8 (`exLine`): the four blanks between the words carry the null style 100 and
`comb [0, 7] = 7` — the style both neighbours `b` and `c` have — not the bare base style -/
example : (justifyFullLine Variant.repaired (fun _ => 1) exAlg exLine 8).map Text.view =
    .ok [('a', [100, 0]), ('b', [100, 0, 7]), (' ', [100, 7]), (' ', [100, 7]), (' ', [100, 7]), (' ', [100, 7]),
      ('c', [100, 0, 7]), ('d', [100, 0])] := by rfl

/-- why the unmarked equality fails with a tab: `"a\tb"` with base style 0 and style 1 on `b`, tab size 2, width 4 —
after wrapping `a` carries `[0, 0]` and `b` carries `[0, 0, 1]` (base style in front once more, *before* the span),
not `[0]` and `[0, 1]` -/
theorem tabs_exact_form_fails :
    (wrap WVariant.repaired (fun _ => 1) (⟨9, List.sum, (· == ·)⟩ : StyleAlg Nat)
        (Text.new Variant.repaired ['a', '\t', 'b'] 0 [⟨2, 3, 1⟩]) 4 none none (some 2)).map
        (fun ls => nsv (ls.flatMap Text.view)) = .ok [('a', [0, 0]), ('b', [0, 0, 1])] ∧
    nsv (Text.new Variant.repaired ['a', '\t', 'b'] (0 : Nat) [⟨2, 3, 1⟩]).view = [('a', [0]), ('b', [0, 1])] := by
  constructor <;> rfl

/-- why the unmarked equality fails for "full": `"a b c"` at width 3 — the first line is rebuilt (`a`, `b` carry the
null style 9 in front), the last line is not -/
theorem full_exact_form_fails :
    (wrap WVariant.repaired (fun _ => 1) (⟨9, List.sum, (· == ·)⟩ : StyleAlg Nat)
        (Text.new Variant.repaired ['a', ' ', 'b', ' ', 'c'] 0 [⟨2, 5, 1⟩]) 3 (some .full)).map
        (fun ls => nsv (ls.flatMap Text.view)) = .ok [('a', [9, 0]), ('b', [9, 0, 1]), ('c', [0, 1])] := by
  rfl

/-- a text with a tab paragraph and a tab-free one meets the hypotheses of the exact theorems -/
example : Inv (Text.new Variant.repaired ['a', '\t', 'b', '\n', 'c'] (0 : Nat) [⟨2, 5, 1⟩]) :=
  inv_new _ _ _ _ _ _ _ _ (by
    intro sp hsp
    simp only [List.mem_cons, List.mem_nil_iff, or_false] at hsp
    subst hsp; decide)

example :
    (wrap WVariant.repaired (fun _ => 1) (⟨9, List.sum, (· == ·)⟩ : StyleAlg Nat)
        (Text.new Variant.repaired ['a', '\t', 'b', '\n', 'c'] 0 [⟨2, 5, 1⟩]) 4 none none (some 2)).map
        (fun ls => nsv (ls.flatMap Text.view)) = .ok [('a', [0, 0]), ('b', [0, 0, 1]), ('c', [0, 1])] := by rfl

/-! ## every overflow mode: each character that is output carries the style it had -/

/-- One paragraph, **every overflow mode** ("fold", "crop", "ellipsis", "ignore"), wrapping on or off (`no_wrap`),
justify "default", "left", "center" or "right": the paragraph's styled string is cut into consecutive pieces
(`lines`), and each produced line is: blanks, then a prefix of its piece — *every character with exactly the effective
style it had before wrapping* — then blanks / the ellipsis character.  No character of the output comes from anywhere
else, none changes its style, and their order is the paragraph's. -/
theorem wrapLine_style_preserved [BEq σ] (cw : Char → Nat) (hsp : cw ' ' = 1) (h2 : ∀ c, cw c ≤ 2) (A : StyleAlg σ) (w : Nat)
    (hw : 1 ≤ w) (j : Justify) (hj : j ≠ Justify.full) (o : Overflow) (nw : Bool) (P : Text σ) (hP : Inv P) :
    ∃ lines : List (Text σ), (lines.map Text.view).flatten = P.view ∧
      wrapLine (WVariant.fixed chars) cw A P w j o nw = .ok (lines.map (finishLine (WVariant.fixed chars) cw w j o)) ∧
      ∀ l ∈ lines, Kept l (finishLine (WVariant.fixed chars) cw w j o l) := by
  have finish : ∀ lines : List (Text σ), (∀ l ∈ lines, Inv l) →
      (justifyLines (WVariant.fixed chars) cw A (lines.map (fun l => Text.rstripEndW chars cw (WVariant.fixed chars).text l w)) w j o >>= fun justified =>
        (.ok (justified.map (fun l => l.truncate cw w (some o))) : Except PyErr (List (Text σ))))
        = .ok (lines.map (finishLine (WVariant.fixed chars) cw w j o)) ∧
      ∀ l ∈ lines, Kept l (finishLine (WVariant.fixed chars) cw w j o l) := by
    intro lines hinv
    refine ⟨?_, fun l hl => finishLine_kept cw hsp h2 w hw j o l (hinv l hl)⟩
    rw [justifyLines_map _ _ _ _ _ _ _ hj]
    simp only [bind, Except.bind, List.map_map]
    rfl
  cases nw with
  | true =>
    obtain ⟨f1, f2⟩ := finish [P] (by intro l hl; simp only [List.mem_singleton] at hl; subst hl; exact hP)
    refine ⟨[P], by simp, ?_, f2⟩
    unfold wrapLine
    simp only [if_true, bind, Except.bind] at f1 ⊢
    exact f1
  | false =>
    obtain ⟨hasc, hin⟩ := divideLine_weak cw P.plain w (o == Overflow.fold)
    obtain ⟨lines, hdiv, hview, _, hall⟩ := Text.divide_view P _ hP hasc hin
    obtain ⟨f1, f2⟩ := finish lines (fun l hl => (hall l hl).1)
    refine ⟨lines, by rw [hview, pieces_flatten _ _ hasc], ?_, f2⟩
    unfold wrapLine
    simp only [Bool.false_eq_true, if_false]
    rw [show (WVariant.fixed chars).text = Variant.repaired from rfl, hdiv]
    simp only [bind, Except.bind] at f1 ⊢
    exact f1

/-- The same for justify **"full"**, every overflow mode, wrapping on or off: the paragraph's styled string is cut
into consecutive pieces, there is one produced line per piece, and the non-whitespace characters a produced line shows
are a prefix of those of its piece — in order, each with the effective style it had (modulo the null style that
`Text("").join` puts in front of a rebuilt line) — possibly between ellipsis characters.  (The blanks between the words
of a rebuilt line are new characters; nothing is claimed about them.) -/
theorem wrapLine_style_preserved_full [BEq σ] [LawfulBEq σ] (cw : Char → Nat) (hsp : cw ' ' = 1) (h2 : ∀ c, cw c ≤ 2)
    (A : StyleAlg σ) (w : Nat) (hw : 1 ≤ w) (o : Overflow) (nw : Bool) (P : Text σ) (hP : Inv P) :
    ∃ (lines out : List (Text σ)), (lines.map Text.view).flatten = P.view ∧
      wrapLine (WVariant.fixed chars) cw A P w Justify.full o nw = .ok out ∧ out.length = lines.length ∧
      ∀ p ∈ lines.zip out, InkPrefix A p.1 p.2 := by
  have finish : ∀ lines : List (Text σ), (∀ l ∈ lines, Inv l) → ∃ out,
      (justifyLines (WVariant.fixed chars) cw A
          (lines.map (fun l => Text.rstripEndW (WVariant.fixed chars).rstripChars cw (WVariant.fixed chars).text l w)) w
          Justify.full o >>= fun justified =>
        (.ok (justified.map (fun l => l.truncate cw w (some o))) : Except PyErr (List (Text σ)))) = .ok out ∧
      out.length = lines.length ∧ ∀ p ∈ lines.zip out, InkPrefix A p.1 p.2 := by
    intro lines hinv
    obtain ⟨outs, hjf, _, hrel⟩ := justifyFull_spec cw hsp A w
      (lines.map (fun l => Text.rstripEndW chars cw Variant.repaired l (w : Int)))
      (by intro s hs; obtain ⟨l, hl, rfl⟩ := List.mem_map.mp hs
          exact (rstripEnd_kept (chars := chars) cw l (hinv l hl) w).inv)
    obtain ⟨f1, f2⟩ := fullRel_inkPrefix (chars := chars) cw hsp h2 A w hw o lines outs hinv hrel
    refine ⟨_, ?_, f1, f2⟩
    simp only [justifyLines, show (WVariant.fixed chars).text = Variant.repaired from rfl,
      show (WVariant.fixed chars).rstripChars = chars from rfl, hjf, bind, Except.bind]
  cases nw with
  | true =>
    obtain ⟨out, f1, f2, f3⟩ := finish [P] (by intro l hl; simp only [List.mem_singleton] at hl; subst hl; exact hP)
    refine ⟨[P], out, by simp, ?_, f2, f3⟩
    unfold wrapLine
    simp only [if_true, bind, Except.bind] at f1 ⊢
    exact f1
  | false =>
    obtain ⟨hasc, hin⟩ := divideLine_weak cw P.plain w (o == Overflow.fold)
    obtain ⟨lines, hdiv, hview, _, hall⟩ := Text.divide_view P _ hP hasc hin
    obtain ⟨out, f1, f2, f3⟩ := finish lines (fun l hl => (hall l hl).1)
    refine ⟨lines, out, by rw [hview, pieces_flatten _ _ hasc], ?_, f2, f3⟩
    unfold wrapLine
    simp only [Bool.false_eq_true, if_false]
    rw [show (WVariant.fixed chars).text = Variant.repaired from rfl, hdiv]
    simp only [bind, Except.bind, show (WVariant.fixed chars).text = Variant.repaired from rfl] at f1 ⊢
    exact f1

/-- released `Lines.justify`: "right" (and "center") hand `pad_left` a *negative* count when the line stays wider than the
width (overflow "ignore"): the characters stay, every span moves left — `"abc"` with style 1 on `bc`, width 2:
the released code shows style 1 on `ab`. -/
theorem old_justify_negative_pad :
    (wrap WVariant.released (fun _ => 1) (⟨0, List.sum, (· == ·)⟩ : StyleAlg Nat)
        (Text.new Variant.released ['a', 'b', 'c'] 0 [⟨1, 3, 1⟩]) 2 (some .right) (some .ignore)).map (fun ls => ls.map Text.view)
      = .ok [[('a', [0, 1]), ('b', [0, 1]), ('c', [0])]] := by rfl

example :
    (wrap WVariant.repaired (fun _ => 1) (⟨0, List.sum, (· == ·)⟩ : StyleAlg Nat)
        (Text.new Variant.repaired ['a', 'b', 'c'] 0 [⟨1, 3, 1⟩]) 2 (some .right) (some .ignore)).map (fun ls => ls.map Text.view)
      = .ok [[('a', [0]), ('b', [0, 1]), ('c', [0, 1])]] := by rfl

/-- a width function with a 2-cell and a 0-cell character that meets the hypotheses -/
def exCw (c : Char) : Nat := if c = 'あ' then 2 else if c = '̀' then 0 else 1

/-! ## `rstrip_end` counting cells (C08 repair): lines fit before the final crop -/

/-- With the repaired `rstrip_end` (`chars = false`) every line of a fold-wrapped paragraph already fits the width
when it leaves `rstrip_end` — the final `truncate` has nothing to cut and, in particular, "ellipsis"/"crop" never
touch a line whose text fits — provided no whitespace character is zero cells wide. -/
theorem fold_lines_fit_before_crop [BEq σ] (cw : Char → Nat)
    (hws : ∀ c, pyIsSpace c = true → 1 ≤ cw c) (w : Nat) (hwc : ∀ c, cw c ≤ w) (P : Text σ) (hP : Inv P) :
    ∃ lines, P.divide Variant.repaired (divideLine cw P.plain w true) = .ok lines ∧
      ∀ l ∈ lines, cellLen cw (Text.rstripEndW false cw Variant.repaired l (w : Int)).plain ≤ w := by
  obtain ⟨hpw, hin⟩ := Wrap.divideLine_offsets cw P.plain w true hwc
  have hasc : AscFrom 0 (divideLine cw P.plain w true) :=
    ascFrom_of_pairwise _ 0 (hpw.imp (fun h => Nat.le_of_lt h)) (fun o _ => Nat.zero_le o)
  obtain ⟨lines, hdiv, _, hplain, _⟩ := Text.divide_view P _ hP hasc (fun o ho => Nat.le_of_lt (hin o ho).2)
  refine ⟨lines, hdiv, fun l hl => rstripEnd_cells_fits cw hws l w ?_⟩
  apply Wrap.divideLine_pieces_fit cw P.plain w hwc
  rw [← hplain]; exact List.mem_map_of_mem hl

example : ∀ c, pyIsSpace c = true → 1 ≤ exCw c := by
  intro c h
  unfold exCw
  split
  · omega
  · split
    · rename_i hc; subst hc; exact absurd h (by decide)
    · omega

/-- the `rstrip_end` of rich 9.10.0 as found (before fix f5f2be9) compares characters with cells: `"ああ b"` at width 4 leaves the first line as `"ああ "`
(3 characters ≤ 4, but 5 cells), so with overflow "ellipsis" the final crop turns it into `"あ …"` and a character
that fits is lost; the repaired form strips the blank and keeps `"ああ"`. -/
theorem old_wrap_ellipsis_drops_fitting_char :
    (wrap (WVariant.fixed true) exCw (⟨0, List.sum, (· == ·)⟩ : StyleAlg Nat)
        (Text.new Variant.repaired ['あ', 'あ', ' ', 'b'] 0) 4 none (some .ellipsis)).map (fun ls => ls.map (·.plain))
      = .ok [['あ', ' ', '…'], ['b']] ∧
    (wrap (WVariant.fixed false) exCw (⟨0, List.sum, (· == ·)⟩ : StyleAlg Nat)
        (Text.new Variant.repaired ['あ', 'あ', ' ', 'b'] 0) 4 none (some .ellipsis)).map (fun ls => ls.map (·.plain))
      = .ok [['あ', 'あ'], ['b']] := by
  constructor <;> rfl

/-! ## the normal form is sound for rich's real `Style` algebra -/

/-- In every style algebra where `+` is associative, has a two-sided identity and is idempotent (up to an
equivalence that `+` respects), a style list and its normal form (null style erased, adjacent repetitions merged)
combine to equivalent styles.  No commutativity is used: the order of the remaining styles — "later styles win" — is
kept. -/
theorem normal_form_sound [BEq σ] [LawfulBEq σ] {S : Type} (M : StyleLaws S) (A : StyleAlg σ) (interp : σ → S)
    (hnull : M.eqv (interp A.null) M.one) (l : List σ) :
    M.eqv (M.combine interp (normStyle A l)) (M.combine interp l) :=
  M.normStyle_sound A interp hnull l

/-- rich's real styles (C06 model: every constructible `Style`, `Style.__add__`, `Style.__eq__`; empty link stored
as `None`, C06's repair) form such an algebra: `(a+b)+c = a+(b+c)`, `a + NULL_STYLE = a`, `NULL_STYLE + a == a`,
and **`a + a == a`** — also for styles with links (`__eq__` compares `_link`, not the random `_link_id`). -/
theorem real_styles_idempotent (v : StyleVariant) (hv : v.emptyLink = false) (a : Style) (ha : Style.Reachable v a) :
    Style.eq (Style.add v a a) a = true ∧ Style.eq (Style.add v Style.null a) a = true ∧
      Style.add v a Style.null = a :=
  ⟨add_self_eq v hv ha, null_add_eq v hv ha, Style.add_null_right v a⟩

/-- **The headline theorem at rich's real `Style` algebra.**  Interpret every style name of the text as a
constructible `Style` (the name `""` as a style equal to `NULL_STYLE`); then for the whole of `Text.wrap` (as in
`wrap_fold_keeps_nonspace`: every justify mode, tabs, overflow "fold") the non-whitespace characters of the produced
lines are those of the text, in order, and the `Style` each one is rendered with — `Style.combine` of its effective
style list — has the same compared fields (colour, background, attributes, link: what `Style.__eq__` compares) as before
wrapping. -/
theorem wrap_fold_keeps_real_styles [BEq σ] [LawfulBEq σ] (cw : Char → Nat) (hsp : cw ' ' = 1) (h2 : ∀ c, cw c ≤ 2)
    (A : StyleAlg σ) (t : Text σ) (ht : Inv t) (w : Nat) (hwc : ∀ c, cw c ≤ w) (justify : Option Justify)
    (overflow : Option Overflow) (ts : Nat) (hts : 0 < ts) (noWrap : Option Bool)
    (hov : wrapOverflowOf t overflow = Overflow.fold) (hnw : noWrapOf t overflow noWrap = false)
    (v : StyleVariant) (hv : v.emptyLink = false) (interp : σ → RStyle v)
    (hnull : Style.eq (interp A.null).1 Style.null = true) :
    ∃ out, wrap (WVariant.fixed chars) cw A t w justify overflow (some ts) noWrap = .ok out ∧
      (nsv (out.flatMap Text.view)).map (fun p => (p.1, realKey v hv interp p.2)) =
        (nsv t.view).map (fun p => (p.1, realKey v hv interp p.2)) := by
  obtain ⟨out, ho, h3, _⟩ := wrap_fold_keeps_nonspace (chars := chars) cw hsp h2 A t ht w hwc justify overflow ts hts
    noWrap hov hnw
  exact ⟨out, ho, normView_sound A _ (realKey_normStyle v hv A interp hnull) _ _ h3⟩

/-! ## the boundary of the property: which widths, which characters

The theorems above are stated under the hypotheses they really need:
* the `divide_line` facts and everything that *keeps every character* (`divideLine_offsets`, `divideLine_pieces_fit`,
  `break_only_when_too_wide`, `wrapLine_fold_keeps…`, `wrap_fold_keeps_nonspace…`, `fold_lines_fit_before_crop`) need
  **every character to fit a line**: `∀ c, cw c ≤ w`;
* `wrap_lines_fit`, `wrapLine_style_preserved` and `wrapLine_style_preserved_full` need only `1 ≤ w` (through
  `divideLine_weak` of C14: ascending offsets at any width);
* `divide_effStyle` and `wrap_history_pure` need nothing about widths.
The property's stated range — widths ≥ 2, characters of at most 2 cells — is one instance (`statement_range`); width 1
with single-cell characters is another (`width_one_single_cells`).  Below that boundary the statements are false, and
the `narrow_…` theorems show it by evaluation. -/

/-- the range the property is stated for (widths 2..200, characters of 0, 1 or 2 cells) meets the hypothesis -/
theorem statement_range (cw : Char → Nat) (h2 : ∀ c, cw c ≤ 2) (w : Nat) (hw : 2 ≤ w) : ∀ c, cw c ≤ w :=
  fun c => Nat.le_trans (h2 c) hw

/-- **Width 1 with single-cell (and zero-cell) characters is inside the boundary**: the whole of `Text.wrap` with
folding, every justify mode, keeps every non-whitespace character in order with its style (normal form as in
`wrap_fold_keeps_nonspace`), every line fits one cell, and every offset `divide_line` computes is strictly
increasing and strictly inside the paragraph. -/
theorem width_one_single_cells [BEq σ] [LawfulBEq σ] (cw : Char → Nat) (hsp : cw ' ' = 1) (h1 : ∀ c, cw c ≤ 1)
    (hel : cw '…' = 1) (A : StyleAlg σ) (t : Text σ) (ht : Inv t) (justify : Option Justify) (overflow : Option Overflow)
    (ts : Nat) (hts : 0 < ts) (noWrap : Option Bool)
    (hov : wrapOverflowOf t overflow = Overflow.fold) (hnw : noWrapOf t overflow noWrap = false) :
    (∃ out, wrap (WVariant.fixed chars) cw A t 1 justify overflow (some ts) noWrap = .ok out ∧
      normView A (nsv (out.flatMap Text.view)) = normView A (nsv t.view) ∧
      (out.flatMap (·.plain)).filter (fun c => !pyIsSpace c) = t.plain.filter (fun c => !pyIsSpace c) ∧
      ∀ l ∈ out, cellLen cw l.plain ≤ 1) ∧
    ∀ (text : List Char) (fold : Bool), (divideLine cw text 1 fold).Pairwise (· < ·) ∧
      ∀ o ∈ divideLine cw text 1 fold, 0 < o ∧ o < text.length := by
  have h2 : ∀ c, cw c ≤ 2 := fun c => Nat.le_trans (h1 c) (by omega)
  refine ⟨?_, fun text fold => divideLine_offsets cw text 1 fold h1⟩
  obtain ⟨out, ho, h3, h4⟩ := wrap_fold_keeps_nonspace (chars := chars) cw hsp h2 A t ht 1 h1 justify overflow ts hts
    noWrap hov hnw
  exact ⟨out, ho, h3, h4, wrap_lines_fit _ cw hsp h2 hel A t 1 (Nat.le_refl 1) justify overflow (some ts) noWrap out ho
    (by rw [hov]; decide)⟩

/-- outside: a double-width character at width 1.  `divide_line` still cuts around it, but the piece does not fit
(`divideLine_pieces_fit` fails), and the final crop replaces it by a blank: the character is **lost**
(`wrap_fold_keeps_nonspace` fails) — while every line still fits and no style moves (`wrap_lines_fit`,
`wrapLine_style_preserved` hold at every width ≥ 1). -/
theorem narrow_wide_character_lost :
    divideLine exCw ['a', 'あ', 'b'] 1 true = [1, 2] ∧
    pieces (divideLine exCw ['a', 'あ', 'b'] 1 true) ['a', 'あ', 'b'] = [['a'], ['あ'], ['b']] ∧
    cellLen exCw (pyRstrip ['あ']) = 2 ∧
    (wrap WVariant.repaired exCw (⟨0, List.sum, (· == ·)⟩ : StyleAlg Nat) (Text.new Variant.repaired ['a', 'あ', 'b'] 0) 1).map
        (fun ls => ls.map (·.plain)) = .ok [['a'], [' '], ['b']] := by
  refine ⟨by decide, by decide, by decide, by rfl⟩

/-- **Below the boundary, as a theorem rather than a hypothesis**: the only character that can be wider than a line
of width ≥ 1 is a 2-cell character at width 1.  Whatever line starts with such a character (at width 1 with folding
every 2-cell character starts a piece of its own: `narrow_wide_character_lost`, and the width-1 cases of the harness),
the final crop of `Text.wrap` — `truncate(1, overflow)` — turns it into **exactly one blank** ("fold", "crop":
`set_cell_size` pops the wide character too, the excess becomes -1 and a blank is appended) or **exactly the ellipsis**
("ellipsis"), for every width function, every text after the character, every span set: the character is not kept, not
split, not replaced by anything wider; the line fits (`wrap_lines_fit`) and what remains carries its own style
(`wrapLine_style_preserved`, both at every width ≥ 1). -/
theorem narrow_wide_first_cropped (cw : Char → Nat) (t : Text σ) (c : Char) (rest : List Char) (hp : t.plain = c :: rest)
    (hc : cw c = 2) (ov : Overflow) (hov : ov ≠ Overflow.ignore) :
    (t.truncate cw 1 (some ov)).plain = if ov = Overflow.ellipsis then ['…'] else [' '] :=
  truncate_wide_first cw t c rest hp hc ov hov

example : exCw 'あ' = 2 ∧ (Text.new Variant.repaired ['あ', 'a', 'b'] (0 : Nat) [⟨0, 2, 1⟩]).plain = 'あ' :: ['a', 'b'] :=
  ⟨by decide, rfl⟩

/-- outside: when the paragraph *starts* with a character wider than the width, `chop_cells` yields an empty first
chunk and the first offset is 0 — not inside `(0, len)` (`divideLine_offsets` fails; the weak form of C14 holds) -/
theorem narrow_offset_zero : divideLine exCw ['あ', 'a'] 1 true = [0, 1] := by decide

/-- outside: width 0.  With overflow "ellipsis" the line is the ellipsis alone, one cell wide: `wrap_lines_fit`
fails below width 1. -/
theorem narrow_width_zero_ellipsis :
    (wrap WVariant.repaired exCw (⟨0, List.sum, (· == ·)⟩ : StyleAlg Nat) (Text.new Variant.repaired ['a', 'b'] 0) 0
        none (some .ellipsis)).map (fun ls => ls.map (·.plain)) = .ok [['…']] := by rfl

/-! ## `wrap` does not touch its receiver -/

/-- **Wrapping is a pure function of the text.**  However often and with whatever arguments `wrap` is called on one
`Text` object, the object is afterwards what it was, and every call answers exactly what the same call on a fresh copy
of the original text answers — so all the theorems above apply to every call of a history, not only to the first.
(In the model this is by construction — `wrap` has no access to mutable state; that the real code refines the pure
model, i.e. that `copy()` / `divide()` share no span list with the receiver and the returned lines share nothing with
each other, is what the harness checks by re-observing the receiver and all earlier results after every call and after
editing returned lines.) -/
theorem wrap_history_pure [BEq σ] (wv : WVariant) (cw : Char → Nat) (A : StyleAlg σ) (t : Text σ) (calls : List WrapArgs) :
    (wrapHistory wv cw A t calls).1 = t ∧
    (wrapHistory wv cw A t calls).2 =
      calls.map (fun c => wrap wv cw A t c.width c.justify c.overflow c.tabSize c.noWrap) := by
  induction calls with
  | nil => exact ⟨rfl, rfl⟩
  | cons c cs ih => exact ⟨ih.1, by simp only [wrapHistory, wrapCall, List.map_cons, ih.2]⟩

/-! ## the hypotheses are satisfiable; the theorems at rich's own width table -/

/-- rich's width function (table generated from `rich/_cell_widths.py` on this run) meets every hypothesis used above -/
theorem rich_widths_admissible : C13.cw ' ' = 1 ∧ (∀ c, C13.cw c ≤ 2) ∧ C13.cw '…' = 1 :=
  ⟨C13.charWidth_space, C13.charWidth_le_two, by decide +kernel⟩

/-- a consistent styled text with overlapping, duplicated and empty spans, a double-width and a zero-width character -/
def exText : Text Nat :=
  Text.new Variant.repaired ['a', 'あ', ' ', 'b', '̀', 'c', 'd', ' ', ' ', 'e'] 0
    [⟨0, 10, 1⟩, ⟨3, 7, 2⟩, ⟨3, 7, 2⟩, ⟨4, 4, 3⟩, ⟨1, 6, 1⟩]

example : Inv exText := inv_new _ _ _ _ _ _ _ _ (by
  intro sp hsp
  simp only [List.mem_cons, List.mem_nil_iff, or_false] at hsp
  rcases hsp with rfl | rfl | rfl | rfl | rfl <;> decide)

example : exCw ' ' = 1 ∧ (∀ c, exCw c ≤ 2) ∧ exCw '…' = 1 :=
  ⟨by decide, fun c => by unfold exCw; split <;> (try split) <;> omega, by decide⟩

/-- at width 2 the word `b̀cd` (4 characters, 3 cells) is folded; offsets and lines as rich computes them -/
example : divideLine exCw exText.plain 2 true = [1, 2, 5, 7, 9] := by decide

example :
    (wrap WVariant.repaired exCw (⟨0, List.sum, (· == ·)⟩ : StyleAlg Nat) exText 2).map (fun ls => ls.map (·.plain))
      = .ok [['a'], ['あ'], [' ', 'b', '̀'], ['c', 'd'], [' ', ' '], ['e']] := by rfl

/-- centred: the styles stay on their characters, the padding carries the bare base style -/
example :
    (wrap WVariant.repaired exCw (⟨0, List.sum, (· == ·)⟩ : StyleAlg Nat) exText 2 (some .center)).map
        (fun ls => ls.map Text.view)
      = .ok [[('a', [0, 1]), (' ', [0])], [('あ', [0, 1, 1])],
          [(' ', [0, 1, 1]), ('b', [0, 1, 2, 2, 1]), ('̀', [0, 1, 2, 2, 1])],
          [('c', [0, 1, 2, 2, 1]), ('d', [0, 1, 2, 2])], [(' ', [0]), (' ', [0])], [('e', [0, 1]), (' ', [0])]] := by rfl

end RichModel.C02
