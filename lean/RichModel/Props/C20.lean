import RichModel.Lemmas.Theme
import RichModel.Lemmas.ThemeHist
import RichModel.Lemmas.ThemeConfig
import RichModel.Lemmas.ThemeConfigTotal
import RichModel.Lemmas.ThemeThreads
import RichModel.Lemmas.ThemeCtx
import RichModel.Gen.DefaultStyleNames
/-!
# C20 — named styles resolve through a well-behaved theme stack

Property theorems only (definitions of the specification and helper lemmas live in `Lemmas/Theme*`).

* `σ` is the (opaque) type of styles, `parse : Name → Except PErr σ` is `Style.parse`.
* `stackOf base fs` is the concrete `ThemeStack` after pushing the frames `fs` (newest first) over
  the base theme `base`; `specLookup base fs` is the statement of the property (newest frame that
  defines the name, falling through inheriting frames, stopping at a non-inheriting one).
* `runOps f h st` runs a history `h` of `push_theme` / `pop_theme` / `raise` / `with use_theme(..): body`
  statements; `f = true` is `ThemeContext.__enter__` of rich 9.10.0 as found (it ignores `inherit`), `f = false` the
  repaired code (fix 2ea71d3, what /repo contains now).
* `runF` / `runMT shared f` run flat atomic steps (each in its own `try`) on one stack / on the stacks
  of several threads; `shared = true` is what the code does (`threading.local` hands every thread the
  same `ThemeStack` object), `false` a hypothetical variant with one stack per thread.
  **Threads are outside property C20**: its statement quantifies over sequences of pushes, pops and
  `use_theme` blocks on one thread, and the sharing is load-bearing (a `Live` / `Progress` refresh
  thread must see the themes the main thread pushed).  The shared stack is therefore *not* a defect
  and not a finding; `threads_share_one_stack` and `thread_isolation` below only document the two
  variants, and the harness compares real two- and three-thread runs with the `shared = true` model in
  the correspondence (so a change of that behaviour is noticed as model ≠ code) without evaluating
  any property on them.
* `Console(theme=…)`: `ThemeStack(themes.DEFAULT if theme is None else theme)`.  A variant testing
  `if not theme` instead of `is None` is *equivalent*, not a gap: `Theme` defines neither `__bool__`
  nor `__len__`, so every `Theme` instance is truthy and both tests pick `themes.DEFAULT` exactly for
  `None`; there is no input that separates them (the harness checks `Console(theme=Theme({}, inherit=False))`
  — an empty theme — keeps that theme as base).
* `cfgItems lower interp` is the modelled `configparser`; `lower` / `interp` = `true` is the parser
  `Theme.from_file` built in rich 9.10.0 as found (`optionxform = str.lower`, `BasicInterpolation`); /repo now builds
  `lower = true`, `interp = false`: interpolation was switched off by fix 1124f7d, the lower-casing is the known finding
  `config-name-case` (not repaired).
-/
namespace RichModel.C20
open RichModel RichModel.Theme RichModel.Cfg

variable {σ : Type}

/-! ## lookups -/

/-- **resolve_spec**: on the stack that represents the frames `fs` over `base`, a name resolves to
the entry of the newest frame that defines it — falling back to older frames exactly through
inheriting pushes — and to `Style.parse(name)` (with its error) when no visible theme defines it. -/
theorem resolve_spec (parse : Parse σ) (base : Dict σ) (fs : List (Frame σ))
    (hwf : ∀ f ∈ fs, WFD f.styles) (n : Name) :
    resolve parse (stackOf base fs) n =
      match specLookup base fs n with
      | some s => .ok s
      | none => parse n := by
  simp only [resolve, Stack.get, stackOf]
  rw [dget_topOf base fs hwf n]
  cases specLookup base fs n <;> rfl

/-- `Console.get_style` in terms of the specification's lookup: a `Style` instance is returned
as it is; a `StyleSyntaxError` from parsing becomes `MissingStyle`, or the (theme-resolved) default
when one is given; any other exception propagates. -/
theorem get_style_spec (parse : Parse σ) (base : Dict σ) (fs : List (Frame σ))
    (hwf : ∀ f ∈ fs, WFD f.styles) (name : NS σ) (default : Option (NS σ)) :
    getStyle parse (stackOf base fs) name default =
      let look : Name → Except PErr σ := fun n =>
        match specLookup base fs n with
        | some s => .ok s
        | none => parse n
      let one : NS σ → Except GErr σ := fun x =>
        match x with
        | .style s => .ok s
        | .str n =>
          match look n with
          | .ok s => .ok s
          | .error .syntaxError => .error .missingStyle
          | .error .other => .error .other
      match name with
      | .style s => .ok s
      | .str n =>
        match look n with
        | .ok s => .ok s
        | .error .other => .error .other
        | .error .syntaxError =>
          match default with
          | none => .error .missingStyle
          | some d => one d := by
  cases name with
  | style s => rfl
  | str n =>
    simp only [getStyle, resolve_spec parse base fs hwf]
    cases hl : (match specLookup base fs n with | some s => Except.ok s | none => parse n) with
    | ok s => rfl
    | error e =>
      cases e with
      | other => rfl
      | syntaxError =>
        cases default with
        | none => rfl
        | some d =>
          cases d with
          | style s => rfl
          | str m =>
            simp only [getStyle1, resolve_spec parse base fs hwf]
            cases (match specLookup base fs m with | some s => Except.ok s | none => parse m) with
            | ok s => rfl
            | error e => cases e <;> rfl

/-- **history_refines**: for *every* history (any nesting, any number of unbalanced pops, any
exceptions) the repaired code, started on the stack representing `fs`, ends on the stack
representing the frames the specification computes, with the same outcome (normal /
`ThemeStackError` / the user's exception). -/
theorem history_refines (base : Dict σ) (h : List (Op σ)) (fs : List (Frame σ)) :
    runOps false h (stackOf base fs) = (stackOf base (specOps h fs).1, (specOps h fs).2) :=
  runOps_refines base h fs

/-- Hence after any history on a fresh console every name resolves as the specification says for
the frames that are still open. -/
theorem lookup_after_history (parse : Parse σ) (base : Theme σ) (h : List (Op σ)) (hwf : opsWF h) (n : Name) :
    resolve parse (runOps false h (Stack.init base)).1 n =
      match specLookup base.styles (specOps h []).1 n with
      | some s => .ok s
      | none => parse n := by
  rw [init_eq_stackOf, history_refines]
  exact resolve_spec parse base.styles _ (specOps_wf h [] hwf (by intro f hf; simp at hf)) n

/-- **lookups read the top entry only**: two stacks whose top entries coincide answer every
`get_style(name, default=…)` alike, whatever lies below (so a variant that consults the base, or
any middle entry, after the top one is observably different as soon as the top entry lacks a name
that a lower entry has — the harness evaluates exactly this on every snapshot). -/
theorem lookup_reads_top_entry_only (parse : Parse σ) (st st' : Stack σ) (hwf : st.WF) (hwf' : st'.WF)
    (h : st.entries.getLast? = st'.entries.getLast?) (name : NS σ) (default : Option (NS σ)) :
    getStyle parse st name default = getStyle parse st' name default := by
  have hb : st.bound = st'.bound := by
    have h1 : st.entries.getLast? = some st.bound := hwf
    have h2 : st'.entries.getLast? = some st'.bound := hwf'
    rw [h1, h2] at h
    exact Option.some.inj h
  exact getStyle_bound_only parse st st' hb name default

/-- Which results of `get_style` are fresh objects: forgetting identity gives `get_style`; a looked-up
or parsed style is copied (new link id) exactly when it has a link; a `Style` instance passed as
`name` (or as the `default` that ends up being used) is returned as it is. -/
theorem get_style_object_spec (parse : Parse σ) (linked : σ → Bool) (st : Stack σ) (name : NS σ)
    (default : Option (NS σ)) :
    (getStyleObj parse linked st name default).map Got.val = getStyle parse st name default ∧
    (∀ n s, resolve parse st n = .ok s →
      getStyleObj parse linked st (.str n) default = .ok (if linked s then .fresh s else .same s)) ∧
    (∀ s, getStyleObj parse linked st (.style s) default = .ok (.same s)) := by
  refine ⟨getStyleObj_val parse linked st name default, ?_, fun s => rfl⟩
  intro n s hr
  simp [getStyleObj, hr, copyIfLink]

/-! ## push / pop discipline -/

/-- **pop_push_id**: `pop_theme` after `push_theme` gives back the very same stack — entries and
the bound lookup — for inheriting and non-inheriting pushes alike. -/
theorem pop_push_id (st : Stack σ) (hwf : st.WF) (t : Theme σ) (inherit : Bool) :
    ∃ st', pushTheme st t inherit = .ok st' ∧ popTheme st' = .ok st := by
  obtain ⟨st', h⟩ := pushTheme_ok st hwf t inherit
  exact ⟨st', h, popTheme_pushTheme st st' t inherit hwf h⟩

/-- **balanced_restores**: a balanced history — pushes closed by their pops, `use_theme` blocks
with balanced bodies, bodies possibly aborted by an exception at any point — leaves the whole stack
as it found it, and ends normally or with the user's exception (never a `ThemeStackError`).  Holds
for the code as found and for the repaired code. -/
theorem balanced_restores (f : Bool) (h : List (Op σ)) (c : Bool) (hb : Bal h c)
    (st : Stack σ) (hwf : st.WF) :
    runOps f h st = (st, if c then .normal else .raised .userError) :=
  bal_restores f hb st hwf

/-- …so every lookup (with or without default) is what it was before the history. -/
theorem balanced_restores_lookups (f : Bool) (h : List (Op σ)) (c : Bool) (hb : Bal h c)
    (st : Stack σ) (hwf : st.WF) (parse : Parse σ) (name : NS σ) (default : Option (NS σ)) :
    getStyle parse (runOps f h st).1 name default = getStyle parse st name default := by
  rw [balanced_restores f h c hb st hwf]

/-- A `use_theme` block restores the stack whatever its balanced body does, including when the body
raises: the exception leaves the block and the theme is gone. -/
theorem use_theme_restores_on_exception (f : Bool) (t : Theme σ) (i : Bool) (body : List (Op σ))
    (hb : Bal body false) (st : Stack σ) (hwf : st.WF) :
    runOp f (.use t i body) st = (st, .raised .userError) := by
  have h := balanced_restores f [.use t i body] false (Bal.useAbort [] hb) st hwf
  rw [runOps_cons] at h
  cases hr : runOp f (.use t i body) st with
  | mk s o =>
    rw [hr] at h
    cases o with
    | normal => simp [runOps] at h
    | raised e => simpa using h

/-- **base_not_poppable**: popping a stack that holds only the base theme raises
`ThemeStackError` (and changes nothing: the run functions keep the state on error). -/
theorem base_not_poppable (base bound : Dict σ) :
    popTheme (⟨[base], bound⟩ : Stack σ) = .error .themeStackError := by
  simp [popTheme]

/-- …and no history whatsoever — balanced or not, either variant — removes or replaces the base
theme or unbinds the lookup from the top entry. -/
theorem base_survives (f : Bool) (h : List (Op σ)) (base : Theme σ) :
    (runOps f h (Stack.init base)).1.entries.head? = some base.styles ∧
    (runOps f h (Stack.init base)).1.WF := by
  have := runOps_base f h (Stack.init base) (init_wf base)
  exact ⟨by simpa [Stack.init] using this.2, this.1⟩

/-- The run the driver traces (state after every executed statement) is the run the theorems are about. -/
theorem trace_is_run (f : Bool) (h : List (Op σ)) (st : Stack σ) :
    ((traceOps f h st).1, (traceOps f h st).2.1) = runOps f h st :=
  traceOps_run f h st

/-! ## `ThemeContext` objects with identity (re-entered, re-used) -/

/-- **ctx_objects_are_stateless**: a history in which the results of `console.use_theme(…)` are kept as
objects and entered by identity — the same object again while it is active (`with c: with c: …`),
again after it was left, left by an exception from the inner of two uses — is, statement for statement,
the history in which every `with c:` is a `with console.use_theme(c.theme, inherit=c.inherit):` on a fresh
object: `__enter__` reads only the immutable fields, `__exit__` pops whatever object it is called on.  Both
variants of `__enter__`.  So every theorem about `runOps` transfers (the next three). -/
theorem ctx_objects_are_stateless (f : Bool) (env : CtxEnv σ) (h : List (COp σ)) (st : Stack σ) :
    runCOps f env h st = runOps f (eraseOps env h) st :=
  runCOps_erase f env h st

/-- …hence every such history (any re-entry pattern, unbalanced pops, exceptions) ends on the stack the frame
specification computes: a context object entered `k` times contributes `k` frames. -/
theorem ctx_history_refines (base : Dict σ) (env : CtxEnv σ) (h : List (COp σ)) (fs : List (Frame σ)) :
    runCOps false env h (stackOf base fs) =
      (stackOf base (specOps (eraseOps env h) fs).1, (specOps (eraseOps env h) fs).2) := by
  rw [ctx_objects_are_stateless, history_refines]

/-- …and every balanced one restores the whole stack — entries and the bound lookup — however often and however
deeply its context objects are re-entered. -/
theorem ctx_balanced_restores (f : Bool) (env : CtxEnv σ) (h : List (COp σ)) (c : Bool)
    (hb : Bal (eraseOps env h) c) (st : Stack σ) (hwf : st.WF) :
    runCOps f env h st = (st, if c then .normal else .raised .userError) := by
  rw [ctx_objects_are_stateless]
  exact balanced_restores f _ c hb st hwf

/-- The motivating shape: one object `c`, entered, entered again inside, around any balanced body (which may end by
an exception: then both `__exit__`s run on the way out), and — when the body completes — used a third time
afterwards: every theme pushed is popped again, every lookup is what it was. -/
theorem ctx_nested_reentry_restores (f : Bool) (env : CtxEnv σ) (c : Nat) (body : List (COp σ)) (b : Bool)
    (hb : Bal (eraseOps env body) b) (st : Stack σ) (hwf : st.WF) (parse : Parse σ) (name : NS σ)
    (default : Option (NS σ)) :
    runCOps f env [.withC c [.withC c body], .withC c []] st = (st, if b then .normal else .raised .userError) ∧
    getStyle parse (runCOps f env [.withC c [.withC c body], .withC c []] st).1 name default =
      getStyle parse st name default := by
  have h : runCOps f env [.withC c [.withC c body], .withC c []] st = (st, if b then .normal else .raised .userError) := by
    apply ctx_balanced_restores f env _ b _ st hwf
    cases b with
    | true =>
      simp only [eraseOps, eraseOp]
      exact Bal.useOk (Bal.useOk hb Bal.nil) (Bal.useOk Bal.nil Bal.nil)
    | false =>
      simp only [eraseOps, eraseOp]
      exact Bal.useAbort _ (Bal.useAbort _ hb)
  exact ⟨h, by rw [h]⟩

/-- The same for `__enter__` / `__exit__` called by hand: `n` enters of any context objects (the same one as often
as one likes) followed by `n` exits — on whichever objects, in whatever order: `__exit__` only pops — leave the stack
exactly as it was. -/
theorem ctx_enters_exits_restore (f : Bool) (env : CtxEnv σ) (cs ds : List Nat) (hl : ds.length = cs.length)
    (st : Stack σ) (hwf : st.WF) :
    runF f ((cs.map CStep.enterC ++ ds.map CStep.exitC).map (CStep.toF env)) st = st :=
  runF_enters_exits f env cs ds st hwf hl

/-- What is *not* the code (documentation of the class of change the re-entry histories of the harness are there
to catch): a `ThemeContext` that remembers "I am entered" and pops only then.  Entered twice and left twice, the
code (first line) is back on the base theme; the flag variant (`runG`) skips the second pop, so the theme stays pushed
for good — `a` keeps resolving to the pushed style `2`. -/
theorem ctx_entered_flag_would_break_reentry :
    let env : CtxEnv Nat := fun _ => ⟨⟨[(['a'], 2)]⟩, true⟩
    let st0 : Stack Nat := Stack.init ⟨[(['a'], 1)]⟩
    let w : List CStep := [.enterC 0, .enterC 0, .exitC 0, .exitC 0]
    runF false (w.map (CStep.toF env)) st0 = st0 ∧
    (runG env w (st0, [])).1.get ['a'] = some 2 ∧
    (runG env w (st0, [])).1.entries.length = 2 := by
  decide

/-! ## outside mutation of the base theme's dict (documented non-finding) -/

/-- `ThemeStack.__init__` keeps `theme.styles` itself as `_entries[0]`; pushed entries are fresh
dicts.  So: any number of pushes, then `base_theme.styles[k] = v` from outside, then as many pops
leave exactly the original stack with that assignment applied — the lookups the console would give
had the pushes never happened.  Popping "restores" in this sense also across outside mutation. -/
theorem restore_after_base_mutation (f : Bool) (k : Name) (v : σ) (ps : List (Theme σ × Bool))
    (st : Stack σ) (hwf : st.WF) :
    runF f (ps.map (fun p => FStep.push p.1 p.2) ++ FStep.setBase k v :: List.replicate ps.length FStep.pop) st
      = mutBase k v st :=
  runF_pushes_setBase_pops f k v ps st hwf

/-- What is *not* promised (and is how the code behaves, checked on every generated schedule): while an
inheriting push is open it holds a snapshot of the entries below, so the outside assignment to the
base (`a := 9`) is invisible until the pop, after which it shows. -/
theorem inherit_snapshot_is_stale :
    (runF (σ := Nat) false [.push ⟨[(['c'], 2)]⟩ true, .setBase ['a'] 9] (Stack.init ⟨[(['a'], 1)]⟩)).get ['a'] = some 1 ∧
    (runF (σ := Nat) false [.push ⟨[(['c'], 2)]⟩ true, .setBase ['a'] 9, .pop] (Stack.init ⟨[(['a'], 1)]⟩)).get ['a'] = some 9 := by
  decide

/-! ## threads -/

/-- **thread_isolation** — documentation, about the *hypothetical* variant with one `ThemeStack` per
thread (`shared = false`; not what the code does, and not required by C20): for every interleaving
of the steps of any number of threads, a thread's stack is what its own steps (plus everybody's
assignments to the shared base dict) produce when run alone. -/
theorem thread_isolation (f : Bool) (tid : Nat) (sch : List (Nat × FStep σ)) (S : Nat → Stack σ) :
    runMT false f sch S tid = runF f ((sch.filter (relevant tid)).map (·.2)) (S tid) :=
  runMT_isolated f tid sch S

/-- What the code does (documentation, not a defect): `threading.local` hands every thread the same
`ThemeStack` object.  Thread 1, which never pushed, sees thread 0's theme (`a ↦ 2`) — this is what
lets a refresh thread render with the themes the main thread pushed — and a `pop_theme` in thread 1
removes it again; in the per-thread variant neither happens. -/
theorem threads_share_one_stack :
    let S0 : Nat → Stack Nat := fun _ => Stack.init ⟨[(['a'], 1)]⟩
    (runMT true false [(0, .push ⟨[(['a'], 2)]⟩ false)] S0 (slotOf true 1)).get ['a'] = some 2 ∧
    (runMT false false [(0, .push ⟨[(['a'], 2)]⟩ false)] S0 (slotOf false 1)).get ['a'] = some 1 ∧
    (runMT true false [(0, .push ⟨[(['a'], 2)]⟩ false), (1, .pop)] S0 (slotOf true 0)).get ['a'] = some 1 ∧
    (runMT false false [(0, .push ⟨[(['a'], 2)]⟩ false), (1, .pop)] S0 (slotOf false 0)).get ['a'] = some 2 := by
  decide

/-! ## `Theme(styles, inherit)` -/

/-- A theme built from already-evaluated styles (unique names) answers every lookup with the given
style, else with the default style exactly when `inherit` was requested. -/
theorem theme_new_lookup (defaults : Dict σ) (parse : Parse σ) (styles : Dict σ) (hwf : WFD styles)
    (inherit : Bool) (n : Name) :
    ∃ t, Theme.new defaults parse (some (styles.map (fun p => (p.1, SV.style p.2)))) inherit = .ok t ∧
      dget t.styles n = (dget styles n).or (if inherit then dget defaults n else none) := by
  refine ⟨_, by simp only [Theme.new, evalItems_style]; rfl, ?_⟩
  have h1 : WFD (dupdate [] styles) := wfd_dupdate _ _ wfd_nil
  simp only
  rw [dget_dupdate _ _ h1, dget_dupdate_nil _ hwf]
  cases inherit <;> simp

/-- A definition that does not parse makes the constructor raise that error. -/
theorem theme_new_error (defaults : Dict σ) (parse : Parse σ) (n : Name) (d : Name) (e : PErr)
    (h : parse d = .error e) (inherit : Bool) :
    Theme.new defaults parse (some [(n, SV.str d)]) inherit = .error e := by
  simp [Theme.new, evalItems, h]

/-! ## config round trip -/

/-- **configparser_contract**: the modelled `configparser` (either variant of each flag) returns
exactly the entries `Theme.config` wrote, for every list of entries with unique safe names and safe
values — no bound on their number or length. -/
theorem configparser_contract (lower interp : Bool) :
    Contract (cfgItems lower interp) (safeName lower) (safeValue interp) :=
  cfgItems_contract lower interp

/-- **config_roundtrip** (over the abstract contract of `configparser`): for any reader that meets
`Contract` on names `okName` and values `okValue`, a theme with such names whose styles' string
forms are such values and parse back to the same style (C06) reads back from its own config text,
and every lookup in the result is the original lookup — falling back to the defaults exactly when
`inherit` was requested. -/
theorem config_roundtrip (read : List Char → Res (List (Name × List Char))) (okName : Name → Bool)
    (okValue : List Char → Bool) (hc : Contract read okName okValue)
    (defaults : Dict σ) (parse : Parse σ) (str : σ → List Char) (t : Theme σ) (inherit : Bool)
    (hwf : WFD t.styles)
    (hnames : ∀ p ∈ t.styles, okName p.1 = true)
    (hvalues : ∀ p ∈ t.styles, okValue (str p.2) = true)
    (hparse : ∀ p ∈ t.styles, parse (str p.2) = .ok p.2) :
    ∃ t', fromFileWith read defaults parse (Theme.config str t) inherit = .ok t' ∧
      ∀ n, dget t'.styles n = (dget t.styles n).or (dget (if inherit then defaults else []) n) :=
  ⟨_, fromFileWith_config read okName okValue hc defaults parse str t inherit hwf hnames hvalues hparse,
    fun n => dget_roundtrip _ t.styles hwf n⟩

/-- The round trip for `Theme.from_file` with the modelled parser, both variants of both flags:
without `inherit` the theme read back has *equal styles* (same lookup for every name). -/
theorem config_roundtrip_model (lower interp : Bool) (defaults : Dict σ) (parse : Parse σ)
    (str : σ → List Char) (t : Theme σ) (hwf : WFD t.styles)
    (hnames : ∀ p ∈ t.styles, safeName lower p.1 = true)
    (hvalues : ∀ p ∈ t.styles, safeValue interp (str p.2) = true)
    (hparse : ∀ p ∈ t.styles, parse (str p.2) = .ok p.2) :
    ∃ t', fromFile defaults parse lower interp (Theme.config str t) false = .ok t' ∧
      ∀ n, dget t'.styles n = dget t.styles n := by
  obtain ⟨t', h1, h2⟩ := config_roundtrip (cfgItems lower interp) _ _ (configparser_contract lower interp)
    defaults parse str t false hwf hnames hvalues hparse
  refine ⟨t', h1, fun n => ?_⟩
  rw [h2 n]; cases dget t.styles n <;> simp

/-- With `inherit=True` (the default of `from_file`) a theme that itself contains the defaults
(built with `inherit=True`) also reads back with equal styles. -/
theorem config_roundtrip_inherit (lower interp : Bool) (defaults : Dict σ) (parse : Parse σ)
    (str : σ → List Char) (t : Theme σ) (hwf : WFD t.styles)
    (hnames : ∀ p ∈ t.styles, safeName lower p.1 = true)
    (hvalues : ∀ p ∈ t.styles, safeValue interp (str p.2) = true)
    (hparse : ∀ p ∈ t.styles, parse (str p.2) = .ok p.2)
    (hdef : ∀ n, dget t.styles n = none → dget defaults n = none) :
    ∃ t', fromFile defaults parse lower interp (Theme.config str t) true = .ok t' ∧
      ∀ n, dget t'.styles n = dget t.styles n := by
  obtain ⟨t', h1, h2⟩ := config_roundtrip (cfgItems lower interp) _ _ (configparser_contract lower interp)
    defaults parse str t true hwf hnames hvalues hparse
  refine ⟨t', h1, fun n => ?_⟩
  rw [h2 n]
  cases h : dget t.styles n with
  | some s => simp
  | none => simpa using hdef n h

/-- The round trip for the parser that keeps the case of names (`lower = false`, the variant that would repair the
known finding `config-name-case`) with interpolation off as in /repo: names of any case — `Foo`, `A` next to `a` —
read back unchanged; the only conditions are the ones a config file imposes on any name. -/
theorem config_roundtrip_keeps_case (defaults : Dict σ) (parse : Parse σ)
    (str : σ → List Char) (t : Theme σ) (hwf : WFD t.styles)
    (hnames : ∀ p ∈ t.styles, safeName false p.1 = true)
    (hvalues : ∀ p ∈ t.styles, safeValue false (str p.2) = true)
    (hparse : ∀ p ∈ t.styles, parse (str p.2) = .ok p.2) :
    ∃ t', fromFile defaults parse false false (Theme.config str t) false = .ok t' ∧
      ∀ n, dget t'.styles n = dget t.styles n :=
  config_roundtrip_model false false defaults parse str t hwf hnames hvalues hparse

/-- **from_file_total**: with interpolation off (the repaired parser), for every text — any text
when names are kept, any text without a capital sigma U+03A3 while names are lower-cased (its
lower-casing is position dependent in CPython and outside the model) — `Theme.from_file` ends in a
theme, in one of the `configparser` exceptions (`MissingSectionHeaderError`, `DuplicateSectionError`,
`DuplicateOptionError`, `ParsingError`, `NoSectionError`), or in the exception `Style.parse` raised for
one of the values (`StyleSyntaxError`); the model never answers `unmodelled` there. -/
theorem from_file_total (defaults : Dict σ) (parse : Parse σ) (lower : Bool) (text : List Char)
    (inherit : Bool) (h : lower = true → ∀ c ∈ text, c.toNat ≠ 0x3A3) :
    (∃ t, fromFile defaults parse lower false text inherit = .ok t) ∨
    (∃ e, fromFile defaults parse lower false text inherit = .err (.cfg e)) ∨
    (∃ e d, parse d = .error e ∧ fromFile defaults parse lower false text inherit = .err (.parse e)) :=
  fromFile_total defaults parse lower text inherit h

/-- `Theme.read` is `Theme.from_file` on the file's text whenever that text has no carriage return
(text mode translates `\r\n` and `\r` to `\n`; nothing else happens to the text — no BOM handling,
no `encoding` argument in this version). -/
theorem read_is_from_file (defaults : Dict σ) (parse : Parse σ) (lower interp : Bool) (text : List Char)
    (inherit : Bool) (h : '\r' ∉ text) :
    readPath defaults parse lower interp text inherit = fromFile defaults parse lower interp text inherit := by
  unfold readPath
  rw [universalNL_id text h]

/-- …and with carriage returns it is not: a CRLF file reads fine (the `\r` is gone), while a name
containing `\r` — which `from_file` on a `StringIO` round-trips — is cut in two by `Theme.read`. A
leading BOM makes either of them raise `MissingSectionHeaderError`. -/
theorem read_carriage_return_and_bom :
    cfgItems true false (universalNL false "[styles]\r\na = red\r\n".toList) = .ok [(['a'], ['r','e','d'])] ∧
    cfgItems true false "[styles]\na\rb = red".toList = .ok [(['a','\r','b'], ['r','e','d'])] ∧
    cfgItems true false (universalNL false "[styles]\na\rb = red".toList) = .err .parsing ∧
    cfgItems true false "\uFEFF[styles]\na = red".toList = .err .missingSectionHeader := by
  decide

/-- `[DEFAULT]` options are inherited by `[styles]`, continuation lines and empty lines inside a value
are joined with newlines, comments are skipped (concrete instances of the widened parser model; the
general behaviour is compared with the real parser on every generated text). -/
theorem configparser_fragment_examples :
    cfgItems true false "[DEFAULT]\nq = 1\na = 0\n[styles]\na = b".toList = .ok [(['q'], ['1']), (['a'], ['b'])] ∧
    cfgItems true false "[styles]\na = b\n c\n\n d\nx = y".toList = .ok [(['a'], "b\nc\n\nd".toList), (['x'], ['y'])] ∧
    cfgItems true false "[styles]\na = b\n# c\n  d".toList = .ok [(['a'], "b\nd".toList)] := by
  decide

/-- …duplicate sections / options raise the documented exceptions; `%(name)s` is literal text once
interpolation is off. -/
theorem configparser_fragment_errors :
    cfgItems true false "[a]\n[a]".toList = .err .duplicateSection ∧
    cfgItems true false "[other]\na = 1\nA = 2\n[styles]".toList = .err .duplicateOption ∧
    cfgItems true false "[styles]\nb = %(a)s".toList = .ok [(['b'], "%(a)s".toList)] := by
  decide

/-- Side condition on the *generated* table: every key of `DEFAULT_STYLES` is a safe config name
for the lower-casing parser `Theme.from_file` builds (known finding `config-name-case`; so `Theme().config` is inside the round trip's domain). -/
theorem default_names_safe : Gen.defaultStyleNames.all (safeName true) = true := by decide +kernel

/-! ## Witnesses: the defects of the code as found (variant flags `true`) -/

/-- F14: with `ThemeContext.__enter__` ignoring `inherit`, inside `use_theme(t, inherit=False)` a
name that only the base defines still resolves to the base's style (1); the specification (and the
repaired code) finds no theme entry for it. -/
theorem old_use_theme_ignores_inherit :
    (match ctxEnter (σ := Nat) true (Stack.init ⟨[(['b'], 1)]⟩) ⟨[(['a'], 2)]⟩ false with
      | .ok st => st.get ['b'] | .error _ => none) = some 1 ∧
    specLookup (σ := Nat) [(['b'], 1)] [⟨[(['a'], 2)], false⟩] ['b'] = none ∧
    (match ctxEnter (σ := Nat) false (Stack.init ⟨[(['b'], 1)]⟩) ⟨[(['a'], 2)]⟩ false with
      | .ok st => st.get ['b'] | .error _ => some 0) = none := by decide

/-- What the code as found does instead, for every history: exactly what the repaired code does on
the history in which every `use_theme(..., inherit=…)` is read as `inherit=True` (this is also the
harness's narrow classifier for the finding). -/
theorem old_history_is_forced_inherit (h : List (Op σ)) (st : Stack σ) :
    runOps true h st = runOps false (forceOps h) st :=
  runOps_old h st

/-- F15: with `BasicInterpolation`, the config of a theme whose style is `link 50%` does not read back
(`InterpolationSyntaxError`); with `interpolation=None` it does. -/
theorem old_config_percent_breaks :
    cfgItems true true (render [(['a'], ['l','i','n','k',' ','5','0','%'])]) = .err .interpolationSyntax ∧
    cfgItems true false (render [(['a'], ['l','i','n','k',' ','5','0','%'])]) = .ok [(['a'], ['l','i','n','k',' ','5','0','%'])] := by
  decide

/-- …and `%%` silently becomes `%`: the theme read back has a different link. -/
theorem old_config_percent_changes_value :
    cfgItems true true (render [(['a'], ['l','i','n','k',' ','%','%'])]) = .ok [(['a'], ['l','i','n','k',' ','%'])] := by
  decide

/-- Name case: with `optionxform = str.lower` the name `Foo` reads back as `foo`; with
`optionxform = str` it is kept. -/
theorem old_config_lowercases_names :
    cfgItems true true (render [(['F','o','o'], ['r','e','d'])]) = .ok [(['f','o','o'], ['r','e','d'])] ∧
    cfgItems false true (render [(['F','o','o'], ['r','e','d'])]) = .ok [(['F','o','o'], ['r','e','d'])] := by
  decide

/-- The known finding `config-name-case` with the parser /repo builds **now** (`lower = true`, `interp = false`):
`Theme({'Foo': 'red'}).config` reads back with the name `foo`; a theme defining both `A` and `a` does not read back at
all (`DuplicateOptionError`), through `Theme.from_file` as well; with `lower = false` both read back as written. -/
theorem known_config_name_case :
    cfgItems true false (render [(['F','o','o'], ['r','e','d'])]) = .ok [(['f','o','o'], ['r','e','d'])] ∧
    cfgItems false false (render [(['F','o','o'], ['r','e','d'])]) = .ok [(['F','o','o'], ['r','e','d'])] ∧
    cfgItems true false (render [(['A'], ['r','e','d']), (['a'], ['d','i','m'])]) = .err .duplicateOption ∧
    cfgItems false false (render [(['A'], ['r','e','d']), (['a'], ['d','i','m'])]) =
      .ok [(['A'], ['r','e','d']), (['a'], ['d','i','m'])] ∧
    fromFile (σ := Nat) [] (fun _ => .ok 7) true false
      (Theme.config (fun _ => ['r','e','d']) ⟨[(['a'], 7), (['A'], 7)]⟩) false = .err (.cfg .duplicateOption) ∧
    fromFile (σ := Nat) [] (fun _ => .ok 7) false false
      (Theme.config (fun _ => ['r','e','d']) ⟨[(['a'], 7), (['A'], 7)]⟩) false = .ok ⟨[(['A'], 7), (['a'], 7)]⟩ := by
  decide

/-! ## Non-vacuity: the hypotheses are met by concrete non-trivial values -/

/-- a balanced history with nesting, a non-inheriting block and an abort by exception -/
example : Bal (σ := Nat)
    [.push ⟨[(['a'], 1)]⟩ true, .use ⟨[(['b'], 2)]⟩ false [.push ⟨[]⟩ false, .pop], .pop,
     .use ⟨[(['a'], 3)]⟩ true [.use ⟨[]⟩ false [.raise, .pop]], .pop] false :=
  Bal.pushPop (mid := [.use ⟨[(['b'], 2)]⟩ false [.push ⟨[]⟩ false, .pop]])
    (Bal.useOk (Bal.pushPop (mid := []) Bal.nil Bal.nil) Bal.nil)
    (Bal.useAbort _ (Bal.useAbort _ (Bal.raise _)))

example : (Stack.init (σ := Nat) ⟨[(['a'], 1)]⟩).WF := init_wf _
example : WFD (σ := Nat) [(['a'], 1), (['b'], 2)] := by simp [WFD, keys]
example : opsWF (σ := Nat) [.use ⟨[(['a'], 3)]⟩ true [.push ⟨[(['b'], 1)]⟩ false, .raise]] := by
  simp [opsWF, opWF, WFD, keys]
/-- an inheriting frame over a non-inheriting one: `a` comes from the newest, `c` falls through one
frame, `b` (base only) is hidden by the non-inheriting frame. -/
example : specLookup (σ := Nat) [(['b'], 1)] [⟨[(['a'], 2)], true⟩, ⟨[(['c'], 3)], false⟩] ['a'] = some 2
    ∧ specLookup (σ := Nat) [(['b'], 1)] [⟨[(['a'], 2)], true⟩, ⟨[(['c'], 3)], false⟩] ['c'] = some 3
    ∧ specLookup (σ := Nat) [(['b'], 1)] [⟨[(['a'], 2)], true⟩, ⟨[(['c'], 3)], false⟩] ['b'] = none := by decide
example : safeName true ['r','e','p','r','.','s','t','r'] = true ∧ safeName true ['a',' ','b'] = true
    ∧ safeName true ['F','o','o'] = false ∧ safeName false ['F','o','o'] = true
    ∧ safeName false ['a',':','b'] = false ∧ safeName false [' ','a'] = false := by decide
example : safeName true ['é'] = true ∧ safeName true ['É'] = false ∧ safeName true ['a', 'Σ'] = false := by decide +kernel
example : safeValue true ['b','o','l','d',' ','r','e','d'] = true ∧ safeValue true ['5','0','%'] = false
    ∧ safeValue false ['5','0','%'] = true := by decide
example : Theme.config (σ := Nat) (fun _ => ['r','e','d']) ⟨[(['b'], 1), (['a'], 2)]⟩ =
    "[styles]\na = red\nb = red".toList := by decide

/-- a history that re-enters one context object while it is active, leaves the inner use by an exception, and is
balanced after erasure (object 0 = `use_theme({b: 2}, inherit=False)`) -/
example : Bal (σ := Nat) (eraseOps (fun _ => ⟨⟨[(['b'], 2)]⟩, false⟩)
    [.withC 0 [.withC 0 [.push ⟨[]⟩ true, .pop]], .withC 0 [.withC 0 [.raise]]]) false := by
  simp only [eraseOps, eraseOp]
  exact Bal.useOk (Bal.useOk (Bal.pushPop (mid := []) Bal.nil Bal.nil) Bal.nil) (Bal.useAbort _ (Bal.useAbort _ (Bal.raise _)))
example : safeName false ['F','o','o'] = true ∧ safeName false ['A'] = true ∧ safeValue false ['5','0','%'] = true := by decide

end RichModel.C20
