import RichModel.Lemmas.LiveMain
import RichModel.Lemmas.LiveCtl
import RichModel.Lemmas.LiveText
import RichModel.Lemmas.TermStyle
import RichModel.Lemmas.LiveCrop
/-!
# C10 — Live and progress displays leave a correct screen after any history

Property theorems only.  The model is `Model/Live.lean` (state machine of `rich/live.py`,
`rich/live_render.py`, `rich/progress.py`, `rich/status.py`) writing to the terminal of `Model/Term.lean`
(a window of `height` rows over an unbounded scroll-back).  Histories have no bound on their length, on
the number / width of lines, on the screen size.

`wf cfg ov r0 h` (decidable, `Model/Live.lean`): the screen has at least one row; every operation belongs
to the display kind and raises nothing; `stop` occurs only as the last operation; every frame put on
display fits the screen (`shown_fits_of_crop` below: automatic for `crop` / `ellipsis`; the documentation
says a `visible` frame taller than the screen "cannot be properly cleared"); a transient display leaves
one free row for the line feed `stop` writes before erasing; the console is a terminal that is not dumb
and the display is not disabled (`Cfg.plain`).  Histories include `Op.write`: writes to the redirected
`sys.stdout` / `sys.stderr` with any number of new lines and an unterminated rest, on both streams.  There is
NO hypothesis about text pending in the streams when `stop` is called: the repaired `stop`
(`flushFix = true`, fix 4c3921f) prints it — stdout's, then stderr's — right below everything printed so far
and above the last frame (`pendLines` in `viewStop` / `viewStopM`); `flushFits` in `wf` only asks that the
frames redrawn by those two prints fit the screen like any other frame.

The screen theorems are about the code with the argument-less `print()` routed through the render
hooks (`bareBypass = false`); `old_bare_print_leaves_remnant` is the machine-checked witness that rich 9.10.0
as found, before fix b373465 (`bareBypass = true`), breaks them.  Likewise `cleanup_on_exception` needs the guarded
`Progress.start` (`Cfg.guards`: `startGuard = true`, fix 4e4f7e5, and — when the injected exception derives from
BaseException only, `faultBase` — `guardBase = true`, fix fc3f517); `old_progress_start_leaks` and
`old_start_guard_misses_base_exception` are the witnesses for the as-found code and for the first guard.
`live_screen` speaks about one session (`stop` last); `live_screen_sessions` / `cursor_never_above_region_sessions`
are the same statements for any number of sessions on the same display object (`wfM`: `stop` anywhere) and need the
repaired `stop` (`resetShape = true`); what goes wrong when a stopped display is started
again with the as-found `stop` (before fix b4577f9) is witnessed by `old_restart_erases_printed_lines`
(`resetShape = false`).  /repo contains all seven repairs: `bareBypass = false` (fix b373465), `startGuard = true`
(4e4f7e5), `resetShape = true` (b4577f9), `blankFix = true` (bd10e80), `flushFix = true` (4c3921f), `guardBase = true`
(fc3f517), `disableFix = true` (363ded9) — the values the harness passes; every `old_…` theorem below is the
machine-checked witness for the as-found value of one of these flags.  Still open (known finding, no small repair): a
transient display whose last frame fills the screen, `transient_frame_filling_screen_leaves_remnant`, the case `wf` excludes.
-/
namespace RichModel.C10
open RichModel RichModel.Screen RichModel.Live

/-- **live_screen.**  After *any* well-formed history, replaying everything the display wrote on a fresh
terminal leaves exactly: the printed lines in order, then the most recently refreshed frame (nothing
after a transient stop), then blank rows only — no remnant of an earlier frame, no printed line lost.
Rows are rows of terminal cells: `cells cfg.cw l` is the line `l` with a filler cell after every
double-width character (the identity when every character is one cell wide). -/
theorem live_screen (cfg : Cfg) (ov : Live.Overflow) (r0 : Frame) (h : List Op)
    (hfix : cfg.bareBypass = false) (hflush : cfg.flushFix = true) (hwf : wf cfg ov r0 h = true) :
    ∃ k, (replay cfg.height Screen.init (emit cfg ov r0 h)).rows =
      (printed cfg ov r0 h ++ lastFrame cfg ov r0 h).map (cells cfg.cw) ++ List.replicate k [] := by
  simp only [wf, Bool.and_eq_true, decide_eq_true_eq] at hwf
  exact (history_main hwf.1.1 hfix hflush hwf.1.2 h _ _ _ (good_init cfg ov r0 hwf.1.2) (bufOk_init ov r0) hwf.2).1

/-- **live_screen_sessions** (any number of sessions on the same display object).  For every history in
which `start` / `stop` may occur anywhere — a stopped display started again, prints between the sessions —
with the repaired `stop` (`resetShape = true`: the recorded shape is forgotten and `vertical_overflow`
restored): the screen shows exactly the finished output (printed lines and the frames left by the stopped
non-transient sessions, in order; `finished`), then the frame of the session still running
(`liveFrameOf`, `[]` if none), then blank rows only.  `wfM` is `wf` with `stop` allowed anywhere. -/
theorem live_screen_sessions (cfg : Cfg) (ov : Live.Overflow) (r0 : Frame) (h : List Op)
    (hfix : cfg.bareBypass = false) (hflush : cfg.flushFix = true) (hreset : cfg.resetShape = true)
    (hwf : wfM cfg ov r0 h = true) :
    ∃ k, (replay cfg.height Screen.init (emit cfg ov r0 h)).rows =
      (finished cfg ov r0 h ++ liveFrameOf cfg ov r0 h).map (cells cfg.cw) ++ List.replicate k [] := by
  simp only [wfM, Bool.and_eq_true, decide_eq_true_eq] at hwf
  obtain ⟨k, hs, _⟩ := (history_multi hwf.1.1 hfix hflush hreset hwf.1.2 h _ _ _ (good_init cfg ov r0 hwf.1.2) (bufOk_init ov r0) hwf.2).1.shown
  obtain ⟨k', hk'⟩ := shown_rows hs
  refine ⟨k', ?_⟩
  show (replay cfg.height Screen.init (run cfg noFault (initSt ov r0) h).2.1).rows = _
  rw [hk', List.map_append]; rfl

/-- …and during all of it the cursor never goes above the first row under the finished output. -/
theorem cursor_never_above_region_sessions (cfg : Cfg) (ov : Live.Overflow) (r0 : Frame) (h : List Op)
    (hfix : cfg.bareBypass = false) (hflush : cfg.flushFix = true) (hreset : cfg.resetShape = true)
    (hwf : wfM cfg ov r0 h = true) :
    AboveRegionM cfg (initSt ov r0) {} Screen.init h := by
  simp only [wfM, Bool.and_eq_true, decide_eq_true_eq] at hwf
  exact (history_multi hwf.1.1 hfix hflush hreset hwf.1.2 h _ _ _ (good_init cfg ov r0 hwf.1.2) (bufOk_init ov r0) hwf.2).2.2

/-- **cursor_hidden_iff_started**: for *every* history (any operations, any faults, every code variant,
every kind of console, the caller catching whatever is raised) the cursor is hidden exactly while the
display is started on a terminal that understands the codes (`vis cfg started = !(started && cfg.ansi)`). -/
theorem cursor_hidden_iff_started (cfg : Cfg) (fails : Nat → Bool) (H : Nat) (ops : List Op) :
    ∀ (st : St) (s : Screen), Bal cfg st → s.visible = vis cfg st.started →
      (replay H s (run cfg fails st ops).2.1).visible = vis cfg (run cfg fails st ops).1.started := by
  induction ops with
  | nil => intro st s _ hv; simpa [run, replay_nil] using hv
  | cons op rest ih =>
    intro st s hb hv
    have hs := step_ctl cfg fails st op hb s.visible hv
    have := ih (step cfg fails st op).st (replay H s (step cfg fails st op).out) hs.1
      (by rw [replay_visible]; exact hs.2)
    simpa [run, replay_append] using this

/-- **cursor_never_above_region.**  For every operation of a well-formed history, while its output is
replayed the cursor never visits a row above the first row below the lines printed before that
operation: the live region is the only part of the screen the display ever moves in
(`AboveRegion` unfolds to exactly this, operation by operation). -/
theorem cursor_never_above_region (cfg : Cfg) (ov : Live.Overflow) (r0 : Frame) (h : List Op)
    (hfix : cfg.bareBypass = false) (hflush : cfg.flushFix = true) (hwf : wf cfg ov r0 h = true) :
    AboveRegion cfg (initSt ov r0) {} Screen.init h := by
  simp only [wf, Bool.and_eq_true, decide_eq_true_eq] at hwf
  exact (history_main hwf.1.1 hfix hflush hwf.1.2 h _ _ _ (good_init cfg ov r0 hwf.1.2) (bufOk_init ov r0) hwf.2).2.1

/-- **cursor_visible_after_stop** (well-formed histories): once the started display is stopped the
cursor is visible again. -/
theorem cursor_visible_after_stop (cfg : Cfg) (ov : Live.Overflow) (r0 : Frame) (pre : List Op)
    (hfix : cfg.bareBypass = false) (hflush : cfg.flushFix = true) (hwf : wf cfg ov r0 (pre ++ [.stop]) = true)
    (hstarted : (run cfg noFault (initSt ov r0) pre).1.started = true) :
    (replay cfg.height Screen.init (emit cfg ov r0 (pre ++ [.stop]))).visible = true := by
  simp only [wf, Bool.and_eq_true, decide_eq_true_eq] at hwf
  exact (history_main hwf.1.1 hfix hflush hwf.1.2 _ _ _ _ (good_init cfg ov r0 hwf.1.2) (bufOk_init ov r0) hwf.2).2.2 pre rfl hstarted

/-- …and with no hypothesis at all on the history: from *any* balanced state, with *any* fault
predicate, whatever `stop` writes ends with the cursor shown if the display was started. -/
theorem stop_shows_cursor (cfg : Cfg) (fails : Nat → Bool) (st : St) (hbal : Bal cfg st)
    (hst : st.started = true) (H : Nat) (s : Screen) (hv : s.visible = vis cfg st.started) :
    (replay H s (doStop cfg fails st).out).visible = true := by
  rw [replay_visible, (doStop_ctl cfg fails st hbal s.visible).2.2, hv, hst]
  unfold vis; cases cfg.ansi <;> rfl

/-- Frames of a Live with `crop` or `ellipsis` always fit the screen (so `wf` only constrains `visible`). -/
theorem shown_fits_of_crop (cfg : Cfg) (st : St) (hk : cfg.kind ≠ .progress) (hH : 1 ≤ cfg.height)
    (hov : st.overflow ≠ .visible) : (shown cfg st).length ≤ cfg.height := by
  have : shown cfg st = liveFrame cfg.cw (curWidth cfg st) cfg.height st.overflow st.renderable := by
    unfold shown; cases h : cfg.kind <;> simp_all
  rw [this]
  unfold liveFrame
  simp only [List.length_map]
  split
  · cases h : st.overflow with
    | crop => simp; omega
    | ellipsis => simp; omega
    | visible => exact absurd h hov
  · simp; omega

/-- **cleanup_on_exception.**  `with display: body`, from any not-started balanced state (tasks may
have been added before), for *every* fault predicate on the render calls (any call index, any number of
failing calls), every body, every position at which the body itself raises: after the block the hook
stack, `sys.stdout` / `sys.stderr` and their restore slots are as before `start`, the display is not
started, the cursor is visible; and an exception raised by the body leaves the block. -/
theorem cleanup_on_exception (cfg : Cfg) (hfix : cfg.kind ≠ .progress ∨ cfg.guards = true)
    (fails : Nat → Bool) (st : St) (hbal : Bal cfg st) (hst : st.started = false)
    (body : List Op) (raiseAt : Option Nat) (H : Nat) (s : Screen) (hvis : s.visible = true) :
    let res := runWith cfg fails st body raiseAt
    res.1.started = false ∧ res.1.hooks = 0 ∧ res.1.stdoutDepth = 0 ∧ res.1.stderrDepth = 0 ∧
      res.1.restoreStdout = none ∧ res.1.restoreStderr = none ∧
      (replay H s res.2.1).visible = true ∧
      (∀ j, raiseAt = some j → j ≤ body.length → res.2.2 = true) := by
  have fin : ∀ st' : St, Bal cfg st' → st'.started = false →
      st'.hooks = 0 ∧ st'.stdoutDepth = 0 ∧ st'.stderrDepth = 0 ∧ st'.restoreStdout = none ∧ st'.restoreStderr = none := by
    intro st' b hs
    obtain ⟨b1, b2, b3, b4, b5⟩ := b
    rw [hs] at b1 b2 b3 b4 b5
    simp at b1 b2 b3 b4 b5
    exact ⟨b1, b2, b3, b4, b5⟩
  have hstart := doStart_ctl cfg fails st hbal true (by rw [hst]; rfl)
  have visF : vis cfg false = true := rfl
  simp only [runWith]
  cases he : (doStart cfg fails st).err with
  | some e =>
    simp only
    have hns := hstart.2.2.2 (by rw [he]; simp) hfix
    refine ⟨hns, (fin _ hstart.1 hns).1, (fin _ hstart.1 hns).2.1, (fin _ hstart.1 hns).2.2.1,
      (fin _ hstart.1 hns).2.2.2.1, (fin _ hstart.1 hns).2.2.2.2, ?_, by simp⟩
    rw [replay_visible, hvis, hstart.2.1, hns]; rfl
  | none =>
    simp only
    have hbody := runBody_ctl cfg fails body (doStart cfg fails st).st raiseAt (vis cfg (doStart cfg fails st).st.started) hstart.1 rfl
    generalize runBody cfg fails (doStart cfg fails st).st body raiseAt = rb at hbody
    obtain ⟨st1, out1, raised1⟩ := rb
    simp only at hbody ⊢
    have hstop := doStop_ctl cfg fails st1 hbody.1 (vis cfg st1.started)
    refine ⟨hstop.2.1, (fin _ hstop.1 hstop.2.1).1, (fin _ hstop.1 hstop.2.1).2.1, (fin _ hstop.1 hstop.2.1).2.2.1,
      (fin _ hstop.1 hstop.2.1).2.2.2.1, (fin _ hstop.1 hstop.2.1).2.2.2.2, ?_, ?_⟩
    · rw [replay_visible, hvis, lastVis_append, lastVis_append, hstart.2.1, hbody.2.1, hstop.2.2]
      unfold vis; cases st1.started <;> cases cfg.ansi <;> rfl
    · intro j hj hle
      rw [hbody.2.2 j hj hle]; rfl

/-- A fresh display is balanced and not started (so `cleanup_on_exception` applies to it). -/
theorem init_balanced (cfg : Cfg) (ov : Live.Overflow) (r0 : Frame) : Bal cfg (initSt ov r0) ∧ (initSt ov r0).started = false :=
  ⟨⟨rfl, rfl, rfl, rfl, rfl⟩, rfl⟩

/-- Adding tasks, printing, refreshing … before the block keeps the state balanced, so the cleanup
guarantee also covers displays prepared before `with` (any operations, any faults). -/
theorem run_balanced (cfg : Cfg) (fails : Nat → Bool) (ops : List Op) :
    ∀ st : St, Bal cfg st → Bal cfg (run cfg fails st ops).1 := by
  induction ops with
  | nil => intro st h; exact h
  | cons op rest ih =>
    intro st h
    have := ih _ (step_ctl cfg fails st op h (vis cfg st.started) rfl).1
    simpa [run] using this

/-! ## Witnesses: the defects of rich 9.10.0 as found, all repaired in /repo since (machine-checked negations) -/

def cfgLive : Cfg := { kind := .live, transient := false, width := 20, height := 6 }

/-- F19.  rich 9.10.0 as found, before fix b373465 (`bareBypass = true`): `console.print()` under a Live moves the cursor without
telling the display; the next refresh erases one row too low and the first line of the old frame stays
on the screen — `L1 / M1 / M2` instead of an empty line followed by `M1 / M2`. -/
theorem old_bare_print_leaves_remnant :
    let h : List Op := [.start, .refresh, .printBare, .update [['M', '1'], ['M', '2']] true]
    wf { cfgLive with bareBypass := false } .ellipsis [['L', '1'], ['L', '2']] h = true ∧
    (replay 6 Screen.init (emit { cfgLive with bareBypass := true } .ellipsis [['L', '1'], ['L', '2']] h)).rows
      = [['L', '1'], ['M', '1'], ['M', '2']] ∧
    printed { cfgLive with bareBypass := true } .ellipsis [['L', '1'], ['L', '2']] h = [[]] ∧
    lastFrame { cfgLive with bareBypass := true } .ellipsis [['L', '1'], ['L', '2']] h = [['M', '1'], ['M', '2']] := by
  decide

def cfgProgress : Cfg := { kind := .progress, transient := false, width := 20, height := 6 }

/-- The `Progress.start` of rich 9.10.0 as found, before fix 4e4f7e5 (`startGuard = false`): when the first refresh inside `start()` raises,
`__enter__` never returns, `__exit__` is never called, and the hook, the redirection of `sys.stdout` /
`sys.stderr` and the hidden cursor all stay behind. -/
theorem old_progress_start_leaks :
    let st0 := (run cfgProgress (fun i => i == 1) (initSt .visible []) [.addTask ['t'] true 100]).1
    let res := runWith { cfgProgress with startGuard := false } (fun i => i == 1) st0 [] none
    res.2.2 = true ∧ res.1.hooks = 1 ∧ res.1.stdoutDepth = 1 ∧ res.1.stderrDepth = 1 ∧
      (replay 6 Screen.init res.2.1).visible = false := by
  decide

/-- The same input with the guarded `start`: everything restored, the exception still propagates. -/
example :
    let st0 := (run cfgProgress (fun i => i == 1) (initSt .visible []) [.addTask ['t'] true 100]).1
    let res := runWith { cfgProgress with startGuard := true } (fun i => i == 1) st0 [] none
    res.2.2 = true ∧ res.1.hooks = 0 ∧ res.1.stdoutDepth = 0 ∧ res.1.stderrDepth = 0 ∧
      (replay 6 Screen.init res.2.1).visible = true := by
  decide


/-- Restart.  The `stop` of rich 9.10.0 as found, before fix b4577f9 (`resetShape = false`) keeps the shape of the frame it leaves behind: after
`start; refresh; stop; print "b"; start; update` the new session erases upwards over finished output —
the last frame line `3` and the printed line `b` are gone. -/
theorem old_restart_erases_printed_lines :
    let h : List Op := [.start, .refresh, .stop, .print [['b']], .start, .update [['M']] true]
    (replay 6 Screen.init (run { cfgLive with bareBypass := false, resetShape := false } noFault
        (initSt .ellipsis [['1'], ['2'], ['3']]) h).2.1).rows = [['1'], ['2'], ['M'], [], []] := by
  decide

/-- The same history with the repaired `stop`: the finished frame, the printed line, then the new frame. -/
example :
    let h : List Op := [.start, .refresh, .stop, .print [['b']], .start, .update [['M']] true]
    (replay 6 Screen.init (run { cfgLive with bareBypass := false, resetShape := true } noFault
        (initSt .ellipsis [['1'], ['2'], ['3']]) h).2.1).rows = [['1'], ['2'], ['3'], ['b'], ['M']] := by
  decide


/-- The `restore_cursor` of rich 9.10.0 as found, before fix bd10e80 (`blankFix = false`), goes up `height` rows: a transient display whose last
frame is *empty* (a `Progress(transient=True)` without visible task, a Live showing nothing) does not undo
the line feed `stop` wrote, and one blank line stays between what was printed before and after —
`a / (blank) / b` although a transient display is to leave nothing.  (`finished` records that blank row, so
`live_screen_sessions` holds for both variants; the specification-level expectation `[a, b]` is the one
evaluated on real rich.) -/
theorem old_transient_empty_frame_leaves_blank_line :
    let cfg : Cfg := { cfgLive with bareBypass := false, resetShape := true, transient := true }
    let h : List Op := [.start, .print [['a']], .stop, .print [['b']]]
    (replay 6 Screen.init (emit { cfg with blankFix := false } .ellipsis [] h)).rows = [['a'], [], ['b'], []] ∧
    (replay 6 Screen.init (emit { cfg with blankFix := true } .ellipsis [] h)).rows = [['a'], ['b'], []] ∧
    finished { cfg with blankFix := true } .ellipsis [] h = [['a'], ['b']] := by
  decide

/-- The `stop` of rich 9.10.0 as found, before fix 4c3921f (`flushFix = false`), does not flush the redirected streams before its last refresh.
Text that `print("DL", end="")` left pending in the FileProxy is written only when the proxy object dies
in `_disable_redirect_io` — after the last frame and the final line feed, through the still installed
hook: a row of the old frame stays, the text lands below it, the frame is drawn a second time and the
cursor is left at its end.  With the repaired `stop` the text is completed *above* the last frame. -/
theorem old_pending_text_flushed_after_last_frame :
    let cfg : Cfg := { cfgLive with bareBypass := false, resetShape := true }
    let h : List Op := [.start, .refresh, .write false [] ['D', 'L'], .stop]
    (replay 6 Screen.init (emit { cfg with flushFix := false } .ellipsis [['1'], ['2']] h)).rows
      = [['1'], ['D', 'L'], ['1'], ['2']] ∧
    (replay 6 Screen.init (emit { cfg with flushFix := true } .ellipsis [['1'], ['2']] h)).rows
      = [['D', 'L'], ['1'], ['2'], []] := by
  decide

/-- The guard of fix 4e4f7e5 was `except Exception:` (`guardBase = false`, the code before fix fc3f517).  A
renderable that raises KeyboardInterrupt /
SystemExit / GeneratorExit (`faultBase = true`) inside the first refresh of `Progress.start` gets past
it: `__enter__` never returns, `__exit__` is never called, hook, redirection and hidden cursor stay
behind (`guardBase = false`); with `except BaseException:` (`guardBase = true`, fix fc3f517) everything is restored. -/
theorem old_start_guard_misses_base_exception :
    let cfg : Cfg := { cfgProgress with startGuard := true, faultBase := true }
    let st0 := (run cfg (fun i => i == 1) (initSt .visible []) [.addTask ['t'] true 100]).1
    let bad := runWith { cfg with guardBase := false } (fun i => i == 1) st0 [] none
    let good := runWith { cfg with guardBase := true } (fun i => i == 1) st0 [] none
    (bad.2.2 = true ∧ bad.1.hooks = 1 ∧ bad.1.stdoutDepth = 1 ∧ (replay 6 Screen.init bad.2.1).visible = false) ∧
    (good.2.2 = true ∧ good.1.hooks = 0 ∧ good.1.stdoutDepth = 0 ∧ (replay 6 Screen.init good.2.1).visible = true) := by
  decide

/-- `Progress(disable=True)` draws nothing — but in rich 9.10.0 as found, before fix 363ded9, its `stop` still wrote
the line feed that follows a last
frame (`disableFix = false`): `a / (blank) / b` for `print a; start; stop; print b`, transient or not,
although a disabled display has no frame to leave.  The repaired `stop` (`disableFix = true`, fix 363ded9) writes no
line feed and erases nothing when the display is disabled. -/
theorem old_disabled_progress_writes_newline :
    let cfg : Cfg := { cfgProgress with bareBypass := false, resetShape := true, flushFix := true, blankFix := true, startGuard := true, disable := true, transient := true }
    let h : List Op := [.print [['a']], .start, .stop, .print [['b']]]
    (replay 6 Screen.init (run { cfg with disableFix := false } noFault (initSt .visible []) h).2.1).rows = [['a'], [], ['b'], []] ∧
    (replay 6 Screen.init (run { cfg with disableFix := true } noFault (initSt .visible []) h).2.1).rows = [['a'], ['b'], []] := by
  decide

/- Decided against the property text, with evidence on real rich (harness/props/c10.py, corpus):

* `console.print("abc", end="")` under a live display — NOT a finding, outside `wf`.  The property speaks
  of printed *lines*.  The hook appends the frame to whatever the user printed, so an unterminated print
  shares its row with the first frame line (`abcF1`), and the next refresh erases that row with the frame:
  real rich shows `F1 / F2` after `start; refresh; print("abc", end=""); refresh; stop`.  Keeping partial
  output would need the display to buffer it (as FileProxy does for `sys.stdout`); this is the design of
  `process_renderables`, not a slip in it.  `wf` therefore has no such operation; text written to the
  *redirected streams* without a new line is modelled (`Op.write`); what is still pending when `stop` is
  called is printed by the repaired `stop` above the last frame — no hypothesis of `wf` (witness above for
  the as-found `stop`).
* a transient display with an empty last frame leaves a blank line — a finding (small; fixed, bd10e80):
  `old_transient_empty_frame_leaves_blank_line`.
* text pending in a FileProxy at `stop` — a finding (fixed, 4c3921f): `old_pending_text_flushed_after_last_frame`.  With
  the repaired `stop` the theorems need no hypothesis about it: the pending text of stdout, then of
  stderr, is printed right below everything printed so far and above the last frame
  (`pendLines`, part of `viewStop` / `viewStopM`).
* `Progress(disable=True)`: "nothing if transient" — and nothing otherwise, a disabled display has no
  frame — was broken by the line feed of `stop`: a finding (fixed, 363ded9), `old_disabled_progress_writes_newline`
  (the repair is in `Progress.stop`, not in `restore_cursor`, whose `""` for an unknown shape is pinned by
  tests/test_live_render.py).  Disabled displays stay outside `Cfg.plain`.
* BaseException raised by the body or by a renderable: `stop` uses `finally`, and `cleanup_on_exception`
  quantifies over *whether* an error is raised, not over its class, so it covers KeyboardInterrupt,
  SystemExit and GeneratorExit — except in the one place where the class matters, the guard of
  `Progress.start`: a finding (fixed, fc3f517), `old_start_guard_misses_base_exception`. -/

/-- What the redirected streams print (the part of C19's `proxy_lines` / `proxy_two_streams` this property
relies on, restated for `Op.write`): over any sequence of writes to a stream, the lines handed to the
console are the complete lines of the flattened character stream, the unterminated rest stays pending,
however the text was chunked into writes; `doWrite_pw` ties `Op.write` to `pw`. -/
theorem stream_writes_print_complete_lines (buf : Line) (ws : List (List Line × Line))
    (h : ∀ w ∈ ws, (∀ l ∈ w.1, '\n' ∉ l) ∧ '\n' ∉ w.2) :
    pws buf ws = cutNL buf (ws.map flatW).flatten :=
  pws_eq_cut buf ws h

/-- A Progress row wider than the console is cut by `Text.truncate(width, overflow="ellipsis")` of the
Text model of C05 (`Model/Text.lean`): the model's `truncRow` is that function. -/
theorem progress_row_truncation (cw : Char → Nat) (w : Nat) (hw : 1 ≤ w) (row : Line) :
    truncRow cw w row = ((rowText row).truncate cw (w : Int) (some .ellipsis)).plain :=
  truncRow_eq_truncate cw w hw row

/-- Known finding (no small repair): a transient display whose last frame fills the screen.  The line
feed `stop` writes scrolls the first frame row out of reach before `restore_cursor` runs, so it stays in
the scroll-back although `printed = []` and `lastFrame = []`.  This is the case `wf` excludes with
"a transient display leaves one free row". -/
theorem transient_frame_filling_screen_leaves_remnant :
    let cfg : Cfg := { cfgLive with bareBypass := false, height := 2, transient := true }
    (replay 2 Screen.init (emit cfg .crop [['a'], ['b']] [.start, .refresh, .stop])).rows = [['a'], [], []] ∧
    printed cfg .crop [['a'], ['b']] [.start, .refresh, .stop] = [] ∧
    lastFrame cfg .crop [['a'], ['b']] [.start, .refresh, .stop] = [] ∧
    wf cfg .crop [['a'], ['b']] [.start, .refresh, .stop] = false := by
  decide


/-! ## Styled output (deepening 4): styles are zero-width for the cursor

`console.print(..., style=…)`, styled renderables, `console.rule`, highlighted logs … interleave SGR / OSC 8
sequences with the text, also in the middle of a line.  `plainOps` (`Model/TermStyle.lean`) is the style-free normal
form of a stream — styles dropped, adjacent text runs merged — the form in which the correspondence of
harness/props/c10.py compares what real rich writes with what the model emits (`plain_ops` of harness/term.py;
`term_plain` ties the two normal forms).  The screen theorems therefore hold for EVERY stream with the normal form
of the model's emission, whatever styles it carries and wherever they split the text. -/

/-- Styles, wherever they are in the stream, change nothing on the screen (rows, cursor, cursor visibility). -/
theorem styles_are_zero_width (H : Nat) (s : Screen) (ops : List TermOp) :
    replay H s (plainOps ops) = replay H s ops :=
  replay_plainOps H ops s

/-- **live_screen_styled.**  `live_screen` for styled output: any stream `out` whose style-free normal form is that of
the model's emission — e.g. what `print(..., style="red")` under the display really writes — leaves exactly the
printed lines, then the last frame, then blank rows. -/
theorem live_screen_styled (cfg : Cfg) (ov : Live.Overflow) (r0 : Frame) (h : List Op)
    (hfix : cfg.bareBypass = false) (hflush : cfg.flushFix = true) (hwf : wf cfg ov r0 h = true)
    (out : List TermOp) (hout : plainOps out = plainOps (emit cfg ov r0 h)) :
    ∃ k, (replay cfg.height Screen.init out).rows =
      (printed cfg ov r0 h ++ lastFrame cfg ov r0 h).map (cells cfg.cw) ++ List.replicate k [] := by
  rw [replay_eq_of_plainOps_eq _ _ _ _ hout]
  exact live_screen cfg ov r0 h hfix hflush hwf

/-- **live_screen_sessions_styled.**  The same for any number of sessions. -/
theorem live_screen_sessions_styled (cfg : Cfg) (ov : Live.Overflow) (r0 : Frame) (h : List Op)
    (hfix : cfg.bareBypass = false) (hflush : cfg.flushFix = true) (hreset : cfg.resetShape = true)
    (hwf : wfM cfg ov r0 h = true)
    (out : List TermOp) (hout : plainOps out = plainOps (emit cfg ov r0 h)) :
    ∃ k, (replay cfg.height Screen.init out).rows =
      (finished cfg ov r0 h ++ liveFrameOf cfg ov r0 h).map (cells cfg.cw) ++ List.replicate k [] := by
  rw [replay_eq_of_plainOps_eq _ _ _ _ hout]
  exact live_screen_sessions cfg ov r0 h hfix hflush hreset hwf

/-- …and the cursor is shown again after `stop` whatever styles the stream carries. -/
theorem cursor_visible_after_stop_styled (cfg : Cfg) (ov : Live.Overflow) (r0 : Frame) (pre : List Op)
    (hfix : cfg.bareBypass = false) (hflush : cfg.flushFix = true) (hwf : wf cfg ov r0 (pre ++ [.stop]) = true)
    (hstarted : (run cfg noFault (initSt ov r0) pre).1.started = true)
    (out : List TermOp) (hout : plainOps out = plainOps (emit cfg ov r0 (pre ++ [.stop]))) :
    (replay cfg.height Screen.init out).visible = true := by
  rw [replay_eq_of_plainOps_eq _ _ _ _ hout]
  exact cursor_visible_after_stop cfg ov r0 pre hfix hflush hwf hstarted

/-- non-vacuity: `start; print "hi" (style=red, the style splitting the line); stop` as a real terminal stream with
SGR sequences around and inside the text runs -/
example :
    let cfg : Cfg := { cfgLive with bareBypass := false, flushFix := true }
    let h : List Op := [.start, .print [['h', 'i']], .stop]
    let out : List TermOp := [.hideCursor, .sgr [31], .text ['h'], .sgr [1, 31], .text ['i'], .sgr [0], .lf, .sgr [31], .text ['F'],
      .sgr [0], .cr, .el2, .osc8 ['u'], .text ['F'], .osc8 [], .lf, .showCursor]
    wf cfg .ellipsis [['F']] h = true ∧ plainOps out = plainOps (emit cfg .ellipsis [['F']] h) ∧
      (replay 6 Screen.init out).rows = [['h', 'i'], ['F'], []] := by
  decide


/-! ## `vertical_overflow` "crop" / "ellipsis": no hypothesis about frame heights (deepening 4)

`wf` asks that every displayed frame fits the screen.  For a Live / Status whose `vertical_overflow` is `"crop"` or
`"ellipsis"` the code cuts every frame to the screen height, and only `stop` changes the mode (`step_overflow`), so that
clause — including the redraws of the two flushes of `stop` (`flushFits`) — holds by itself: `wfOpsNoFit` is `wfOps`
with all of it removed (operations of the kind, nothing raises, `stop` last, one free row for a transient `stop`), and
the renderable may be arbitrarily taller than the screen at every moment of the history.  (`"visible"` and Progress,
which has no overflow handling, keep the hypothesis: rich documents such frames as not clearable.) -/

/-- **live_screen_crop.**  `live_screen` for `crop` / `ellipsis` without any hypothesis on the height of the frames. -/
theorem live_screen_crop (cfg : Cfg) (ov : Live.Overflow) (r0 : Frame) (h : List Op)
    (hfix : cfg.bareBypass = false) (hflush : cfg.flushFix = true) (hplain : cfg.plain = true) (hH : 1 ≤ cfg.height)
    (hk : cfg.kind ≠ .progress) (hov : ov ≠ .visible) (hwf : wfOpsNoFit cfg (initSt ov r0) h = true) :
    ∃ k, (replay cfg.height Screen.init (emit cfg ov r0 h)).rows =
      (printed cfg ov r0 h ++ lastFrame cfg ov r0 h).map (cells cfg.cw) ++ List.replicate k [] := by
  apply live_screen cfg ov r0 h hfix hflush
  simp only [wf, Bool.and_eq_true, decide_eq_true_eq]
  exact ⟨⟨hplain, hH⟩, wfOps_of_crop cfg hk hH h _ hov hwf⟩

/-- …and the cursor stays inside the live region, whatever the height of the renderable. -/
theorem cursor_never_above_region_crop (cfg : Cfg) (ov : Live.Overflow) (r0 : Frame) (h : List Op)
    (hfix : cfg.bareBypass = false) (hflush : cfg.flushFix = true) (hplain : cfg.plain = true) (hH : 1 ≤ cfg.height)
    (hk : cfg.kind ≠ .progress) (hov : ov ≠ .visible) (hwf : wfOpsNoFit cfg (initSt ov r0) h = true) :
    AboveRegion cfg (initSt ov r0) {} Screen.init h := by
  apply cursor_never_above_region cfg ov r0 h hfix hflush
  simp only [wf, Bool.and_eq_true, decide_eq_true_eq]
  exact ⟨⟨hplain, hH⟩, wfOps_of_crop cfg hk hH h _ hov hwf⟩

/-- non-vacuity: a two-row screen, frames of five and four lines (crop), prints in between, pending text at `stop` -/
example :
    let cfg : Cfg := { cfgLive with bareBypass := false, flushFix := true, height := 2 }
    let h : List Op := [.start, .update [['1'], ['2'], ['3'], ['4'], ['5']] true, .print [['p']], .write false [] ['t'],
      .update [['a'], ['b'], ['c'], ['d']] true, .stop]
    wfOpsNoFit cfg (initSt .crop [['x'], ['y'], ['z']]) h = true ∧
      (replay 2 Screen.init (emit cfg .crop [['x'], ['y'], ['z']] h)).rows = [['p'], ['t'], ['a'], ['b'], ['c'], ['d'], []] := by
  decide

/-! ## Non-vacuity: the hypotheses are met by concrete non-trivial histories -/

/-- a Live session with prints, a growing then shrinking frame, an over-tall frame (ellipsis) and stop -/
example : wf { cfgLive with bareBypass := false, height := 3 } .ellipsis [['a']]
    [.start, .print [['h', 'i']], .update [['1'], ['2'], ['3'], ['4']] true, .printBare,
     .update [['x']] true, .refresh, .stop] = true := by decide

example : (replay 3 Screen.init (emit { cfgLive with bareBypass := false, height := 3 } .ellipsis [['a']]
    [.start, .print [['h', 'i']], .update [['1'], ['2'], ['3'], ['4']] true, .printBare,
     .update [['x']] true, .refresh, .stop])).rows = [['h', 'i'], [], ['x'], [], []] := by decide

/-- a transient Progress: tasks added before and after start, one hidden again -/
example : wf { cfgProgress with transient := true, bareBypass := false } .visible []
    [.addTask ['a'] true 100, .start, .addTask ['b', 'c'] true 100, .updateTask 0 { advance := some 3 } false, .print [['o', 'u', 't']],
     .updateTask 1 { visible := some false } true, .stop] = true := by decide

example : printed { cfgProgress with transient := true, bareBypass := false } .visible []
    [.addTask ['a'] true 100, .start, .addTask ['b', 'c'] true 100, .updateTask 0 { advance := some 3 } false, .print [['o', 'u', 't']],
     .updateTask 1 { visible := some false } true, .stop] = [['o', 'u', 't']] ∧
  lastFrame { cfgProgress with transient := true, bareBypass := false } .visible []
    [.addTask ['a'] true 100, .start, .addTask ['b', 'c'] true 100, .updateTask 0 { advance := some 3 } false, .print [['o', 'u', 't']],
     .updateTask 1 { visible := some false } true, .stop] = [] := by decide

/-- double-width characters: the frame is cropped in cells (the `あ` that would straddle column 4 becomes a
space), and every `あ` occupies two cells of the screen -/
example :
    let cfg : Cfg := { cfgLive with bareBypass := false, width := 4, cw := fun c => if c = 'あ' then 2 else 1 }
    let h : List Op := [.start, .print [['あ', 'x']], .update [['a', 'あ', 'あ', 'b'], ['あ']] true, .stop]
    wf cfg .ellipsis [] h = true ∧ lastFrame cfg .ellipsis [] h = [['a', 'あ', ' '], ['あ']] ∧
    (replay 6 Screen.init (emit cfg .ellipsis [] h)).rows
      = [['あ', '\x00', 'x'], ['a', 'あ', '\x00', ' '], ['あ', '\x00'], []] := by decide

/-- stream writes — several new lines in one write, text left pending on both streams when the display
stops: the repaired `stop` completes it above the last frame, stdout first -/
example :
    let cfg : Cfg := { cfgLive with bareBypass := false, flushFix := true }
    let h : List Op := [.start, .write false [['a'], ['b']] ['c'], .write true [] ['e'], .write false [['d']] ['x'], .stop]
    wf cfg .ellipsis [['F']] h = true ∧
    printed cfg .ellipsis [['F']] h = [['a'], ['b'], ['c', 'd'], ['x'], ['e']] ∧
    (replay 6 Screen.init (emit cfg .ellipsis [['F']] h)).rows = [['a'], ['b'], ['c', 'd'], ['x'], ['e'], ['F'], []] := by
  decide

/-- two sessions on the same Live with prints between them (repaired `stop`) -/
example : wfM { cfgLive with bareBypass := false, resetShape := true } .ellipsis [['1'], ['2'], ['3']]
    [.start, .refresh, .stop, .print [['b']], .start, .update [['M']] true, .stop, .print [['c']]] = true := by decide

example : finished { cfgLive with bareBypass := false, resetShape := true } .ellipsis [['1'], ['2'], ['3']]
    [.start, .refresh, .stop, .print [['b']], .start, .update [['M']] true, .stop, .print [['c']]]
    = [['1'], ['2'], ['3'], ['b'], ['M'], ['c']] := by decide

/-- `wf` really excludes something: a `visible` frame taller than the screen, and a transient frame that
fills the screen. -/
example : wf { cfgLive with bareBypass := false, height := 2 } .visible [['a'], ['b'], ['c']] [.start, .refresh] = false := by decide
example : wf { cfgLive with bareBypass := false, height := 2, transient := true } .crop [['a'], ['b']] [.start, .refresh, .stop] = false := by decide

end RichModel.C10
