import RichModel.Lemmas.ProgressInv
import RichModel.Lemmas.ProgressConc
import RichModel.Lemmas.ProgressTrack
import RichModel.Lemmas.ProgressElapsed
import RichModel.Lemmas.ProgressRat
import RichModel.Lemmas.ProgressWindow
import RichModel.Lemmas.ProgressTrackFin
import RichModel.Lemmas.ProgressFmt
/-!
# C12 — progress accounting is exact for any history and any interleaving

Property theorems only (model: `Model/Progress.lean`, lemmas: `Lemmas/Progress*.lean`).
No bound on the number of operations, tasks, threads or on the schedule; amounts and clock readings
are arbitrary integers (units of 1/A step and 1/tps second).  `WF st` says ids are below
`_task_index` — true of the empty `Progress` and kept by every operation (`run_WF`).

Defect found (F21) in rich 9.10.0 as found: `advance` read the clock *before* taking the lock, so two threads can commit
samples in the opposite order of their timestamps; `speed` then divides by a negative span.
`Cfg.clockOutside = true` is that as-found code (witnesses `old_…` below), `false` the repair (fix b790bf0, what /repo
contains now), for which every schedule is a sequential history on the same clock (`fixed_schedules_are_sequential`).
-/
namespace RichModel.C12
open RichModel.Progress

/-! ## completed = last explicitly set value + advances since -/

/-- For every history (any operations on any tasks, failing ones included) and every task that
is still there at the end: its `completed` is the last explicitly set value (`update(completed=)`,
`reset(completed=)`, initially what it was) plus the sum of all advances (`advance`,
`update(advance=)`) since. -/
theorem completed_exact (cfg : Cfg) (clock : Clock) (ops : List Op) (st : State) (hwf : WF st)
    (id : Nat) (t t' : Task) (h : lookup st.tasks id = some t)
    (h' : lookup (run cfg clock ops st).tasks id = some t') :
    t'.completed = lastSet id t.completed ops + advSince id 0 ops :=
  completed_exact_aux cfg clock ops st hwf id t t.completed 0 h (by omega) t' h'

/-- …and a task created by `add_task(completed=c)` starts from `c`. -/
theorem completed_exact_fresh (cfg : Cfg) (clock : Clock) (ops : List Op) (st : State) (hwf : WF st)
    (a : AddArgs) (t' : Task)
    (h' : lookup (run cfg clock (.addTask a :: ops) st).tasks st.nextId = some t') :
    t'.completed = lastSet st.nextId a.completed ops + advSince st.nextId 0 ops := by
  obtain ⟨t, hl, hc, _⟩ := step_addTask_lookup cfg clock st hwf a
  have := completed_exact cfg clock ops _ (step_WF cfg clock _ st hwf).1 st.nextId t t' hl h'
  rw [hc] at this; exact this

example : lastSet 0 5 [.advance 0 2, .update 0 ⟨none, some 7, some 9, none, false, none, []⟩, .advance 1 4, .advance 0 3]
    + advSince 0 0 [.advance 0 2, .update 0 ⟨none, some 7, some 9, none, false, none, []⟩, .advance 1 4, .advance 0 3] = 10 := by
  decide

/-! ## percentage = completed / total clamped to 0..100, 0 when the total is 0 -/

/-- `percentage` as the exact fraction `n/d`: it lies in `[0, 100]`; it is `0` for a zero total;
it is literally `100·completed / total` when that lies in `[0, 100]` (either sign of the total),
`0` when the quotient is negative and `100` when it exceeds 1. -/
theorem percentage_spec (t : Task) :
    0 < t.percentage.2 ∧ 0 ≤ t.percentage.1 ∧ t.percentage.1 ≤ 100 * t.percentage.2 ∧
    (t.total = 0 → t.percentage = (0, 1)) ∧
    (0 < t.total → 0 ≤ t.completed → t.completed ≤ t.total → t.percentage = (100 * t.completed, t.total)) ∧
    (0 < t.total → t.completed < 0 → t.percentage = (0, 1)) ∧
    (0 < t.total → t.total < t.completed → t.percentage = (100, 1)) ∧
    (t.total < 0 → t.total ≤ t.completed → t.completed ≤ 0 → t.percentage = (-(100 * t.completed), -t.total)) ∧
    (t.total < 0 → 0 < t.completed → t.percentage = (0, 1)) ∧
    (t.total < 0 → t.completed < t.total → t.percentage = (100, 1)) := by
  unfold Task.percentage
  by_cases h0 : t.total = 0
  · simp [h0]
  · by_cases hneg : t.total < 0
    · simp only [h0, hneg, if_true, if_false]
      by_cases h1 : -(100 * t.completed) < 0
      · simp only [h1, if_true]
        refine ⟨?_, ?_, ?_, ?_, ?_, ?_, ?_, ?_, ?_, ?_⟩ <;> intros <;>
          (try contradiction) <;> (try dsimp only) <;> (try simp only [Prod.mk.injEq]) <;> (try omega)
      · by_cases h2 : 100 * -t.total < -(100 * t.completed)
        · simp only [h1, h2, if_true, if_false]
          refine ⟨?_, ?_, ?_, ?_, ?_, ?_, ?_, ?_, ?_, ?_⟩ <;> intros <;>
            (try contradiction) <;> (try dsimp only) <;> (try simp only [Prod.mk.injEq]) <;> (try omega)
        · simp only [h1, h2, if_false]
          refine ⟨?_, ?_, ?_, ?_, ?_, ?_, ?_, ?_, ?_, ?_⟩ <;> intros <;>
            (try contradiction) <;> (try dsimp only) <;> (try simp only [Prod.mk.injEq]) <;> (try omega)
    · simp only [h0, hneg, if_false]
      by_cases h1 : 100 * t.completed < 0
      · simp only [h1, if_true]
        refine ⟨?_, ?_, ?_, ?_, ?_, ?_, ?_, ?_, ?_, ?_⟩ <;> intros <;>
          (try contradiction) <;> (try dsimp only) <;> (try simp only [Prod.mk.injEq]) <;> (try omega)
      · by_cases h2 : 100 * t.total < 100 * t.completed
        · simp only [h1, h2, if_true, if_false]
          refine ⟨?_, ?_, ?_, ?_, ?_, ?_, ?_, ?_, ?_, ?_⟩ <;> intros <;>
            (try contradiction) <;> (try dsimp only) <;> (try simp only [Prod.mk.injEq]) <;> (try omega)
        · simp only [h1, h2, if_false]
          refine ⟨?_, ?_, ?_, ?_, ?_, ?_, ?_, ?_, ?_, ?_⟩ <;> intros <;>
            (try contradiction) <;> (try dsimp only) <;> (try simp only [Prod.mk.injEq]) <;> (try omega)

example : (Task.percentage ⟨0, 0, 8, 3, none, true, [], none, none, []⟩) = (300, 8) := by decide
example : (Task.percentage ⟨0, 0, -4, 3, none, true, [], none, none, []⟩) = (0, 1) := by decide

/-- The same over ℚ: `percentage = min 100 (max 0 (completed / total · 100))`, `0` for a zero total. -/
theorem percentage_spec_rat (t : Task) :
    ((t.percentage.1 : ℚ) / (t.percentage.2 : ℚ)) =
      if t.total = 0 then 0 else min 100 (max 0 ((t.completed : ℚ) / (t.total : ℚ) * 100)) :=
  percentage_eq_clamp t

/-- `speed` over ℚ (amount units per tick): sum of all samples but the first over the time between
the first and the last sample; `None` if unstarted, without samples, or over a zero span. -/
theorem speed_spec_rat (t : Task) :
    t.speed.map (fun p => (p.1 : ℚ) / (p.2 : ℚ)) =
      match t.startTime, t.samples with
      | none, _ => none
      | some _, [] => none
      | some _, s0 :: rest =>
        if (rest.getLast?.getD s0).ts - s0.ts = 0 then none
        else some ((sumAmt rest : ℚ) / (((rest.getLast?.getD s0).ts - s0.ts : Int) : ℚ)) :=
  speedQ_spec t

/-- `time_remaining` over ℚ with the exact ceiling: `0` if finished, `None` without a (non-zero)
speed, else `⌈remaining / (speed per second)⌉`. -/
theorem time_remaining_spec_rat (cfg : Cfg) (htps : 0 < cfg.tps) (t : Task) :
    t.timeRemaining cfg =
      if t.finishedTime.isSome then some 0
      else match t.speed.map (fun p => (p.1 : ℚ) / (p.2 : ℚ)) with
        | none => none
        | some v => if v = 0 then none else some ⌈(t.remaining : ℚ) / (v * (cfg.tps : ℚ))⌉ :=
  timeRemaining_eq_ceil cfg htps t

example : (Task.timeRemaining ⟨30, 1000, 4, false, 0⟩
    ⟨0, 0, 10, 3, none, true, [], some 0, none, [⟨0, 1⟩, ⟨8, 2⟩]⟩) = some 7 := by decide

/-! ## a started task is finished after an advance/update that leaves completed ≥ total -/

theorem finished_after_reaching_total (cfg : Cfg) (clock : Clock) (st : State) (hwf : WF st)
    (id : Nat) (t : Task) (op : Op) (h : lookup st.tasks id = some t) (hs : t.started = true)
    (hop : op.progresses = some id) :
    ∃ t', lookup (step cfg clock op st).st.tasks id = some t' ∧ (step cfg clock op st).err = none ∧
      t'.started = true ∧ (t'.total ≤ t'.completed → t'.finished = true) := by
  have htg : op.target = some id := by cases op <;> simp_all [Op.progresses, Op.target]
  simp only [Task.started] at hs
  rcases step_lookup cfg clock op st hwf id t h with ⟨hrm, _⟩ | ⟨_, _, hl, he⟩ | ⟨hne, _⟩
  · subst hrm; simp [Op.progresses] at hop
  · refine ⟨_, hl, he, ?_, ?_⟩
    · unfold taskAfter Task.started
      cases op with
      | advance i a => simpa [taskEffect, Task.advanceBody] using hs
      | update i u => simpa [taskEffect, Task.updateBody, applyUpd_startTime] using hs
      | addTask => simp [Op.progresses] at hop
      | startTask => simp [Op.progresses] at hop
      | stopTask => simp [Op.progresses] at hop
      | reset => simp [Op.progresses] at hop
      | removeTask => simp [Op.progresses] at hop
      | refresh => simp [Op.progresses] at hop
      | start => simp [Op.progresses] at hop
      | stop => simp [Op.progresses] at hop
    · unfold taskAfter Task.finished
      cases op with
      | advance i a =>
        simp only [taskEffect, Task.advanceBody, finishCheck_total, finishCheck_completed]
        intro hc
        exact finishCheck_finished _ _ _ hs hc
      | update i u =>
        simp only [taskEffect, Task.updateBody, finishCheck_total, finishCheck_completed]
        intro hc
        exact finishCheck_finished _ _ _ (by simpa [applyUpd_startTime] using hs) hc
      | addTask => simp [Op.progresses] at hop
      | startTask => simp [Op.progresses] at hop
      | stopTask => simp [Op.progresses] at hop
      | reset => simp [Op.progresses] at hop
      | removeTask => simp [Op.progresses] at hop
      | refresh => simp [Op.progresses] at hop
      | start => simp [Op.progresses] at hop
      | stop => simp [Op.progresses] at hop
  · exact absurd htg hne

/-! ## the recorded finish time stays fixed until the total changes or the task is reset -/

theorem finish_time_stable (cfg : Cfg) (clock : Clock) (ops : List Op) (st : State) (hwf : WF st)
    (id : Nat) (t t' : Task) (v : Int) (h : lookup st.tasks id = some t) (hf : t.finishedTime = some v)
    (hno : ∀ op ∈ ops, clearsFinish id op = false)
    (h' : lookup (run cfg clock ops st).tasks id = some t') : t'.finishedTime = some v :=
  finish_time_stable_aux cfg clock ops st hwf id t v h hf hno t' h'

example : clearsFinish 0 (.update 0 ⟨none, some 3, some 1, some false, true, some 4, [(1, 2)]⟩) = false ∧
    clearsFinish 0 (.reset 1 ⟨true, none, 0, none, none, []⟩) = false ∧ clearsFinish 0 (.update 0 ⟨some 5, none, none, none, false, none, []⟩) = true := by
  decide

/-! ## speed and time remaining on a monotone clock (sequential histories) -/

/-- With non-negative `advance` amounts and a monotone clock, after any history (from the empty
`Progress`) every speed estimate is a non-negative amount over a *positive* time span. -/
theorem speed_nonneg (cfg : Cfg) (clock : Clock) (hm : Mono clock) (ops : List Op) (hnn : NonnegAdvances ops) :
    ∀ t ∈ (run cfg clock ops State.empty).tasks, ∀ n d, t.speed = some (n, d) → 0 ≤ n ∧ 0 < d := by
  intro t ht n d hs
  have := run_invS cfg clock hm ops State.empty hnn (by intro x hx; cases hx) t ht
  exact ⟨(speed_of_SOK this n d hs).1, (speed_of_SOK this n d hs).2.1⟩

/-- If moreover every advance/update finds its task started ("running whenever it advances"),
the time-remaining estimate is never negative. -/
theorem remaining_nonneg_when_running (cfg : Cfg) (clock : Clock) (hm : Mono clock) (htps : 0 < cfg.tps)
    (ops : List Op) (hnn : NonnegAdvances ops) (hrun : StartedWhenAdvanced cfg clock ops State.empty) :
    ∀ t ∈ (run cfg clock ops State.empty).tasks, ∀ r, t.timeRemaining cfg = some r → 0 ≤ r := by
  intro t ht r hr
  have := run_inv cfg clock hm ops State.empty hnn hrun (Inv_empty clock) t ht
  exact timeRemaining_nonneg cfg htps this.1 this.2 r hr

/-- the hypotheses are met by a real history, with a speed and a remaining time to speak of -/
example :
    let cfg : Cfg := ⟨30, 1000, 1, true, 0⟩
    let ops : List Op := [.addTask ⟨true, 10, 0, true, 0, []⟩, .advance 0 2, .advance 0 3]
    NonnegAdvances ops ∧ StartedWhenAdvanced cfg (fun k => (k : Int)) ops State.empty ∧
    (run cfg (fun k => (k : Int)) ops State.empty).tasks.map (fun t => (t.speed, t.timeRemaining cfg)) =
      [(some (3, 1), some 2)] := by
  refine ⟨?_, ?_, ?_⟩
  · intro op h; simp only [List.mem_cons, List.mem_nil_iff, or_false] at h; rcases h with rfl | rfl | rfl <;> simp [Op.nonneg]
  · exact startedWhenAdvanced_of_check _ _ _ _ (by decide)
  · decide

/-- why the hypothesis "running whenever it advances" is there: a task advanced before it was started -/
theorem remaining_negative_if_advanced_unstarted :
    (run ⟨30, 1000, 1, true, 0⟩ (fun k => 10 * (k : Int)) [.addTask ⟨false, 10, 0, true, 0, []⟩, .advance 0 5, .advance 0 20, .startTask 0]
      State.empty).tasks.map (fun t => t.timeRemaining ⟨30, 1000, 1, true, 0⟩) = [some (-7)] := by decide

/-! ## elapsed time and the value of the recorded finish time (outside the statement of C12) -/

/-- On a monotone clock, in every history that never resets a *stopped* task, every elapsed time
(read at any later moment) and every recorded finish time is non-negative. -/
theorem elapsed_nonneg (cfg : Cfg) (clock : Clock) (hm : Mono clock) (ops : List Op)
    (hno : NoResetWhileStopped cfg clock ops State.empty) :
    ∀ t ∈ (run cfg clock ops State.empty).tasks,
      (∀ f, t.finishedTime = some f → 0 ≤ f) ∧
      (∀ k e, (run cfg clock ops State.empty).clk ≤ k → (t.elapsedC clock k).1 = some e → 0 ≤ e) := by
  intro t ht
  have h := run_invE cfg clock hm ops State.empty hno (by intro x hx; cases hx) t ht
  exact ⟨h.2.2.2.2, fun k e hk he => elapsedC_nonneg h hk e he⟩

/-- The excluded case on the code as it is: stop at 3, reset at 5 (`stop_time` stays 3), two advances
reach the total: the task is started *and* stopped, `elapsed = 3 - 5 = -2`, and `-2` is recorded as the
finish time — while every clause of C12 holds of it (finished, finish time fixed by the later update,
speed `7/3 ≥ 0`, remaining time `0`). -/
theorem reset_after_stop_negative_elapsed :
    (run ⟨30, 1000, 1, false, 0⟩ (fun k => (k : Int))
      [.addTask ⟨true, 10, 0, true, 0, []⟩, .advance 0 0, .advance 0 0, .stopTask 0, .advance 0 0,
       .reset 0 ⟨true, none, 0, none, none, []⟩, .advance 0 4, .advance 0 0, .advance 0 6,
       .update 0 ⟨none, none, some 1, none, false, none, []⟩]
      State.empty).tasks.map
      (fun t => ([t.startTime, t.stopTime, t.finishedTime, t.timeRemaining ⟨30, 1000, 1, false, 0⟩], t.finished, t.speed)) =
    [([some 5, some 3, some (-2), some 0], true, some (7, 3))] := by decide

example : NoResetWhileStopped ⟨30, 1000, 1, false, 0⟩ (fun k => (k : Int))
    [.addTask ⟨true, 10, 0, true, 0, []⟩, .reset 0 ⟨true, none, 0, none, none, []⟩, .stopTask 0] State.empty :=
  noResetWhileStopped_of_check _ _ _ _ (by decide)

/-! ## task ids -/

/-- Ids in the task table are strictly increasing in insertion order (so pairwise distinct), after
any history. -/
theorem task_ids_distinct (cfg : Cfg) (clock : Clock) (ops : List Op) :
    List.Pairwise (fun a b : Task => a.id < b.id) (run cfg clock ops State.empty).tasks :=
  run_idsSorted cfg clock ops State.empty WF_empty IdsSorted_empty

/-- **Ids are never reused**: `add_task` hands out `_task_index`, which is above every id ever handed
out; an id that is free and below `_task_index` (a removed task's) stays free for ever, whatever
operations follow — in particular a later `add_task` never returns it. -/
theorem task_ids_never_reused (cfg : Cfg) (clock : Clock) (ops : List Op) (st : State) (hwf : WF st)
    (id : Nat) (hlt : id < st.nextId) (h : lookup st.tasks id = none) :
    lookup (run cfg clock ops st).tasks id = none ∧ id < (run cfg clock ops st).nextId := by
  refine ⟨run_lookup_none cfg clock ops st hwf id hlt h, ?_⟩
  induction ops generalizing st with
  | nil => exact hlt
  | cons op ops ih =>
    have hs := step_WF cfg clock op st hwf
    exact ih _ hs.1 (Nat.lt_of_lt_of_le hlt hs.2) (step_lookup_none cfg clock op st hwf id hlt h)

/-- `add_task` creates its task under an id no existing task has, and `remove_task` frees exactly it. -/
theorem add_task_id_fresh (cfg : Cfg) (clock : Clock) (st : State) (hwf : WF st) (a : AddArgs) :
    (∀ t ∈ st.tasks, t.id < st.nextId) ∧
    (∃ t, lookup (step cfg clock (.addTask a) st).st.tasks st.nextId = some t) ∧
    (step cfg clock (.addTask a) st).st.nextId = st.nextId + 1 := by
  obtain ⟨t, hl, _⟩ := step_addTask_lookup cfg clock st hwf a
  refine ⟨hwf, ⟨t, hl⟩, ?_⟩
  rw [step_eq_body_none]; rfl

example : (run ⟨30, 1000, 1, false, 0⟩ (fun k => (k : Int))
    [.addTask ⟨true, 1, 0, true, 0, []⟩, .addTask ⟨true, 1, 0, true, 0, []⟩, .removeTask 1, .removeTask 0,
     .addTask ⟨true, 1, 0, true, 7, [(1, 2)]⟩] State.empty).tasks.map (fun t => t.id) = [2] := by decide

/-! ## any number of threads, any interleaving -/

/-- **No lost update.** For every schedule of every set of thread programs (clock reads outside the
lock interleaved at will), the counters of all tasks at the end — ids, totals, completed counts,
visibility — are those of the *sequential* history of the same operations in lock-acquisition
order, run on any clock with either code variant. -/
theorem accounting_linearizable (cfg cfg' : Cfg) (clock clock' : Clock) (sched : List Nat) (c : Conf) :
    absState (runSched cfg clock sched c).1.st =
      absState (run cfg' clock' ((commits (runSched cfg clock sched c).2).map Prod.fst) c.st) := by
  rw [abs_runSched, abs_run]

/-- Hence under every interleaving `completed` is the last explicitly set value plus the advances
since, *in lock-acquisition order*. -/
theorem completed_exact_all_schedules (cfg : Cfg) (clock : Clock) (sched : List Nat) (c : Conf)
    (hwf : WF c.st) (id : Nat) (t t' : Task) (h : lookup c.st.tasks id = some t)
    (h' : lookup (runSched cfg clock sched c).1.st.tasks id = some t') :
    t'.completed = lastSet id t.completed ((commits (runSched cfg clock sched c).2).map Prod.fst) +
      advSince id 0 ((commits (runSched cfg clock sched c).2).map Prod.fst) := by
  have hl := accounting_linearizable cfg cfg clock clock sched c
  have h1 : aLookup (absState (runSched cfg clock sched c).1.st).tasks id = some (absTask t') := by
    simp only [absState, aLookup_map, h', Option.map_some]
  rw [hl] at h1
  simp only [absState, aLookup_map] at h1
  cases hs : lookup (run cfg clock ((commits (runSched cfg clock sched c).2).map Prod.fst) c.st).tasks id with
  | none => simp [hs] at h1
  | some t'' =>
    simp only [hs, Option.map_some, Option.some.injEq] at h1
    have hc : t''.completed = t'.completed := congrArg ATask.completed h1
    rw [← hc]
    exact completed_exact cfg clock _ c.st hwf id t t'' h hs

/-- **The live display never touches the accounting.** For every schedule of any thread programs —
among them any number of `_RefreshThread`s (`refreshThreadProg k`: `k` wake-ups, each a `refresh()`),
`Progress.start()` and `Progress.stop()` — the task table and `_task_index` at the end are those of the
sequential history in lock-acquisition order *with every refresh / start / stop dropped*. -/
theorem refresh_threads_harmless (cfg cfg' : Cfg) (clock clock' : Clock) (sched : List Nat) (c : Conf) :
    (absState (runSched cfg clock sched c).1.st).core =
      (absState (run cfg' clock'
        (((commits (runSched cfg clock sched c).2).map Prod.fst).filter (fun o => !o.isDisplay)) c.st)).core := by
  rw [abs_runSched, abs_run]
  exact aRun_drop_display _ _ _ rfl

example : refreshThreadProg 3 = [.refresh, .refresh, .refresh] := by decide

/-- **Repaired variant** (clock read under the lock): every schedule leaves exactly — timestamps,
samples and clock included — the state of the sequential history in lock-acquisition order. -/
theorem fixed_schedules_are_sequential (cfg : Cfg) (clock : Clock) (hfix : cfg.clockOutside = false)
    (sched : List Nat) (c : Conf) (hp : ∀ th ∈ c.threads, th.pending = none) :
    (runSched cfg clock sched c).1.st =
      run cfg clock ((commits (runSched cfg clock sched c).2).map Prod.fst) c.st :=
  fixed_sched_sequential cfg clock hfix sched c hp

/-- …so with the repair the speed estimate is non-negative under *every* interleaving. -/
theorem speed_nonneg_all_schedules (cfg : Cfg) (clock : Clock) (hfix : cfg.clockOutside = false) (hm : Mono clock)
    (sched : List Nat) (progs : List (List Op))
    (hnn : NonnegAdvances ((commits (runSched cfg clock sched ⟨State.empty, progs.map (fun p => ⟨p, none⟩)⟩).2).map Prod.fst)) :
    ∀ t ∈ (runSched cfg clock sched ⟨State.empty, progs.map (fun p => ⟨p, none⟩)⟩).1.st.tasks,
      ∀ n d, t.speed = some (n, d) → 0 ≤ n ∧ 0 < d := by
  rw [fixed_schedules_are_sequential cfg clock hfix sched _ (by
    intro th hth; simp only [List.mem_map] at hth; obtain ⟨p, _, rfl⟩ := hth; rfl)]
  exact speed_nonneg cfg clock hm _ hnn

/-- The defect (F21), on rich 9.10.0 as found (before fix b790bf0, `clockOutside = true`): two threads advance one started task by 1 each;
thread 0 reads the clock (2), thread 1 reads the clock (3), thread 1 commits, thread 0 commits.
The deque is `[(3,1),(2,1)]` and the speed is `1 / (2 - 3) = -1`; the remaining time is `-98` s. -/
def wClock : Clock := fun k => (k : Int) + 1
def wProgs : List Thread := [⟨[.advance 0 1], none⟩, ⟨[.advance 0 1], none⟩]
def wConf (cfg : Cfg) : Conf := ⟨run cfg wClock [.addTask ⟨true, 100, 0, true, 0, []⟩] State.empty, wProgs⟩

theorem old_speed_negative_under_schedule :
    (runSched ⟨30, 1000, 1, true, 0⟩ wClock [0, 1, 1, 0] (wConf ⟨30, 1000, 1, true, 0⟩)).1.st.tasks.map
      (fun t => (t.samples, t.speed, t.timeRemaining ⟨30, 1000, 1, true, 0⟩)) =
    [([⟨3, 1⟩, ⟨2, 1⟩], some (1, -1), some (-98))] := by decide

/-- the same programs and the same schedule with the clock read under the lock -/
theorem fixed_speed_under_same_schedule :
    (runSched ⟨30, 1000, 1, false, 0⟩ wClock [0, 1, 1, 0] (wConf ⟨30, 1000, 1, false, 0⟩)).1.st.tasks.map
      (fun t => (t.samples, t.speed, t.timeRemaining ⟨30, 1000, 1, false, 0⟩)) =
    [([⟨2, 1⟩, ⟨3, 1⟩], some (1, 1), some 98)] := by decide

/-! ## track() -/

/-- `Progress.track` without auto-refresh on a new task: every element is yielded once, in order,
and after the whole sequence the task's `completed` is the number of elements. -/
theorem track_counts {α : Type} (cfg : Cfg) (clock : Clock) (st : State) (hwf : WF st) (total : Int) (xs : List α) :
    (trackSeq none total xs st).1 = xs ∧
    ∃ t, lookup (run cfg clock (trackSeq none total xs st).2 st).tasks st.nextId = some t ∧
      t.completed = xs.length := by
  refine ⟨rfl, ?_⟩
  simp only [trackSeq, trackOpen, trackId, Option.getD_none, run]
  obtain ⟨t0, hl, hc, _⟩ := step_addTask_lookup cfg clock st hwf ⟨true, total, 0, true, 0, []⟩
  have hwf' := (step_WF cfg clock (.addTask ⟨true, total, 0, true, 0, []⟩) st hwf).1
  obtain ⟨t', ht'⟩ := run_lookup_some cfg clock (xs.map (fun _ => Op.advance st.nextId 1)) _ hwf' st.nextId t0 hl
    (by intro op hop; simp only [List.mem_map] at hop; obtain ⟨_, _, rfl⟩ := hop; simp)
  refine ⟨t', ht', ?_⟩
  have := completed_exact cfg clock _ _ hwf' st.nextId t0 t' hl ht'
  rw [this, hc, lastSet_advances st.nextId 0 _ (by
    intro op hop; simp only [List.mem_map] at hop; obtain ⟨_, _, rfl⟩ := hop; exact ⟨1, rfl⟩), advSince_ones]
  omega

/-- `Progress.track` with the helper thread on a new task: whatever counter values `seen` the
helper thread happens to see when it wakes up (any list — any batching), before the final update
the task has advanced exactly to the last value seen, and at the end `completed` is the number of
elements consumed. -/
theorem track_thread_counts {α : Type} (cfg : Cfg) (clock : Clock) (st : State) (hwf : WF st) (total : Int)
    (xs : List α) (seen : List Int) :
    (trackThread none total xs seen st).1 = xs ∧
    (∃ t, lookup (run cfg clock (trackOpen none total :: trackWakes st.nextId 0 seen) st).tasks st.nextId = some t ∧
      t.completed = seen.getLast?.getD 0) ∧
    ∃ t, lookup (run cfg clock (trackThread none total xs seen st).2 st).tasks st.nextId = some t ∧
      t.completed = xs.length := by
  refine ⟨rfl, ?_, ?_⟩
  · simp only [trackOpen, run]
    obtain ⟨t0, hl, hc, _⟩ := step_addTask_lookup cfg clock st hwf ⟨true, total, 0, true, 0, []⟩
    have hwf' := (step_WF cfg clock (.addTask ⟨true, total, 0, true, 0, []⟩) st hwf).1
    have hadv := trackWakes_advances st.nextId 0 seen
    obtain ⟨t', ht'⟩ := run_lookup_some cfg clock (trackWakes st.nextId 0 seen) _ hwf' st.nextId t0 hl
      (by intro op hop; obtain ⟨a, rfl⟩ := hadv op hop; simp)
    refine ⟨t', ht', ?_⟩
    have := completed_exact cfg clock _ _ hwf' st.nextId t0 t' hl ht'
    rw [this, hc, lastSet_advances st.nextId 0 _ hadv, advSince_trackWakes]
    omega
  · simp only [trackThread, trackOpen, trackId, Option.getD_none]
    obtain ⟨t0, hl, hc, _⟩ := step_addTask_lookup cfg clock st hwf ⟨true, total, 0, true, 0, []⟩
    have hwf' := (step_WF cfg clock (.addTask ⟨true, total, 0, true, 0, []⟩) st hwf).1
    have hadv := trackWakes_advances st.nextId 0 seen
    obtain ⟨t', ht'⟩ := run_lookup_some cfg clock
      (trackWakes st.nextId 0 seen ++ [Op.update st.nextId ⟨none, some xs.length, none, none, true, none, []⟩]) _ hwf' st.nextId t0 hl
      (by
        intro op hop
        simp only [List.mem_append, List.mem_singleton] at hop
        rcases hop with hop | rfl
        · obtain ⟨a, rfl⟩ := hadv op hop; simp
        · simp)
    refine ⟨t', ht', ?_⟩
    have := completed_exact cfg clock _ _ hwf' st.nextId t0 t' hl ht'
    rw [this, lastSet_snoc_update, advSince_snoc_update]
    omega

example : (trackThread (α := Char) none 3 ['a', 'b', 'c'] [0, 1, 1, 3] State.empty).2 =
    [.addTask ⟨true, 3, 0, true, 0, []⟩, .advance 0 1, .advance 0 2, .update 0 ⟨none, some 3, none, none, true, none, []⟩] := by decide

/-! ## the sample window of `speed` (deepening round 4) -/

/-- **Speed is taken over the last `speed_estimate_period` only.**  On a monotone clock with a
non-negative period, after any history the time span `speed` divides by is positive and at most the
period (the loop `while _progress and _progress[0].timestamp < old_sample_time: popleft()`), whatever
the amounts. -/
theorem speed_window (cfg : Cfg) (clock : Clock) (hm : Mono clock) (hp : 0 ≤ cfg.period) (ops : List Op) :
    ∀ t ∈ (run cfg clock ops State.empty).tasks, ∀ n d, t.speed = some (n, d) → 0 < d ∧ d ≤ cfg.period := by
  intro t ht n d hs
  exact speed_of_WOK (run_WOK cfg clock hm hp ops t ht) n d hs

/-- …and every pair of samples in the deque is within the period, the deque being sorted by timestamp. -/
theorem samples_within_window (cfg : Cfg) (clock : Clock) (hm : Mono clock) (hp : 0 ≤ cfg.period) (ops : List Op) :
    ∀ t ∈ (run cfg clock ops State.empty).tasks,
      List.Pairwise (fun a b : Sample => a.ts ≤ b.ts) t.samples ∧
      ∀ s ∈ t.samples, ∀ s' ∈ t.samples, s'.ts - s.ts ≤ cfg.period := by
  intro t ht
  have := run_WOK cfg clock hm hp ops t ht
  exact ⟨this.1, this.2.2⟩

/-- **At most 1000 + 1 samples** (`while len(_progress) > 1000: popleft()`, then one append), for every
history on every clock, starting from any state that meets the bound. -/
theorem samples_bounded (cfg : Cfg) (clock : Clock) (ops : List Op) (st : State)
    (h : ∀ t ∈ st.tasks, t.samples.length ≤ cfg.maxLen + 1) :
    ∀ t ∈ (run cfg clock ops st).tasks, t.samples.length ≤ cfg.maxLen + 1 :=
  run_LenOK cfg clock ops st h

/-- the bound is reached: maxLen = 2, four advances inside the window leave 3 samples; with period 2 the
same history keeps only the samples of the last two ticks -/
example :
    (run ⟨30, 2, 1, false, 0⟩ (fun k => (k : Int)) [.addTask ⟨true, 10, 0, true, 0, []⟩, .advance 0 1, .advance 0 1, .advance 0 1, .advance 0 1]
      State.empty).tasks.map (fun t => (t.samples.length, t.speed)) = [(3, some (2, 2))] ∧
    (run ⟨2, 1000, 1, false, 0⟩ (fun k => (k : Int)) [.addTask ⟨true, 10, 0, true, 0, []⟩, .advance 0 1, .advance 0 1, .advance 0 1, .advance 0 1]
      State.empty).tasks.map (fun t => (t.samples, t.speed)) = [([⟨2, 1⟩, ⟨3, 1⟩, ⟨4, 1⟩], some (2, 2))] := by decide

/-! ## track(): total vs length -/

/-- `Progress.track` (no helper thread) on a new task with *any* total and *any* number of elements:
the total stays what was announced, `completed` is the number of elements, and the task is finished
exactly when at least one element was yielded and the total does not exceed the number of elements
(`add_task` itself never finishes a task: an empty sequence with total 0 leaves it unfinished). -/
theorem track_finishes_iff {α : Type} (cfg : Cfg) (clock : Clock) (st : State) (hwf : WF st) (total : Int) (xs : List α) :
    ∃ t, lookup (run cfg clock (trackSeq none total xs st).2 st).tasks st.nextId = some t ∧
      t.completed = xs.length ∧ t.total = total ∧ t.started = true ∧
      (t.finished = true ↔ (0 < xs.length ∧ total ≤ xs.length)) := by
  simp only [trackSeq, trackOpen, trackId, Option.getD_none, run]
  obtain ⟨t0, hl, hc, ht, hf, hs⟩ := step_addTask_started cfg clock st hwf ⟨true, total, 0, true, 0, []⟩ rfl
  have hwf' := (step_WF cfg clock (.addTask ⟨true, total, 0, true, 0, []⟩) st hwf).1
  obtain ⟨t', hl', hs', ht', hc', hf'⟩ := run_advances_one cfg clock st.nextId xs _ hwf' t0 hl hs
  refine ⟨t', hl', by rw [hc', hc]; simp, by rw [ht', ht], hs', ?_⟩
  unfold Task.finished
  rw [hf', hf, ht, hc]
  simp

example : (run ⟨30, 1000, 1, false, 0⟩ (fun k => (k : Int)) (trackSeq (α := Nat) none 2 [7, 8, 9] State.empty).2 State.empty).tasks.map
    (fun t => (t.completed, t.finished, t.finishedTime)) = [(3, true, some 3)] := by decide
example : (run ⟨30, 1000, 1, false, 0⟩ (fun k => (k : Int)) (trackSeq (α := Nat) none 0 [] State.empty).2 State.empty).tasks.map
    (fun t => (t.completed, t.finished)) = [(0, false)] := by decide

/-! ## rich/filesize.py: the unit selection law -/

open RichModel.ProgressFmt in
/-- **`pick_unit_and_suffix`**, any size, any base, `n + 1` suffixes: the answer is `(base ^ i, suffixes[i])`
with `unit ≤ size < unit · base`, except that the lower bound is dropped for the first suffix and the
upper bound for the last one.  (An empty suffix list raises: `pickUnit _ 0 _ = none`.) -/
theorem pick_unit_law (size base : Int) (n : Nat) :
    pickUnit size 0 base = none ∧
    ∃ i, pickUnit size (n + 1) base = some (base ^ i, i) ∧ i ≤ n ∧
      (i = 0 ∨ base ^ i ≤ size) ∧ (i = n ∨ size < base ^ i * base) := by
  refine ⟨rfl, ?_⟩
  have h := pickFrom_spec size base n 0 1 (by simp) (Or.inl rfl)
  refine ⟨(pickFrom size base n 0 1).2, ?_, by omega, ?_, ?_⟩
  · simp only [pickUnit]; rw [← h.1]
  · rw [← h.1]; exact h.2.2.2.1
  · rw [← h.1]; rcases h.2.2.2.2 with h2 | h2
    · left; omega
    · right; exact h2

open RichModel.ProgressFmt in
/-- …and for a base ≥ 2 that index is *the* one the law allows: any `j` meeting the law is the answer. -/
theorem pick_unit_unique (size base : Int) (hb : 2 ≤ base) (n i j : Nat)
    (hi : pickUnit size (n + 1) base = some (base ^ i, i)) (hj : j ≤ n)
    (hlow : j = 0 ∨ base ^ j ≤ size) (hup : j = n ∨ size < base ^ j * base) : j = i := by
  obtain ⟨i', hi', hin, hl', hu'⟩ := (pick_unit_law size base n).2
  rw [hi'] at hi
  have hii : i' = i := by injection hi with h; injection h
  subst hii
  have hb1 : (1 : Int) ≤ base := by omega
  rcases Nat.lt_trichotomy j i' with hlt | heq | hgt
  · -- size < base^(j+1) ≤ base^i' ≤ size
    exfalso
    have h1 : size < base ^ j * base := by rcases hup with h | h; omega; exact h
    have h2 : base ^ i' ≤ size := by rcases hl' with h | h; omega; exact h
    have h3 := pow_mono_of_one_le hb1 (show j + 1 ≤ i' by omega)
    rw [Int.pow_succ] at h3
    omega
  · exact heq
  · exfalso
    have h1 : size < base ^ i' * base := by rcases hu' with h | h; omega; exact h
    have h2 : base ^ j ≤ size := by rcases hlow with h | h; omega; exact h
    have h3 := pow_mono_of_one_le hb1 (show i' + 1 ≤ j by omega)
    rw [Int.pow_succ] at h3
    omega

open RichModel.ProgressFmt in
example : pickUnit 999999 9 1000 = some (1000, 1) ∧ pickUnit 1000000 9 1000 = some (1000000, 2) ∧
    pickUnit (-5) 9 1024 = some (1, 0) ∧ pickUnit (1024 ^ 10) 9 1024 = some (1024 ^ 8, 8) := by decide

open RichModel.ProgressFmt in
/-- **`_to_str` / `filesize.decimal`**: `1` is `"1 byte"`, any other size below the base is printed in
bytes, and from the base on the number shown is `base · size / base^(j+2)` for the suffix `j` with
`base^(j+1) ≤ size < base^(j+2)` (upper bound dropped for the last suffix) — i.e. a value in `[1, base)`.
(With no suffix at all the function raises.) -/
theorem to_str_unit_law (size base : Int) (n : Nat) :
    (size = 1 → toStrSel size n base = .oneByte) ∧
    (size ≠ 1 → size < base → toStrSel size n base = .bytes size) ∧
    (size ≠ 1 → base ≤ size → toStrSel size 0 base = .unbound) ∧
    (size ≠ 1 → base ≤ size → ∃ j, toStrSel size (n + 1) base = .scaled (base * size) (base ^ (j + 2)) j ∧ j ≤ n ∧
      base ^ (j + 1) ≤ size ∧ (j = n ∨ size < base ^ (j + 2))) := by
  refine ⟨?_, ?_, ?_, ?_⟩
  · intro h; simp [toStrSel, h]
  · intro h1 h2; simp [toStrSel, h1, h2]
  · intro h1 h2; have : ¬ size < base := by omega
    simp [toStrSel, h1, this]
  · intro h1 h2
    have hnb : ¬ size < base := by omega
    have h := toStrFrom_spec size base n 0 (base * base) (by rw [Int.pow_succ, Int.pow_succ]; simp) (by simpa using h2)
    refine ⟨(toStrFrom size base n 0 (base * base)).2, ?_, by omega, h.2.2.2.1, ?_⟩
    · simp only [toStrSel, h1, hnb, if_false]; rw [← h.1]
    · rw [← h.1]; rcases h.2.2.2.2 with h2 | h2
      · left; omega
      · right; exact h2

open RichModel.ProgressFmt in
example : decimal 1 = "1 byte".toList ∧ decimal 999 = "999 bytes".toList ∧ decimal 1000 = "1.0 kB".toList ∧
    decimal 1050 = "1.1 kB".toList ∧ decimal 1250 = "1.2 kB".toList ∧ decimal 999950 = "1,000.0 kB".toList ∧
    decimal 1000000 = "1.0 MB".toList := by decide

/-! ## what the default columns show -/

open RichModel.ProgressFmt in
/-- **`str(timedelta(seconds=n))`** (the text of `TimeRemainingColumn` / `TimeElapsedColumn`): the printed
fields are Python's floor `divmod`s — `days·86400 + h·3600 + m·60 + s = n` with `0 ≤ h < 24`,
`0 ≤ m, s < 60` for *every* integer `n` (negative ones borrow a day) — and the call raises
`OverflowError` exactly when `|days| > 999999999`. -/
theorem td_fields_spec (n : Int) :
    (tdFields n).1 * 86400 + (tdFields n).2.1 * 3600 + (tdFields n).2.2.1 * 60 + (tdFields n).2.2.2 = n ∧
    0 ≤ (tdFields n).2.1 ∧ (tdFields n).2.1 < 24 ∧ 0 ≤ (tdFields n).2.2.1 ∧ (tdFields n).2.2.1 < 60 ∧
    0 ≤ (tdFields n).2.2.2 ∧ (tdFields n).2.2.2 < 60 ∧
    (tdStr n = .error .overflow ↔ 999999999 < (n / 86400).natAbs) := by
  have h := tdFields_spec n
  refine ⟨h.1, h.2.1, h.2.2.1, h.2.2.2.1, h.2.2.2.2.1, h.2.2.2.2.2.1, h.2.2.2.2.2.2, ?_⟩
  unfold tdStr
  simp only [tdFields]
  by_cases hov : 999999999 < (n / 86400).natAbs
  · simp [hov]
  · simp only [hov, if_false, iff_false]
    by_cases hz : n / 86400 = 0 <;> simp [hz]

open RichModel.ProgressFmt in
/-- Within a day the text is `h:mm:ss`. -/
theorem td_str_hms (n : Int) (h0 : 0 ≤ n) (h1 : n < 86400) :
    tdStr n = .ok (natStr (n / 3600).toNat ++ ':' :: pad2 (n / 60 % 60).toNat ++ ':' :: pad2 (n % 60).toNat) := by
  have hd : n / 86400 = 0 := by omega
  have hm : n % 86400 = n := by omega
  unfold tdStr
  simp only [tdFields, hd, hm]
  simp

open RichModel.ProgressFmt in
/-- **`TimeRemainingColumn`** shows `-:--:--` exactly when there is no estimate (`time_remaining is None`). -/
theorem time_remaining_text_dashes (cfg : Cfg) (t : Task) :
    timeRemainingText cfg t = .ok dashes ↔ t.timeRemaining cfg = none := by
  unfold timeRemainingText
  cases hr : t.timeRemaining cfg with
  | none => simp
  | some r =>
    simp only [reduceCtorEq, iff_false]
    exact tdStr_ne_dashes r

open RichModel.ProgressFmt in
example : timeRemainingText ⟨30, 1000, 4, false, 0⟩ ⟨0, 0, 10, 3, none, true, [], some 0, none, [⟨0, 1⟩, ⟨8, 2⟩]⟩ = .ok "0:00:07".toList ∧
    tdStr 3661 = .ok "1:01:01".toList ∧ tdStr (-1) = .ok "-1 day, 23:59:59".toList ∧
    tdStr 172800 = .ok "2 days, 0:00:00".toList ∧ tdStr (10 ^ 18) = .error .overflow := by decide

open RichModel.ProgressFmt in
/-- **`BarColumn`** hands `ProgressBar` a non-negative total and count (negative ones are clamped to 0,
others untouched) and pulses exactly for a task that was not started. -/
theorem bar_args_clamped (t : Task) :
    0 ≤ (barArgs t).1 ∧ 0 ≤ (barArgs t).2.1 ∧ (0 ≤ t.total → (barArgs t).1 = t.total) ∧
    (0 ≤ t.completed → (barArgs t).2.1 = t.completed) ∧ ((barArgs t).2.2 = true ↔ t.startTime = none) := by
  simp only [barArgs, Task.started]
  refine ⟨by omega, by omega, by omega, by omega, ?_⟩
  cases t.startTime <;> simp

open RichModel.ProgressFmt in
/-- **A bar is exactly `width` cells wide** whenever the number of complete half cells it computes is at
most `2 · width`.

Full statement (not proved): `barHalves width total completed ≤ 2 * width` for every `total ≠ 0` — it is
`⌊RN(2·width·c / total)⌋` with `0 ≤ c/total ≤ 1`, and needs monotonicity of the correctly rounded
division `rn53`; the harness evaluates that bound on every drawn bar (`bar_cells`).  For `total = 0`
the hypothesis holds by definition (`bar_halves_zero_total`). -/
theorem bar_text_width_partial (width : Nat) (total completed : Int)
    (h : barHalves width total completed ≤ 2 * width) : (barText width total completed).length = width := by
  unfold barText
  generalize barHalves width total completed = hv at h
  simp only [List.length_append, List.length_replicate]
  have h1 : hv.toNat ≤ 2 * width := by omega
  split
  · simp only [List.length_nil]; omega
  · split
    · simp only [List.length_cons, List.length_replicate]; omega
    · simp only [List.length_replicate]; omega

open RichModel.ProgressFmt in
theorem bar_halves_zero_total (width : Nat) (completed : Int) : barHalves width 0 completed = 2 * width := by
  simp [barHalves]

open RichModel.ProgressFmt in
example : barText 10 100 35 = "━━━╸━━━━━━".toList ∧ barText 4 8 4 = "━━╺━".toList ∧ barText 3 0 0 = "━━━".toList ∧
    barHalves 10 100 35 = 7 ∧ pctText ⟨0, 0, 8, 1, none, true, [], none, none, []⟩ = " 12".toList ∧
    pctText ⟨0, 0, 200, 3, none, true, [], none, none, []⟩ = "  2".toList := by decide

end RichModel.C12
