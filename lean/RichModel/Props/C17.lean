import RichModel.Lemmas.SyntaxTraceback
import RichModel.Lemmas.SyntaxHistory
import RichModel.Lemmas.SyntaxStyles
import RichModel.Lemmas.SyntaxMeasure
import RichModel.Lemmas.SyntaxTrace
import RichModel.Lemmas.SyntaxGutter
/-
Property C17 — Syntax and tracebacks show the source line for line under the right numbers.

Everything below is about the executable model `RichModel.Syntax` (Model/Syntax.lean), for an ARBITRARY
lexer `lex` that meets the contract "the token texts concatenate to Pygments' preprocessing of the code it
was handed", an arbitrary cell-width function `cw`, and sources / widths / ranges of any size.
The theorems are stated for the REPAIRED variant (`stripnl = false`, `skipRaises = false`, `rangePop = false`):
all three are what /repo contains now (`fix:` commits 92fb879, 1d638e8, bc6c38f); the `old_…` witnesses show that
the variants of rich 9.10.0 as found (`= true`) violate them.  Two further variants exist only to say what the
history / purity theorems rule out (`renderHistory true`: a source cache that outlives a call; `objRenders true`:
a highlighted Text remembered on the instance) — no version of rich had them.
The C09 clause for Syntax (`__rich_measure__`): `measure_maximum_sound` for the repaired variant, `old_measure_maximum_one_short_with_numbers` as found; re-exported in Props/C09.lean.

Vocabulary (Lemmas/Syntax*.lean):
  `splitNL s`            `s.split("\n")`,
  `srcLines s`           the source lines as a reader counts them: `s.split("\n")` without the empty string a final
                         newline leaves behind,
  `shownCode o code`     the text that is shown: `textwrap.dedent(code)` when `dedent` is on, else `code`,
  `expandTabs ts code`   `code.expandtabs(ts)`,
  `Trail n D P`          `D` is `P` except that at most `n` EMPTY lines are missing at the very end,
  `expectedLines r P`    all of `P`, or lines `a..b` of `P` (1-based, clipped to the lines that exist),
  `numberRows s hl bs`   rows numbered `s, s+1, …`, marked iff the number is in `hl`,
  `fitLine cw w pad nc`  a line put into a column of `w` cells (unchanged if it fits, up to padding).
-/
namespace RichModel.C17
open RichModel RichModel.Syntax

/-- The hypotheses shared by the theorems: a clean shown text (no BS/VT/FF/CR, no byte-order mark), the lexer
contract at it, indent guides off (they have their own theorem), a non-negative range end, room to write a row
when word wrap is on, and `dedent` not adding newlines (it never does). -/
structure Setting (o : Opts) (found : Bool) (lex : List Char → List Line) (code : List Char) : Prop where
  clean : Clean (shownCode o code)
  contract : found = true → (lex (expandTabs o.tabSize (shownCode o code))).flatten = pygPre false (expandTabs o.tabSize (shownCode o code))
  noGuides : (o.indentGuides && !o.asciiOnly) = false
  rangeEnd : ∀ a b, o.lineRange = some (a, b) → 0 ≤ b
  room : (o.wordWrap && decide (codeWidthInt o code < 1)) = false
  dedentNL : countNL (shownCode o code) ≤ countNL code

/-- The code column's width and crop switch, as `__rich_console__` computes them. -/
abbrev colWidth (o : Opts) (code : List Char) : Nat := (codeWidthInt o code).toNat
abbrev noCrop (o : Opts) : Bool := !o.wordWrap && o.optNoWrap
/-- the tab-expanded text that is shown -/
abbrev shownSrc (o : Opts) (code : List Char) : List Char := expandTabs o.tabSize (shownCode o code)

/-! ## Highlighting never changes the characters of the code -/

/-- `Syntax.highlight` returns the source itself: with a lexer, the source with its final newline ensured, cut
after a whole line when a range is given; without a lexer, the source.  No character is altered, none is
dropped from the middle.  (Full strength: every token stream meeting the contract, every range.) -/
theorem highlighting_keeps_characters (found : Bool) (toks : List Line) (src : List Char) (range : Option (Int × Int))
    (hclean : Clean src) (hlex : found = true → toks.flatten = pygPre false src) :
    ∃ text, highlight false found toks src range = .ok text ∧ text <+: ensureNL src ∧
      (range = none → text = src ∨ text = src ++ ['\n']) ∧
      (∀ a b, range = some (a, b) → found = true → text = takeThroughNL (rangeEnd a b) (ensureNL src)) := by
  cases found with
  | false =>
    refine ⟨src, by simp [highlight, stripCtl_clean src hclean], ?_, fun _ => Or.inl rfl, fun _ _ _ h => by cases h⟩
    unfold ensureNL; split
    · exact List.prefix_refl _
    · exact List.prefix_append _ _
  | true =>
    have hflat : toks.flatten = ensureNL src := by rw [hlex rfl, pygPre_clean src hclean]
    cases range with
    | none =>
      refine ⟨toks.flatten, by simp [highlight], (by rw [hflat]; exact List.prefix_refl _), fun _ => ?_, fun _ _ h => by cases h⟩
      rw [hflat]; unfold ensureNL; split
      · exact Or.inl rfl
      · exact Or.inr rfl
    | some ab =>
      obtain ⟨a, b⟩ := ab
      refine ⟨_, highlight_ranged toks src a b, (by rw [hflat]; exact takeThroughNL_prefix _ _), (fun h => by cases h), ?_⟩
      intro a' b' h _
      cases h
      rw [hflat]

/-! ## Highlighting gives every character the style of its token -/

/-- For every token stream (texts with opaque style ids, as the lexer and the theme deliver them) and every range:
the styled text has exactly the characters of `highlight`; without a lexer no character carries a token style; with
a lexer every character carries the style of the token it came from, except that the lines BEFORE line `a` of a range
`(a, b)` are left unstyled (`specStyle`: the reference walk over the token characters).  This is what a change of
`_line_start`, of the token/style pairing or of the piece splitting would break. -/
theorem highlight_styles_follow_tokens (found : Bool) (toks : List (Line × StyleId)) (src : List Char)
    (range : Option (Int × Int)) :
    ∃ st, highlightStyled false found toks src range = .ok st ∧
      highlight false found (toks.map Prod.fst) src range = .ok (st.map Prod.fst) ∧
      (found = false → ∀ p ∈ st, p.2 = none) ∧
      (found = true → st <+: specStyle (match range with | some (a, _) => (a - 1).toNat | none => 0) 0 (tokChars toks)) :=
  highlightStyled_spec found toks src range

/-! ## The selected lines are the source lines -/

/-- Range selection, full strength: with line numbers shown and a range `(a, b)`, the rows are numbered
consecutively from `start_line + max(0, a-1)` and show — each fitted into the code column — EXACTLY lines `a..b`
of the tab-expanded source, clipped to the lines that exist.  No allowance: a blank line that ends the range is
shown like any other.  The error branch is excluded: the repaired code returns rows for every range. -/
theorem range_selects_clipped (cw : Char → Nat) (o : Opts) (found : Bool) (lex : List Char → List Line)
    (code : List Char) (h : Setting o found lex code) (a b : Int) (hr : o.lineRange = some (a, b)) :
    numberedRows cw false false o found lex code =
      .ok (numberRows (o.startLine + (a - 1).toNat) o.highlightLines
            ((((srcLines (shownSrc o code)).take b.toNat).drop (a - 1).toNat).map
              (fitLine cw (colWidth o code) o.pad (noCrop o)))) := by
  obtain ⟨sel, hs, _, hsome⟩ := selected_exact o found lex code h.clean h.contract h.noGuides h.rangeEnd
  have hoff : lineOffset o = (a - 1).toNat := by simp [lineOffset, hr]
  simp only [numberedRows, hs, h.room, Bool.false_eq_true, if_false, hoff, hsome a b hr]

/-- Without a range, numbered: the rows show the source lines in order from the first, numbered from
`start_line`; only ONE empty line at the very end of the source may be missing. -/
theorem lines_are_source_lines (cw : Char → Nat) (o : Opts) (found : Bool) (lex : List Char → List Line)
    (code : List Char) (h : Setting o found lex code) (hr : o.lineRange = none) :
    ∃ sel, Trail 1 sel (srcLines (shownSrc o code)) ∧
      numberedRows cw false false o found lex code =
        .ok (numberRows o.startLine o.highlightLines (sel.map (fitLine cw (colWidth o code) o.pad (noCrop o)))) := by
  obtain ⟨sel, hs, hnone, _⟩ := selected_exact o found lex code h.clean h.contract h.noGuides h.rangeEnd
  have hoff : lineOffset o = 0 := by simp [lineOffset, hr]
  exact ⟨sel, hnone hr, by simp only [numberedRows, hs, h.room, Bool.false_eq_true, if_false, hoff, Nat.add_zero]⟩

/-- Both cases in the form the numbering and gutter theorems use: the rows are the expected slice of
`source.split("\n")`, numbered from `start_line + offset`, up to at most two empty strings at the very end (the one
a final newline leaves behind, and — only without a range — one empty last line). -/
theorem rows_are_numbered_selection (cw : Char → Nat) (o : Opts) (found : Bool) (lex : List Char → List Line)
    (code : List Char) (h : Setting o found lex code) :
    ∃ sel, Trail 2 sel (expectedLines o.lineRange (splitNL (shownSrc o code))) ∧
      numberedRows cw false false o found lex code =
        .ok (numberRows (o.startLine + lineOffset o) o.highlightLines
              (sel.map (fitLine cw (colWidth o code) o.pad (noCrop o)))) := by
  obtain ⟨sel, hs, ht⟩ := selected_trail o found lex code h.clean h.contract h.noGuides h.rangeEnd
  exact ⟨sel, ht, by simp only [numberedRows, hs, h.room, Bool.false_eq_true, if_false]⟩

/-- Without line numbers and without a range (and with room to write): the rows are exactly the source lines in
order, each fitted. -/
theorem plain_lines_are_source_lines (cw : Char → Nat) (o : Opts) (found : Bool) (lex : List Char → List Line)
    (code : List Char) (h : Setting o found lex code) (hr : o.lineRange = none) (hw : 1 ≤ codeWidthInt o code) :
    plainRows cw false o found lex code =
      .ok ((srcLines (shownSrc o code)).map (fitLine cw (colWidth o code) o.pad false)) := by
  have hcl := h.clean.expandTabs o.tabSize
  obtain ⟨m, text, hhl, _, hrs, hm, hnone, _⟩ :=
    highlight_lines found (lex (shownSrc o code)) (shownSrc o code) o.lineRange hcl h.contract
  obtain ⟨hne, hno, _, _⟩ := ensureNL_srcLines (shownSrc o code)
  have hL : (srcLines (shownSrc o code)).take m = srcLines (shownSrc o code) := List.take_of_length_le (hnone hr)
  have hnw : ¬ codeWidthInt o code < 1 := by omega
  unfold plainRows
  simp only [hhl, hnw, decide_false, Bool.false_eq_true, if_false]
  rw [hrs, hL, textSplit_allow_unlinesT _ hne hno, map_stripCtl_id (srcLines_clean hcl)]

/-- A line that fits the code column is shown exactly, followed by padding spaces only; a longer line is what
`set_cell_size` leaves of it (by C13's `setCellSize_exact`: a prefix, plus one space when a wide character
straddles the edge). -/
theorem fitted_line_is_line (cw : Char → Nat) (w : Nat) (pad nc : Bool) (l : Line) :
    (cellLen cw l ≤ w → fitLine cw w pad nc l = l ++ List.replicate (if pad && !nc then w - cellLen cw l else 0) ' ') ∧
    (w < cellLen cw l → fitLine cw w pad false l = setCellSize cw l w) ∧
    fitLine cw w pad true l = l :=
  ⟨fitLine_fits cw w pad nc l, fitLine_crops cw w pad l, by simp [fitLine]⟩

/-! ## Each displayed number is the number of that line -/

/-- The row at position `i` carries number `start_line + offset + i`, shows the source line with that number
(counting the first source line as `start_line`), and is marked exactly when its number is in `highlight_lines`. -/
theorem numbers_are_line_numbers (cw : Char → Nat) (o : Opts) (found : Bool) (lex : List Char → List Line)
    (code : List Char) (h : Setting o found lex code) :
    ∃ rows, numberedRows cw false false o found lex code = .ok rows ∧
      ∀ r ∈ rows, o.startLine ≤ r.num ∧
        (∃ l, (splitNL (shownSrc o code))[r.num - o.startLine]? = some l ∧
              r.body = fitLine cw (colWidth o code) o.pad (noCrop o) l) ∧
        r.marked = o.highlightLines.contains r.num := by
  obtain ⟨sel, ht, he⟩ := rows_are_numbered_selection cw o found lex code h
  refine ⟨_, he, ?_⟩
  intro r hr
  obtain ⟨i, hi, hnum, hbody, hmark⟩ := numberRows_mem hr
  rw [List.length_map] at hi
  have hnum' : r.num - o.startLine = lineOffset o + i := by omega
  refine ⟨by omega, ?_, by rw [hmark, hnum]⟩
  rw [List.getElem?_map, List.getElem?_eq_getElem hi] at hbody
  refine ⟨sel[i], ?_, by simpa using hbody.symm⟩
  have h1 := ht.getElem? i hi
  rw [List.getElem?_eq_getElem hi] at h1
  rw [hnum', h1]
  cases hrng : o.lineRange with
  | none => simp [expectedLines, lineOffset, hrng]
  | some ab =>
    obtain ⟨a, b⟩ := ab
    have hlt : i < (expectedLines o.lineRange (splitNL (shownSrc o code))).length :=
      Nat.lt_of_lt_of_le hi ht.length_le
    simp only [expectedLines, hrng, List.length_drop, List.length_take] at hlt
    simp only [expectedLines, lineOffset, hrng, List.getElem?_drop]
    rw [List.getElem?_take_of_lt (by omega)]

/-! ## The gutter is wide enough -/

/-- Every displayed number fits the numbers column computed from the number of newlines in the code: all rows
have a gutter of exactly `numbers_column_width + 1` characters, and removing it leaves the code cell. -/
theorem gutter_wide_enough (cw : Char → Nat) (o : Opts) (found : Bool) (lex : List Char → List Line)
    (code : List Char) (h : Setting o found lex code) (hn : o.lineNumbers = true) :
    ∃ rows, numberedRows cw false false o found lex code = .ok rows ∧
      ∀ r ∈ rows, (natStr r.num).length + 2 ≤ numbersColumnWidth o code ∧
        (r.render (numbersColumnWidth o code) o.legacyWindows).length = numbersColumnWidth o code + 1 + r.body.length ∧
        (r.render (numbersColumnWidth o code) o.legacyWindows).drop (numbersColumnWidth o code + 1) = r.body := by
  obtain ⟨rows, he, hall⟩ := numbers_are_line_numbers cw o found lex code h
  refine ⟨rows, he, ?_⟩
  intro r hr
  obtain ⟨hge, ⟨l, hl, _⟩, _⟩ := hall r hr
  have hlt : r.num - o.startLine < (splitNL (shownSrc o code)).length := by
    rcases Nat.lt_or_ge (r.num - o.startLine) (splitNL (shownSrc o code)).length with h1 | h1
    · exact h1
    · rw [List.getElem?_eq_none h1] at hl; cases hl
  rw [length_splitNL, countNL_expandTabs] at hlt
  have hde := h.dedentNL
  have hle : r.num ≤ o.startLine + countNL code := by omega
  have hw : (natStr r.num).length + 2 ≤ numbersColumnWidth o code := by
    have := natStr_length_mono _ _ hle
    simp only [numbersColumnWidth, hn, if_true]
    omega
  exact ⟨hw, Row.render_shape _ _ r hw⟩

/-! ## `__rich_measure__` (the C09 clause "rendering at the reported maximum fits")

`measureV short`: `short = true` is rich 9.10.0 as found, `short = false` the repaired variant
(pending_fixes/C09-syntax-measure-one-short.diff: `+ 1` for the blank after the line number). -/

/-- Without line numbers the clause holds in either variant: every row takes at most `code_width` cells, which is the reported
maximum when `code_width` is given, and one less than it otherwise. -/
theorem measure_maximum_fits_without_numbers (cw : Char → Nat) (hsp : cw ' ' = 1) (h2 : ∀ c, cw c ≤ 2) (short : Bool)
    (o : Opts) (found : Bool) (lex : List Char → List Line) (code : List Char) (hn : o.lineNumbers = false)
    (rows : List Line) (hr : plainRows cw false o found lex code = .ok rows) :
    ∀ r ∈ rows, cellLen cw r ≤ (measureV short o code o.maxWidth).2 := by
  intro r hrow
  unfold plainRows at hr
  cases hh : highlight false found (lex (expandTabs o.tabSize (shownCode o code))) (expandTabs o.tabSize (shownCode o code)) o.lineRange with
  | error e => simp only [hh] at hr; cases hr
  | ok text =>
    simp only [hh] at hr
    by_cases hlt : decide (codeWidthInt o code < 1) = true
    · simp only [hlt, if_true] at hr
      cases hr; cases hrow
    · simp only [hlt, Bool.false_eq_true, if_false] at hr
      cases hr
      obtain ⟨l, _, rfl⟩ := List.mem_map.mp hrow
      have hle := fitLine_cellLen_le cw hsp h2 (codeWidthInt o code).toNat o.pad l
      have hncw : numbersColumnWidth o code = 0 := by simp [numbersColumnWidth, hn]
      unfold measureV
      cases hc : o.codeWidth with
      | some w => simp only [codeWidthInt, hc, hncw, hn] at hle ⊢; omega
      | none => simp only [codeWidthInt, hc, hncw] at hle ⊢; omega

/-- AS FOUND, with line numbers and an explicit `code_width` the clause FAILS: the reported maximum
`code_width + numbers_column_width` forgets the blank that follows the number, so every row whose code cell is full (every
padded row, every line at least `code_width` long) is one character longer than the maximum. -/
theorem old_measure_maximum_one_short_with_numbers (cw : Char → Nat) (o : Opts) (found : Bool) (lex : List Char → List Line)
    (code : List Char) (h : Setting o found lex code) (hn : o.lineNumbers = true) (w : Nat) (hw : o.codeWidth = some w) :
    ∃ rows, numberedRows cw false false o found lex code = .ok rows ∧
      ∀ r ∈ rows, w ≤ r.body.length →
        (measureV true o code o.maxWidth).2 < (r.render (numbersColumnWidth o code) o.legacyWindows).length := by
  obtain ⟨rows, he, hall⟩ := gutter_wide_enough cw o found lex code h hn
  refine ⟨rows, he, ?_⟩
  intro r hr hlen
  rw [(hall r hr).2.1]
  simp only [measureV, hw, Bool.not_true, Bool.false_and, Bool.false_eq_true, if_false, Nat.add_zero]
  omega

/-- The cells of a numbered row (cropping on: `options.no_wrap` off or word wrap on): `numbers_column_width + 1` for the
gutter, then a code cell of at most `code_width` cells — exactly `code_width` when the background is not transparent
(`pad`), because the cell is then padded. -/
theorem numbered_row_cells (cw : Char → Nat) (h1 : ∀ c, GutterChar c → cw c = 1) (h2 : ∀ c, cw c ≤ 2)
    (o : Opts) (found : Bool) (lex : List Char → List Line) (code : List Char) (h : Setting o found lex code)
    (hn : o.lineNumbers = true) (hnc : noCrop o = false) :
    ∃ rows, numberedRows cw false false o found lex code = .ok rows ∧
      ∀ r ∈ rows,
        cellLen cw (r.render (numbersColumnWidth o code) o.legacyWindows) = numbersColumnWidth o code + 1 + cellLen cw r.body ∧
        cellLen cw r.body ≤ colWidth o code ∧ (o.pad = true → cellLen cw r.body = colWidth o code) := by
  have hsp : cw ' ' = 1 := h1 ' ' (Or.inl rfl)
  obtain ⟨rows, he, hgut⟩ := gutter_wide_enough cw o found lex code h hn
  obtain ⟨rows', he', hnum⟩ := numbers_are_line_numbers cw o found lex code h
  have : rows' = rows := by rw [he] at he'; cases he'; rfl
  subst this
  refine ⟨rows', he, ?_⟩
  intro r hr
  obtain ⟨_, ⟨l, _, hbody⟩, _⟩ := hnum r hr
  rw [hnc] at hbody
  refine ⟨Row.render_cells cw h1 _ _ r (hgut r hr).1, ?_, ?_⟩
  · rw [hbody]; exact fitLine_cellLen_le cw hsp h2 _ _ l
  · intro hp
    rw [hbody, hp]
    unfold fitLine
    simp only [Bool.false_eq_true, if_false, if_true]
    by_cases ha : cellLen cw l < colWidth o code
    · simp only [ha, if_true]
      rw [cellLen_append, cellLen_replicate, hsp]; omega
    · simp only [ha, if_false]
      by_cases hb : cellLen cw l > colWidth o code
      · simp only [hb, if_true]
        exact (setCellSize_exact cw hsp h2 l _).1
      · simp only [hb, if_false]; omega

/-- REPAIRED, the sound statement: with line numbers and an explicit `code_width`, every rendered row takes at most the
reported maximum `code_width + numbers_column_width + 1` — and exactly that many cells when the background is not transparent.
Hypotheses the render path needs: cropping on (`options.no_wrap` off, or word wrap on), gutter characters and blanks one cell
wide, no character wider than two cells. -/
theorem measure_maximum_sound (cw : Char → Nat) (h1 : ∀ c, GutterChar c → cw c = 1) (h2 : ∀ c, cw c ≤ 2)
    (o : Opts) (found : Bool) (lex : List Char → List Line) (code : List Char) (h : Setting o found lex code)
    (hn : o.lineNumbers = true) (hnc : noCrop o = false) (w : Nat) (hw : o.codeWidth = some w) :
    ∃ rows, numberedRows cw false false o found lex code = .ok rows ∧
      ∀ r ∈ rows,
        cellLen cw (r.render (numbersColumnWidth o code) o.legacyWindows) ≤ (measureV false o code o.maxWidth).2 ∧
        (o.pad = true →
          cellLen cw (r.render (numbersColumnWidth o code) o.legacyWindows) = (measureV false o code o.maxWidth).2) := by
  obtain ⟨rows, he, hall⟩ := numbered_row_cells cw h1 h2 o found lex code h hn hnc
  refine ⟨rows, he, ?_⟩
  intro r hr
  obtain ⟨hc, hle, heq⟩ := hall r hr
  have hcol : colWidth o code = w := by simp [colWidth, codeWidthInt, hw]
  have hmax : (measureV false o code o.maxWidth).2 = w + numbersColumnWidth o code + 1 := by
    simp [measureV, hw, hn]
  rw [hc, hmax]
  exact ⟨by omega, fun hp => by have := heq hp; omega⟩

/-- … and without an explicit `code_width` (maximum = the width offered), as soon as the gutter and its blank fit:
rows take at most the width offered (exactly, on a non-transparent background). -/
theorem measure_maximum_sound_auto (cw : Char → Nat) (h1 : ∀ c, GutterChar c → cw c = 1) (h2 : ∀ c, cw c ≤ 2) (short : Bool)
    (o : Opts) (found : Bool) (lex : List Char → List Line) (code : List Char) (h : Setting o found lex code)
    (hn : o.lineNumbers = true) (hnc : noCrop o = false) (hw : o.codeWidth = none)
    (hroom : numbersColumnWidth o code + 1 ≤ o.maxWidth) :
    ∃ rows, numberedRows cw false false o found lex code = .ok rows ∧
      ∀ r ∈ rows,
        cellLen cw (r.render (numbersColumnWidth o code) o.legacyWindows) ≤ (measureV short o code o.maxWidth).2 ∧
        (o.pad = true →
          cellLen cw (r.render (numbersColumnWidth o code) o.legacyWindows) = (measureV short o code o.maxWidth).2) := by
  obtain ⟨rows, he, hall⟩ := numbered_row_cells cw h1 h2 o found lex code h hn hnc
  refine ⟨rows, he, ?_⟩
  intro r hr
  obtain ⟨hc, hle, heq⟩ := hall r hr
  have hcol : colWidth o code = o.maxWidth - numbersColumnWidth o code - 1 := by
    simp only [colWidth, codeWidthInt, hw]; omega
  have hmax : (measureV short o code o.maxWidth).2 = o.maxWidth := by simp [measureV, hw]
  rw [hc, hmax]
  exact ⟨by omega, fun hp => by have := heq hp; omega⟩

/-- minimum ≤ maximum, in either variant: always with an explicit `code_width`; otherwise as soon as the width offered
holds the numbers column. -/
theorem measure_minimum_le_maximum (short : Bool) (o : Opts) (code : List Char) (maxWidth : Nat)
    (h : o.codeWidth = none → numbersColumnWidth o code ≤ maxWidth) :
    (measureV short o code maxWidth).1 ≤ (measureV short o code maxWidth).2 := by
  unfold measureV
  cases hc : o.codeWidth with
  | some w => simp only; omega
  | none => exact h hc

/-! ## Indent guides only overdraw leading spaces -/

/-- `indent_guides` (repaired variant, `tab_size ≥ 1`, any list of newline-free lines): never an error; as many
lines out as in, each at its place (an empty selection stays empty, a blank line that ends the selection stays);
a non-blank line keeps its length and everything after its leading spaces, and inside the leading spaces only
guide characters appear; a blank line shows spaces and guides only. -/
theorem guides_only_overdraw_indent (ts : Nat) (hts : 1 ≤ ts) (lines : List Line) (hno : ∀ l ∈ lines, '\n' ∉ l) :
    ∃ out, indentGuides false ts lines = .ok out ∧ GuideRel lines out :=
  indentGuides_spec ts hts lines hno

/-! ## Tracebacks mark the failing line -/

/-- Corollary for `Traceback._render_stack`: the Syntax built for a frame at line `lineno` of a readable file —
whatever the file's leading blank lines or length, for every `extra_lines`, with or without indent guides and
word wrap — has exactly one marked row; it carries the number `lineno` and shows line `lineno` of the file,
fitted into 88 cells, with at most its leading spaces overdrawn by indent guides.
`¬ Blank l`: the failing line holds a statement. -/
theorem traceback_marks_failing_line (cw : Char → Nat) (lineno extra : Nat) (wordWrap guides : Bool)
    (maxWidth : Nat) (nw lw asc pad found : Bool) (lex : List Char → List Line) (code : List Char) (l : Line)
    (hclean : Clean code)
    (hlex : found = true → (lex (expandTabs 4 code)).flatten = pygPre false (expandTabs 4 code))
    (hpos : 1 ≤ lineno) (hline : (splitNL (expandTabs 4 code))[lineno - 1]? = some l) (hl : ¬ Blank l) :
    let o := tracebackOpts lineno extra wordWrap guides maxWidth nw lw asc pad
    ∃ rows g, numberedRows cw false false o found lex code = .ok rows ∧
      rows.filter (·.marked) = [{ num := lineno, marked := true, body := fitLine cw 88 pad (noCrop o) g }] ∧
      (if guides && !asc then GuideOf l g else g = l) := by
  intro o
  have hne : l ≠ [] := fun e => hl (e ▸ blank_nil)
  obtain ⟨sel, hs, hno, hle, hsel⟩ :=
    traceback_selected lineno extra wordWrap maxWidth nw lw asc pad found lex code l hclean hlex hpos hline hne
  have hsl := selectedLines_guides false false o found lex code
  have ho0 : ({ o with indentGuides := false } : Opts) = tracebackOpts lineno extra wordWrap false maxWidth nw lw asc pad := rfl
  rw [ho0, hs] at hsl
  have hoff : lineOffset o = ((lineno : Int) - extra - 1).toNat := by simp [o, tracebackOpts, lineOffset]
  have hcw : colWidth o code = 88 := by simp [colWidth, codeWidthInt, o, tracebackOpts]
  -- whichever list of lines is numbered, the marked row is the one at the failing line's position
  have key : ∀ (lines : List Line) (g : Line), selectedLines false false o found lex code = .ok lines →
      lines[lineno - (1 + ((lineno : Int) - extra - 1).toNat)]? = some g →
      ∃ rows, numberedRows cw false false o found lex code = .ok rows ∧
        rows.filter (·.marked) = [{ num := lineno, marked := true, body := fitLine cw 88 pad (noCrop o) g }] := by
    intro lines g hlines hg
    have hroom : (o.wordWrap && decide (codeWidthInt o code < 1)) = false := by
      simp [codeWidthInt, o, tracebackOpts]
    refine ⟨_, by simp only [numberedRows, hlines, hroom, Bool.false_eq_true, if_false]; rfl, ?_⟩
    have hstart : o.startLine = 1 := rfl
    have hhl : o.highlightLines = [lineno] := rfl
    have hpad : o.pad = pad := rfl
    have hcw' : (codeWidthInt o code).toNat = 88 := hcw
    rw [hhl, numberRows_filter_marked, hstart, hcw', hpad, hoff]
    simp only [hle, if_true]
    rw [List.getElem?_map, hg]
    rfl
  cases hga : (guides && !asc) with
  | false =>
    have : (o.indentGuides && !o.asciiOnly) = false := hga
    simp only [this, Bool.false_eq_true, if_false] at hsl
    obtain ⟨rows, h1, h2⟩ := key sel l hsl hsel
    exact ⟨rows, l, h1, h2, by simp⟩
  | true =>
    have : (o.indentGuides && !o.asciiOnly) = true := hga
    have hts : o.tabSize = 4 := rfl
    simp only [this, if_true, hts] at hsl
    obtain ⟨out, hout, hrel⟩ := indentGuides_spec 4 (by omega) sel hno
    rw [hout] at hsl
    have hj : lineno - (1 + ((lineno : Int) - extra - 1).toNat) < sel.length := by
      rcases Nat.lt_or_ge (lineno - (1 + ((lineno : Int) - extra - 1).toNat)) sel.length with h1 | h1
      · exact h1
      · rw [List.getElem?_eq_none h1] at hsel; cases hsel
    have hselj : sel[lineno - (1 + ((lineno : Int) - extra - 1).toNat)] = l := by
      rw [List.getElem?_eq_getElem hj] at hsel; exact Option.some.inj hsel
    have hjo : lineno - (1 + ((lineno : Int) - extra - 1).toNat) < out.length := by
      rw [hrel.length_eq]; exact hj
    have hg := hrel.shown _ hjo hj
    rw [hselj] at hg
    obtain ⟨rows, h1, h2⟩ := key out _ hsl (List.getElem?_eq_getElem hjo)
    exact ⟨rows, _, h1, h2, by simpa using hg⟩

/-! ## What a traceback shows depends only on the files as they are when it is rendered -/

/-- History independence of `_render_stack`: for EVERY history of renders (each with its own file system and
frames, of any length), the code each frame's Syntax is built from is the file's content at the moment of that
render — earlier renders, and earlier contents of the same path, leave no trace.  Together with
`traceback_marks_failing_line` (which is about that code): the marked row shows the failing line of the file as
it is now. -/
theorem render_history_independent (history : List ((FileId → List Char) × List FileId))
    (cache : List (FileId × List Char)) :
    renderHistory false cache history = history.map (fun h => h.2.map h.1) := by
  induction history generalizing cache with
  | nil => rfl
  | cons h rest ih =>
    obtain ⟨fs, frames⟩ := h
    simp only [renderHistory, Bool.false_eq_true, if_false, List.map_cons]
    rw [(stackCodesFrom_spec fs frames [] (cacheInv_nil fs)).1, ih]

/-- Within one render the cache is transparent too: a file read once and looked up again gives the same code. -/
theorem stack_cache_transparent (fs : FileId → List Char) (frames : List FileId) :
    (stackCodesFrom fs [] frames).1 = frames.map fs :=
  (stackCodesFrom_spec fs frames [] (cacheInv_nil fs)).1

/-- Why the cache must not outlive a call: with a persistent cache, a file changed between two renders is
shown with its OLD text (file 0 holds "a" first, then "\nb"; the second render still gets "a"). -/
theorem persistent_cache_would_show_stale_code :
    renderHistory true [] [((fun _ => "a".toList), [0]), ((fun _ => "\nb".toList), [0])]
      = [["a".toList], ["a".toList]] := by
  decide

/-! ## The code before the fixes violates the statements (witnesses for the three defects; variant flags = true) -/

/-- The lexer every witness uses: one token holding Pygments' preprocessing (it meets the contract of its
variant by definition). -/
def oneToken (stripnl : Bool) : List Char → List Line := fun s => [pygPre stripnl s]

def demoOpts (range : Option (Int × Int)) (hl : List Nat) (guides : Bool := false) : Opts :=
  { lineNumbers := true, startLine := 1, lineRange := range, highlightLines := hl, codeWidth := some 20, tabSize := 4,
    wordWrap := false, indentGuides := guides, maxWidth := 40, optNoWrap := false, legacyWindows := false,
    asciiOnly := false, pad := false }

def demoCode : List Char := "\n\nx=1\ny=2\n".toList

/-- F13 (`stripnl=True`): two leading blank lines vanish; `x=1` (line 3) is shown under number 1 … -/
theorem old_stripnl_shifts_numbers :
    numberedRows (fun _ => 1) true true (demoOpts none []) true (oneToken true) demoCode =
      .ok [{ num := 1, marked := false, body := "x=1".toList }, { num := 2, marked := false, body := "y=2".toList }] := by
  decide

/-- … so the full-strength statement fails for that variant: no list of shown lines is the source lines up
to trailing blank lines. -/
theorem old_stripnl_breaks_lines_are_source_lines :
    ¬ ∃ sel, Trail 2 sel (splitNL (expandTabs 4 demoCode)) ∧
        selectedLines true true (demoOpts none []) true (oneToken true) demoCode = .ok sel := by
  rintro ⟨sel, ⟨k, hk, e⟩, hs⟩
  have hsel : sel = ["x=1".toList, "y=2".toList] := by
    have : selectedLines true true (demoOpts none []) true (oneToken true) demoCode = .ok ["x=1".toList, "y=2".toList] := by decide
    rw [this] at hs; cases hs; rfl
  subst hsel
  have hP : splitNL (expandTabs 4 demoCode) = [[], [], "x=1".toList, "y=2".toList, []] := by decide
  rw [hP] at e
  match k, hk with
  | 0, _ => simp at e
  | 1, _ => simp [List.replicate] at e
  | 2, _ => simp [List.replicate] at e

/-- F13 seen through a range: `line_range=(3,4)` of the same source selects nothing at all. -/
theorem old_stripnl_range_selects_nothing :
    numberedRows (fun _ => 1) true true (demoOpts (some (3, 4)) []) true (oneToken true) demoCode = .ok [] := by
  decide

/-- F13 seen through a traceback: a module with one leading blank line that raises on line 2 — no row carries the
failing-line marker. -/
theorem old_stripnl_traceback_unmarked :
    (numberedRows (fun _ => 1) true true (tracebackOpts 2 3 false false 100 false false false false) true (oneToken true)
      "\nraise E\n".toList).map (fun rows => rows.filter (·.marked)) = .ok [] := by
  decide

/-- Second defect (bare `next(tokens)`): a range starting more than one line past the end raises instead of
selecting nothing. -/
theorem old_skip_raises_beyond_end :
    numberedRows (fun _ => 1) true true (demoOpts (some (3, 4)) []) true (oneToken false) "x".toList
      = .error .runtimeStopIteration := by
  decide

def gapCode : List Char := "def f():\n    return 1\n\n\n\ndef g():\n    pass\n".toList

/-- Third defect (`text.split("\n")` after the text was cut at the end of the range): `line_range=(1,3)` of a source
whose line 3 is an INTERIOR blank line shows lines 1 and 2 only … -/
theorem old_range_drops_trailing_blank_line :
    numberedRows (fun _ => 1) false true (demoOpts (some (1, 3)) []) true (oneToken false) gapCode =
      .ok [{ num := 1, marked := false, body := "def f():".toList },
           { num := 2, marked := false, body := "    return 1".toList }] := by
  decide

/-- … and `(3, 4)` — two interior blank lines — shows one row; with indent guides the same happens (the guide step
loses the line a second time). -/
theorem old_range_drops_trailing_blank_line_guides :
    (numberedRows (fun _ => 1) false true (demoOpts (some (3, 4)) []) true (oneToken false) gapCode).map List.length = .ok 1 ∧
    (numberedRows (fun _ => 1) false true (demoOpts (some (1, 3)) [] true) true (oneToken false) gapCode).map List.length = .ok 2 ∧
    -- an empty selection under indent guides is shown as one row numbered past the end of the source
    (numberedRows (fun _ => 1) false true (demoOpts (some (9, 12)) [] true) true (oneToken false) gapCode).map (List.map (·.num)) = .ok [9] := by
  decide

/-! ## Rendering is pure: one Syntax object rendered again and again -/

/-- The rest of the numbered branch as a function of the text after `remove_suffix` (what `numberedRows` does with it). -/
def rowsOfText (cw : Char → Nat) (rangePop : Bool) (o : Opts) (code : List Char) (text : List Char) : Except Err (List Row) :=
  match linesOfText rangePop o text with
  | .error e => .error e
  | .ok lines =>
    if o.wordWrap && decide (codeWidthInt o code < 1) then .ok []
    else .ok (numberRows (o.startLine + lineOffset o) o.highlightLines
               (lines.map (fitLine cw (colWidth o code) o.pad (noCrop o))))

/-- `render_pure`: however often ONE object with unchanged attributes is rendered, and whatever it may have been handed as
"remembered" text, every render answers what the first one answers — for every `rest`, every `highlight` result, every
number of renders.  (The code as it is remembers nothing: `cacheText = false`.) -/
theorem render_pure {β : Type} (rest : List Char → β) (hl : Except Err (List Char)) (cache : Option (List Char)) (n : Nat) :
    objRenders false rest hl cache n = List.replicate n (hl.map (fun t => rest (removeSuffixNL t))) := by
  induction n generalizing cache with
  | zero => rfl
  | succ k ih =>
    cases hl with
    | error e => simp only [objRenders, Bool.false_eq_true, if_false, List.replicate_succ, ih]; rfl
    | ok t => simp only [objRenders, Bool.false_eq_true, if_false, List.replicate_succ, ih]; rfl

/-- … instantiated: the rows of the numbered branch are `highlight` followed by `rowsOfText`, so `n` renders of one Syntax
object give `n` times the rows `numberedRows` gives. -/
theorem render_pure_rows (cw : Char → Nat) (sr rp : Bool) (o : Opts) (found : Bool) (lex : List Char → List Line)
    (code : List Char) (cache : Option (List Char)) (n : Nat) :
    (objRenders false (rowsOfText cw rp o code)
        (highlight sr found (lex (shownSrc o code)) (shownSrc o code) o.lineRange) cache n).map
      (fun r => r.bind id) = List.replicate n (numberedRows cw sr rp o found lex code) := by
  rw [render_pure, List.map_replicate]
  congr 1
  unfold numberedRows selectedLines rowsOfText
  dsimp only [shownSrc]
  generalize highlight sr found (lex (expandTabs o.tabSize (shownCode o code))) (expandTabs o.tabSize (shownCode o code)) o.lineRange = h
  cases h with
  | error e => rfl
  | ok t =>
    simp only [Except.map, Except.bind, id]
    cases linesOfText rp o (removeSuffixNL t) <;> rfl

/-- Why nothing may be remembered: with the highlighted Text kept on the instance and handed out uncopied, the blank
line 3 that ends the range (1, 3) is shown by the first render and gone — number and row — from the second on. -/
theorem cached_text_would_decay :
    (objRenders true (rowsOfText (fun _ => 1) false (demoOpts (some (1, 3)) []) gapCode)
        (highlight false true (oneToken false (expandTabs 4 gapCode)) (expandTabs 4 gapCode) (some (1, 3))) none 3).map
      (fun r => r.bind (fun x => x.map List.length)) = [.ok 3, .ok 2, .ok 2] := by
  decide

/-! ## The gutter: pointer, number, blank continuation rows (deepening round 4) -/

/-- The gutter of EVERY numbered row, read character by character: `❱ ` (`> ` on legacy Windows) exactly when the row's
number is in `highlight_lines`, two blanks otherwise; then `str(number)` right-justified in `numbers_column_width - 2`;
then one blank; the rest of the row is the code cell.  The gutter is `numbers_column_width + 1` characters long for every
row (the width computed from the number of newlines in the code holds every number shown). -/
theorem gutter_shows_pointer_and_number (cw : Char → Nat) (o : Opts) (found : Bool) (lex : List Char → List Line)
    (code : List Char) (h : Setting o found lex code) (hn : o.lineNumbers = true) :
    ∃ rows, numberedRows cw false false o found lex code = .ok rows ∧
      ∀ r ∈ rows,
        r.render (numbersColumnWidth o code) o.legacyWindows =
          numberGutter (numbersColumnWidth o code) o.legacyWindows r.num (o.highlightLines.contains r.num) ++ r.body ∧
        (numberGutter (numbersColumnWidth o code) o.legacyWindows r.num (o.highlightLines.contains r.num)).length =
          numbersColumnWidth o code + 1 := by
  obtain ⟨rows, he, hall⟩ := gutter_wide_enough cw o found lex code h hn
  obtain ⟨rows', he', hnum⟩ := numbers_are_line_numbers cw o found lex code h
  have : rows' = rows := by rw [he] at he'; cases he'; rfl
  subst this
  refine ⟨rows', he, ?_⟩
  intro r hr
  have hm := (hnum r hr).2.2
  refine ⟨by rw [Row.render_eq_gutter, hm], numberGutter_length _ _ _ _ (hall r hr).1⟩

/-- Word wrap (`numberFolded`, the loop `for first, wrapped_line in loop_first(wrapped_lines)`), for ANY folding of any number
of logical lines into rows: removing `numbers_column_width + 1` characters from every row gives the folded rows back in
order; the gutters are — per logical line — the numbered gutter (pointer iff highlighted) on its FIRST row and
`" " * numbers_column_width + " "` on every continuation row; the number advances by one per LOGICAL line, however many
rows a line takes. -/
theorem folded_rows_have_blank_gutter (ncw : Nat) (legacy : Bool) (hl : List Nat) (bodies : List (List Line)) (n : Nat)
    (hfit : ∀ i, i < bodies.length → (natStr (n + i)).length + 2 ≤ ncw) :
    (numberFolded ncw legacy hl n bodies).map (List.drop (ncw + 1)) = bodies.flatten ∧
    (numberFolded ncw legacy hl n bodies).map (List.take (ncw + 1)) = gutters ncw legacy hl n bodies :=
  numberFolded_spec ncw legacy hl bodies n hfit

/-- … and on the render path itself (`renderW`, numbered, word wrap on, repaired variant, any `Text.wrap` variant): whatever
rows come out, they are one group of folded rows per selected logical line; with the gutter removed they are those folded
rows in order; the gutters are the numbered one on the first row of each line and blanks on its continuation rows, numbers
running from `start_line + offset` once per logical line. -/
theorem wordwrap_rows_numbered_once (wv : Wrap.WVariant) (cw : Char → Nat) (o : Opts) (found : Bool) (lex : List Char → List Line)
    (code : List Char) (h : Setting o found lex code) (hn : o.lineNumbers = true) (hww : o.wordWrap = true) (rows : List Line)
    (hr : renderW wv cw false false o found lex code = some (.ok rows)) :
    ∃ lines bodies, selectedLines false false o found lex code = .ok lines ∧ bodies.length = lines.length ∧
      rows.map (List.drop (numbersColumnWidth o code + 1)) = bodies.flatten ∧
      rows.map (List.take (numbersColumnWidth o code + 1)) =
        gutters (numbersColumnWidth o code) o.legacyWindows o.highlightLines (o.startLine + lineOffset o) bodies := by
  have hroom : ¬ codeWidthInt o code < 1 := by
    have := h.room; rw [hww] at this; simpa using this
  obtain ⟨lines, bodies, hsel, hlen, hrows⟩ := renderW_wrapped_numbered wv cw false false o found lex code rows hww hn hroom hr
  obtain ⟨nrows, he, hall⟩ := gutter_wide_enough cw o found lex code h hn
  have hnr : nrows = numberRows (o.startLine + lineOffset o) o.highlightLines
      (lines.map (fitLine cw (colWidth o code) o.pad (noCrop o))) := by
    simp only [numberedRows, hsel, h.room, Bool.false_eq_true, if_false] at he
    cases he; rfl
  have hfit : ∀ i, i < bodies.length → (natStr (o.startLine + lineOffset o + i)).length + 2 ≤ numbersColumnWidth o code := by
    intro i hi
    rw [hlen] at hi
    have hget := numberRows_getElem? o.highlightLines (lines.map (fitLine cw (colWidth o code) o.pad (noCrop o))) (o.startLine + lineOffset o) i
    rw [← hnr, List.getElem?_map, List.getElem?_eq_getElem hi] at hget
    have hmem := List.mem_of_getElem? hget
    exact (hall _ hmem).1
  obtain ⟨h1, h2⟩ := numberFolded_spec (numbersColumnWidth o code) o.legacyWindows o.highlightLines bodies (o.startLine + lineOffset o) hfit
  exact ⟨lines, bodies, hsel, hlen, by rw [hrows]; exact h1, by rw [hrows]; exact h2⟩

/-! ## The exception chain and the frames of a stack (deepening round 4) -/

/-- `Traceback.extract` + `Traceback.__rich_console__`, for EVERY finite exception tree whose designated older exceptions
were raised (truthy, with a traceback): what is printed is the chain by Python's own rule — `__cause__` when set, else
`__context__` unless `__suppress_context__` — OLDEST exception first; every exception with its own frames in `walk_tb`
order (panel only when it has frames), its SyntaxError panel, its `Type: message` line; and between an older and the next
newer exception the sentence "direct cause" exactly when the older one is the newer one's `__cause__`, "during handling"
when it is its `__context__`.  No sentence after the newest. -/
theorem chain_is_shown_oldest_first (e : Exc) (h : AllUsable e) :
    renderException e = expectedChain e :=
  renderTrace_extract false e h

/-- `_render_stack`, either variant, any number of frames, any file system: what is yielded is what each frame contributes
when the file system is read directly — the per-call cache changes nothing, a file that cannot be opened is not
remembered, frames come in call order, a blank separator before every frame but the first. -/
theorem render_stack_frame_by_frame (g : Bool) (special known : FileId → Bool) (fs : FileId → Option (List Char))
    (frames : List Frame) :
    renderStack g special known fs frames = stackSpec g special known fs true frames :=
  renderStackFrom_spec g special known fs frames [] true (by intro p hp; cases hp)

/-- REPAIRED variant (`guessRaises = false`): EVERY frame of a readable file — whatever its name: `.py`, no extension, an
extension no Pygments lexer claims — gets its header followed by a blank row and the `Syntax` built from the file's
content NOW with `line_range = (lineno - extra, lineno + extra)`, `highlight_lines = {lineno}`; and (with
`traceback_marks_failing_line`, for every lexer meeting the contract, the fallback lexer "text" included) that Syntax has
exactly one marked row, numbered `lineno`, showing line `lineno`. -/
theorem readable_frame_shows_marked_line (special known : FileId → Bool) (fs : FileId → Option (List Char))
    (frames : List Frame) (fr : Frame) (code : List Char) (hfr : fr ∈ frames) (hsp : special fr.file = false)
    (hread : fs fr.file = some code)
    (cw : Char → Nat) (extra : Nat) (wordWrap guides : Bool) (maxWidth : Nat) (nw lw asc pad found : Bool)
    (lex : List Char → List Line) (l : Line) (hclean : Clean code)
    (hlex : found = true → (lex (expandTabs 4 code)).flatten = pygPre false (expandTabs 4 code))
    (hpos : 1 ≤ fr.lineno) (hline : (splitNL (expandTabs 4 code))[fr.lineno - 1]? = some l) (hl : ¬ Blank l) :
    (∃ pre, pre ++ [FrameItem.header fr.file fr.lineno, FrameItem.blank, FrameItem.syntax code fr.lineno (known fr.file)]
        <:+: renderStack false special known fs frames) ∧
    (let o := tracebackOpts fr.lineno extra wordWrap guides maxWidth nw lw asc pad
     ∃ rows g, numberedRows cw false false o found lex code = .ok rows ∧
       rows.filter (·.marked) = [{ num := fr.lineno, marked := true, body := fitLine cw 88 pad (noCrop o) g }] ∧
       (if guides && !asc then GuideOf l g else g = l)) := by
  refine ⟨?_, traceback_marks_failing_line cw fr.lineno extra wordWrap guides maxWidth nw lw asc pad found lex code l
    hclean hlex hpos hline hl⟩
  rw [render_stack_frame_by_frame]
  obtain ⟨fst, hin⟩ := stackSpec_infix false special known fs fr frames true hfr
  refine ⟨if !special fr.file && !fst then [FrameItem.blank] else [], ?_⟩
  simpa [frameSpec, hsp, hread] using hin

/-- AS FOUND (`guessRaises = true`): a readable file whose name no lexer claims (a script without extension) gets the row
"no lexer for filename … found" and NO source line — the traceback clause fails for it. -/
theorem old_unknown_extension_shows_no_source :
    renderStack true (fun _ => false) (fun _ => false) (fun _ => some "x = 1 // 0\n".toList) [⟨0, 1⟩]
      = [FrameItem.header 0 1, FrameItem.error] ∧
    renderStack false (fun _ => false) (fun _ => false) (fun _ => some "x = 1 // 0\n".toList) [⟨0, 1⟩]
      = [FrameItem.header 0 1, FrameItem.blank, FrameItem.syntax "x = 1 // 0\n".toList 1 false] := by
  decide

/-! ## Non-vacuity: the hypotheses are met by concrete, non-trivial values; the repaired variant on the witnesses -/

example : Setting (demoOpts (some (3, 4)) [3]) true (oneToken false) demoCode :=
  ⟨by unfold Clean; decide, fun _ => rfl, rfl, fun a b h => by cases h; decide, rfl, by decide⟩

/-- repaired variant at the F13 witness: lines 3-4 under numbers 3-4, line 3 marked -/
example : numberedRows (fun _ => 1) false false (demoOpts (some (3, 4)) [3]) true (oneToken false) demoCode =
    .ok [{ num := 3, marked := true, body := "x=1".toList }, { num := 4, marked := false, body := "y=2".toList }] := by
  decide

/-- repaired variant at the second witness: nothing selected, no error -/
example : numberedRows (fun _ => 1) false false (demoOpts (some (3, 4)) []) true (oneToken false) "x".toList = .ok [] := by
  decide

/-- repaired variant at the third witness: three rows, the blank line 3 under number 3 — with and without guides;
an empty selection under guides shows nothing -/
example : numberedRows (fun _ => 1) false false (demoOpts (some (1, 3)) []) true (oneToken false) gapCode =
    .ok [{ num := 1, marked := false, body := "def f():".toList },
         { num := 2, marked := false, body := "    return 1".toList },
         { num := 3, marked := false, body := [] }] := by
  decide

example : numberedRows (fun _ => 1) false false (demoOpts (some (1, 3)) [] true) true (oneToken false) gapCode =
    .ok [{ num := 1, marked := false, body := "def f():".toList },
         { num := 2, marked := false, body := "│   return 1".toList },
         { num := 3, marked := false, body := [] }] := by
  decide

example : numberedRows (fun _ => 1) false false (demoOpts (some (9, 12)) [] true) true (oneToken false) gapCode = .ok [] := by
  decide

example : srcLines gapCode = ["def f():".toList, "    return 1".toList, [], [], [], "def g():".toList, "    pass".toList] := by
  decide

/-- the measure witness is not vacuous: `Syntax("abcdef", line_numbers=True, code_width=6)` reports maximum 9 and has a row
whose code cell is full -/
example : (numberedRows (fun _ => 1) false false { demoOpts none [] with codeWidth := some 6 } true (oneToken false) "abcdef".toList).map
    (List.map (·.body.length)) = .ok [6] := by
  decide

/-- styles on a concrete stream: range (2,2) of "a\nbc\n" with token styles 7 ("a\n") and 9 ("bc\n"): line 1 unstyled, line 2 style 9 -/
example : highlightStyled false true [("a\n".toList, 7), ("bc\n".toList, 9)] "a\nbc\n".toList (some (2, 2)) =
    .ok [('a', none), ('\n', none), ('b', some 9), ('c', some 9), ('\n', some 9)] := by
  decide

/-- `dedent`: the shown text is the dedented one, the gutter still counts the newlines of the original -/
example : numberedRows (fun _ => 1) false false { demoOpts none [] with dedented := some "a\n b".toList } true (oneToken false) "  a\n   b".toList =
    .ok [{ num := 1, marked := false, body := "a".toList }, { num := 2, marked := false, body := " b".toList }] := by
  decide

/-- the traceback hypotheses are satisfiable (leading blank line, failing line 2) and the row is marked -/
example : (numberedRows (fun _ => 1) false false (tracebackOpts 2 3 false false 100 false false false false) true (oneToken false)
      "\nraise E\n".toList).map (fun rows => rows.filter (·.marked)) =
    .ok [{ num := 2, marked := true, body := "raise E".toList }] := by
  decide

example : (splitNL (expandTabs 4 "\nraise E\n".toList))[2 - 1]? = some "raise E".toList := by decide

/-- the same frame with indent guides on, failing line indented by four spaces: the guide overdraws the first space -/
example : (numberedRows (fun _ => 1) false false (tracebackOpts 3 1 false true 100 false false false false) true (oneToken false)
      "\ndef f():\n    raise E\n".toList).map (fun rows => rows.filter (·.marked)) =
    .ok [{ num := 3, marked := true, body := "│   raise E".toList }] := by
  decide

example : ¬ Blank "    raise E".toList := by unfold Blank; decide

example : GuideOf "    raise E".toList "│   raise E".toList := by
  refine Or.inr ⟨by unfold Blank; decide, by decide, by decide, ?_⟩
  intro c hc
  have : c ∈ ['│', ' ', ' ', ' '] := hc
  simp at this
  rcases this with h | h
  · exact Or.inr h
  · exact Or.inl h

/-- a history in which the same path changes between renders and is read twice inside one render -/
example : renderHistory false [] [((fun _ => "a".toList), [0, 0]), ((fun _ => "\nb".toList), [0])]
    = [["a".toList, "a".toList], ["\nb".toList]] := by
  decide

/-- a Trail with something actually missing: without a range, a source ending in a blank line -/
example : Trail 1 ["a".toList] (srcLines "a\n\n".toList) := ⟨1, by omega, by decide⟩

/-- a three-level MIXED chain: `TypeError` raised while handling `RuntimeError`, which was raised `from` a `KeyError`
(names 3, 2, 1; frames in files 7, 8, 9) -/
def demoChain : Exc :=
  .mk 3 [⟨7, 10⟩, ⟨7, 4⟩] true true false false none
    (some (.mk 2 [⟨8, 5⟩] true true true false
      (some (.mk 1 [⟨9, 2⟩] true true false false none none))
      (some (.mk 1 [⟨9, 2⟩] true true false false none none))))

example : AllUsable demoChain := by
  simp [demoChain, AllUsable, Exc.usable]

example : renderException demoChain =
    [.panel [⟨9, 2⟩], .excLine 1 false, .link true, .panel [⟨8, 5⟩], .excLine 2 false, .link false,
     .panel [⟨7, 10⟩, ⟨7, 4⟩], .excLine 3 false] := by
  decide

/-- outside `AllUsable` (observed, not claimed): a cause that was never raised (`raise X from ValueError()`) carries no
traceback and is NOT shown by rich, where Python's own traceback shows it -/
example : renderException (.mk 2 [⟨8, 5⟩] true true true false (some (.mk 1 [] true false false false none none)) none)
    = [.panel [⟨8, 5⟩], .excLine 2 false] := by
  decide

/-- a stack that reads the same file twice, meets a `<frozen …>` frame and a file that cannot be opened -/
example : renderStack false (fun f => f == 5) (fun f => f == 0) (fun f => if f == 3 then none else some [Char.ofNat (97 + f)])
      [⟨0, 1⟩, ⟨5, 9⟩, ⟨3, 2⟩, ⟨0, 7⟩, ⟨1, 4⟩] =
    [.header 0 1, .blank, .syntax ['a'] 1 true, .header 5 9, .blank, .header 3 2, .error,
     .blank, .header 0 7, .blank, .syntax ['a'] 7 true, .blank, .header 1 4, .blank, .syntax ['b'] 4 false] := by
  decide

/-- folded rows: line 9 takes one row, line 10 (highlighted) three; the gutter is 4 + 1 wide -/
example : numberFolded 4 false [10] 9 [["ab".toList], ["cd".toList, "ef".toList, "g".toList]] =
    ["   9 ab".toList, "❱ 10 cd".toList, "     ef".toList, "     g".toList] := by
  simp [numberFolded, renderFolded, Row.render, natStr, rjust, pointer]

example : ∀ i, i < [["ab".toList], ["cd".toList, "ef".toList, "g".toList]].length → (natStr (9 + i)).length + 2 ≤ 4 := by
  intro i hi
  have : i = 0 ∨ i = 1 := by simp at hi; omega
  rcases this with rfl | rfl <;> simp [natStr]

/-- the hypotheses of `wordwrap_rows_numbered_once` are satisfiable: word wrap on, line numbers on, room for a row
(that `renderW` answers `some (.ok rows)` there is what the driver shows on every word-wrapped `syn_render` case) -/
example : Setting { demoOpts none [2] with wordWrap := true } true (oneToken false) "ab cd\nef\n".toList :=
  ⟨by unfold Clean; decide, fun _ => rfl, rfl, fun a b h => (by cases h), by decide, by decide⟩

end RichModel.C17
