import RichModel.Lemmas.MarkupEmbed
import RichModel.Lemmas.MarkupHL
/-!
# C04 — markup styles exactly the tagged regions, and `escape()` neutralises any text

Property theorems only; the model is `Model/Markup.lean`, helper lemmas are `Lemmas/Markup*.lean`.

Parameters of every theorem (`cfg : Cfg`): `norm` (= `Style.normalize`, arbitrary function),
`isSpace` (arbitrary), `emoji` and the code variant flag `sortSpans`.  `emoji = none` is
`render(..., emoji=False)`.  `sortSpans = true` is the `text.spans = sorted(spans)` of rich 9.10.0 as found (before fix 623ba68),
`sortSpans = false` the repaired code that /repo contains now (fix 623ba68, the former
pending_fixes/C04-markup-span-order.diff).

No bound on the length of any string, the number of tags or the nesting depth anywhere.

Two levels of reference semantics (Model/Markup.lean): `semC` over the *chunks* `_parse` yields
(every chunk goes through `_emoji_replace` + `strip_control_codes` on its own; offsets are those of
the replaced text) — valid for any emoji setting and any emoji table; and `sem` over single
characters, which is what `semC` amounts to when emoji is off (`semC_is_sem`).

Console glue: `renderStr` / `printStrs` (no highlighter) and, since deepening round 4, `renderStrH` /
`printStrsH` (Model/MarkupHL.lean) with a highlighter as an arbitrary span source.
-/
namespace RichModel.C04
open RichModel.Markup

/-! ## the tokenizer -/

/-- **scan_partition**: the items `RE_TAGS.finditer` reports, with the text between them,
re-flatten to the input. -/
theorem scan_partition (s : List Char) : flatten (lex s) = s := flatten_lex s

/-- **scan_bump** (key lemma): `escape` turns a tag with `k` backslashes in front into one with
`2k+1`, and scanning the escaped text finds exactly those items — nothing appears, nothing
disappears, nothing merges. -/
theorem scan_bump (s : List Char) : lex (escape s) = (lex s).map Lx.bump := lex_escape s

/-- hence the escaped text means: the characters of `s`, and no tag. -/
theorem escape_no_tags (s : List Char) : events (escape s) = s.map Ev.chr := events_escape s

/-- the statement's side condition, in its own words: the text does not end in a backslash and
every `[` in it is followed, later in it, by a `]`. -/
theorem selfContained_iff (s : List Char) :
    SelfContained s ↔ (s.getLast? ≠ some '\\' ∧ ∀ pre post, s = pre ++ '[' :: post → ']' ∈ post) := by
  unfold SelfContained
  apply and_congr Iff.rfl
  induction s with
  | nil => simp [okTail]
  | cons c cs ih =>
    simp only [okTail, Bool.and_eq_true, Bool.or_eq_true, bne_iff_ne, ne_eq, List.contains_eq_mem,
      decide_eq_true_eq]
    rw [ih]
    constructor
    · rintro ⟨h1, h2⟩ pre post e
      cases pre with
      | nil =>
        simp only [List.nil_append, List.cons.injEq] at e
        obtain ⟨rfl, rfl⟩ := e
        rcases h1 with h1 | h1
        · exact absurd rfl h1
        · exact h1
      | cons x pre' =>
        simp only [List.cons_append, List.cons.injEq] at e
        exact h2 pre' post e.2
    · intro h
      constructor
      · by_cases hc : c = '['
        · right; exact h [] cs (by rw [hc]; rfl)
        · left; exact hc
      · intro pre post e
        exact h (c :: pre) post (by rw [e]; rfl)

/-- a self-contained text is tokenized independently of whatever follows it -/
theorem scan_append (a x : List Char) (ha : SelfContained a) : lex (a ++ x) = lex a ++ lex x :=
  lex_append x ha

/-! ## `escape` neutralises any text -/

/-- **render_escape**, for EVERY string `s`, both span orders, any `normalize`: rendering
`escape(s)` with emoji off gives back `s` (minus the four control codes `Text` always strips:
BS, VT, FF, CR) and no span.  It never raises. -/
theorem render_escape (cfg : Cfg) (hE : cfg.emoji = none) (s : List Char) :
    render cfg (escape s) = .ok (stripControl s, []) := by
  have h := render_eq_runEv cfg hE (escape s)
  rw [events_escape] at h
  have h2 := runEv_chars cfg St.init s []
  simp only [List.append_nil] at h2
  rw [h2] at h
  simp only [runEv, Option.map_some, St.init, List.nil_append] at h
  rw [finish_plain] at h
  exact toOption_eq_some h

/-- …verbatim when `s` has none of those four control characters (true of the property's alphabet). -/
theorem render_escape_verbatim (cfg : Cfg) (hE : cfg.emoji = none) (s : List Char)
    (hs : ∀ c ∈ s, isStripped c = false) : render cfg (escape s) = .ok (s, []) := by
  rw [render_escape cfg hE s]
  have : stripControl s = s := by
    unfold stripControl
    rw [List.filter_eq_self]
    intro c hc; simp [hs c hc]
  rw [this]

/-- the tokenizer reads `A ++ escape(s) ++ B` as: what it reads in `A`, the characters of `s`, what
it reads in `B` — under the statement's side condition on `s` (and the same on `A`). -/
theorem escape_embedded_events (A s B : List Char) (hA : SelfContained A) (hs : SelfContained s) :
    events (A ++ escape s ++ B) = events A ++ s.map Ev.chr ++ events B := by
  rw [List.append_assoc, events_append _ hA, events_append _ (selfContained_escape hs), events_escape,
    List.append_assoc]

/-- in the reference semantics a run of plain characters comes out verbatim (minus stripped
controls), each styled by exactly the tags open at that point, and changes nothing else -/
theorem sem_chars (cfg : Cfg) (op : List OTag) (s : List Char) (r : List Ev) :
    sem cfg op (s.map Ev.chr ++ r) =
      (sem cfg op r).map (fun a => (stripControl s).map (fun c => (c, op.reverse.map (·.style))) ++ a) := by
  induction s with
  | nil => simp [stripControl]
  | cons c cs ih =>
    simp only [List.map_cons, List.cons_append, sem, ih]
    by_cases hc : isStripped c = true
    · simp [hc, stripControl]
    · simp only [hc, Bool.false_eq_true, if_false]
      cases sem cfg op r with
      | none => rfl
      | some a => simp [stripControl, hc]

/-! ## tags style exactly what they enclose -/

/-- **tags_style_exactly** for EVERY markup string (not only well-formed documents), repaired span
order, emoji off: `render` fails exactly when the reference semantics does; otherwise the plain
text is the input without its tags and, at every character, the spans covering it — in list order,
which is the order `Text.render` applies them, later winning — are exactly the tags open at that
point, in the order they were opened.

Emoji-off corollary in terms of single characters; the statement for any emoji setting is
`tags_style_exactly` below. -/
theorem tags_style_exactly_emoji_off (cfg : Cfg) (hE : cfg.emoji = none) (hS : cfg.sortSpans = false)
    (m : List Char) :
    match sem cfg [] (events m) with
    | some ann => ∃ spans, render cfg m = .ok (ann.map Prod.fst, spans) ∧
        ∀ p (h : p < ann.length), effStyles spans p = (ann[p]).2
    | none => ∃ e, render cfg m = .error e :=
  render_refines cfg hE hS m

/-- documents from the tag grammar (escaped text leaves, opening tags with or without parameters,
closing tags by name, `[/]`, in any order — nested or overlapping) are read as written… -/
theorem doc_events (d : List Piece) (h : ∀ p ∈ d, p.ok) :
    events (d.flatMap Piece.markup) = d.flatMap Piece.evs := events_doc d h

/-- …hence rendered as the reference semantics of their pieces. -/
theorem tags_style_exactly_doc_emoji_off (cfg : Cfg) (hE : cfg.emoji = none) (hS : cfg.sortSpans = false)
    (d : List Piece) (h : ∀ p ∈ d, p.ok) :
    match sem cfg [] (d.flatMap Piece.evs) with
    | some ann => ∃ spans, render cfg (d.flatMap Piece.markup) = .ok (ann.map Prod.fst, spans) ∧
        ∀ p (h : p < ann.length), effStyles spans p = (ann[p]).2
    | none => ∃ e, render cfg (d.flatMap Piece.markup) = .error e := by
  have := render_refines cfg hE hS (d.flatMap Piece.markup)
  rw [events_doc d h] at this
  exact this

/-- **render_escape_embedded**: `A ++ escape(s) ++ B` renders as the reference semantics of
(`A`'s events, the characters of `s`, `B`'s events); by `sem_chars` the characters of `s` come out
verbatim, styled by the tags `A` left open and by nothing of their own. -/
theorem render_escape_embedded_emoji_off (cfg : Cfg) (hE : cfg.emoji = none) (hS : cfg.sortSpans = false)
    (A s B : List Char) (hA : SelfContained A) (hs : SelfContained s) :
    match sem cfg [] (events A ++ s.map Ev.chr ++ events B) with
    | some ann => ∃ spans, render cfg (A ++ escape s ++ B) = .ok (ann.map Prod.fst, spans) ∧
        ∀ p (h : p < ann.length), effStyles spans p = (ann[p]).2
    | none => ∃ e, render cfg (A ++ escape s ++ B) = .error e := by
  have := render_refines cfg hE hS (A ++ escape s ++ B)
  rw [escape_embedded_events A s B hA hs] at this
  exact this

/-! ## full strength: emoji on or off, any emoji table -/

/-- `_parse`'s tuples without their positions are the chunks; forgetting the chunk boundaries gives
the events (so tags, and the characters before replacement, are the same at both levels). -/
theorem chunks_are_parse (m : List Char) : (parse m).map PEv.toC = chunks m := parse_toC m

theorem chunks_flatten (m : List Char) : (chunks m).flatMap CEv.evs = events m := chunks_evs m

theorem semC_is_sem (cfg : Cfg) (hE : cfg.emoji = none) (m : List Char) :
    semC cfg [] (chunks m) = sem cfg [] (events m) := by
  rw [semC_eq_sem cfg hE, chunks_evs]

/-- **tags_style_exactly**, full strength: EVERY markup string, emoji on or off, any emoji table,
any `normalize` (repaired span order).  `render` fails exactly when the chunk-level reference
semantics does; otherwise the plain text is the concatenation of the replaced, stripped chunks and
at every character of it the covering spans, in list order, are exactly the tags open there, in
the order they were opened. -/
theorem tags_style_exactly (cfg : Cfg) (hS : cfg.sortSpans = false) (m : List Char) :
    match semC cfg [] (chunks m) with
    | some ann => ∃ spans, render cfg m = .ok (ann.map Prod.fst, spans) ∧
        ∀ p (h : p < ann.length), effStyles spans p = (ann[p]).2
    | none => ∃ e, render cfg m = .error e :=
  render_refinesC cfg hS m

/-- the tokenizer reads a document of the tag grammar piece by piece (escaped leaves become their
bumped items, every tag one item)… -/
theorem doc_lex (d : List Piece) (h : ∀ p ∈ d, p.ok) :
    lex (d.flatMap Piece.markup) = d.flatMap Piece.lx := lex_doc d h

/-- …hence it is rendered as the chunk-level semantics of its pieces, whatever the emoji setting. -/
theorem tags_style_exactly_doc (cfg : Cfg) (hS : cfg.sortSpans = false) (d : List Piece) (h : ∀ p ∈ d, p.ok) :
    match semC cfg [] (chunkGo [] (d.flatMap Piece.lx)) with
    | some ann => ∃ spans, render cfg (d.flatMap Piece.markup) = .ok (ann.map Prod.fst, spans) ∧
        ∀ p (h : p < ann.length), effStyles spans p = (ann[p]).2
    | none => ∃ e, render cfg (d.flatMap Piece.markup) = .error e := by
  have := render_refinesC cfg hS (d.flatMap Piece.markup)
  rw [chunks_doc d h] at this
  exact this

/-- **render_escape_embedded**, full strength.  `A ++ escape(s) ++ B` is rendered as: the chunks `A`
completes; then chunks that are ALL TEXT (no tag ever arises from `s`) and that spell `A`'s
pending plain text followed by `s`, up to a pending rest `a`; then the chunks of `B` with `a` in
front of `B`'s first chunk.  (With emoji off chunk boundaries do not matter and this is
`render_escape_embedded_emoji_off`; with emoji on the theorem says exactly where the boundaries
fall: at every escaped bracket and run of backslashes.) -/
theorem render_escape_embedded (cfg : Cfg) (hS : cfg.sortSpans = false)
    (A s B : List Char) (hA : SelfContained A) (hs : SelfContained s) :
    let pA := chunkSt [] (lex A)
    let pS := chunkSt pA.2 ((lex s).map Lx.bump)
    (∀ c ∈ pS.1, c.isTxt = true) ∧ pS.1.flatMap CEv.text ++ pS.2 = pA.2 ++ s ∧
    match semC cfg [] (pA.1 ++ pS.1 ++ chunkGo pS.2 (lex B)) with
    | some ann => ∃ spans, render cfg (A ++ escape s ++ B) = .ok (ann.map Prod.fst, spans) ∧
        ∀ p (h : p < ann.length), effStyles spans p = (ann[p]).2
    | none => ∃ e, render cfg (A ++ escape s ++ B) = .error e := by
  intro pA pS
  have hb := chunkSt_bump (lex s) pA.2
  rw [flatten_lex] at hb
  refine ⟨hb.1, hb.2, ?_⟩
  have := render_refinesC cfg hS (A ++ escape s ++ B)
  rw [chunks_embedded A s B hA hs] at this
  exact this

/-- **render_escape with emoji on, exactly**: for EVERY `s`, any emoji table, either span order,
`render(escape(s))` never fails and never has a span; its chunks are all text, spell `s`, and the
result is their replaced, stripped concatenation. -/
theorem render_escape_emoji_exact (cfg : Cfg) (s : List Char) :
    (∀ c ∈ chunks (escape s), c.isTxt = true) ∧
    (chunks (escape s)).flatMap CEv.text = s ∧
    render cfg (escape s) = .ok ((chunks (escape s)).flatMap (fun c => chunkText cfg c.text), []) :=
  render_escape_chunks cfg s

/-- …so `s` comes back verbatim (minus BS/VT/FF/CR) with emoji on whenever `s` has no `:name:`
with `name` in the emoji table. -/
theorem render_escape_emoji (cfg : Cfg) (s : List Char)
    (h : ∀ lookup, cfg.emoji = some lookup → NoEmojiCode lookup s) :
    render cfg (escape s) = .ok (stripControl s, []) :=
  render_escape_noEmoji cfg s h

/-- a configuration with emoji on and a one-entry table (`a` ↦ 🅰) -/
def cfgEmoji : Cfg :=
  { norm := id, isSpace := pyIsSpace, sortSpans := false,
    emoji := some (fun n => if n = ['a'] then some ['🅰'] else none) }

/-- witness: the hypothesis of `render_escape_emoji` cannot be dropped — `escape` does not protect
emoji codes: `render(escape(":a:"))` is `🅰`, not `:a:`. -/
theorem render_escape_emoji_witness :
    render cfgEmoji (escape ":a:".toList) = .ok (['🅰'], []) ∧ ¬ NoEmojiCode (fun n => if n = ['a'] then some ['🅰'] else none) ":a:".toList := by
  refine ⟨by decide, ?_⟩
  intro h
  have := h [] ['a'] [] rfl
  simp at this

/-- witness: chunk boundaries matter with emoji on.  In the escaped text the codes on both sides of
the literal `[a]` are replaced one chunk at a time; and `[b]:[/b]a:` renders to the text `:a:`
unreplaced, because `:` and `a:` are separate chunks. -/
theorem render_escape_emoji_chunks_witness :
    render cfgEmoji (escape ":a:[a]:a:".toList) = .ok ("🅰[a]🅰".toList, []) ∧
    render cfgEmoji "[b]:[/b]a:".toList = .ok (":a:".toList, [⟨0, 1, "b".toList⟩]) := by
  decide

/-! ## glue: `Console.render_str` / `Console.print` of strings (highlighting off) -/

/-- with markup disabled (argument `markup=False`, or `None` on a `Console(markup=False)`) the text
is never interpreted: no span, no error, for every string; with emoji disabled too it is verbatim. -/
theorem render_str_markup_off (cfg : Cfg) (con : ConsoleFlags) (emoji markup : Option Bool) (text : List Char)
    (hm : triFlag markup con.markup = false) :
    ∃ plain, renderStr cfg con emoji markup text = .ok (plain, []) ∧
      (triFlag emoji con.emoji = false → plain = stripControl text) := by
  refine ⟨chunkText { cfg with emoji := if triFlag emoji con.emoji then cfg.emoji else none } text,
    by simp [renderStr, hm], ?_⟩
  intro he
  simp [chunkText, he]

/-- with markup enabled `render_str` is `markup.render` with the emoji flag resolved the same way -/
theorem render_str_markup_on (cfg : Cfg) (con : ConsoleFlags) (emoji markup : Option Bool) (text : List Char)
    (hm : triFlag markup con.markup = true) :
    renderStr cfg con emoji markup text =
      render { cfg with emoji := if triFlag emoji con.emoji then cfg.emoji else none } text := by
  simp [renderStr, hm]

/-- an explicit argument always wins over the console default; `None` defers to it -/
theorem triFlag_spec (dflt : Bool) :
    triFlag (some true) dflt = true ∧ triFlag (some false) dflt = false ∧ triFlag none dflt = dflt :=
  ⟨rfl, rfl, rfl⟩

/-- `console.print(escape(s))`, whatever the flags: `s` is shown verbatim, styled by nothing but
the empty style `join` puts over every piece — provided `s` has no emoji code of the table. -/
theorem print_escape (cfg : Cfg) (con : ConsoleFlags) (emoji : Option Bool) (sep s : List Char)
    (h : ∀ lookup, cfg.emoji = some lookup → NoEmojiCode lookup s) :
    printStrs cfg con emoji (some true) sep [escape s] =
      .ok (stripControl s, [⟨0, (stripControl s).length, []⟩]) := by
  have hr : renderStr cfg con emoji (some true) (escape s) = .ok (stripControl s, []) := by
    rw [render_str_markup_on cfg con emoji (some true) _ rfl]
    apply render_escape_noEmoji
    intro lookup hl
    by_cases he : triFlag emoji con.emoji = true
    · simp only [he, if_true] at hl; exact h lookup hl
    · simp [he] at hl
  simp [printStrs, List.mapM_cons, hr, joinRendered, pure, Except.pure, bind, Except.bind]

/-! ## glue with a highlighter: `Console.render_str(..., highlight=, highlighter=)`, `Console.print(..., highlight=)`

A highlighter is a span source (`Highlighter = plain text → spans`, arbitrary: `ReprHighlighter`, a user's
`RegexHighlighter`, …).  `render_str` builds `Text(str(rich_text))`, lets the highlighter append its spans, then
`copy_styles(rich_text)` EXTENDS the span list with the spans of the markup. -/

/-- **render_str_highlight**: for every text, flags and highlighter, `render_str` with highlighting fails exactly
when it fails without, returns the same plain text (the extra `Text(str(...))` strips nothing: the text is already
free of BS/VT/FF/CR), and its spans are the highlighter's spans — computed on that final plain text, i.e. AFTER tags
were removed and emoji codes replaced — followed by the spans of the markup. -/
theorem render_str_highlight (cfg : Cfg) (con : ConsoleH) (emoji markup highlight : Option Bool)
    (hl : Option Highlighter) (text : List Char) :
    renderStrH cfg con emoji markup highlight hl text =
      match renderStr cfg con.flags emoji markup text with
      | .error e => .error e
      | .ok (plain, spans) =>
        .ok (plain, (if triFlag highlight con.highlight then (hl.getD con.highlighter) plain else []) ++ spans) :=
  renderStrH_eq cfg con emoji markup highlight hl text

/-- **markup_wins_over_highlight** (which wins: the markup).  EVERY markup string, any highlighter, any emoji
setting and table: with markup and highlighting enabled `render_str` fails exactly when the chunk-level
reference semantics does; otherwise at every character the covering spans in list order — the order `Text.render`
combines them, later winning — are the highlighter's styles there FIRST and then exactly the tags open at that
character in opening order.  So a tag always overrides what the highlighter set, and highlighting never changes
which tags apply. -/
theorem markup_wins_over_highlight (cfg : Cfg) (hS : cfg.sortSpans = false) (con : ConsoleH)
    (emoji markup highlight : Option Bool) (hl : Option Highlighter) (text : List Char)
    (hm : triFlag markup con.markup = true) (hh : triFlag highlight con.highlight = true) :
    let cfg' : Cfg := { cfg with emoji := if triFlag emoji con.emoji then cfg.emoji else none }
    match semC cfg' [] (chunks text) with
    | some ann => ∃ spans, renderStrH cfg con emoji markup highlight hl text = .ok (ann.map Prod.fst, spans) ∧
        ∀ p (h : p < ann.length),
          effStyles spans p = effStyles ((hl.getD con.highlighter) (ann.map Prod.fst)) p ++ (ann[p]).2
    | none => ∃ e, renderStrH cfg con emoji markup highlight hl text = .error e := by
  intro cfg'
  have hr : renderStr cfg con.flags emoji markup text = render cfg' text :=
    render_str_markup_on cfg con.flags emoji markup text hm
  have key := render_refinesC cfg' hS text
  rw [renderStrH_eq, hr]
  cases hsem : semC cfg' [] (chunks text) with
  | none =>
    rw [hsem] at key
    obtain ⟨e, he⟩ := key
    exact ⟨e, by rw [he]⟩
  | some ann =>
    rw [hsem] at key
    obtain ⟨spans, he, hp⟩ := key
    refine ⟨_, by rw [he], ?_⟩
    intro p h
    simp only [hh, if_true]
    rw [effStyles_append, hp p h]

/-- with highlighting disabled, or under the null highlighter, nothing changes -/
theorem render_str_highlight_off (cfg : Cfg) (con : ConsoleH) (emoji markup highlight : Option Bool)
    (hl : Option Highlighter) (text : List Char)
    (h : triFlag highlight con.highlight = false ∨ hl = some nullHighlighter) :
    renderStrH cfg con emoji markup highlight hl text = renderStr cfg con.flags emoji markup text :=
  renderStrH_off cfg con emoji markup highlight hl text h

/-- **print_highlight_decision**: `Console.print(*strings, highlight=h)` highlights its strings only on a console
whose own default is `highlight=True`, and then unless `h` is `False`.  (`_collect_renderables` turns `h` into a
highlighter but does not pass the flag on to `render_str`, which consults the console default alone: on a
`Console(highlight=False)`, `print("1", highlight=True)` does NOT highlight a string — the code as it is in 9.10.0
and since; outside the statement of C04, recorded in the report, not a finding of this property.)  Otherwise the
`Text` built is the one built without any highlighter. -/
theorem print_highlight_decision (cfg : Cfg) (con : ConsoleH) (emoji markup highlight : Option Bool)
    (sep : List Char) (objs : List (List Char)) (h : con.highlight = false ∨ highlight = some false) :
    printStrsH cfg con emoji markup highlight sep objs = printStrs cfg con.flags emoji markup sep objs := by
  unfold printStrsH printStrs
  have hf : (renderStrH cfg con emoji markup none
      (some (if triFlag highlight con.highlight then con.highlighter else nullHighlighter))) =
      renderStr cfg con.flags emoji markup := by
    funext text
    apply renderStrH_off
    rcases h with h | h
    · left; simp [triFlag, h]
    · right; subst h; simp [triFlag]
  simp only [hf]
  try rfl

/-- …and when it does highlight, every string is `render_str` with the console's highlighter. -/
theorem print_highlight_on (cfg : Cfg) (con : ConsoleH) (emoji markup highlight : Option Bool)
    (sep : List Char) (objs : List (List Char)) (hc : con.highlight = true) (hh : highlight ≠ some false) :
    printStrsH cfg con emoji markup highlight sep objs =
      match objs.mapM (renderStrH cfg con emoji markup (some true) none) with
      | .ok ts => .ok (joinRendered sep 0 true ts)
      | .error e => .error e := by
  unfold printStrsH
  have ht : triFlag highlight con.highlight = true := by
    cases highlight with
    | none => simp [triFlag, hc]
    | some b => cases b <;> simp_all [triFlag]
  have hf : (renderStrH cfg con emoji markup none (some (if triFlag highlight con.highlight then con.highlighter else nullHighlighter))) =
      renderStrH cfg con emoji markup (some true) none := by
    funext text
    have h1 : triFlag none con.highlight = true := by simp [triFlag, hc]
    have h2 : triFlag (some true) con.highlight = true := rfl
    rw [renderStrH_eq, renderStrH_eq]
    cases renderStr cfg con.flags emoji markup text with
    | error e => rfl
    | ok r => simp only [ht, h1, h2, if_true, Option.getD_some, Option.getD_none]
  simp only [hf]
  try rfl

/-! ## MarkupError -/

/-- **error_iff_nothing_to_close**, both span orders: `render` raises `MarkupError` exactly when
some closing tag, at the moment it is reached, has nothing to close (`[/name]` with no open tag of
that normalized name, `[/]` with no open tag at all).  Any emoji setting, any emoji table: whether
`render` fails depends on the tags only. -/
theorem error_iff_nothing_to_close (cfg : Cfg) (m : List Char) :
    (∃ e, render cfg m = .error e) ↔ NothingToClose cfg [] (events m) :=
  render_error_iff cfg m

/-! ## rich 9.10.0 as found (before fix 623ba68): `sorted(spans)` breaks the precedence (pre-finding F8) -/

/-- a configuration for concrete witnesses: identity `normalize`, emoji off -/
def cfgId (sortSpans : Bool) : Cfg :=
  { norm := id, emoji := none, isSpace := pyIsSpace, sortSpans := sortSpans }

/-- With the as-found `text.spans = sorted(spans)`, `[b][a]x` renders `x` under spans ordered
`a, b`: the tag opened FIRST wins, against `tags_style_exactly`. -/
theorem old_tags_style_exactly :
    render (cfgId true) "[b][a]x".toList = .ok ("x".toList, [⟨0, 1, "a".toList⟩, ⟨0, 1, "b".toList⟩]) ∧
    sem (cfgId true) [] (events "[b][a]x".toList) = some [('x', ["b".toList, "a".toList])] ∧
    effStyles [⟨0, 1, "a".toList⟩, ⟨0, 1, "b".toList⟩] 0 ≠ ["b".toList, "a".toList] := by
  decide

/-- the nested form of the same defect: the inner tag closes first, gets the smaller `end`, sorts
first, and loses to the outer tag. -/
theorem old_tags_style_exactly_nested :
    render (cfgId true) "[b][a]x[/a]y[/b]".toList =
      .ok ("xy".toList, [⟨0, 1, "a".toList⟩, ⟨0, 2, "b".toList⟩]) := by
  decide

/-! ## non-vacuity -/

example : render (cfgId false) "[b][a]x[/a]y[/b]".toList =
    .ok ("xy".toList, [⟨0, 2, "b".toList⟩, ⟨0, 1, "a".toList⟩]) := by decide

example : SelfContained "a[b]\\[c] [".toList = False := by decide
example : SelfContained "[b] x\\y [1]".toList := by decide
example : escape "\\[b] [1] \\\\[/]".toList = "\\\\\\[b] [1] \\\\\\\\\\[/]".toList := by decide
example : render (cfgId true) (escape "\\[b] [1] \\\\[/]".toList) = .ok ("\\[b] [1] \\\\[/]".toList, []) := by decide
example : (∀ p ∈ [Piece.opening "b".toList none, .text "x[a]".toList, .opening "a".toList (some "1".toList),
    .closing "b".toList, .text "y".toList, .closeTop], p.ok) := by
  intro p hp
  simp only [List.mem_cons, List.not_mem_nil, or_false] at hp
  rcases hp with rfl | rfl | rfl | rfl | rfl | rfl
  · exact ⟨⟨'b', [], rfl, by decide, by decide⟩, by decide, by intro q h; cases h⟩
  · show SelfContained _; decide
  · exact ⟨⟨'a', [], rfl, by decide, by decide⟩, by decide, by intro q h; cases h; decide⟩
  · show cleanName _; decide
  · show SelfContained _; decide
  · trivial
example : ∃ e, render (cfgId false) "[a]x[/b]".toList = .error e := ⟨.noMatch 4 "[/b]".toList, by decide⟩
example : NothingToClose (cfgId false) [] (events "[a]x[/b]".toList) :=
  ⟨[Ev.tag ⟨"a".toList, none⟩, Ev.chr 'x'], ⟨"/b".toList, none⟩, [], by decide, by decide⟩

/-! ### non-vacuity of the highlighter theorems -/

/-- a highlighter for the examples: every `1` gets the style `n` (as `repr.number` would) -/
def hlOnes : Highlighter := fun s =>
  (s.zipIdx.filter (fun p => p.1 = '1')).map (fun p => { start := p.2, stop := p.2 + 1, style := "n".toList })

def conH (hi : Bool) : ConsoleH := { emoji := true, markup := true, highlight := hi, highlighter := hlOnes }

/-- non-vacuity: `[b]1[/b]1` — the first `1` is under the highlighter's `n` and then the tag's `b` (the tag wins),
the second under `n` alone; the highlighter saw the text without the tags. -/
example : renderStrH (cfgId false) (conH true) none none none none "[b]1[/b]1".toList =
    .ok ("11".toList, [⟨0, 1, "n".toList⟩, ⟨1, 2, "n".toList⟩, ⟨0, 1, "b".toList⟩]) := by decide
example : effStyles [⟨0, 1, "n".toList⟩, ⟨1, 2, "n".toList⟩, ⟨0, 1, "b".toList⟩] 0 = ["n".toList, "b".toList] := by decide
/-- the quirk stated by `print_highlight_decision`, on a concrete call: `highlight=True` given to `print` on a
console with `highlight=False` leaves the `1` unhighlighted; on a `highlight=True` console it is highlighted. -/
example : printStrsH (cfgId false) (conH false) none none (some true) [' '] ["1".toList] =
    .ok ("1".toList, [⟨0, 1, []⟩]) := by decide
example : printStrsH (cfgId false) (conH true) none none none [' '] ["1".toList] =
    .ok ("1".toList, [⟨0, 1, []⟩, ⟨0, 1, "n".toList⟩]) := by decide

end RichModel.C04
