import RichModel.Lemmas.AnsiChars
import RichModel.Lemmas.AnsiPrint
import RichModel.Lemmas.AnsiSafe
/-!
# C03 — the ANSI stream written means exactly what the styled segments say

Property theorems only (helper lemmas live in `Lemmas/AnsiTerm`, `AnsiCodes`, `AnsiRender`, `AnsiBuffer`, `AnsiShape`,
`AnsiSpec`, `AnsiWire`, `AnsiChars` and, since deepening round 4, `AnsiPrint` — the route from `Console.print` to the
terminal — and `AnsiSafe` — ESC inside text).

* encoder model: `Model/AnsiRender.lean` — `Style._make_ansi_codes` with its per-object `_ansi` cache
  (`StyleObj.ansi`; the cache is *state*), `Style.render`, `Segment.remove_color`,
  `Console._render_buffer`, and *histories* (`Op`, `runOps`) of such calls on shared `Style` objects
  under changing colour systems, with `copy()` / `update_link()` carrying the cache along;
* independent decoder: `Model/AnsiTerm.lean` — the character-level `tokenize` and the token-level `interp`,
  written from ECMA-48 / xterm / OSC 8;
* specification: `expected` / `expectedCells` — the aspects that are set *and* true, the colours after
  the documented down-conversion (`downgrade`, property C18), the hyperlink; control segments only on
  a terminal.

`P := richPalettes` are the palettes translated from `/repo` on this run (`palettes_ok` is the only
fact used about them); `cc : Cfg` is C18's parameter (code variant + float facts) — every theorem holds
for every `cc`.  No theorem bounds the number or length of segments, the number of objects, the
length of a history, or enumerates styles.

`RVariant.repaired` is the code with the two repairs (`fix:` commits c9ec5a8 and 23674a1, the former
`pending_fixes/C03-*.diff`): it is what /repo contains now.  The `old_…` theorems show that rich 9.10.0 as
found, before those fixes (`RVariant.today` — the name dates from then), violates the statements.

The statements come in two layers.  Token layer: what `_render_buffer` writes as a list of `Tok`
(`stream_means_segments`, `history_means_segments`, …).  Character layer — the property's own words —
`stream_means_segments_chars` / `history_means_segments_chars`: the *characters* written
(`renderBufferChars` = `serialise` of the tokens), read back by the terminal's own tokenizer
(`AnsiTerm.tokenize`, written independently of `serialise`) and interpreted, mean the segments;
hypothesis `NoEscIn` / `OpsClean`: no ESC in any segment text, no ESC / BEL in any link (a link that
contained them could not be framed by OSC 8 at all).  `tokenize_reads_back` is the wire-format lemma
(decimal digits, `;`, ESC framing, BEL / ST terminators).
-/
namespace RichModel.C03
open RichModel RichModel.AnsiTerm RichModel.AnsiRender

/-- The palettes of this run. -/
abbrev P : Palettes := richPalettes

/-- Side condition on the *generated* tables: 16 / 16 / 256 entries, every component ≤ 255. -/
theorem palettes_ok : P.ok = true := by decide +kernel

/-! ## what the generated parameters mean -/

/-- The attribute part of `_make_ansi_codes` — with its four single tests, two loops and three group
guards — emits exactly the parameters 1,2,…,9,21,51,52,53 of the bits that are set, in bit order:
nothing for a bit that is off, nothing twice. -/
theorem attr_codes_are_the_set_bits (a : Nat) :
    attrCodes a = ((List.range 13).filter fun i => a.testBit i).map aspectCode :=
  attrCodes_eq a

/-- **The parameter string of a style means the style.**  For every well-formed style and colour
system, `_make_ansi_codes` (empty cache) does not raise, and the independent interpreter, started in
the default rendition, ends with exactly the aspects that are set and true (an attribute that is
`False` or unset switches nothing on), the foreground and the background after down-conversion. -/
theorem codes_mean_style (cc : Cfg) (s : Style) (hs : StyleWF s) (cs : ColorSystem) :
    ∃ codes, computeCodes cc P s cs = .ok codes ∧
      sgrParams {} codes =
        rendOfMask (s.attributes &&& s.setAttributes) (expectedColor cc P s.color cs) (expectedColor cc P s.bgcolor cs) :=
  computeCodes_means cc P palettes_ok s hs cs

/-- **One `Style.render`** (repaired cache): never raises; every character of the text is shown with
the style's aspects, converted colours and link; the terminal is back in its default state; the
cache stays sound. -/
theorem style_render_means_style (cc : Cfg) (o : StyleObj) (ho : ObjOK cc P o) (text : List Char)
    (cs : Option ColorSystem) (lw : Bool) :
    ∃ toks o', styleRender .repaired cc P o text cs lw = .ok (toks, o') ∧ o'.style = o.style ∧ ObjOK cc P o' ∧
      interp toks = (text.map fun c =>
        ⟨c, (expected cc P ⟨cs, false, true, lw⟩ (some o.style)).1, (expected cc P ⟨cs, false, true, lw⟩ (some o.style)).2⟩) ∧
      finalState toks = {} := by
  obtain ⟨toks, o', h1, h2, h3, h4⟩ :=
    styleRender_means .repaired rfl cc P palettes_ok ⟨cs, false, true, lw⟩ o ho text (by intro h; cases h)
  exact ⟨toks, o', h1, h2, h3, by simp [interp, h4], by simp [finalState, h4]⟩

/-! ## `_render_buffer` -/

/-- **stream_means_segments.**  For every console configuration (colour system None / standard /
256 / truecolor / windows × NO_COLOR × terminal × legacy Windows), every heap of shared `Style`
objects whose caches are sound, and every list of segments: `_render_buffer` (repaired code) does not
raise, and interpreting what it wrote yields exactly the characters of the segments that are to be
shown, each with the aspects, colours and hyperlink `expected` derives from the style it was printed
with.  Only caches change, and they stay sound. -/
theorem stream_means_segments (cc : Cfg) (cfg : Config) (heap : Heap) (segs : List Seg)
    (hok : HeapOK cc P heap) (hrefs : RefsOK heap segs) :
    ∃ toks heap', renderBuffer .repaired cc P cfg heap segs = .ok (toks, heap') ∧
      interp toks = expectedCells cc P cfg heap segs ∧
      HeapOK cc P heap' ∧ heap'.map (·.style) = heap.map (·.style) := by
  obtain ⟨toks, heap', h1, h2, h3, h4⟩ := renderBuffer_means .repaired rfl rfl cc P palettes_ok cfg heap segs hok hrefs
  exact ⟨toks, heap', h1, by simp [interp, h4], h2, h3⟩

/-- **no_leak.**  After every `_render_buffer` the terminal is in its default state again: default
rendition, no open hyperlink.  (The theorem holds for every segment list, hence for every prefix of
one: the state is the default before and after every segment.) -/
theorem no_leak (cc : Cfg) (cfg : Config) (heap : Heap) (segs : List Seg)
    (hok : HeapOK cc P heap) (hrefs : RefsOK heap segs) :
    ∃ toks heap', renderBuffer .repaired cc P cfg heap segs = .ok (toks, heap') ∧ finalState toks = {} := by
  obtain ⟨toks, heap', h1, _, _, h4⟩ := renderBuffer_means .repaired rfl rfl cc P palettes_ok cfg heap segs hok hrefs
  exact ⟨toks, heap', h1, by simp [finalState, h4]⟩

/-- No style leaks onto text that follows: what is shown for `a ++ b` is what is shown for `a`
followed by what `b` alone says — whatever the styles of `a` were. -/
theorem following_text_unaffected (cc : Cfg) (cfg : Config) (heap : Heap) (a b : List Seg)
    (hok : HeapOK cc P heap) (hrefs : RefsOK heap (a ++ b)) :
    ∃ toks heap', renderBuffer .repaired cc P cfg heap (a ++ b) = .ok (toks, heap') ∧
      interp toks = expectedCells cc P cfg heap a ++ expectedCells cc P cfg heap b := by
  obtain ⟨toks, heap', h1, h2, _, _⟩ := stream_means_segments cc cfg heap (a ++ b) hok hrefs
  refine ⟨toks, heap', h1, ?_⟩
  rw [h2]
  simp [expectedCells, List.filter_append, List.flatMap_append]

/-! ## histories: the cache is state -/

/-- Every step of a well-formed history keeps every cache sound. -/
theorem cache_sound_preserved (cc : Cfg) (heap : Heap) (hok : HeapOK cc P heap) (op : Op)
    (hop : OpsOK heap.length [op]) :
    ∃ heap' out, stepOp .repaired cc P heap op = .ok (heap', out) ∧ HeapOK cc P heap' := by
  cases op with
  | newStyle s =>
    exact ⟨_, none, rfl, heapOK_append cc P heap _ hok (objOK_fresh cc P s hop.1)⟩
  | copy i =>
    obtain ⟨o, ho⟩ : ∃ o, heap[i]? = some o := ⟨heap[i]'hop.1, by simp [hop.1]⟩
    exact ⟨_, none, by simp [stepOp, ho],
      heapOK_append cc P heap _ hok (objOK_copy cc P o (hok o (List.mem_iff_getElem?.mpr ⟨i, ho⟩)))⟩
  | updateLink i link =>
    obtain ⟨o, ho⟩ : ∃ o, heap[i]? = some o := ⟨heap[i]'hop.1, by simp [hop.1]⟩
    exact ⟨_, none, by simp [stepOp, ho],
      heapOK_append cc P heap _ hok (objOK_updateLink cc P o (hok o (List.mem_iff_getElem?.mpr ⟨i, ho⟩)) link)⟩
  | render cfg segs =>
    obtain ⟨toks, heap', g1, g2, _, _⟩ := renderBuffer_means .repaired rfl rfl cc P palettes_ok cfg heap segs hok hop.1
    exact ⟨heap', some toks, by simp [stepOp, g1, bind, Except.bind], g2⟩
  | styleRender i text cs lw =>
    obtain ⟨o, ho⟩ : ∃ o, heap[i]? = some o := ⟨heap[i]'hop.1, by simp [hop.1]⟩
    obtain ⟨toks, o', g1, _, g3, _⟩ :=
      styleRender_means .repaired rfl cc P palettes_ok ⟨cs, false, true, lw⟩ o
        (hok o (List.mem_iff_getElem?.mpr ⟨i, ho⟩)) text (by intro h; cases h)
    refine ⟨heap.set i o', some toks, by simp [stepOp, ho, g1, liftPy, bind, Except.bind], ?_⟩
    intro x hx
    rcases List.mem_or_eq_of_mem_set hx with hx | rfl
    · exact hok x hx
    · exact g3

/-- **history_means_segments** — the statement over *sequences of render calls on shared style objects
with changing colour systems*.  For every history (new styles, `copy()`, `update_link()`,
`_render_buffer` on consoles of any configuration, direct `Style.render` calls, in any order and of
any length) that is well-formed (`OpsOK`: new styles well-formed, indices in range), the repaired code
never raises, and what each writing step wrote — interpreted by the independent terminal model —
is what the cache-free specification `specOps` says for the styles as they are at that moment;
every write leaves the terminal in the default state. -/
theorem history_means_segments (cc : Cfg) (ops : List Op) (hops : OpsOK 0 ops) :
    ∃ outs : List (List Tok), runOps .repaired cc P [] ops = outs.map Except.ok ∧
      outs.map interp = specOps cc P [] ops ∧ ∀ o ∈ outs, finalState o = {} :=
  runOps_means .repaired rfl rfl cc P palettes_ok ops [] (by intro o ho; cases ho) hops

/-- …and from any heap whose caches are sound, not only the empty one. -/
theorem history_means_segments_from (cc : Cfg) (heap : Heap) (hok : HeapOK cc P heap) (ops : List Op)
    (hops : OpsOK heap.length ops) :
    ∃ outs : List (List Tok), runOps .repaired cc P heap ops = outs.map Except.ok ∧
      outs.map interp = specOps cc P (heap.map (·.style)) ops ∧ ∀ o ∈ outs, finalState o = {} :=
  runOps_means .repaired rfl rfl cc P palettes_ok ops heap hok hops

/-- All writes of a history sent to one terminal: the stream as a whole means the concatenation. -/
theorem history_single_terminal (outs : List (List Tok)) (h : ∀ o ∈ outs, finalState o = {}) :
    interp outs.flatten = (outs.map interp).flatten := by
  induction outs with
  | nil => rfl
  | cons o rest ih =>
    have h0 := h o (by simp)
    have ih' := ih (fun x hx => h x (by simp [hx]))
    simp only [List.flatten_cons, List.map_cons]
    unfold interp at ih' ⊢
    rw [interpFrom_append]
    simp only [finalState] at h0
    rw [h0, ih']

/-! ## the three special configurations (both code variants) -/

/-- **colour_none_no_escape.**  With colour disabled (`color_system=None`) every token written is
the text of a segment: no SGR, no OSC 8 — for rich 9.10.0 as found as well as the repaired code, whatever the
caches hold. -/
theorem colour_none_no_escape (v : RVariant) (cc : Cfg) (cfg : Config) (hcs : cfg.colorSystem = none)
    (heap : Heap) (segs : List Seg) (toks : List Tok) (heap' : Heap)
    (h : renderBuffer v cc P cfg heap segs = .ok (toks, heap')) :
    ∀ t ∈ toks, ∃ seg ∈ segs, t = .text seg.text :=
  renderBuffer_colour_none v cc P cfg hcs heap segs toks heap' h

/-- …so if no segment text contains ESC, the characters written contain no ESC at all. -/
theorem colour_none_no_esc_chars (v : RVariant) (cc : Cfg) (cfg : Config) (hcs : cfg.colorSystem = none)
    (heap : Heap) (segs : List Seg) (toks : List Tok) (heap' : Heap)
    (h : renderBuffer v cc P cfg heap segs = .ok (toks, heap'))
    (noEsc : ∀ seg ∈ segs, ESC ∉ seg.text) : ESC ∉ serialise toks := by
  intro hmem
  simp only [serialise, List.mem_flatMap] at hmem
  obtain ⟨t, ht, hc⟩ := hmem
  obtain ⟨seg, hs, rfl⟩ := colour_none_no_escape v cc cfg hcs heap segs toks heap' h t ht
  exact noEsc seg hs hc

/-- **no_color_no_colour_params.**  Under NO_COLOR every SGR sequence written is either the reset
`0` or consists of attribute parameters (1-9, 21, 51-53) only: no 30-49, 90-107, 38 or 48 — for both
code variants and whatever the caches of the shared objects hold. -/
theorem no_color_no_colour_params (v : RVariant) (cc : Cfg) (cfg : Config) (hnc : cfg.noColor = true)
    (heap : Heap) (segs : List Seg) (toks : List Tok) (heap' : Heap)
    (h : renderBuffer v cc P cfg heap segs = .ok (toks, heap')) :
    ∀ ps, Tok.sgr ps ∈ toks → ps = [0] ∨ ∀ p ∈ ps, p ∈ [1, 2, 3, 4, 5, 6, 7, 8, 9, 21, 51, 52, 53] :=
  fun ps hps => renderBuffer_no_color v cc P cfg hnc heap segs toks heap' h (.sgr ps) hps

/-- **not_terminal_no_control** at the level of what is shown: on a non-terminal the (repaired) output
shows the non-control segments only — nothing of any control segment, styled or not. -/
theorem not_terminal_no_control (cc : Cfg) (cfg : Config) (ht : cfg.isTerminal = false) (heap : Heap)
    (segs : List Seg) (hok : HeapOK cc P heap) (hrefs : RefsOK heap segs) :
    ∃ toks heap', renderBuffer .repaired cc P cfg heap segs = .ok (toks, heap') ∧
      interp toks = expectedCells cc P cfg heap (segs.filter fun s => !s.control) := by
  obtain ⟨toks, heap', h1, h2, _, _⟩ := stream_means_segments cc cfg heap segs hok hrefs
  refine ⟨toks, heap', h1, ?_⟩
  rw [h2]
  simp only [expectedCells, List.filter_filter]
  congr 2
  funext s
  simp [segVisible, ht]

/-- **not_terminal_no_control, token for token.**  On a non-terminal, dropping the control segments
from the buffer changes neither what is written nor the caches — every configuration, NO_COLOR
included. -/
theorem not_terminal_no_control_tokens (cc : Cfg) (cfg : Config) (ht : cfg.isTerminal = false) (heap : Heap)
    (segs : List Seg) (hok : HeapOK cc P heap) (hrefs : RefsOK heap segs) :
    renderBuffer .repaired cc P cfg heap segs = renderBuffer .repaired cc P cfg heap (segs.filter fun s => !s.control) :=
  renderBuffer_not_terminal .repaired rfl rfl cc P palettes_ok cfg ht heap segs hok hrefs

/-! ## the cache is invisible; the characters -/

/-- **The cache is invisible.**  Whatever the (sound) caches hold, `_render_buffer` writes exactly the
tokens of the cache-free specification `specToks` — every styled run as a brand-new `Style` object
would render it. -/
theorem tokens_are_cache_free (cc : Cfg) (cfg : Config) (heap : Heap) (segs : List Seg)
    (hok : HeapOK cc P heap) (hrefs : RefsOK heap segs) :
    ∃ heap', renderBuffer .repaired cc P cfg heap segs = .ok (specToks cc P cfg heap segs, heap') := by
  obtain ⟨heap', h, _⟩ := renderBuffer_toks .repaired rfl rfl cc P palettes_ok cfg heap segs hok hrefs
  exact ⟨heap', h⟩

/-- …and so do whole histories. -/
theorem history_tokens_are_cache_free (cc : Cfg) (ops : List Op) (hops : OpsOK 0 ops) :
    runOps .repaired cc P [] ops = (specOpsToks cc P [] ops).map Except.ok :=
  runOps_toks .repaired rfl rfl cc P palettes_ok ops [] (by intro o ho; cases ho) hops

/-- **The wire format reads back.**  The terminal's tokenizer applied to the serialisation of
well-formed tokens (no ESC in text; no `;` / ESC / BEL in OSC 8 parameters, no ESC / BEL in the URI;
any SGR parameters) returns the tokens, adjacent text runs merged — decimal digits, `;` separators,
`ESC [ … m` and `ESC ] 8 ; … ESC \` framing included. -/
theorem tokenize_reads_back (toks : List Tok) (h : ∀ t ∈ toks, WFTok t) :
    tokenize (serialise toks) = normalise toks ∧ interp (tokenize (serialise toks)) = interp toks := by
  refine ⟨tokenize_serialise toks h, ?_⟩
  simp only [interp, interpFrom_tokenize_serialise toks h]

/-- **stream_means_segments at the level of characters** — the property's own words.  For every
configuration, every sound heap and every segment list without ESC in its texts (and without ESC /
BEL in the links): the characters `_render_buffer` returns, read by the terminal's tokenizer and
interpreted from the default state, are exactly the visible characters of the segments, each with the
attributes, colours and hyperlink of its style; nothing leaks (the terminal ends in its default
state). -/
theorem stream_means_segments_chars (cc : Cfg) (cfg : Config) (heap : Heap) (segs : List Seg)
    (hok : HeapOK cc P heap) (hrefs : RefsOK heap segs) (hclean : NoEscIn heap segs) :
    ∃ chars heap', renderBufferChars .repaired cc P cfg heap segs = .ok (chars, heap') ∧
      interp (tokenize chars) = expectedCells cc P cfg heap segs ∧ finalState (tokenize chars) = {} ∧
      HeapOK cc P heap' ∧ heap'.map (·.style) = heap.map (·.style) := by
  obtain ⟨chars, heap', h1, h2, h3, h4⟩ :=
    renderBufferChars_means .repaired rfl rfl cc P palettes_ok cfg heap segs hok hrefs hclean
  exact ⟨chars, heap', h1, by simp [interp, h4], by simp [finalState, h4], h2, h3⟩

/-- **history_means_segments at the level of characters.** -/
theorem history_means_segments_chars (cc : Cfg) (ops : List Op) (hops : OpsOK 0 ops) (hclean : OpsClean ops) :
    ∃ outs : List (List Char), runOpsChars .repaired cc P [] ops = outs.map Except.ok ∧
      outs.map (fun s => interp (tokenize s)) = specOps cc P [] ops ∧
      ∀ s ∈ outs, finalState (tokenize s) = {} :=
  runOpsChars_means .repaired rfl rfl cc P palettes_ok ops [] (by intro o ho; cases ho) hops
    (by intro o ho; cases ho) hclean

/-! ## the `Except` branches -/

/-- **When `_render_buffer` raises** (both code variants): only with colour enabled and NO_COLOR off,
and then some style of the heap carries a `Color` object that is not well-formed (a STANDARD / 256 /
WINDOWS colour without number or out of range, a TRUECOLOR colour without triplet, …). -/
theorem raises_only_for_ill_formed_colour (v : RVariant) (cc : Cfg) (cfg : Config) (heap : Heap) (segs : List Seg)
    (e : ColorErr) (h : renderBuffer v cc P cfg heap segs = .error (.py e)) :
    cfg.noColor = false ∧ cfg.colorSystem ≠ none ∧
      ∃ o ∈ heap, ∃ c, (o.style.color = some c ∨ o.style.bgcolor = some c) ∧ ¬ c.WF := by
  obtain ⟨h1, s, hs, cs, hcs, hcc⟩ := renderBuffer_error v cc P cfg heap segs e h
  simp only [List.mem_map] at hs
  obtain ⟨o, ho, rfl⟩ := hs
  exact ⟨h1, by rw [hcs]; simp, o, ho, computeCodes_error cc P palettes_ok o.style cs e hcc⟩

/-- The exception is the one computing that style's codes raises (`AssertionError`, `IndexError`, …). -/
theorem raises_what_the_colour_raises (v : RVariant) (cc : Cfg) (cfg : Config) (heap : Heap) (segs : List Seg)
    (e : ColorErr) (h : renderBuffer v cc P cfg heap segs = .error (.py e)) :
    ∃ o ∈ heap, ∃ cs, cfg.colorSystem = some cs ∧ computeCodes cc P o.style cs = .error e := by
  obtain ⟨_, s, hs, cs, hcs, hcc⟩ := renderBuffer_error v cc P cfg heap segs e h
  simp only [List.mem_map] at hs
  obtain ⟨o, ho, rfl⟩ := hs
  exact ⟨o, ho, cs, hcs, hcc⟩

/-- A STANDARD colour without a number (`Color("x", ColorType.STANDARD)`): `assert number is not None`. -/
theorem ill_formed_colour_raises :
    renderBuffer .repaired Cfg.repaired P ⟨some .truecolor, false, true, false⟩
      [⟨{ Style.null with color := some { name := ['x'], type := .standard }, isNull := false }, none⟩]
      [⟨['a'], some 0, false⟩] = .error (.py .assertionError) := by decide

/-! ## Witnesses: the defects of rich 9.10.0 as found (before fixes c9ec5a8, 23674a1; variant `RVariant.today`) -/

/-- `Style(color="#ff8800")` -/
def orange : Style :=
  { color := some { name := "#ff8800".toList, type := .truecolor, triplet := some ⟨255, 136, 0⟩ }, bgcolor := none,
    attributes := 0, setAttributes := 0, link := none,
    hash := ⟨some { name := "#ff8800".toList, type := .truecolor, triplet := some ⟨255, 136, 0⟩ }, none, some 0, some 0, none⟩,
    isNull := false, styleDef := none }

def onTruecolor : Config := ⟨some .truecolor, false, true, false⟩
def onStandard : Config := ⟨some .standard, false, true, false⟩

/-- One shared style printed on a truecolor console, then on a 16-colour console. -/
def twoConsoles : List Op :=
  [.newStyle orange, .render onTruecolor [⟨['x'], some 0, false⟩], .render onStandard [⟨['x'], some 0, false⟩]]

/-- **rich 9.10.0 as found (F7, before fix c9ec5a8).**  The second console receives the 24-bit sequence computed for the first:
`_ansi` is not keyed by the colour system. -/
theorem old_stale_ansi_cache :
    runOps .today Cfg.repaired P [] twoConsoles =
      [.ok [.sgr [38, 2, 255, 136, 0], .text ['x'], .sgr [0]], .ok [.sgr [38, 2, 255, 136, 0], .text ['x'], .sgr [0]]] := by
  decide

/-- …so `history_means_segments` is false for the as-found code: the 16-colour terminal shows an RGB
colour where the specification says entry 9 of its palette. -/
theorem old_history_violates :
    ¬ ∃ outs : List (List Tok), runOps .today Cfg.repaired P [] twoConsoles = outs.map Except.ok ∧
        outs.map interp = specOps Cfg.repaired P [] twoConsoles := by
  rw [old_stale_ansi_cache]
  rintro ⟨outs, h1, h2⟩
  match outs, h1 with
  | [a, b], h1 =>
    simp only [List.map_cons, List.map_nil, List.cons.injEq, Except.ok.injEq, and_true] at h1
    obtain ⟨rfl, rfl⟩ := h1
    revert h2
    decide

/-- The repaired code on the same history: `91` = bright red, entry 9. -/
theorem repaired_two_consoles :
    runOps .repaired Cfg.repaired P [] twoConsoles =
      [.ok [.sgr [38, 2, 255, 136, 0], .text ['x'], .sgr [0]], .ok [.sgr [91], .text ['x'], .sgr [0]]] := by
  decide

/-- `Style(bold=True)` -/
def bold : Style :=
  { color := none, bgcolor := none, attributes := 1, setAttributes := 1, link := none,
    hash := ⟨none, none, some 1, some 1, none⟩, isNull := false, styleDef := none }

def toFile : Config := ⟨some .truecolor, false, false, false⟩

/-- **rich 9.10.0 as found (F27, before fix 23674a1).**  A control segment that carries a style is written to a non-terminal
(`if style:` is tested before `is_control`): the clear-screen code reaches the file. -/
theorem old_styled_control_written :
    renderBuffer .today Cfg.repaired P toFile [⟨bold, none⟩] [⟨"\x1b[2J".toList, some 0, true⟩] =
      .ok ([.sgr [1], .text "\x1b[2J".toList, .sgr [0]], [⟨bold, some (.truecolor, [1])⟩]) := by
  decide

/-- …which contradicts `not_terminal_no_control`: nothing should be shown. -/
theorem old_not_terminal_violates :
    ∃ toks heap', renderBuffer .today Cfg.repaired P toFile [⟨bold, none⟩] [⟨"\x1b[2J".toList, some 0, true⟩] = .ok (toks, heap') ∧
      interp toks ≠ expectedCells Cfg.repaired P toFile [⟨bold, none⟩] ([⟨"\x1b[2J".toList, some 0, true⟩].filter fun s => !s.control) :=
  ⟨_, _, old_styled_control_written, by decide⟩

/-- The repaired code writes nothing. -/
theorem repaired_styled_control_dropped :
    renderBuffer .repaired Cfg.repaired P toFile [⟨bold, none⟩] [⟨"\x1b[2J".toList, some 0, true⟩] = .ok ([], [⟨bold, none⟩]) := by
  decide


/-! ## deepening round 4 — `Console.print` → `_buffer` → `_render_buffer` → terminal (`Model/AnsiPrint.lean`) -/

/-- **print_means_segments** — one `console.print(…, style=S, crop=…, soft_wrap=…)`, from the segments the renderables
rendered to, to what the terminal shows.  Every configuration, every width, every cell-width function, cropped or
not, any number of segments; sound heap, references in range.  Nothing raises.  `Segment.apply_style` allocates
`extra` — brand-new objects, nothing else changes — and the segments `applied` it yields keep texts and control flags
and carry, as values, `S + own style` (`Style.__add__`; nothing for a control segment).  `print` appends their crop
(`finishPrint`: C13's `split_and_crop_lines`, `pad=False`, or nothing under soft wrap / `crop=False`), and what is
then written, interpreted by the independent terminal model, is exactly `expectedCells` of what was appended; the
terminal is back in its default state; every cache stays sound. -/
theorem print_means_segments (cc : Cfg) (cw : Char → Nat) (cfg : Config) (env : PEnv) (heap : Heap) (p : PrintCall)
    (hok : HeapOK cc P heap) (hp : PrintOK heap p) :
    ∃ applied extra toks heap2,
      printBuffer cw env heap p = .ok (finishPrint cw env p applied, heap ++ extra) ∧
      viewSegs (heap ++ extra) applied =
        p.segs.map (fun s => (s.text, s.control,
          printedStyle ((p.style.bind (heap[·]?)).map (·.style)) s.control (segStyle heap s))) ∧
      printWrite .repaired cc P cw cfg env heap p = .ok (toks, heap2) ∧
      interp toks = expectedCells cc P cfg (heap ++ extra) (finishPrint cw env p applied) ∧
      finalState toks = {} ∧ HeapOK cc P heap2 ∧ heap2.map (·.style) = (heap ++ extra).map (·.style) := by
  obtain ⟨applied, extra, toks, heap2, h1, h2, _, h4, h5, _, h7, h8⟩ :=
    printWrite_means .repaired rfl rfl cc P palettes_ok cw cfg env heap p hok hp
  exact ⟨applied, extra, toks, heap2, h1, h2, h4, by simp [interp, h5], by simp [finalState, h5], h7, h8⟩

/-- What is shown depends on the printed segments only through (text, control flag, style *value*). -/
theorem expected_cells_by_value (cc : Cfg) (cfg : Config) (heap : Heap) (segs : List Seg) :
    expectedCells cc P cfg heap segs = cellsOfV cc P cfg (viewSegs heap segs) :=
  expectedCells_eq_view cc P cfg heap segs

/-- The crop of `print` adds no ESC: blanks and line feeds are all it adds to the characters that went in. -/
theorem print_crop_adds_no_esc (cw : Char → Nat) (env : PEnv) (p : PrintCall) (segs : List Seg)
    (h : ∀ s ∈ segs, ESC ∉ s.text) : ∀ s ∈ finishPrint cw env p segs, ESC ∉ s.text :=
  finishPrint_noEsc cw env p segs h

/-- **print_means_segments at the level of characters**, for `print` without `style=` (cropped or not): no ESC in the
rendered texts, no ESC / BEL in the links — then the characters written to `console.file`, read by the terminal's
tokenizer, show exactly `expectedCells` of the cropped segments, and the terminal ends in its default state.
PARTIAL — full statement: the same with `style = some j`; missing: `LinkClean` of the objects `apply_style`
allocates (the link of `a + b` is one of the two links — not proved here). -/
theorem print_means_segments_chars_partial (cc : Cfg) (cw : Char → Nat) (cfg : Config) (env : PEnv) (heap : Heap)
    (p : PrintCall) (hst : p.style = none) (hok : HeapOK cc P heap) (hrefs : RefsOK heap p.segs)
    (hclean : NoEscIn heap p.segs) :
    ∃ chars heap2, printChars .repaired cc P cw cfg env heap p = .ok (chars, heap2) ∧
      interp (tokenize chars) = expectedCells cc P cfg heap (finishPrint cw env p p.segs) ∧
      finalState (tokenize chars) = {} ∧ HeapOK cc P heap2 := by
  have hr2 := finishPrint_refs cw env p heap p.segs hrefs
  have hc2 : NoEscIn heap (finishPrint cw env p p.segs) := ⟨finishPrint_noEsc cw env p p.segs hclean.1, hclean.2⟩
  obtain ⟨chars, heap2, h1, h2, _, h4⟩ :=
    renderBufferChars_means .repaired rfl rfl cc P palettes_ok cfg heap _ hok hr2 hc2
  refine ⟨chars, heap2, ?_, by simp [interp, h4], by simp [finalState, h4], h2⟩
  simp only [renderBufferChars] at h1
  simp only [printChars, printWrite, printBuffer, hst, bind, Except.bind]
  exact h1

/-- One step of a history with prints keeps every cache sound and never raises (repaired code). -/
theorem print_step_sound (cc : Cfg) (cw : Char → Nat) (heap : Heap) (hok : HeapOK cc P heap) (cfg : Config) (env : PEnv)
    (p : PrintCall) (hp : PrintOK heap p) :
    ∃ heap' toks, stepPOp .repaired cc P cw heap (.print cfg env p) = .ok (heap', some toks) ∧ HeapOK cc P heap' ∧
      finalState toks = {} := by
  obtain ⟨_, _, toks, heap2, _, _, h4, _, h6, h7, _⟩ := print_means_segments cc cw cfg env heap p hok hp
  exact ⟨heap2, toks, by simp [stepPOp, h4, bind, Except.bind], h7, h6⟩

/-! ## deepening round 4 — ESC inside text (`Lemmas/AnsiSafe.lean`) -/

/-- **The wire format reads back under the weaker hypothesis `SafeText`**: an ESC inside a text is harmless as long as
it is followed, inside that text, by a character other than `[` and `]` — it cannot start an SGR or OSC 8 sequence
of the terminal model, whatever follows the text.  (`tokenize_reads_back` is the special case "no ESC at all".) -/
theorem tokenize_reads_back_safe (toks : List Tok) (h : ∀ t ∈ toks, WFTokS t) :
    tokenize (serialise toks) = normalise toks ∧ interp (tokenize (serialise toks)) = interp toks := by
  have e := tokenize_serialise_safe toks h
  exact ⟨e, by simp only [interp, e, interpFrom_normalise]⟩

/-- `tokenize_reads_back`'s hypothesis implies the weaker one. -/
theorem no_esc_is_safe (t : Tok) (h : WFTok t) : WFTokS t := wfTokS_of_wfTok t h

/-- **What the terminal model shows when a text does contain escape sequences**: the terminal reads characters, not
tokens — a text that is itself the serialisation of (well-formed) tokens `inner` is read as those tokens, in place.
So a control segment such as `\x1b[1m` is *executed*, and so is the same string inside ordinary text. -/
theorem embedded_sequences_are_executed (pre inner post : List Tok) (h : ∀ t ∈ pre ++ inner ++ post, WFTokS t) :
    tokenize (serialise (pre ++ [.text (serialise inner)] ++ post)) = normalise (pre ++ inner ++ post) ∧
    interp (tokenize (serialise (pre ++ [.text (serialise inner)] ++ post))) = interp (pre ++ inner ++ post) := by
  rw [serialise_text_inner]
  exact tokenize_reads_back_safe _ h

/-- The hypothesis cannot be dropped: an unstyled segment whose text is a complete SGR sequence changes how the
*next* segment is shown (`x` comes out bold) — `stream_means_segments_chars` is false without `NoEscIn`. -/
theorem esc_in_text_breaks_chars_statement :
    ∃ chars heap', renderBufferChars .repaired Cfg.repaired P onTruecolor [] [⟨"\x1b[1m".toList, none, false⟩, ⟨['x'], none, false⟩] = .ok (chars, heap') ∧
      interp (tokenize chars) = [⟨'x', { bold := true }, none⟩] ∧
      interp (tokenize chars) ≠ expectedCells Cfg.repaired P onTruecolor [] [⟨"\x1b[1m".toList, none, false⟩, ⟨['x'], none, false⟩] :=
  ⟨_, _, rfl, by decide, by decide⟩

/-- …nor can `SafeText` be weakened to "no complete sequence inside one text": an ESC at the very end of a text joins
the `[1m` that starts the next segment. -/
theorem trailing_esc_joins_next_segment :
    tokenize (serialise [.text [ESC], .text "[1mx".toList]) = [.sgr [1], .text ['x']] := by decide

/-! ## deepening round 4 — the two code tables, row by row -/

/-- `Color.get_ansi_codes` for every `ColorType` × foreground / background, on well-formed colours. -/
theorem ansi_codes_table (c : Color) (fg : Bool) :
    (c.type = .default → getAnsiCodes c fg = .ok [if fg then 39 else 49]) ∧
    (∀ n, (c.type = .standard ∨ c.type = .windows) → c.number = some n →
      getAnsiCodes c fg = .ok [(if fg then (if n < 8 then 30 else 82) else (if n < 8 then 40 else 92)) + n]) ∧
    (∀ n, c.type = .eightBit → c.number = some n → getAnsiCodes c fg = .ok [if fg then 38 else 48, 5, n]) ∧
    (∀ t, c.type = .truecolor → c.triplet = some t →
      getAnsiCodes c fg = .ok [if fg then 38 else 48, 2, t.red, t.green, t.blue]) ∧
    ((c.type = .standard ∨ c.type = .windows ∨ c.type = .eightBit) → c.number = none →
      getAnsiCodes c fg = .error .assertionError) ∧
    (c.type = .truecolor → c.triplet = none → getAnsiCodes c fg = .error .assertionError) := by
  refine ⟨?_, ?_, ?_, ?_, ?_, ?_⟩
  · intro h; simp [getAnsiCodes, h]
  · intro n h hn
    rcases h with h | h <;> by_cases h8 : n < 8 <;> cases fg <;>
      simp [getAnsiCodes, h, hn, assertSome, bind, Except.bind, h8]
  · intro n h hn; simp [getAnsiCodes, h, hn, assertSome, bind, Except.bind]
  · intro t h ht; simp [getAnsiCodes, h, ht, assertSome, bind, Except.bind]
  · intro h hn
    rcases h with h | h | h <;> simp [getAnsiCodes, h, hn, assertSome, bind, Except.bind]
  · intro h ht; simp [getAnsiCodes, h, ht, assertSome, bind, Except.bind]

/-- `Style._make_ansi_codes`, attribute part, as a table lookup: for every attribute word (all 2^13 sets and beyond)
the parameters are the entries of `Style._style_map` at the set bits, in bit order — the interpreter's reading of
the 13 aspects (`aspectCode`) and rich's own table agree row by row. -/
theorem attr_codes_table (a : Nat) :
    attrCodes a = ((List.range 13).filter fun i => a.testBit i).map fun i => styleMap[i]! := by
  rw [attr_codes_are_the_set_bits]
  apply List.map_congr_left
  intro i hi
  have h13 : i < 13 := by simpa using (List.mem_filter.mp hi).1
  have rows : ∀ k, k < 13 → aspectCode k = styleMap[k]! := by decide
  exact rows i h13

/-- The 13 rows of `_style_map`. -/
theorem style_map_rows : (List.range 13).map (fun i => attrCodes (1 <<< i)) =
    [[1], [2], [3], [4], [5], [6], [7], [8], [9], [21], [51], [52], [53]] := by decide

/-! ## Non-vacuity: the hypotheses are met by concrete, non-trivial values -/

/-- `Style(color="#ff8800", bgcolor="color(100)", bold=True, dim=False, strike=True, link="http://x")` -/
def fancy : Style :=
  { color := some { name := "#ff8800".toList, type := .truecolor, triplet := some ⟨255, 136, 0⟩ },
    bgcolor := some { name := "color(100)".toList, type := .eightBit, number := some 100 },
    attributes := 0b100000001, setAttributes := 0b100000011, link := some "http://x".toList,
    hash := ⟨none, none, none, none, none⟩, isNull := false, styleDef := none }

theorem orange_wf : StyleWF orange :=
  ⟨(by intro c h; cases h; exact ⟨rfl, _, rfl, by decide, by decide, by decide⟩), (by intro c h; cases h), (by intro h; cases h)⟩
theorem fancy_wf : StyleWF fancy :=
  ⟨(by intro c h; cases h; exact ⟨rfl, _, rfl, by decide, by decide, by decide⟩),
   (by intro c h; cases h; exact ⟨⟨100, rfl, by decide⟩, rfl⟩), (by intro h; cases h)⟩
example : StyleWF Style.null := styleWF_null
example : HeapOK Cfg.repaired P [⟨fancy, none⟩, ⟨Style.null, none⟩] := by
  intro o ho
  simp only [List.mem_cons, List.not_mem_nil, or_false] at ho
  rcases ho with rfl | rfl
  · exact objOK_fresh _ _ _ fancy_wf
  · exact objOK_fresh _ _ _ styleWF_null
example : OpsOK 0 twoConsoles :=
  ⟨orange_wf, (by intro seg hs i hi; simp at hs; subst hs; cases hi; decide),
   (by intro seg hs i hi; simp at hs; subst hs; cases hi; decide), trivial⟩
-- a non-trivial style: `bold;9;38;2;255;136;0;48;5;100` inside an OSC 8 pair, `not dim` emits nothing
example : renderBuffer .repaired Cfg.repaired P onTruecolor [⟨fancy, none⟩] [⟨['h', 'i'], some 0, false⟩, ⟨['!'], none, false⟩] =
    .ok ([.osc8 linkIdMask "http://x".toList, .sgr [1, 9, 38, 2, 255, 136, 0, 48, 5, 100], .text ['h', 'i'], .sgr [0], .osc8 [] [],
          .text ['!']],
         [⟨fancy, some (.truecolor, [1, 9, 38, 2, 255, 136, 0, 48, 5, 100])⟩]) := by decide
example : interp [.osc8 linkIdMask "http://x".toList, .sgr [1, 9, 38, 2, 255, 136, 0, 48, 5, 100], .text ['h'], .sgr [0], .osc8 [] [], .text ['!']] =
    [⟨'h', { bold := true, strike := true, fg := .rgb 255 136 0, bg := .indexed 100 }, some "http://x".toList⟩, ⟨'!', {}, none⟩] := by decide
-- the same object on a 16-colour legacy-Windows console, NO_COLOR off: colours converted, link dropped
example : (renderBuffer .repaired Cfg.repaired P ⟨some .windows, false, true, true⟩ [⟨fancy, none⟩] [⟨['h'], some 0, false⟩]).map (·.1) =
    .ok [.sgr [1, 9, 33, 43], .text ['h'], .sgr [0]] := by decide
-- NO_COLOR keeps attributes and link, drops colours
example : (renderBuffer .repaired Cfg.repaired P ⟨some .eightBit, true, true, false⟩ [⟨fancy, none⟩] [⟨['h'], some 0, false⟩]).map (·.1) =
    .ok [.osc8 linkIdMask "http://x".toList, .sgr [1, 9], .text ['h'], .sgr [0], .osc8 [] []] := by decide
example : serialise [.sgr [1, 38, 5, 100], .text ['x'], .sgr [0]] = "\x1b[1;38;5;100mx\x1b[0m".toList := by decide

-- the character-level hypotheses are satisfiable, and the tokenizer reads a real stream back
example : OpsClean twoConsoles :=
  ⟨(by intro l h; cases h), (by intro seg hs; simp at hs; subst hs; decide), (by intro seg hs; simp at hs; subst hs; decide), trivial⟩
example : NoEscIn [⟨fancy, none⟩] [⟨['h', 'i'], some 0, false⟩] :=
  ⟨(by intro seg hs; simp at hs; subst hs; decide),
   (by intro o ho l hl; simp at ho; subst ho; cases hl; decide)⟩
example : tokenize "\x1b]8;id=*;http://x\x1b\\\x1b[1;9;38;2;255;136;0;48;5;100mhi\x1b[0m\x1b]8;;\x1b\\!".toList =
    [.osc8 linkIdMask "http://x".toList, .sgr [1, 9, 38, 2, 255, 136, 0, 48, 5, 100], .text ['h', 'i'], .sgr [0], .osc8 [] [],
     .text ['!']] := by decide
example : (renderBufferChars .repaired Cfg.repaired P onTruecolor [⟨fancy, none⟩] [⟨['h', 'i'], some 0, false⟩, ⟨['!'], none, false⟩]).map (·.1) =
    .ok "\x1b]8;id=*;http://x\x1b\\\x1b[1;9;38;2;255;136;0;48;5;100mhi\x1b[0m\x1b]8;;\x1b\\!".toList := by decide

-- deepening round 4: `PrintOK` / `print_means_segments` on a concrete call — a styled segment with an embedded line
-- feed and a control segment, printed with `style=bold` on a console 3 cells wide: `fancy` + bold is allocated at index 2
example : PrintOK [⟨bold, none⟩, ⟨fancy, none⟩] { segs := [⟨"abcd\ne".toList, some 1, false⟩, ⟨['\r'], some 1, true⟩], style := some 0 } :=
  ⟨(by intro seg hs i hi; simp at hs; rcases hs with rfl | rfl <;> cases hi <;> decide), (by intro j hj; cases hj; decide)⟩
example : (printBuffer (fun _ => 1) ⟨3, false⟩ [⟨bold, none⟩, ⟨fancy, none⟩]
      { segs := [⟨"abcd\ne".toList, some 1, false⟩, ⟨['\r'], some 1, true⟩], style := some 0 }).map (fun r => (r.1, r.2.length)) =
    .ok ([⟨"abc".toList, some 2, false⟩, ⟨['\n'], none, false⟩, ⟨['e'], some 2, false⟩, ⟨['\r'], none, true⟩], 3) := by decide
example : SafeText "a\x1bcb".toList ∧ ¬ SafeText "a\x1b[".toList ∧ ¬ SafeText "a\x1b".toList := by decide
example : ∀ t ∈ [Tok.text "a\x1bcb".toList, Tok.sgr [1]], WFTokS t := by
  intro t ht; simp at ht; rcases ht with rfl | rfl
  · show SafeText _; decide
  · trivial

end RichModel.C03
