import RichModel.Lemmas.LayoutFitsTable
/-!
# C01 — rendered output never exceeds the available width

Property theorems only (helper lemmas: `Lemmas/Layout*.lean`).  Model: `Model/Layout.lean` — the inductive type `R` of renderable
trees (text | padding | panel | align | constrain | styled | cast (`__rich__`) | opaque (no `__rich_measure__`) | group | rule | bar |
progressBar | table | columns | tree, with every layout option), `render r opts w` = `Console.render(tree, options)` as a Segment
stream, `measure`, and `smin`, the statement's *structural minimum*.  The model instantiates the oracles of the finished layers
with its own recursive functions: `Wrap.wrap` (C02) / `Text.render` (C05) for text, the frames of C08, the table algorithm of C07.

`Fits cw w segs` is the observation of the property: the stream is split at line feeds and no line occupies more than `w` cells
(double-width characters count two, zero-width characters none: `cellLen` over rich's own width table); `fits_iff_lines` shows it is
the same as measuring the lines `Segment.split_lines` yields.

The domain.  `Dom cfg r opts w` (Lemmas/LayoutBase.lean) spells out where the statement applies to a renderable whose lines reach the
output uncropped; containers that crop what they are given (padding, panel, table, columns, tree) put NO condition on their children:
* text: not `overflow="ignore"` (the documented opt-out of fitting), `end` is the line feed;
* `Constrain` / `Align` render their child at a narrower width: that width is still at or above the child's structural minimum;
* group: every member but the last ends its line — a `ProgressBar` never does (known finding F23 `progressbar-no-newline`:
  `known_progressbar_in_group_overflows` below); this is the only built-in renderable excluded;
* table: "columns free to wrap" exactly as the statement says (no `width`, `min_width`, `no_wrap`, no active ratio).

`CfgOk cfg`: the width function is rich's (`Gen.cellWidths`, regenerated from rich/_cell_widths.py on every run), tables draw
`leading` as separate lines (fix dd342b5; what /repo contains), and the poison is empty (the model's "outside my domain" marker; the driver answers
`unmodelled` for those requests, e.g. a panel title that is not a simple one-line text).
-/
namespace RichModel.C01
open RichModel RichModel.Frames RichModel.Layout

/-- **render_fits.**  For every renderable tree, every options, every width `w` at or above the structural minimum of the tree
(inside the domain `Dom`): no line of `Console.render(tree, options)` occupies more than `w` terminal cells.  No bound on the depth
of the nesting, the number of children, rows, columns or characters, or on `w`. -/
theorem render_fits (cfg : Cfg) (ok : CfgOk cfg) (r : R) (o : Opts) (w : Nat)
    (hs : smin cfg.cw r ≤ w) (hd : Dom cfg r o w) : Fits cfg.cw w (render cfg r o w) :=
  (good cfg ok r o w (Nat.le_trans (smin_pos cfg.cw r) hs) hs hd).1

/-- The same through the observation point of the property: `Console.render` (with its `max_width < 1` guard), the stream split
by `Segment.split_lines`, every line measured by `Segment.cell_length`. -/
theorem rendered_lines_fit (cfg : Cfg) (ok : CfgOk cfg) (r : R) (o : Opts) (w : Nat)
    (hs : smin cfg.cw r ≤ w) (hd : Dom cfg r o w) : ∀ l ∈ renderedLines cfg r o (w : Int), lineLength cfg.cw l ≤ w := by
  have h1 : 1 ≤ w := Nat.le_trans (smin_pos cfg.cw r) hs
  unfold renderedLines consoleRender
  have : ¬ ((w : Int) < 1) := by omega
  simp only [this, if_false, Int.toNat_natCast]
  exact (fits_iff_lines cfg.cw w _).mp (render_fits cfg ok r o w hs hd)

/-- A renderable that ends its last line (statically: `closedR`) really does: what follows it in a group starts on a fresh line. -/
theorem render_closed (cfg : Cfg) (ok : CfgOk cfg) (r : R) (o : Opts) (w : Nat)
    (hs : smin cfg.cw r ≤ w) (hd : Dom cfg r o w) (hc : closedR r = true) : Closed (render cfg r o w) :=
  (good cfg ok r o w (Nat.le_trans (smin_pos cfg.cw r) hs) hs hd).2 hc

/-- the structural minimum is never 0: there is always room for one character -/
theorem smin_positive (cw : Char → Nat) (r : R) : 1 ≤ smin cw r := smin_pos cw r

/-- Containers that crop: whatever is inside a padding — any tree, in or out of the domain, overflowing or not — the padded
block fits as soon as the padding itself leaves one cell. -/
theorem padding_fits_whatever_the_child (cfg : Cfg) (ok : CfgOk cfg) (p : PadDims) (e : Bool) (c : R) (o : Opts) (w : Nat)
    (hs : smin cfg.cw (.padding p e c) ≤ w) : Fits cfg.cw w (render cfg (.padding p e c) o w) :=
  render_fits cfg ok _ o w hs (by rw [Dom]; trivial)

/-- …and a tree of any labels never uses more than the width it is given, at any width (each label is rendered in what its
guides leave, and vanishes when they leave nothing). -/
theorem tree_fits_whatever_the_labels (cfg : Cfg) (ok : CfgOk cfg) (root : TNode) (o : Opts) (w : Nat) :
    Fits cfg.cw w (render cfg (.tree root) o w) := by
  rw [render, ok.hcw]
  apply fits_of_lines_le
  have := tree_lines_le cfg.env (nodeR cfg root o) (w : Int)
  simpa using this

/-! ## The known finding F23 (`progressbar-no-newline`), machine-checked on the model -/

/-- A configuration under a truecolor console for the witnesses and examples below.  It was written as "the code in /repo" before
fixes f5f2be9 and f7ecf83 landed: `rstripCountsChars`, `columnsZeroCount` and `WVariant.fixed true` are still the as-found
variants of those two defects (none of the statements below depends on them; `CfgOk` only asks for rich's width table, the repaired
`leading` and an empty poison), and `Flags.repaired` repairs the first three table defects. -/
def wCfg : Cfg :=
  { cw := cwR, env := { consoleWidth := 80, colorSystem := 3 }, v := { zeroWidthChild := false, ruleRightRepeat := false, rstripCountsChars := true, columnsZeroCount := true }, wv := Wrap.WVariant.fixed true, fl := Flags.repaired }

def wText (s : String) : R := .text (Text.new Variant.repaired s.toList [0])
def wBar : R := .progressBar { total := ⟨100, 1⟩, completed := ⟨50, 1⟩, width := some 5 }

/-- `RenderGroup(ProgressBar(width=5), Text("ccc dd"))` at width 9: `ProgressBar` emits no line end, the text continues on the
bar's line, which is 11 cells wide.  (The only thing `Dom` excludes here is "the bar is not the last member of the group".) -/
theorem known_progressbar_in_group_overflows :
    (renderedLines wCfg (.group true [wBar, wText "ccc dd"]) {} 9).map (lineLength cwR) = [11] ∧
    smin cwR (.group true [wBar, wText "ccc dd"]) = 1 := by decide +kernel

/-- the same two renderables the other way round are inside the domain and fit -/
example : (renderedLines wCfg (.group true [wText "ccc dd", wBar]) {} 9).map (lineLength cwR) = [6, 5] := by decide +kernel

/-! ## Non-vacuity: a nested tree inside the domain, at its structural minimum -/

/-- a panel with a title around a group of a text with a double-width character and a padded text -/
def exTree : R :=
  .panel { box := 0, title := ['T'] } (.group true [wText "日本 abc", .padding ⟨0, 1, 0, 2⟩ true (wText "x y")])

example : CfgOk wCfg := ⟨rfl, rfl, rfl⟩
example : smin cwR exTree = 8 := by decide +kernel
example : Dom wCfg exTree {} 8 := by rw [exTree, Dom]; trivial
example : (renderedLines wCfg exTree {} 8).map (lineLength cwR) = [8, 8, 8, 8, 8, 8] := by decide +kernel

end RichModel.C01
