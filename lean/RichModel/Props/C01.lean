import RichModel.Lemmas.LayoutFitsTable
/-!
# C01 — rendered output never exceeds the available width

Property theorems only (helper lemmas: `Lemmas/Layout*.lean`; the induction `good` / `goodL` behind `render_fits` is in
`Lemmas/LayoutFitsTable.lean`).  Model: `Model/Layout.lean` — the inductive type `R` of renderable
trees (text | str | padding | panel | align | constrain | styled | cast (`__rich__`) | opaque (no `__rich_measure__`) | group | rule | bar |
progressBar | table | columns | tree, with every layout option), `render r opts w` = `Console.render(tree, options)` as a Segment
stream, `measure`, and `smin`, the statement's *structural minimum*.  The model instantiates the oracles of the finished layers
with its own recursive functions: `Wrap.wrap` (C02) / `Text.render` (C05) for text, the frames of C08, the table algorithm of C07.

`Fits cw w segs` is the observation of the property: the stream is split at line feeds and no line occupies more than `w` cells
(double-width characters count two, zero-width characters none: `cellLen` over rich's own width table); `fits_iff_lines` shows it is
the same as measuring the lines `Segment.split_lines` yields.

The domain.  `Dom cfg r opts w` (Lemmas/LayoutBase.lean) spells out where the statement applies to a renderable whose lines reach the
output uncropped; containers that crop what they are given (padding, panel, table, columns, tree) put NO condition on their children.
Every exclusion is justified below by a witness on the model (section "Why each exclusion is there") or marked as not discharged:
* text / `str`: not `overflow="ignore"` (`excluded_overflow_ignore`), `end` is the line feed or empty (`excluded_text_end`);
* group: every member but the last ends its line — a `ProgressBar` never does (known finding F23 `progressbar-no-newline`:
  `known_progressbar_in_group_overflows`), nor does a text with `end=""` (`excluded_open_member_in_group`);
* table — any number of columns, also none; ratio columns included: EITHER columns free to wrap exactly as the statement says, OR
  arbitrary columns (fixed `width`, `max_width`, `no_wrap`) within the budget `tableBudget` of C07's `width_bound_general`; below that
  budget the bound fails (`excluded_fixed_width_column`, `excluded_no_wrap_column`), and a binding `min_width` makes the table up to
  `floorSum` cells wider than the offer — the precise bound is `table_general_bound` (`excluded_min_width_column`); in an
  expanding table every ratio is allowed on the code with the repaired flexible-width clamp (fix 75c2776), and no `ratio=0` column
  on the code before it (finding `table-ratio-zero-column`, found by this check: `old_ratio_zero_column_overflows`);
* `Constrain` / `Align`, which render their child at a narrower width, put NO condition on that width: `render_fits_any` bounds every
  line by `max w (smin r)` at every width.  DISCHARGED in this round (it was a local condition "a table with free columns — and
  `Columns` — must be offered one cell per column at the width it is really laid out for", marked NOT DISCHARGED): the arithmetic
  fact about `_calculate_column_widths` is now proved — free columns offered LESS than one cell each (zero and negative budgets
  included) all end at exactly one cell: `collapseWidths_low` (the collapse levels every column to 0 or 1: invariant "all ≥ 1 or all
  in {0, 1}" over the `while` loop, `Lemmas/CollapseLow.lean`), `width_low_core` (the re-measure then hands every column one cell;
  the padding block adds nothing), `tableConsole_decomp_any` / `columnsConsole_decomp_any` (`Lemmas/LayoutTableLow.lean`).  So the
  exclusions "`Constrain` / `Align` narrower than the child's structural minimum", "`Table(width=tw)` below the borders plus one cell per
  column" and "`Columns` offered fewer cells than items" are GONE from `Dom`; the precise width below the minimum is the headline
  `free_table_below_one_cell_per_column` (exactly reached: `below_minimum_table_is_borders_plus_columns`);
* `Columns(width=…)`: `excluded_columns_width_zero` shows the bound failing for `width=0`; for `width ≥ 1` no counterexample is known
  (evaluated directly on rich in every run, brute-forced over 40k cases) — NOT DISCHARGED: the inner grid's fixed-width columns exceed
  C07's `tableBudget` whenever both paddings are positive and there are two or more columns, where only the last-resort `ratio_reduce`
  brings the widths back; no theorem covers that path;
* a rule is in the domain under every options, `overflow="ignore"` included (its text is exactly `w` cells wide: `text_fits_nowrap`),
  provided the text it yields has no tab when it is not going to be truncated;
* bar / progress bar: proper fractions (positive denominators) and no negative `width` — every value the wire format can carry.

`CfgOk cfg` asks four things only: the width function is rich's (`Gen.cellWidths`, regenerated from rich/_cell_widths.py on every run),
tables draw `leading` as separate lines (`leadingRepeat = false`: with the as-found `true` a table line is `leading` times too wide, C07
`old_table_rect_fails`), a panel renders its title at the width it aligned it to (`titleAtConsoleWidth = false`, the code since fix
0e1edf7: before it a title longer than the console was wrapped at the console's width inside the top border), and the poison is empty
(the model's marker for a Python exception; the driver answers `unmodelled` there — no request does on the code in /repo as it is now).  EVERY OTHER code
variant is universally quantified: all 2^4 frame variants, both values of `ruleNoTitleEnd` (a `Rule` without title ignoring its `end`: as
found / fix a442cbd), all 2^8 text/wrap variants and all 2^6 remaining table variants — in particular the code as it is now (`nowCfg`:
everything repaired).  (`Dom` itself reads two of the table flags: with `flexNegative` or `flexClampZero` as found it excludes the `ratio=0`
columns of expanding tables.)
-/
namespace RichModel.C01
open RichModel RichModel.Frames RichModel.Layout

/-- **render_fits_any.**  For every renderable tree, every options and EVERY width `w ≥ 1` (inside the domain `Dom`): no line of
`Console.render(tree, options)` occupies more than `max w (smin r)` terminal cells — the available width when it is at or above the
structural minimum of the tree, and below it never more than that structural minimum.  No bound on the depth of the nesting, the number
of children, rows, columns or characters, or on `w`.  (This is what lets `Constrain` / `Align` render their child at any narrower width.) -/
theorem render_fits_any (cfg : Cfg) (ok : CfgOk cfg) (r : R) (o : Opts) (w : Nat) (hw : 1 ≤ w) (hd : Dom cfg r o w) :
    Fits cfg.cw (max w (smin cfg.cw r)) (render cfg r o w) :=
  (good cfg ok r o w hw hd).1

/-- **render_fits.**  At or above the structural minimum: no line of `Console.render(tree, options)` occupies more than `w` cells. -/
theorem render_fits (cfg : Cfg) (ok : CfgOk cfg) (r : R) (o : Opts) (w : Nat)
    (hs : smin cfg.cw r ≤ w) (hd : Dom cfg r o w) : Fits cfg.cw w (render cfg r o w) := by
  have h := render_fits_any cfg ok r o w (Nat.le_trans (smin_pos cfg.cw r) hs) hd
  rwa [Nat.max_eq_left hs] at h

/-- The same through the observation point of the property: `Console.render` (with its `max_width < 1` guard), the stream split
by `Segment.split_lines`, every line measured by `Segment.cell_length`. -/
theorem rendered_lines_fit (cfg : Cfg) (ok : CfgOk cfg) (r : R) (o : Opts) (w : Nat)
    (hs : smin cfg.cw r ≤ w) (hd : Dom cfg r o w) : ∀ l ∈ renderedLines cfg r o (w : Int), lineLength cfg.cw l ≤ w := by
  have h1 : 1 ≤ w := Nat.le_trans (smin_pos cfg.cw r) hs
  unfold renderedLines consoleRender
  have : ¬ ((w : Int) < 1) := by omega
  simp only [this, if_false, Int.toNat_natCast]
  exact (fits_iff_lines cfg.cw w _).mp (render_fits cfg ok r o w hs hd)

/-- A renderable that ends its last line (statically: `closedR`) really does: what follows it in a group starts on a fresh line. -/
theorem render_closed (cfg : Cfg) (ok : CfgOk cfg) (r : R) (o : Opts) (w : Nat)
    (hs : smin cfg.cw r ≤ w) (hd : Dom cfg r o w) (hc : closedR r = true) : Closed (render cfg r o w) :=
  (good cfg ok r o w (Nat.le_trans (smin_pos cfg.cw r) hs) hd).2 hc

/-- the structural minimum is never 0: there is always room for one character -/
theorem smin_positive (cw : Char → Nat) (r : R) : 1 ≤ smin cw r := smin_pos cw r

/-- Containers that crop: whatever is inside a padding — any tree, in or out of the domain, overflowing or not — the padded
block fits as soon as the padding itself leaves one cell. -/
theorem padding_fits_whatever_the_child (cfg : Cfg) (ok : CfgOk cfg) (p : PadDims) (e : Bool) (c : R) (o : Opts) (w : Nat)
    (hs : smin cfg.cw (.padding p e c) ≤ w) : Fits cfg.cw w (render cfg (.padding p e c) o w) :=
  render_fits cfg ok _ o w hs (by rw [Dom]; trivial)

/-- …and a tree of any labels never uses more than the width it is given, at any width (each label is rendered in what its
guides leave, and vanishes when they leave nothing). -/
theorem tree_fits_whatever_the_labels (cfg : Cfg) (ok : CfgOk cfg) (root : TNode) (o : Opts) (w : Nat) :
    Fits cfg.cw w (render cfg (.tree root) o w) := by
  rw [render, ok.hcw]
  apply fits_of_lines_le
  have := tree_lines_le cfg.env (nodeR cfg root o) (w : Int)
  simpa using this

/-- Side condition on the generated tables (re-checked on every run): the box constants of rich/box.py are listed in the same order, with
the same characters and ASCII flags, in `Gen.boxes` (on whose indices C08 models `Box.substitute`) and `Gen.tableBoxes` (from which the
table takes its box) — so the legacy-Windows / ASCII-only substitution of a table's box (`TableOpts.subst`) is the one rich performs. -/
theorem table_boxes_same_order :
    Gen.boxes.map (·.2) = Gen.tableBoxes.map (·.2.2) ∧ Gen.boxes.map (·.1) = Gen.tableBoxes.map (·.2.1) := by decide +kernel

/-! ## The known finding F23 (`progressbar-no-newline`), machine-checked on the model -/

/-- the code as it is in /repo now (every repair applied), under a truecolor console -/
def nowCfg : Cfg :=
  { cw := cwR, env := { consoleWidth := 80, colorSystem := 3 }, v := { zeroWidthChild := false, ruleRightRepeat := false, rstripCountsChars := false, columnsZeroCount := false }, wv := Wrap.WVariant.repaired, fl := Flags.allRepaired }

/-- rich 9.10.0 as released, except `leading` and the width a panel title is rendered at -/
def releasedCfg : Cfg :=
  { cw := cwR, env := { consoleWidth := 80 }, v := {}, wv := Wrap.WVariant.released, fl := { leadingRepeat := false } }

example : CfgOk nowCfg := ⟨rfl, rfl, rfl, rfl⟩
example : CfgOk releasedCfg := ⟨rfl, rfl, rfl, rfl⟩

def wText (s : String) : R := .text (Text.new Variant.repaired s.toList [0])
def wBar : R := .progressBar { total := ⟨100, 1⟩, completed := ⟨50, 1⟩, width := some 5 }

/-- the cell widths of the lines of `Console.render(r, width=w)` on the code as it is now (`nowCfg`) -/
def widthsOf (r : R) (w : Int) : List Nat := (renderedLines nowCfg r {} w).map (lineLength cwR)

/-- `RenderGroup(ProgressBar(width=5), Text("ccc dd"))` at width 9: `ProgressBar` emits no line end, the text continues on the
bar's line, which is 11 cells wide.  (The only thing `Dom` excludes here is "the bar is not the last member of the group".) -/
theorem known_progressbar_in_group_overflows :
    widthsOf (.group true [wBar, wText "ccc dd"]) 9 = [11] ∧ smin cwR (.group true [wBar, wText "ccc dd"]) = 1 := by decide +kernel

/-- the same two renderables the other way round are inside the domain and fit -/
example : widthsOf (.group true [wText "ccc dd", wBar]) 9 = [6, 5] := by decide +kernel

/-! ## The finding `table-ratio-zero-column` (found by this check, repaired by fix 75c2776) -/

def wRatioZero : R :=
  .table { box := some 15, expand := true }
    [.mk { ratio := some 1 } (wText "a") (wText "") [wText "x"], .mk { ratio := some 0 } (wText "b") (wText "") [wText "y"],
     .mk {} (wText "c") (wText "") [wText "long long long long long long long long text"]]

/-- the code before fix 75c2776: flexible widths clamped with `max(0, width)` -/
def clampZeroCfg : Cfg := { nowCfg with fl := { Flags.allRepaired with flexClampZero := true } }

/-- Before the fix, `Table(expand=True)` with columns `ratio=1`, `ratio=0` and an ordinary wide one: the `ratio=0` column is handed 0
cells (`max(0, width)`), the wide column is collapsed until the widths sum to the budget, and the re-measure then gives the 0-cell column
one cell (`maximum or 1`): every line is ONE CELL TOO WIDE, at its structural minimum 13 and at every width at which the wide column
still has to wrap (here also at 30) — although all columns are free to wrap.  (`Dom` excludes `ratio=0` columns of expanding tables for
this variant only.) -/
theorem old_ratio_zero_column_overflows :
    smin cwR wRatioZero = 13 ∧
    ((renderedLines clampZeroCfg wRatioZero {} 13).map (lineLength cwR)).all (· == 14) = true ∧
    ((renderedLines clampZeroCfg wRatioZero {} 30).map (lineLength cwR)).all (· == 31) = true := by
  decide +kernel

/-- the repaired code (`max(minimum, width)`): the same table is in the domain (`render_fits` applies) and is exactly as wide as asked -/
example : Dom nowCfg wRatioZero {} 13 := by
  rw [wRatioZero, Dom]
  refine ⟨trivial, trivial, Or.inl ?_⟩
  intro c hc
  simp only [List.mem_cons, List.not_mem_nil, or_false] at hc
  rcases hc with rfl | rfl | rfl <;> exact ⟨⟨rfl, rfl, rfl⟩, Or.inl ⟨rfl, rfl⟩⟩
example : (widthsOf wRatioZero 13).all (· == 13) = true ∧ (widthsOf wRatioZero 30).all (· == 30) = true := by decide +kernel

/-! ## Why each exclusion of `Dom` is there: the bound really fails -/

/-- `overflow="ignore"`: the documented opt-out — `Text("abcdef", overflow="ignore")` at width 3 is 6 cells wide -/
theorem excluded_overflow_ignore :
    widthsOf (.text (Text.new Variant.repaired "abcdef".toList [0] [] none (some RichModel.Overflow.ignore))) 3 = [6] := by decide +kernel

/-- an explicit `end`: `Text("abc", end="xyz")` at width 3 is 6 cells wide -/
theorem excluded_text_end :
    widthsOf (.text (Text.new Variant.repaired "abc".toList [0] [] none none none "xyz".toList)) 3 = [6] := by decide +kernel

/-- a member of a group that does not end its line: `RenderGroup(Text("abc", end=""), Text("def"))` at width 3 is one line of 6 cells -/
theorem excluded_open_member_in_group :
    widthsOf (.group true [.text (Text.new Variant.repaired "abc".toList [0] [] none none none []), wText "def"]) 3 = [6] := by
  decide +kernel

def wTable2 (c1 : ColOpts) : R :=
  .table { box := some 15 } [.mk c1 (wText "a") (wText "") [wText "hello world foo"], .mk {} (wText "b") (wText "") [wText "hello world"]]

/-- the same two-column table with both columns free to wrap fits its structural minimum 9 exactly … -/
example : smin cwR (wTable2 {}) = 9 ∧ (widthsOf (wTable2 {}) 9).all (· == 9) = true := by decide +kernel

/-! Columns that are NOT free to wrap are in the domain exactly when they meet `tableBudget` (first-pass widths of the columns that may
not shrink + one cell per column that may ≤ the width on offer).  Below that budget the bound really fails: -/

/-- `width=10` on the first column (budget 3 + 12 + 1 = 16): 13 cells at 12 (the free column is collapsed to 0 and gets a cell back) -/
theorem excluded_fixed_width_column : (widthsOf (wTable2 { width := some 10 }) 12).all (· == 13) = true := by decide +kernel
/-- `no_wrap=True` on it (budget 3 + 17 + 1 = 21): likewise 13 cells at 12 -/
theorem excluded_no_wrap_column : (widthsOf (wTable2 { noWrap := true }) 12).all (· == 13) = true := by decide +kernel
/-- a binding `min_width=8` (floor 8 + 2 padding = 10): 17 cells at 12 — inside the bound `12 + floorSum = 22` of `table_general_bound`,
outside `Dom` (which promises the width itself) -/
theorem excluded_min_width_column : (widthsOf (wTable2 { minWidth := some 8 }) 12).all (· == 17) = true := by decide +kernel

/-- at its budget 16 the table with the fixed-width column IS in the domain (`render_fits` applies) and is exactly 16 cells wide -/
example : Dom nowCfg (wTable2 { width := some 10 }) {} 16 := by
  rw [wTable2, Dom]
  refine ⟨trivial, trivial, Or.inr ⟨by simp, ?_, Or.inl ⟨rfl, rfl⟩, ⟨[12, 13], by decide +kernel, by decide +kernel⟩⟩⟩
  intro c hc
  simp only [List.mem_cons, List.not_mem_nil, or_false] at hc
  rcases hc with rfl | rfl <;> exact Or.inl rfl
example : (widthsOf (wTable2 { width := some 10 }) 16).all (· == 16) = true := by decide +kernel

/-- **table_general_bound.**  A table with ARBITRARY columns (fixed `width`, `max_width`, `no_wrap`, `min_width`; ratios on the
code as it is now — both flexible-width clamps repaired, fixes ab98098 and 75c2776 — and no active ratio on the code before them)
that meets `tableBudget`: no line is wider than the available width plus `floorSum`, the `min_width + padding` floors of the
columns that have a `min_width` and no fixed `width` — the exact amount by which such a table can exceed the offer (attained: C07
`min_width_overflows`), and 0 when no `min_width` binds. -/
theorem table_general_bound (cfg : Cfg) (ok : CfgOk cfg) (to : TableOpts) (cols : List Col) (o : Opts) (w : Nat)
    (hne : cols ≠ []) (hwd : ∀ tw, to.width = some tw → tw ≤ w) (ht : annDom to.title o) (hc : annDom to.caption o)
    (hr : (cfg.fl.flexNegative = false ∧ cfg.fl.flexClampZero = false) ∨ (toTable cfg (to.subst cfg.env) (colsR cfg cols)).NoRatio)
    (hb : tableBudget cfg (to.subst cfg.env) (colsR cfg cols) w) :
    Fits cfg.cw (w + (toTable cfg (to.subst cfg.env) (colsR cfg cols)).floorSum.toNat) (render cfg (.table to cols) o w) :=
  Layout.table_general_bound cfg ok to cols o w hne hwd ht hc hr hb

/-- `Columns(width=0)`: five items at their structural minimum 9 (one column each, one cell of padding between) make a 10-cell line -/
theorem excluded_columns_width_zero :
    smin cwR (.columns { lay := { width := some 0 } } [wText "a", wText "b", wText "c", wText "d", wText "e"]) = 9 ∧
    widthsOf (.columns { lay := { width := some 0 } } [wText "a", wText "b", wText "c", wText "d", wText "e"]) 9 = [10] := by decide +kernel

/-! ## Below one cell per column (the exclusions discharged in the fourth deepening round) -/

/-- **free_table_below_one_cell_per_column.**  A table whose columns are free to wrap (no `width`, `min_width`, `no_wrap`; any
`max_width`, any ratio on the code as it is now), at EVERY width `w` — zero room, an explicit `Table(width=tw)` smaller than its own
borders, inside a `Constrain` / `Align` of any width: no line is wider than the width the table is laid out for (`w`, or its own
`width`), or, when that leaves less than one cell per column, than its borders plus ONE cell per column.  No bound on the number of
columns, rows or the cells' contents (the cells are arbitrary trees). -/
theorem free_table_below_one_cell_per_column (cfg : Cfg) (ok : CfgOk cfg) (to : TableOpts) (cols : List Col) (o : Opts) (w : Nat)
    (hne : cols ≠ []) (ht : annDom to.title o) (hc : annDom to.caption o)
    (hfree : ∀ c ∈ cols, (colOptsOf c).wrappable ∧ ((cfg.fl.flexNegative = false ∧ cfg.fl.flexClampZero = false) ∨
      (to.expand || to.width.isSome) = false ∨ (colOptsOf c).ratio ≠ some 0)) :
    Fits cfg.cw (max (max w (to.width.getD 0)) (tableExtra to cols.length + cols.length)) (render cfg (.table to cols) o w) :=
  Layout.table_free_bound cfg ok to cols o w hne ht hc hfree

/-- the arithmetic behind it, on `Table._calculate_column_widths` itself (C07's model): columns free to wrap, measured soundly, offered
LESS than one cell each (any integer budget): the widths are computed (no `AssertionError`), every column gets at least one cell and
together they take no more than one cell per column (so exactly one each). -/
theorem column_widths_below_one_cell_per_column (fl : Flags) (t : Table) (maxWidth : Int)
    (hfirst : ∃ ws0, t.firstWidths fl maxWidth = some ws0 ∧ ws0.length = t.columns.length ∧ ∀ w ∈ ws0, 1 ≤ w) (hfree : t.AllFree)
    (hne : t.columns ≠ []) (hnw : ∀ c ∈ t.columns, c.noWrap = false) (hmw : maxWidth < (t.columns.length : Int)) :
    ∃ ws, t.calcWidths fl maxWidth = some ws ∧ ws.sum ≤ (t.columns.length : Int) ∧ ws.length = t.columns.length ∧ ∀ w ∈ ws, 1 ≤ w :=
  width_low_core fl t maxWidth hfirst hfree hne hnw hmw

/-- …and on `Table._collapse_widths`: every column wrappable, every width at least 1, a budget below the number of columns: every
collapsed width is 0 or 1 (no column keeps two cells while another is starved). -/
theorem collapse_below_one_cell_per_column (widths : List Int) (wrapable : List Bool) (maxWidth : Int)
    (hlen : widths.length = wrapable.length) (hall : ∀ b ∈ wrapable, b = true) (h1 : ∀ w ∈ widths, 1 ≤ w)
    (hmw : maxWidth < (widths.length : Int)) : ∀ w ∈ collapseWidths widths wrapable maxWidth, 0 ≤ w ∧ w ≤ 1 :=
  collapseWidths_low widths wrapable maxWidth hlen hall h1 hmw

/-- the hypotheses are satisfiable and the collapse is really uneven there: `[1, 0, 1]` -/
example : collapseWidths [2, 2, 2] [true, true, true] 2 = [1, 0, 1] := by decide

/-- five one-letter columns in a box: borders 6, structural minimum 6 + 4 × 3 + 4 = 22 (the last column holds a double-width character) -/
def wTable5 (tw : Option Nat) : R :=
  .table { box := some 15, width := tw }
    [.mk {} (wText "a") (wText "") [wText "v w"], .mk {} (wText "b") (wText "") [wText "x"], .mk {} (wText "c") (wText "") [wText "y"],
     .mk {} (wText "d") (wText "") [wText "z"], .mk {} (wText "e") (wText "") [wText "日本"]]

/-- The bound of `free_table_below_one_cell_per_column` is reached exactly, in each of the three formerly excluded positions: the table
inside `Constrain(width=4)`, with an explicit `Table(width=3)`, and at top level offered 7 cells — every line is 11 cells wide, the six
border cells plus one cell per column (structural minimum 22: every one of these is in `Dom` now, and `render_fits_any` promises 22). -/
theorem below_minimum_table_is_borders_plus_columns :
    smin cwR (wTable5 none) = 22 ∧
    (widthsOf (.constrain (some 4) (wTable5 none)) 30).all (· == 11) = true ∧
    (widthsOf (wTable5 (some 3)) 30).all (· == 11) = true ∧
    (widthsOf (wTable5 none) 7).all (· == 11) = true := by decide +kernel

example : Dom nowCfg (.constrain (some 4) (wTable5 none)) {} 30 := by
  rw [Dom, wTable5, Dom]
  refine ⟨trivial, trivial, Or.inl ?_⟩
  intro c hc
  simp only [List.mem_cons, List.not_mem_nil, or_false] at hc
  rcases hc with rfl | rfl | rfl | rfl | rfl <;> exact ⟨⟨rfl, rfl, rfl⟩, Or.inl ⟨rfl, rfl⟩⟩

/-- `Columns` offered fewer cells than it has items (inside a `Constrain(width=2)`): five items, one column per row, no line wider than 2 -/
example : Dom nowCfg (.constrain (some 2) (.columns {} [wText "a", wText "b", wText "c", wText "d", wText "e"])) {} 30 := by
  rw [Dom, Dom]; exact ⟨trivial, rfl⟩
example : (widthsOf (.constrain (some 2) (.columns {} [wText "a", wText "b", wText "c", wText "d", wText "e"])) 30).all (· ≤ 2) = true := by
  decide +kernel

/-! ## Non-vacuity: nested trees inside the domain, at their structural minimum -/

/-- a panel with a title around a group of a text with a double-width character and a padded text -/
def exTree : R :=
  .panel { box := 0, title := ['T'] } (.group true [wText "日本 abc", .padding ⟨0, 1, 0, 2⟩ true (wText "x y")])

example : smin cwR exTree = 8 := by decide +kernel
example : Dom nowCfg exTree {} 8 := by rw [exTree, Dom]; trivial
example : widthsOf exTree 8 = [8, 8, 8, 8, 8, 8] := by decide +kernel

/-- a table without columns is in the domain: two corner characters per edge -/
example : smin cwR (.table { box := some 15 } []) = 2 ∧ widthsOf (.table { box := some 15 } []) 2 = [2, 2] := by decide +kernel

/-- an expanding table with active ratio columns is in the domain and fills its structural minimum exactly -/
def exRatio : R :=
  .table { box := some 15, expand := true }
    [.mk { ratio := some 1 } (wText "a") (wText "") [wText "x"], .mk { ratio := some 2 } (wText "b") (wText "") [wText "yy yy yy"]]
example : smin cwR exRatio = 9 ∧ (widthsOf exRatio 9).all (· == 9) = true := by decide +kernel

end RichModel.C01
