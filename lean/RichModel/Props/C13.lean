import RichModel.Lemmas.Cells
import RichModel.Lemmas.Segment
import RichModel.Lemmas.CellsChop
import RichModel.Lemmas.Lru
import RichModel.Lemmas.SegmentExtra
import RichModel.Gen.CellWidths
/-!
# C13 — cell-width arithmetic and line shaping are exact and history-independent

Property theorems only (helper lemmas live in `Lemmas/`).  `cw` is Rich's
`get_character_cell_size` over the table translated from `rich/_cell_widths.py` on this run.
-/
namespace RichModel.C13
open RichModel

/-- `get_character_cell_size` at the generated table. -/
def cw : Char → Nat := charWidthT Gen.cellWidths

/-- Side condition on the *generated* table: rows are `start ≤ end`, sorted and disjoint. -/
theorem cellWidths_sortedDisjoint : adjSorted Gen.cellWidths.toList = true := by decide +kernel

/-- Side condition on the *generated* table: every width is one of -1, 0, 1, 2. -/
theorem cellWidths_small : widthsSmall Gen.cellWidths.toList = true := by decide +kernel

/-- The binary search agrees with a linear scan of the table on **every** code point
(all 1,114,112 and beyond), so the width of a character is what the table says. -/
theorem bsearch_eq_linear (cp : Nat) :
    codepointWidth Gen.cellWidths cp = linearScan Gen.cellWidths.toList cp :=
  codepointWidth_eq_linear _ cellWidths_sortedDisjoint cp

/-- Every character is 0, 1 or 2 cells wide. -/
theorem charWidth_le_two (c : Char) : cw c ≤ 2 := by
  unfold cw charWidthT
  simp only
  split
  · omega
  · rw [bsearch_eq_linear]; exact linearScan_le_two _ cellWidths_small _

theorem charWidth_space : cw ' ' = 1 := by decide

/-- The width of a string is the sum of its characters' widths (definitionally), whatever was
measured before: for every cache capacity and every history of calls — including histories that
evict — the results are those of the uncached function. -/
theorem cache_transparent (cap : Nat) (calls : List (List Char)) :
    cellLenHistory cw { cap := cap, items := [] } calls = calls.map (cellLen cw) :=
  cellLenHistory_eq cw calls _ (by intro p hp; simp at hp)

/-- …and from any reachable cache state, not only the empty one. -/
theorem cache_transparent_from (c : Cache) (h : c.Inv cw) (calls : List (List Char)) :
    cellLenHistory cw c calls = calls.map (cellLen cw) :=
  cellLenHistory_eq cw calls c h

/-- `set_cell_size` yields exactly `n` cells, made of a prefix of the original followed by spaces. -/
theorem set_cell_size_exact (s : List Char) (n : Nat) :
    cellLen cw (setCellSize cw s n) = n ∧ ∃ k m, setCellSize cw s n = s.take k ++ List.replicate m ' ' :=
  setCellSize_exact cw charWidth_space charWidth_le_two s n

/-- `chop_cells`: the pieces concatenate to the original (any width, any start position). -/
theorem chop_cells_concat (s : List Char) (m p : Nat) : (chopCells cw s m p).flatten = s :=
  chop_concat cw s m p

/-- `chop_cells` to a width of at least two: every piece fits. -/
theorem chop_cells_fit (s : List Char) (m p : Nat) (hm : 2 ≤ m) (hp : p ≤ m) :
    ∀ q ∈ chopCells cw s m p, cellLen cw q ≤ m :=
  chop_fits cw s m p (fun c => Nat.le_trans (charWidth_le_two c) hm) hp

/-! ## `chop_cells` from ANY starting position and for ANY width (deepening round 4)

`rich/_wrap.py::divide_line` calls `chop_cells(word, width, position=line_position)` where `line_position` is the
cell length of the previous word *with* its trailing spaces, which may exceed `width`; so no `p ≤ m` is assumed. -/

/-- The exact first-piece bound and the bound on every later piece, with no hypothesis on `m` or `p`:
the result is never empty; its first piece is empty or fits in what is left of the line (`p` + its width ≤ `m`);
every later piece is non-empty and fits the width, unless it is one single character wider than the whole width;
and the split is greedy (`ChopMax`: the first character of each next piece did not fit behind the piece before it). -/
theorem chop_cells_first_piece (s : List Char) (m p : Nat) :
    ∃ q0 tl, chopCells cw s m p = q0 :: tl ∧ (q0 = [] ∨ p + cellLen cw q0 ≤ m) ∧
      (∀ q ∈ tl, PieceOK cw m q) ∧ ChopMax cw m p (q0 :: tl) :=
  chop_first cw s m p

/-- **Exactness of `chop_cells`**: concatenation, the fit clauses and greediness determine the pieces — any piece
list `L` that concatenates to `s`, whose first piece is empty or fits behind `p`, whose later pieces are `PieceOK`
and which is greedy, IS `chop_cells(s, m, position=p)`.  With `chop_cells_concat` and `chop_cells_first_piece`
(the converse) this is a complete specification, for every `s`, `m`, `p`. -/
theorem chop_cells_unique (s : List Char) (m p : Nat) (L : List (List Char))
    (hfl : L.flatten = s) (hfit : ChopFit cw m p L) (hmax : ChopMax cw m p L) : L = chopCells cw s m p :=
  chop_unique cw s m p L hfl hfit hmax

/-- `chop_cells_fit` without `p ≤ m`: at width ≥ 2 every piece fits, wherever the line started. -/
theorem chop_cells_fit_any_position (s : List Char) (m p : Nat) (hm : 2 ≤ m) :
    ∀ q ∈ chopCells cw s m p, cellLen cw q ≤ m := by
  obtain ⟨q0, tl, h, h0, htl, _⟩ := chop_cells_first_piece s m p
  rw [h]
  intro q hq
  rcases List.mem_cons.mp hq with hq | hq
  · subst hq
    rcases h0 with h0 | h0
    · subst h0; simp [cellLen]
    · omega
  · rcases (htl q hq).2 with h1 | ⟨c, _, hc⟩
    · exact h1
    · have := charWidth_le_two c; omega

/-! ## `LRUCache` (rich/_lru_cache.py) as a state machine, refined to a plain map that never evicts -/

section Lru
variable {K V : Type} [DecidableEq K]

/-- For every capacity ≥ 1 and EVERY history of `__setitem__` / `__getitem__` / `get` / `in` / `len` from the empty
cache: the outputs are those of the abstract machine `amRun`, whose state `A` is a plain association list that never
drops anything; the cache content is exactly `A` restricted to its `cap` most recent keys; `A` has distinct keys;
and `A` read as a function is the plain finite map of the history (`plainRun`: `Function.update` at each
`__setitem__`, nothing else). -/
theorem lru_refines_plain_map (cap : Nat) (hcap : 0 < cap) (ops : List (LruOp K V)) :
    Lru.run { cap := cap, items := ([] : List (K × V)) } ops =
      ((amRun cap [] ops).1, { cap := cap, items := viewL cap (amRun cap [] ops).2 }) ∧
    KeysNodup (amRun cap ([] : List (K × V)) ops).2 ∧
    ∀ k, lookupL (amRun cap ([] : List (K × V)) ops).2 k = plainRun (fun _ => none) ops k := by
  have hn : KeysNodup ([] : List (K × V)) := by simp [KeysNodup]
  have h := amRun_sim cap hcap ops ([] : List (K × V)) hn
  refine ⟨?_, h.2, ?_⟩
  · have := h.1; simpa [viewL] using this
  · intro k
    rw [amRun_lookup cap hcap ops [] hn k]
    apply plainRun_congr
    intro k'; simp [lookupL]

/-- …and from any state whose content is the view of some plain map with distinct keys (not only the empty one). -/
theorem lru_refines_plain_map_from (cap : Nat) (hcap : 0 < cap) (A : List (K × V)) (hA : KeysNodup A)
    (ops : List (LruOp K V)) :
    Lru.run { cap := cap, items := viewL cap A } ops =
      ((amRun cap A ops).1, { cap := cap, items := viewL cap (amRun cap A ops).2 }) ∧
    KeysNodup (amRun cap A ops).2 ∧
    ∀ k, lookupL (amRun cap A ops).2 k = plainRun (lookupL A) ops k :=
  ⟨(amRun_sim cap hcap ops A hA).1, (amRun_sim cap hcap ops A hA).2, amRun_lookup cap hcap ops A hA⟩

/-- `len(cache) ≤ cache_size` and the keys are distinct, after every history. -/
theorem lru_bounded (cap : Nat) (hcap : 0 < cap) (ops : List (LruOp K V)) :
    (Lru.run { cap := cap, items := ([] : List (K × V)) } ops).2.items.length ≤ cap ∧
    KeysNodup (Lru.run { cap := cap, items := ([] : List (K × V)) } ops).2.items := by
  obtain ⟨h1, h2, _⟩ := lru_refines_plain_map cap hcap ops
  rw [h1]
  exact ⟨viewL_length_le _ _, keysNodup_viewL _ _ h2⟩

/-- A hit is never stale: whatever the cache holds for `k` after a history is what a plain `dict` would hold. -/
theorem lru_hit_sound (cap : Nat) (hcap : 0 < cap) (ops : List (LruOp K V)) (k : K) (v : V)
    (h : lookupL (Lru.run { cap := cap, items := ([] : List (K × V)) } ops).2.items k = some v) :
    plainRun (fun _ => none) ops k = some v := by
  obtain ⟨h1, h2, h3⟩ := lru_refines_plain_map cap hcap ops
  rw [h1] at h
  rw [← h3 k]
  exact lookupL_view cap _ h2 k v h

/-- Capacity 0 (or negative): `__setitem__` on the empty cache raises `KeyError` (from `popitem`) and stores nothing. -/
theorem lru_cap_zero (op : LruOp K V) :
    ((Lru.step { cap := 0, items := ([] : List (K × V)) } op).2.items = []) ∧
    (∀ k v, op = .setitem k v → (Lru.step { cap := 0, items := ([] : List (K × V)) } op).1 = .keyError) :=
  lru_cap_zero_step op

end Lru

/-- The cache model used by `cell_len` (`Cache.get` / `Cache.set`) is this machine's `get` / `__setitem__`
(for a capacity ≥ 1, or a non-empty cache; at capacity 0 `Cache.set` stores where Python raises `KeyError`). -/
theorem cell_len_cache_is_lru (c : Cache) (k : List Char) (v : Nat) (h : 0 < c.cap ∨ c.items ≠ []) :
    c.get k = lookupL c.items k ∧
    Lru.step { cap := c.cap, items := c.items } (.setitem k v) =
      (.unit, { cap := (c.set k v).cap, items := (c.set k v).items }) :=
  ⟨Cache.get_eq_lookupL c k, Cache.set_eq_step c k v h⟩

/-! ## The remaining small pieces (deepening round 4): `set_cell_size` for any integer total, `make_control`,
`Segment.line` -/

/-- `set_cell_size(text, total)` for EVERY Python int `total`: exactly `total` cells made of a prefix of the text and
spaces when `total ≥ 0`; the empty string when `total < 0`. -/
theorem set_cell_size_any_total (s : List Char) (t : Int) :
    (0 ≤ t → cellLen cw (setCellSizeI cw s t) = t.toNat ∧
      ∃ k m, setCellSizeI cw s t = s.take k ++ List.replicate m ' ') ∧
    (t < 0 → setCellSizeI cw s t = []) := by
  refine ⟨fun h => ?_, setCellSizeI_neg cw s t⟩
  obtain ⟨n, rfl⟩ := Int.eq_ofNat_of_zero_le h
  rw [setCellSizeI_nonneg]
  simpa using set_cell_size_exact s n

theorem charWidth_newline : cw '\n' = 0 := by decide +kernel

/-- `Segment.make_control`: every segment becomes a control segment with its text and style, so the line measures 0
cells; `Segment.line()` (a `"\n"` text segment or control segment) measures 0 cells too. -/
theorem make_control_spec {σ : Type} (segs : List (Segment σ)) (b : Bool) :
    (∀ s ∈ makeControl segs, s.control = true) ∧
    (makeControl segs).map (fun s => (s.text, s.style)) = segs.map (fun s => (s.text, s.style)) ∧
    lineLength cw (makeControl segs) = 0 ∧
    lineLength cw [(Segment.newLine b : Segment σ)] = 0 := by
  obtain ⟨h1, h2, h3⟩ := makeControl_spec cw segs
  refine ⟨h1, h2, h3, ?_⟩
  cases b <;> simp [Segment.newLine, lineLength, Segment.cellLength, cellLen, charWidth_newline]

variable {σ : Type}

/-- `adjust_line_length` yields exactly the requested cell length (when padding, or when the line
was long enough to be cropped). -/
theorem adjust_line_length_exact (line : List (Segment σ)) (n : Nat) (st : Option σ) (pad : Bool)
    (h : pad = true ∨ n ≤ lineLength cw line) :
    lineLength cw (adjustLineLength cw line n st pad) = n :=
  adjust_exact cw charWidth_space charWidth_le_two line n st pad h

/-- Padding keeps every (character, style, control) of the line and adds spaces in the requested style. -/
theorem adjust_line_length_pad (line : List (Segment σ)) (n : Nat) (st : Option σ)
    (h : lineLength cw line ≤ n) :
    stream (adjustLineLength cw line n st true) =
      stream line ++ List.replicate (n - lineLength cw line) (' ', st, false) :=
  adjust_pad_stream cw line n st h

/-- Cropping keeps a prefix of the (character, style, control) stream, plus at most blanks standing
in for a cut double-width character. -/
theorem adjust_line_length_crop (line : List (Segment σ)) (n : Nat) (st : Option σ) (pad : Bool)
    (h : n < lineLength cw line) :
    ∃ k m sty, stream (adjustLineLength cw line n st pad) =
      (stream line).take k ++ List.replicate m (' ', sty, false) := by
  unfold adjustLineLength
  have h1 : ¬ lineLength cw line < n := by omega
  simp only [h1, if_false, h, if_true]
  exact cropLoop_stream cw charWidth_space charWidth_le_two n line 0

/-- `split_lines` loses nothing but the line feeds it splits at. -/
theorem split_lines_stream (segs : List (Segment σ)) :
    ((splitLines segs).map stream).flatten = (stream segs).filter keepChar :=
  splitLines_stream segs

/-- `split_and_crop_lines` = `split_lines`, then `adjust_line_length` on each line **with the
requested padding style**, then the newline segment where a line feed was consumed. -/
theorem split_and_crop_refines (segs : List (Segment σ)) (n : Nat) (style : Option σ) (pad inclNL : Bool) :
    splitAndCropLines cw segs n style pad inclNL false =
      (splitLinesTagged segs).map (fun p =>
        adjustLineLength cw p.1 n style pad ++
          (if p.2 && inclNL then [{ text := ['\n'], style := none, control := false }] else [])) :=
  splitAndCrop_eq_tagged cw segs n style pad inclNL

/-- Hence every padded, cropped line has exactly the requested length. -/
theorem split_and_crop_exact (segs : List (Segment σ)) (n : Nat) (style : Option σ) :
    ∀ l ∈ splitAndCropLines cw segs n style true false false, lineLength cw l = n := by
  intro l hl
  rw [split_and_crop_refines] at hl
  simp only [Bool.and_false, Bool.false_eq_true, if_false, List.append_nil, List.mem_map] at hl
  obtain ⟨p, _, rfl⟩ := hl
  exact adjust_line_length_exact p.1 n style true (Or.inl rfl)

/-- `set_shape`: every line has exactly `width` cells, and there are `max(len(lines), height)` lines. -/
theorem set_shape_rect (lines : List (List (Segment σ))) (w : Nat) (h : Option Nat) (st : Option σ) :
    (∀ l ∈ setShape cw lines w h st, lineLength cw l = w) ∧
    (setShape cw lines w h st).length = max lines.length (h.getD lines.length) :=
  ⟨setShape_rect cw charWidth_space charWidth_le_two lines w h st, setShape_length cw lines w h st⟩

/-- `simplify` (repaired code) leaves the (character, style, control) stream unchanged. -/
theorem simplify_preserves [BEq σ] [LawfulBEq σ] (segs : List (Segment σ)) :
    stream (simplify segs false) = stream segs := by
  cases segs with
  | nil => rfl
  | cons s rest => exact simplifyLoop_stream rest s

/-! ## Style-level helpers keep characters, control flags and cell lengths -/

/-- `Segment.apply_style` changes styles only: texts and control flags are untouched, in order. -/
theorem apply_style_keeps_text (add : σ → σ → σ) (truthy : σ → Bool) (segs : List (Segment σ)) (st ps : Option σ) :
    (applyStyle add truthy segs st ps).map textCtl = segs.map textCtl ∧
    lineLength cw (applyStyle add truthy segs st ps) = lineLength cw segs :=
  ⟨applyStyle_textCtl add truthy segs st ps,
   lineLength_of_textCtl cw _ _ (applyStyle_textCtl add truthy segs st ps)⟩

/-- …and control segments never acquire a style through it. -/
theorem apply_style_control_unstyled (add : σ → σ → σ) (truthy : σ → Bool) (segs : List (Segment σ)) (st ps : Option σ)
    (h : st.isSome ∨ ps.isSome) :
    ∀ s ∈ applyStyle add truthy segs st ps, s.control = true → s.style = none :=
  applyStyle_control_unstyled add truthy segs st ps h

/-- `strip_styles`, `strip_links`, `remove_color` keep every text and control flag (so a control segment
stays one, whatever its style). -/
theorem strip_and_remove_keep_text (truthy : σ → Bool) (f : σ → σ) (segs : List (Segment σ)) :
    (stripStyles segs).map textCtl = segs.map textCtl ∧
    (stripLinks truthy f segs).map textCtl = segs.map textCtl ∧
    (removeColor truthy f segs).map textCtl = segs.map textCtl :=
  ⟨stripStyles_textCtl segs, stripLinks_textCtl truthy f segs, removeColor_textCtl truthy f segs⟩

/-- `filter_control` splits the segments by their flag, in order, losing none, and dropping control
segments does not change the cell length of a line. -/
theorem filter_control_spec (segs : List (Segment σ)) (b : Bool) :
    (∀ s ∈ filterControl segs b, s.control = b) ∧ (filterControl segs b).Sublist segs ∧
    (filterControl segs true).length + (filterControl segs false).length = segs.length ∧
    lineLength cw (filterControl segs false) = lineLength cw segs :=
  ⟨filterControl_flag segs b, filterControl_sublist segs b, filterControl_count segs,
   filterControl_lineLength cw segs⟩

/-- `get_shape` is an enclosing rectangle: as many rows as lines, at least as wide as every line. -/
theorem get_shape_encloses (lines : List (List (Segment σ))) :
    (getShape cw lines).2 = lines.length ∧ ∀ l ∈ lines, lineLength cw l ≤ (getShape cw lines).1 :=
  getShape_spec cw lines

/-! ## Witnesses: the two defects found in the code as it stood (kept as machine-checked negations
for the *old* behaviour, selected by the `rebind` / `mergeCtl` flags of the model). -/

/-- F2: with `style` rebound by `text, style, _ = segment`, padding takes the segment's style (1)
instead of the requested one (2). -/
theorem old_split_and_crop_pad_style_wrong :
    stream (σ := Nat) ((splitAndCropLines cw [{ text := ['a', '\n', 'b'], style := some 1 }] 3 (some 2) true false true).getD 0 [])
      ≠ [('a', some 1, false), (' ', some 2, false), (' ', some 2, false)] := by decide

/-- F18: merging into a control segment turned control codes into printable text. -/
theorem old_simplify_loses_control :
    stream (σ := Nat) (simplify [{ text := ['\x07'], style := none, control := true }, { text := ['x'], style := none }] true)
      ≠ stream (σ := Nat) [{ text := ['\x07'], style := none, control := true }, { text := ['x'], style := none }] := by decide

/-! ## Non-vacuity: the hypotheses are met by concrete non-trivial values. -/
example : 2 ≤ 3 ∧ (1:Nat) ≤ 3 := by omega
example : cellLen cw ['あ', 'a'] = 3 := by decide +kernel
example : setCellSize cw ['あ', 'a'] 1 = [' '] := by decide +kernel
example : chopCells cw ['あ', 'a', 'b'] 2 0 = [['あ'], ['a', 'b']] := by decide +kernel
example : lineLength cw ([{ text := ['あ'], style := some 1 }] : List (Segment Nat)) ≤ 4 := by decide +kernel
example : chopCells cw ['a', 'あ', 'b', 'c'] 3 5 = [[], ['a', 'あ'], ['b', 'c']] := by decide +kernel
example : chopCells cw ['あ', 'a'] 1 0 = [[], ['あ'], ['a']] := by decide +kernel
example : (Lru.run { cap := 2, items := ([] : List (Nat × Nat)) }
    [.setitem 1 10, .setitem 2 20, .getitem 1, .setitem 3 30, .get 2, .get 1, .getitem 2, .len]).1 =
    [.unit, .unit, .val 10, .unit, .unit, .val 10, .keyError, .nat 2] := by decide
example : KeysNodup [(1, 10), (2, 20)] ∧ viewL 1 [(1, 10), (2, 20)] = [(2, 20)] := by
  unfold KeysNodup; decide
example : setCellSizeI cw ['あ', 'a'] (-3) = [] ∧ setCellSizeI cw ['あ', 'a'] 1 = [' '] := by decide +kernel
example : splitLines ([{ text := ['a'], style := none }, Segment.newLine, { text := ['b'], style := some 1 }] : List (Segment Nat)) =
    [[{ text := ['a'], style := none }], [{ text := ['b'], style := some 1 }]] := by decide
example : ChopFit cw 3 5 [[], ['a', 'あ'], ['b', 'c']] ∧ ChopMax cw 3 5 [[], ['a', 'あ'], ['b', 'c']] := by
  refine ⟨⟨Or.inl rfl, ?_⟩, ⟨'a', ['あ'], rfl, by decide +kernel⟩, ⟨'b', ['c'], rfl, by decide +kernel⟩, trivial⟩
  intro q hq
  simp only [List.mem_cons, List.not_mem_nil, or_false] at hq
  rcases hq with rfl | rfl
  · exact ⟨by simp, Or.inl (by decide +kernel)⟩
  · exact ⟨by simp, Or.inl (by decide +kernel)⟩

end RichModel.C13
