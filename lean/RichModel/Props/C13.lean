import RichModel.Lemmas.Cells
import RichModel.Lemmas.Segment
import RichModel.Gen.CellWidths
/-!
# C13 — cell-width arithmetic and line shaping are exact and history-independent

Property theorems only (helper lemmas live in `Lemmas/`).  `cw` is Rich's
`get_character_cell_size` over the table translated from `rich/_cell_widths.py` on this run.
-/
namespace RichModel.C13
open RichModel

/-- `get_character_cell_size` at the generated table. -/
def cw : Char → Nat := charWidthT Gen.cellWidths

/-- Side condition on the *generated* table: rows are `start ≤ end`, sorted and disjoint. -/
theorem cellWidths_sortedDisjoint : adjSorted Gen.cellWidths.toList = true := by decide +kernel

/-- Side condition on the *generated* table: every width is one of -1, 0, 1, 2. -/
theorem cellWidths_small : widthsSmall Gen.cellWidths.toList = true := by decide +kernel

/-- The binary search agrees with a linear scan of the table on **every** code point
(all 1,114,112 and beyond), so the width of a character is what the table says. -/
theorem bsearch_eq_linear (cp : Nat) :
    codepointWidth Gen.cellWidths cp = linearScan Gen.cellWidths.toList cp :=
  codepointWidth_eq_linear _ cellWidths_sortedDisjoint cp

/-- Every character is 0, 1 or 2 cells wide. -/
theorem charWidth_le_two (c : Char) : cw c ≤ 2 := by
  unfold cw charWidthT
  simp only
  split
  · omega
  · rw [bsearch_eq_linear]; exact linearScan_le_two _ cellWidths_small _

theorem charWidth_space : cw ' ' = 1 := by decide

/-- The width of a string is the sum of its characters' widths (definitionally), whatever was
measured before: for every cache capacity and every history of calls — including histories that
evict — the results are those of the uncached function. -/
theorem cache_transparent (cap : Nat) (calls : List (List Char)) :
    cellLenHistory cw { cap := cap, items := [] } calls = calls.map (cellLen cw) :=
  cellLenHistory_eq cw calls _ (by intro p hp; simp at hp)

/-- …and from any reachable cache state, not only the empty one. -/
theorem cache_transparent_from (c : Cache) (h : c.Inv cw) (calls : List (List Char)) :
    cellLenHistory cw c calls = calls.map (cellLen cw) :=
  cellLenHistory_eq cw calls c h

/-- `set_cell_size` yields exactly `n` cells, made of a prefix of the original followed by spaces. -/
theorem set_cell_size_exact (s : List Char) (n : Nat) :
    cellLen cw (setCellSize cw s n) = n ∧ ∃ k m, setCellSize cw s n = s.take k ++ List.replicate m ' ' :=
  setCellSize_exact cw charWidth_space charWidth_le_two s n

/-- `chop_cells`: the pieces concatenate to the original (any width, any start position). -/
theorem chop_cells_concat (s : List Char) (m p : Nat) : (chopCells cw s m p).flatten = s :=
  chop_concat cw s m p

/-- `chop_cells` to a width of at least two: every piece fits. -/
theorem chop_cells_fit (s : List Char) (m p : Nat) (hm : 2 ≤ m) (hp : p ≤ m) :
    ∀ q ∈ chopCells cw s m p, cellLen cw q ≤ m :=
  chop_fits cw s m p (fun c => Nat.le_trans (charWidth_le_two c) hm) hp

variable {σ : Type}

/-- `adjust_line_length` yields exactly the requested cell length (when padding, or when the line
was long enough to be cropped). -/
theorem adjust_line_length_exact (line : List (Segment σ)) (n : Nat) (st : Option σ) (pad : Bool)
    (h : pad = true ∨ n ≤ lineLength cw line) :
    lineLength cw (adjustLineLength cw line n st pad) = n :=
  adjust_exact cw charWidth_space charWidth_le_two line n st pad h

/-- Padding keeps every (character, style, control) of the line and adds spaces in the requested style. -/
theorem adjust_line_length_pad (line : List (Segment σ)) (n : Nat) (st : Option σ)
    (h : lineLength cw line ≤ n) :
    stream (adjustLineLength cw line n st true) =
      stream line ++ List.replicate (n - lineLength cw line) (' ', st, false) :=
  adjust_pad_stream cw line n st h

/-- Cropping keeps a prefix of the (character, style, control) stream, plus at most blanks standing
in for a cut double-width character. -/
theorem adjust_line_length_crop (line : List (Segment σ)) (n : Nat) (st : Option σ) (pad : Bool)
    (h : n < lineLength cw line) :
    ∃ k m sty, stream (adjustLineLength cw line n st pad) =
      (stream line).take k ++ List.replicate m (' ', sty, false) := by
  unfold adjustLineLength
  have h1 : ¬ lineLength cw line < n := by omega
  simp only [h1, if_false, h, if_true]
  exact cropLoop_stream cw charWidth_space charWidth_le_two n line 0

/-- `split_lines` loses nothing but the line feeds it splits at. -/
theorem split_lines_stream (segs : List (Segment σ)) :
    ((splitLines segs).map stream).flatten = (stream segs).filter keepChar :=
  splitLines_stream segs

/-- `split_and_crop_lines` = `split_lines`, then `adjust_line_length` on each line **with the
requested padding style**, then the newline segment where a line feed was consumed. -/
theorem split_and_crop_refines (segs : List (Segment σ)) (n : Nat) (style : Option σ) (pad inclNL : Bool) :
    splitAndCropLines cw segs n style pad inclNL false =
      (splitLinesTagged segs).map (fun p =>
        adjustLineLength cw p.1 n style pad ++
          (if p.2 && inclNL then [{ text := ['\n'], style := none, control := false }] else [])) :=
  splitAndCrop_eq_tagged cw segs n style pad inclNL

/-- Hence every padded, cropped line has exactly the requested length. -/
theorem split_and_crop_exact (segs : List (Segment σ)) (n : Nat) (style : Option σ) :
    ∀ l ∈ splitAndCropLines cw segs n style true false false, lineLength cw l = n := by
  intro l hl
  rw [split_and_crop_refines] at hl
  simp only [Bool.and_false, Bool.false_eq_true, if_false, List.append_nil, List.mem_map] at hl
  obtain ⟨p, _, rfl⟩ := hl
  exact adjust_line_length_exact p.1 n style true (Or.inl rfl)

/-- `set_shape`: every line has exactly `width` cells, and there are `max(len(lines), height)` lines. -/
theorem set_shape_rect (lines : List (List (Segment σ))) (w : Nat) (h : Option Nat) (st : Option σ) :
    (∀ l ∈ setShape cw lines w h st, lineLength cw l = w) ∧
    (setShape cw lines w h st).length = max lines.length (h.getD lines.length) :=
  ⟨setShape_rect cw charWidth_space charWidth_le_two lines w h st, setShape_length cw lines w h st⟩

/-- `simplify` (repaired code) leaves the (character, style, control) stream unchanged. -/
theorem simplify_preserves [BEq σ] [LawfulBEq σ] (segs : List (Segment σ)) :
    stream (simplify segs false) = stream segs := by
  cases segs with
  | nil => rfl
  | cons s rest => exact simplifyLoop_stream rest s

/-! ## Style-level helpers keep characters, control flags and cell lengths -/

/-- `Segment.apply_style` changes styles only: texts and control flags are untouched, in order. -/
theorem apply_style_keeps_text (add : σ → σ → σ) (truthy : σ → Bool) (segs : List (Segment σ)) (st ps : Option σ) :
    (applyStyle add truthy segs st ps).map textCtl = segs.map textCtl ∧
    lineLength cw (applyStyle add truthy segs st ps) = lineLength cw segs :=
  ⟨applyStyle_textCtl add truthy segs st ps,
   lineLength_of_textCtl cw _ _ (applyStyle_textCtl add truthy segs st ps)⟩

/-- …and control segments never acquire a style through it. -/
theorem apply_style_control_unstyled (add : σ → σ → σ) (truthy : σ → Bool) (segs : List (Segment σ)) (st ps : Option σ)
    (h : st.isSome ∨ ps.isSome) :
    ∀ s ∈ applyStyle add truthy segs st ps, s.control = true → s.style = none :=
  applyStyle_control_unstyled add truthy segs st ps h

/-- `strip_styles`, `strip_links`, `remove_color` keep every text and control flag (so a control segment
stays one, whatever its style). -/
theorem strip_and_remove_keep_text (truthy : σ → Bool) (f : σ → σ) (segs : List (Segment σ)) :
    (stripStyles segs).map textCtl = segs.map textCtl ∧
    (stripLinks truthy f segs).map textCtl = segs.map textCtl ∧
    (removeColor truthy f segs).map textCtl = segs.map textCtl :=
  ⟨stripStyles_textCtl segs, stripLinks_textCtl truthy f segs, removeColor_textCtl truthy f segs⟩

/-- `filter_control` splits the segments by their flag, in order, losing none, and dropping control
segments does not change the cell length of a line. -/
theorem filter_control_spec (segs : List (Segment σ)) (b : Bool) :
    (∀ s ∈ filterControl segs b, s.control = b) ∧ (filterControl segs b).Sublist segs ∧
    (filterControl segs true).length + (filterControl segs false).length = segs.length ∧
    lineLength cw (filterControl segs false) = lineLength cw segs :=
  ⟨filterControl_flag segs b, filterControl_sublist segs b, filterControl_count segs,
   filterControl_lineLength cw segs⟩

/-- `get_shape` is an enclosing rectangle: as many rows as lines, at least as wide as every line. -/
theorem get_shape_encloses (lines : List (List (Segment σ))) :
    (getShape cw lines).2 = lines.length ∧ ∀ l ∈ lines, lineLength cw l ≤ (getShape cw lines).1 :=
  getShape_spec cw lines

/-! ## Witnesses: the two defects found in the code as it stood (kept as machine-checked negations
for the *old* behaviour, selected by the `rebind` / `mergeCtl` flags of the model). -/

/-- F2: with `style` rebound by `text, style, _ = segment`, padding takes the segment's style (1)
instead of the requested one (2). -/
theorem old_split_and_crop_pad_style_wrong :
    stream (σ := Nat) ((splitAndCropLines cw [{ text := ['a', '\n', 'b'], style := some 1 }] 3 (some 2) true false true).getD 0 [])
      ≠ [('a', some 1, false), (' ', some 2, false), (' ', some 2, false)] := by decide

/-- F18: merging into a control segment turned control codes into printable text. -/
theorem old_simplify_loses_control :
    stream (σ := Nat) (simplify [{ text := ['\x07'], style := none, control := true }, { text := ['x'], style := none }] true)
      ≠ stream (σ := Nat) [{ text := ['\x07'], style := none, control := true }, { text := ['x'], style := none }] := by decide

/-! ## Non-vacuity: the hypotheses are met by concrete non-trivial values. -/
example : 2 ≤ 3 ∧ (1:Nat) ≤ 3 := by omega
example : cellLen cw ['あ', 'a'] = 3 := by decide +kernel
example : setCellSize cw ['あ', 'a'] 1 = [' '] := by decide +kernel
example : chopCells cw ['あ', 'a', 'b'] 2 0 = [['あ'], ['a', 'b']] := by decide +kernel
example : lineLength cw ([{ text := ['あ'], style := some 1 }] : List (Segment Nat)) ≤ 4 := by decide +kernel

end RichModel.C13
