import RichModel.Lemmas.Ratio
import RichModel.Props.C01
import RichModel.Props.C17
import RichModel.Lemmas.LayoutTextSep
/-!
# C09 — measurements are sound bounds on what rendering produces

First the part every renderable shares — `Measurement.get` normalises and clamps whatever `__rich_measure__` returns — then, on the
composition model (`Model/Layout.lean`, shared with C01): the measurement of every renderable tree is normal; rendering at the
reported maximum, or at the reported minimum, produces no line wider than that value (for values at or above the structural
minimum, inside the domain of C01 — both are corollaries of `C01.render_fits`, which holds at EVERY width from the structural
minimum up); a fitted group reports the largest minimum / maximum of its members (`group_measure_is_max`); for a text and for a
tree the proviso "at or above the structural minimum" can be dropped (`text_render_at_measure_fits`, `tree_render_at_measure_fits`),
for a framed renderable it cannot (`panel_measure_below_borders_is_only_the_clamp`); the text measurement is "widest word / widest
line" and a text given its maximum is not wrapped.  The known finding F23 (`progressbar-no-newline`) is machine-checked on the
measurement side at the end (`known_group_with_progressbar_measure_unsound`).  `Syntax` and `Pretty` are not renderables of C01's
trees: see "documented non-claims" below.
-/
namespace RichModel.C09
open RichModel RichModel.Frames RichModel.Layout

/-- For every renderable (whatever its `__rich_measure__` returns, or if it has none) and every
available width, the reported measurement satisfies `0 ≤ minimum ≤ maximum ≤ max(available, 0)`. -/
theorem measurement_get_normal (maxWidth : Int) (measured : Option Measurement) :
    0 ≤ (Measurement.getPost maxWidth measured).minimum ∧
    (Measurement.getPost maxWidth measured).minimum ≤ (Measurement.getPost maxWidth measured).maximum ∧
    (Measurement.getPost maxWidth measured).maximum ≤ max maxWidth 0 :=
  Measurement.getPost_ok maxWidth measured

theorem normalize_ok (m : Measurement) : 0 ≤ m.normalize.minimum ∧ m.normalize.minimum ≤ m.normalize.maximum :=
  Measurement.normalize_ok m

theorem normalize_idempotent (m : Measurement) : m.normalize.normalize = m.normalize :=
  Measurement.normalize_idem m

example : Measurement.getPost 10 (some ⟨-3, 50⟩) = ⟨0, 10⟩ := by decide
example : Measurement.getPost 0 (some ⟨1, 5⟩) = ⟨0, 0⟩ := by decide

/-! ## every renderable tree -/

/-- **measure_normal.**  `Measurement.get(console, tree, available)` of every renderable tree — text, every frame, tables, columns,
trees, groups, objects without `__rich_measure__` (`opaque`), objects cast through `__rich__` (`cast`) — at every available width
(any Python int, including 0, negatives and widths below the content's needs): `0 ≤ minimum ≤ maximum ≤ max(available, 0)`. -/
theorem measure_normal (cfg : Cfg) (r : R) (available : Int) :
    0 ≤ (measureGet cfg r available).minimum ∧ (measureGet cfg r available).minimum ≤ (measureGet cfg r available).maximum ∧
      (measureGet cfg r available).maximum ≤ max available 0 :=
  measureGet_normal cfg r available

/-- **render_at_max_fits.**  Rendering at the reported maximum never produces a line wider than that value, when the value is at or
above the structural minimum (and the tree is in C01's domain at that width). -/
theorem render_at_max_fits (cfg : Cfg) (ok : CfgOk cfg) (r : R) (o : Opts) (available : Int)
    (hs : (smin cfg.cw r : Int) ≤ (measureGet cfg r available).maximum)
    (hd : Dom cfg r o (measureGet cfg r available).maximum.toNat) :
    ∀ l ∈ renderedLines cfg r o (measureGet cfg r available).maximum,
      (lineLength cfg.cw l : Int) ≤ (measureGet cfg r available).maximum := by
  generalize (measureGet cfg r available).maximum = m at hs hd
  have hm : m = ((m.toNat : Nat) : Int) := by omega
  intro l hl
  rw [hm] at hl
  have := C01.rendered_lines_fit cfg ok r o m.toNat (by omega) hd l hl
  omega

/-- **render_at_min_fits.**  The same at the reported minimum. -/
theorem render_at_min_fits (cfg : Cfg) (ok : CfgOk cfg) (r : R) (o : Opts) (available : Int)
    (hs : (smin cfg.cw r : Int) ≤ (measureGet cfg r available).minimum)
    (hd : Dom cfg r o (measureGet cfg r available).minimum.toNat) :
    ∀ l ∈ renderedLines cfg r o (measureGet cfg r available).minimum,
      (lineLength cfg.cw l : Int) ≤ (measureGet cfg r available).minimum := by
  generalize (measureGet cfg r available).minimum = m at hs hd
  have hm : m = ((m.toNat : Nat) : Int) := by omega
  intro l hl
  rw [hm] at hl
  have := C01.rendered_lines_fit cfg ok r o m.toNat (by omega) hd l hl
  omega

/-- **group_measure_is_max.**  A fitted `RenderGroup` with at least one member reports exactly the largest minimum and the largest
maximum among its members' measurements (`measure_renderables`; the clamping of `Measurement.get` changes nothing because every
member's measurement is already normal). -/
theorem group_measure_is_max (cfg : Cfg) (items : List R) (w : Nat) (hne : items ≠ []) :
    measure cfg (.group true items) w =
      ⟨listMax ((measureL cfg items w).map (·.minimum)), listMax ((measureL cfg items w).map (·.maximum))⟩ :=
  Layout.group_measure_is_max cfg items w hne

/-! ### where the proviso "at or above the structural minimum" can be dropped, and where it cannot -/

/-- **Text needs no proviso**: at EVERY available width (any Python int) a text — or a `str` — rendered at its reported maximum produces
no line wider than that maximum (below one cell nothing is rendered at all); likewise at its reported minimum.  Only the documented
opt-out `overflow="ignore"` and an explicit `end` are excluded. -/
theorem text_render_at_measure_fits (cfg : Cfg) (ok : CfgOk cfg) (t : T) (o : Opts) (hd : textDom t o) (m : Int) :
    ∀ l ∈ renderedLines cfg (.text t) o m, (lineLength cfg.cw l : Int) ≤ max m 0 := by
  intro l hl
  unfold renderedLines consoleRender at hl
  by_cases hm : m < 1
  · simp only [hm, if_true] at hl
    have : splitLines ([] : List Seg) = [] := rfl
    rw [this] at hl; cases hl
  · simp only [hm, if_false] at hl
    rw [render] at hl
    have hf := text_fits cfg ok.hsp ok.h2 ok.hel ok.hp t o m.toNat (by omega) hd.1 hd.2
    have := (fits_iff_lines cfg.cw m.toNat _).mp hf l hl
    omega

/-- **A tree needs no proviso** either: every line of a rendered tree is at most the width it was given, whatever the labels. -/
theorem tree_render_at_measure_fits (cfg : Cfg) (ok : CfgOk cfg) (root : TNode) (o : Opts) (m : Int) :
    ∀ l ∈ renderedLines cfg (.tree root) o m, (lineLength cfg.cw l : Int) ≤ max m 0 := by
  intro l hl
  unfold renderedLines consoleRender at hl
  by_cases hm : m < 1
  · simp only [hm, if_true] at hl
    have : splitLines ([] : List Seg) = [] := rfl
    rw [this] at hl; cases hl
  · simp only [hm, if_false] at hl
    have hf := C01.tree_fits_whatever_the_labels cfg ok root o m.toNat
    have := (fits_iff_lines cfg.cw m.toNat _).mp hf l hl
    omega

/-- **A panel does need it**: with one cell available `Panel(Text("a"))` reports (1, 1) — `Measurement.get` clamps the panel's own
answer 5 to the width on offer — and rendered at 1 its borders alone are 2 cells wide.  Below the structural minimum (here 5) the
measurement of a framed renderable is only the clamp, not a promise. -/
theorem panel_measure_below_borders_is_only_the_clamp :
    measureGet C01.nowCfg (.panel { box := 0 } (C01.wText "a")) 1 = ⟨1, 1⟩ ∧
    (renderedLines C01.nowCfg (.panel { box := 0 } (C01.wText "a")) {} 1).map (lineLength cwR) = [2, 2] ∧
    smin cwR (.panel { box := 0 } (C01.wText "a")) = 5 := by decide +kernel

/-! ### documented non-claims (outside C09's quantifier "renderable trees as in C01")

`Syntax` and `Pretty` are not among the renderables of C01's trees, so nothing above speaks about them; what the neighbouring
properties established about their `__rich_measure__` is recorded here so that nobody reads C09 as covering it:
* `Syntax.__rich_measure__` with line numbers and an explicit `code_width` reports a maximum ONE CELL SHORT of what it renders
  (C17: `measure_maximum_one_short_with_numbers`) — an unsound measurement of exactly the kind C09 forbids for its own trees;
* `Pretty.__rich_measure__` is sound since fix db5535b (C16: `pretty_measure_sound`); before it, it measured the repr without the
  width it was going to be rendered at. -/

/-! ## text -/

/-- **text_measure_spec.**  For a text that is not all whitespace, `Text.__rich_measure__` reports: as maximum the width of its
widest line (every line-break separated piece is at most that wide and one of them is exactly that wide), as minimum the width of
its widest word (likewise for the whitespace separated pieces); and `minimum ≤ maximum`. -/
theorem text_measure_spec (cw : Char → Nat) (t : T) (hne : t.plain.all pyIsSpace = false) :
    (∀ p ∈ splitOnP isLineBreak t.plain [], (cellLen cw p : Int) ≤ (textRichMeasure cw t).maximum) ∧
    (∃ p ∈ splitOnP isLineBreak t.plain [], (cellLen cw p : Int) = (textRichMeasure cw t).maximum) ∧
    (∀ p ∈ splitOnP pyIsSpace t.plain [], (cellLen cw p : Int) ≤ (textRichMeasure cw t).minimum) ∧
    (∃ p ∈ splitOnP pyIsSpace t.plain [], (cellLen cw p : Int) = (textRichMeasure cw t).minimum) ∧
    (textRichMeasure cw t).minimum ≤ (textRichMeasure cw t).maximum :=
  Layout.text_measure_spec cw t hne

/-- **text_at_max_not_wrapped.**  A text given (at least) its measured maximum is never wrapped: `divide_line` finds no break in any
of its paragraphs (the pieces between line feeds), folding or not — when `\n` is the only line-break character of the text
(`str.splitlines`, which the measurement uses, also breaks at FS/GS/RS/NEL/LS/PS; `Text.wrap` does not). -/
theorem text_at_max_not_wrapped (cw : Char → Nat) (t : T) (w : Nat) (fold : Bool)
    (hnb : ∀ c ∈ t.plain, isLineBreak c = true → c = '\n')
    (hw : (textRichMeasure cw t).maximum ≤ (w : Int)) :
    ∀ p ∈ Layout.pieces t.plain, Wrap.divideLine cw p w fold = [] :=
  Layout.text_at_max_not_wrapped cw t w fold hnb hw

/-! ### the other `str.splitlines` separators, and tabs (follow-up of the fourth deepening round) -/

/-- a text with a FILE SEPARATOR (U+001C): `Text("aaa\x1cbbb cc")` -/
def sepText (n : Nat) : T := Text.new Variant.repaired ['a', 'a', 'a', Char.ofNat n, 'b', 'b', 'b', ' ', 'c', 'c'] [0]

/-- **The hypothesis of `text_at_max_not_wrapped` is necessary — and the code as it is wraps a tab-free text at its own maximum.**
`Text.__rich_measure__` splits with `str.splitlines()`, `Text.wrap` at `"\n"` only: with any of FS, GS, RS, NEL, LS, PS inside
(all of them zero cells wide) the text `aaa<sep>bbb cc` — ONE 9-cell line for `wrap` — is measured (3, 6), and rendered at 6 it is wrapped
into a 6-cell and a 2-cell line.  No line is wider than the measurement (soundness holds: `text_render_at_measure_fits`), but "given
its maximum it is never wrapped" fails.  Same on real rich for all six separators (`Measurement(3, 6)`, lines `aaa<sep>bbb` / `cc`). -/
theorem separator_text_is_wrapped_at_its_maximum :
    ([28, 29, 30, 0x85, 0x2028, 0x2029].all fun n =>
      textRichMeasure cwR (sepText n) == ⟨3, 6⟩ && C01.widthsOf (.text (sepText n)) 6 == [6, 2] &&
        (Layout.pieces (sepText n).plain).map (fun p => Wrap.divideLine cwR p 6 false) == [[8]]) = true := by decide +kernel

/-- **text_at_max_not_wrapped_repaired.**  With the one-token repair of the measurement (`text.split("\n")` instead of
`text.splitlines()`: `Layout.textRichMeasureNl`) a text given at least its measured maximum is never wrapped — EVERY text, whatever
separators it contains, no hypothesis. -/
theorem text_at_max_not_wrapped_repaired (cw : Char → Nat) (t : T) (w : Nat) (fold : Bool)
    (hw : (Layout.textRichMeasureNl cw t).maximum ≤ (w : Int)) :
    ∀ p ∈ Layout.pieces t.plain, Wrap.divideLine cw p w fold = [] :=
  Layout.text_at_max_not_wrapped_nl cw t w fold hw

/-- …and the repair changes nothing for the texts `text_at_max_not_wrapped` speaks about (only `\n` among the separators) -/
theorem repaired_measure_agrees_without_other_separators (cw : Char → Nat) (t : T)
    (hnb : ∀ c ∈ t.plain, isLineBreak c = true → c = '\n') : Layout.textRichMeasureNl cw t = textRichMeasure cw t :=
  Layout.textRichMeasureNl_eq cw t hnb

/-- the repaired measurement of the separator text is its real line: (3, 9) — at 9 it is not wrapped -/
example : Layout.textRichMeasureNl cwR (sepText 28) = ⟨3, 9⟩ ∧ C01.widthsOf (.text (sepText 28)) 9 = [9] := by decide +kernel

/-- Why the statement says "text without tab characters": tabs are expanded (to the next multiple of 8) by `Text.__rich_console__`
BEFORE wrapping but not by `Text.__rich_measure__`, which counts a tab as 0 cells: `Text("aaa\tbbb cc")` measures (3, 9) and is
wrapped at 9 into an 8-cell and a 6-cell line (its expanded line is 14 cells).  Still sound: no line wider than 9. -/
theorem tab_text_is_wrapped_at_its_maximum :
    textRichMeasure cwR (Text.new Variant.repaired "aaa\tbbb cc".toList [0]) = ⟨3, 9⟩ ∧
    C01.widthsOf (.text (Text.new Variant.repaired "aaa\tbbb cc".toList [0])) 9 = [8, 6] := by decide +kernel

/-- **The finding `text-measure-splitlines` on the model's variant flag** (`textRichMeasureV`, what the driver answers request
`layout_text_spec` with): for the code since the fix (`false`) a text given at least its measured maximum is never wrapped — every
text, no hypothesis; -/
theorem text_at_max_not_wrapped_fixed (cw : Char → Nat) (t : T) (w : Nat) (fold : Bool)
    (hw : (textRichMeasureV false cw t).maximum ≤ (w : Int)) :
    ∀ p ∈ Layout.pieces t.plain, Wrap.divideLine cw p w fold = [] := by
  rw [Layout.textRichMeasureV_false] at hw
  exact Layout.text_at_max_not_wrapped_nl cw t w fold hw

/-- …and the as-found variant (`true`) violates it: `aaa<FS>bbb cc` measures (3, 6) and `divide_line` breaks its paragraph at 6. -/
theorem old_text_measure_splitlines_wraps_at_maximum :
    (textRichMeasureV true cwR (sepText 28)).maximum = 6 ∧ (textRichMeasureV false cwR (sepText 28)).maximum = 9 ∧
    (Layout.pieces (sepText 28).plain).map (fun p => Wrap.divideLine cwR p 6 false) = [[8]] := by decide +kernel

/-- a paragraph that fits is left alone -/
theorem divide_line_nil_of_fits (cw : Char → Nat) (text : List Char) (w : Nat) (fold : Bool) (h : cellLen cw text ≤ w) :
    Wrap.divideLine cw text w fold = [] :=
  Layout.divideLine_nil_of_fits cw text w fold h

/-- the executable form: the measured text of a rendered text -/
example : textRichMeasure cwR (Text.new Variant.repaired "hello wörld\nあい x".toList [0]) = ⟨5, 11⟩ := by decide +kernel

/-! ## The known finding F23 (`progressbar-no-newline`) on the measurement side -/

/-- `RenderGroup(ProgressBar(width=5), Text("ccc dd"))`: the group reports (5, 6) at 9 cells available; rendered at its maximum 6
the bar and the text share one line of 11 cells — the measurement of a group containing a `ProgressBar` is unsound. -/
theorem known_group_with_progressbar_measure_unsound :
    measureGet C01.nowCfg (.group true [C01.wBar, C01.wText "ccc dd"]) 9 = ⟨5, 6⟩ ∧
    (renderedLines C01.nowCfg (.group true [C01.wBar, C01.wText "ccc dd"]) {} 6).map (lineLength cwR) = [11] := by decide +kernel

/-- non-vacuity of `render_at_max_fits`: a table measured at 40 cells reports a maximum at or above its structural minimum and
renders exactly that wide -/
def exTable : R :=
  .table { box := some 0 } [.mk {} (C01.wText "name") (C01.wText "") [C01.wText "alpha beta", C01.wText "日本"],
                            .mk {} (C01.wText "n") (C01.wText "") [C01.wText "1", C01.wText "22"]]

example : measureGet C01.nowCfg exTable 40 = ⟨14, 19⟩ ∧ smin cwR exTable = 10 := by decide +kernel
example : (renderedLines C01.nowCfg exTable {} 19).map (lineLength cwR) = [19, 19, 19, 19, 19, 19] := by decide +kernel

end RichModel.C09

/-! ## `rich.syntax.Syntax` (not a renderable of C01's trees): the clause for its own `__rich_measure__`

Re-exported from Props/C17.lean (model `RichModel.Syntax`, whose rows the C17 check compares with real rich character for
character), so that this property's axiom audit covers them.  `measureV false` is the repaired variant
(pending_fixes/C09-syntax-measure-one-short.diff), `measureV true` rich 9.10.0 as found. -/
namespace RichModel.C09

/-- Repaired: with line numbers and an explicit `code_width`, every rendered row takes at most the reported maximum
`code_width + numbers column + 1` cells — exactly that many on a non-transparent background (padded cells).  Hypotheses of the
render path: cropping on (`options.no_wrap` off or word wrap on), blanks / digits / pointers one cell wide, no character wider
than two cells; `C17.Setting`: clean source, lexer contract, indent guides off, room for a row under word wrap. -/
theorem syntax_measure_maximum_sound (cw : Char → Nat) (h1 : ∀ c, RichModel.Syntax.GutterChar c → cw c = 1) (h2 : ∀ c, cw c ≤ 2)
    (o : RichModel.Syntax.Opts) (found : Bool) (lex : List Char → List RichModel.Syntax.Line) (code : List Char)
    (h : RichModel.C17.Setting o found lex code) (hn : o.lineNumbers = true) (hnc : RichModel.C17.noCrop o = false)
    (w : Nat) (hw : o.codeWidth = some w) :
    ∃ rows, RichModel.Syntax.numberedRows cw false false o found lex code = .ok rows ∧
      ∀ r ∈ rows,
        cellLen cw (r.render (RichModel.Syntax.numbersColumnWidth o code) o.legacyWindows) ≤
          (RichModel.Syntax.measureV false o code o.maxWidth).2 ∧
        (o.pad = true →
          cellLen cw (r.render (RichModel.Syntax.numbersColumnWidth o code) o.legacyWindows) =
            (RichModel.Syntax.measureV false o code o.maxWidth).2) :=
  RichModel.C17.measure_maximum_sound cw h1 h2 o found lex code h hn hnc w hw

/-- Either variant, `code_width` None: rows take at most the width offered once the gutter and its blank fit. -/
theorem syntax_measure_maximum_sound_auto (cw : Char → Nat) (h1 : ∀ c, RichModel.Syntax.GutterChar c → cw c = 1) (h2 : ∀ c, cw c ≤ 2)
    (short : Bool) (o : RichModel.Syntax.Opts) (found : Bool) (lex : List Char → List RichModel.Syntax.Line) (code : List Char)
    (h : RichModel.C17.Setting o found lex code) (hn : o.lineNumbers = true) (hnc : RichModel.C17.noCrop o = false)
    (hw : o.codeWidth = none) (hroom : RichModel.Syntax.numbersColumnWidth o code + 1 ≤ o.maxWidth) :
    ∃ rows, RichModel.Syntax.numberedRows cw false false o found lex code = .ok rows ∧
      ∀ r ∈ rows,
        cellLen cw (r.render (RichModel.Syntax.numbersColumnWidth o code) o.legacyWindows) ≤
          (RichModel.Syntax.measureV short o code o.maxWidth).2 :=
  (RichModel.C17.measure_maximum_sound_auto cw h1 h2 short o found lex code h hn hnc hw hroom).imp
    (fun _ hr => ⟨hr.1, fun r hmem => (hr.2 r hmem).1⟩)

/-- Either variant, without line numbers: every row takes at most the reported maximum. -/
theorem syntax_measure_maximum_fits_without_numbers (cw : Char → Nat) (hsp : cw ' ' = 1) (h2 : ∀ c, cw c ≤ 2) (short : Bool)
    (o : RichModel.Syntax.Opts) (found : Bool) (lex : List Char → List RichModel.Syntax.Line) (code : List Char)
    (hn : o.lineNumbers = false) (rows : List RichModel.Syntax.Line)
    (hr : RichModel.Syntax.plainRows cw false o found lex code = .ok rows) :
    ∀ r ∈ rows, cellLen cw r ≤ (RichModel.Syntax.measureV short o code o.maxWidth).2 :=
  RichModel.C17.measure_maximum_fits_without_numbers cw hsp h2 short o found lex code hn rows hr

/-- Either variant: minimum ≤ maximum (with `code_width` None: once the width offered holds the numbers column). -/
theorem syntax_measure_minimum_le_maximum (short : Bool) (o : RichModel.Syntax.Opts) (code : List Char) (maxWidth : Nat)
    (h : o.codeWidth = none → RichModel.Syntax.numbersColumnWidth o code ≤ maxWidth) :
    (RichModel.Syntax.measureV short o code maxWidth).1 ≤ (RichModel.Syntax.measureV short o code maxWidth).2 :=
  RichModel.C17.measure_minimum_le_maximum short o code maxWidth h

/-- As found (witness): with line numbers and an explicit `code_width` every row with a full code cell is one character
longer than the reported maximum. -/
theorem old_syntax_measure_maximum_one_short (cw : Char → Nat) (o : RichModel.Syntax.Opts) (found : Bool)
    (lex : List Char → List RichModel.Syntax.Line) (code : List Char) (h : RichModel.C17.Setting o found lex code)
    (hn : o.lineNumbers = true) (w : Nat) (hw : o.codeWidth = some w) :
    ∃ rows, RichModel.Syntax.numberedRows cw false false o found lex code = .ok rows ∧
      ∀ r ∈ rows, w ≤ r.body.length →
        (RichModel.Syntax.measureV true o code o.maxWidth).2 <
          (r.render (RichModel.Syntax.numbersColumnWidth o code) o.legacyWindows).length :=
  RichModel.C17.old_measure_maximum_one_short_with_numbers cw o found lex code h hn w hw

end RichModel.C09
