import RichModel.Lemmas.Ratio
/-!
# C09 — measurements are sound bounds on what rendering produces

This file: the part every renderable shares — `Measurement.get` normalises and clamps whatever
`__rich_measure__` returns.  The per-renderable soundness theorems are added by the layout layer.
-/
namespace RichModel.C09
open RichModel

/-- For every renderable (whatever its `__rich_measure__` returns, or if it has none) and every
available width, the reported measurement satisfies `0 ≤ minimum ≤ maximum ≤ max(available, 0)`. -/
theorem measurement_get_normal (maxWidth : Int) (measured : Option Measurement) :
    0 ≤ (Measurement.getPost maxWidth measured).minimum ∧
    (Measurement.getPost maxWidth measured).minimum ≤ (Measurement.getPost maxWidth measured).maximum ∧
    (Measurement.getPost maxWidth measured).maximum ≤ max maxWidth 0 :=
  Measurement.getPost_ok maxWidth measured

theorem normalize_ok (m : Measurement) : 0 ≤ m.normalize.minimum ∧ m.normalize.minimum ≤ m.normalize.maximum :=
  Measurement.normalize_ok m

theorem normalize_idempotent (m : Measurement) : m.normalize.normalize = m.normalize :=
  Measurement.normalize_idem m

example : Measurement.getPost 10 (some ⟨-3, 50⟩) = ⟨0, 10⟩ := by decide
example : Measurement.getPost 0 (some ⟨1, 5⟩) = ⟨0, 0⟩ := by decide

end RichModel.C09
