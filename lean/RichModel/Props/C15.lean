import RichModel.Lemmas.Console
import RichModel.Lemmas.ConsoleHtml
import RichModel.Lemmas.ConsoleNest
import RichModel.Lemmas.ConsoleDoc
import RichModel.Lemmas.ConsolePrint
import RichModel.Lemmas.ConsoleFormat
/-!
# C15 — recording, capture and export agree with what was written

Property theorems only, 40 (helper lemmas live in `Lemmas/Console`, `Lemmas/Html`, `Lemmas/ConsoleHtml`, `Lemmas/ConsoleNest`,
`Lemmas/ConsoleDoc`, `Lemmas/ConsolePrint`, `Lemmas/ConsoleFormat`).  What `print` of plain strings appends to the buffer is derived in
`Model/ConsolePrint.lean` (`print_plain_segments`, `export_text_of_prints`); the default `code_format` is the table
`Gen/ConsoleHtmlFormat.lean`, regenerated from rich/console.py on every run (`export_html_document_default…`).

The model (`Model/Console.lean`) is parameterised by the code variant.  The theorems are proved for the
*repaired* behaviour (`recordInRender = false`: the record is appended to where the file is written,
`mergeCtl = false`: the `Segment.simplify` after fix b97fe77, for the HTML text either `escapeHref = true` or links free of `>`,
and for nested capture blocks `captureMarks = true`); the `old_…` / `nested_capture_steals` witnesses show, by evaluation, that rich 9.10.0 as found (`Console.Variant.today` — the name dates from before the `fix:` commits 114bbe8, e488480, 1202b8a) violates the statement; /repo now contains `Console.Variant.repaired`.

Vocabulary: `exec v cfg env ops s` is the state after the history `ops`; `s.file` is the list of strings
written to the file, each kept as the pieces it is made of; `fileVisible` is the text of the non-control
pieces — "everything except escape sequences and control codes"; `exportPlain s.record` is what
`export_text(styles=False)` returns in state `s` (`step_exportText_returns`).
-/
namespace RichModel.C15
open RichModel RichModel.Console

variable {σ : Type} [BEq σ]

/-! ## exports return functions of the record; clear / no clear -/

/-- What the two `export_text` flavours return. -/
theorem step_exportText_returns (v : Console.Variant) (cfg : Config) (env : StyleEnv σ) (s : State σ) (clr : Bool)
    (hr : cfg.record = true) :
    (step v cfg env s (.exportText clr false)).2 = .exported (exportPlain s.record) ∧
    (step v cfg env s (.exportText clr true)).2 = .exported (flat (exportStyledPieces env s.record)) := by
  simp [step, hr]

/-- **clear_semantics.**  An export with `clear=True` empties the record, with `clear=False` leaves it unchanged;
either way it returns the same value, and touches neither the file, the buffer nor the capture depth.
On a console that does not record, exports fail (`assert self.record`) and change nothing. -/
theorem clear_semantics (v : Console.Variant) (cfg : Config) (env : StyleEnv σ) (s : State σ) (op : Op σ)
    (hop : (∃ clr st, op = .exportText clr st) ∨ (∃ clr inl o, op = .exportHtml clr inl o)) :
    (cfg.record = true →
      (step v cfg env s op).1.record = (if isClearing op then [] else s.record) ∧
      (∀ op', (op' = match op with
          | .exportText _ st => .exportText false st
          | .exportHtml _ inl o => .exportHtml false inl o
          | o => o) → (step v cfg env s op').2 = (step v cfg env s op).2)) ∧
    (cfg.record = false → (step v cfg env s op).2 = .assertionError ∧ (step v cfg env s op).1.record = s.record) ∧
    (step v cfg env s op).1.file = s.file ∧ (step v cfg env s op).1.buffer = s.buffer ∧
    (step v cfg env s op).1.index = s.index := by
  rcases hop with ⟨clr, st, rfl⟩ | ⟨clr, inl, o, rfl⟩
  · refine ⟨fun hr => ⟨by cases clr <;> simp [step, hr, isClearing], fun op' h => by subst h; simp [step, hr]⟩,
      fun hr => by simp [step, hr], ?_, ?_, ?_⟩ <;>
    · by_cases hr : cfg.record = true
      · simp [step, hr]
      · have : cfg.record = false := by simpa using hr
        simp [step, this]
  · refine ⟨fun hr => ⟨by cases clr <;> simp [step, hr, isClearing], fun op' h => by subst h; simp [step, hr]⟩,
      fun hr => by simp [step, hr], ?_, ?_, ?_⟩ <;>
    · by_cases hr : cfg.record = true
      · simp [step, hr]
      · have : cfg.record = false := by simpa using hr
        simp [step, this]

/-! ## the record is what reached the file -/

/-- **Core invariant, for every history without a clearing export, from every state** (repaired variant,
recording console): there are buffers `b₁ … bₙ` such that the record grew by exactly `b₁ ++ … ++ bₙ` and the
file by exactly their non-empty renderings, in the same order.  Segments are appended to the record at the
point they are rendered for the file, and nowhere else. -/
theorem record_tracks_file (v : Console.Variant) (cfg : Config) (env : StyleEnv σ) (ops : List (Op σ)) (s : State σ)
    (hv : v.recordInRender = false) (hr : cfg.record = true)
    (hops : ops.all (fun op => !isClearing op) = true) :
    ∃ bufs : List (List (Segment σ)),
      (exec v cfg env ops s).record = s.record ++ bufs.flatten ∧
      (exec v cfg env ops s).file = s.file ++ written cfg env bufs :=
  exec_tracks v cfg env ops s hv hr hops

/-- **export_text_eq_visible (from the start).**  After any history without a clearing export, the exported text
is the visible text written to the file — for every colour system, terminal or not, NO_COLOR or not. -/
theorem export_text_eq_visible_from_start (v : Console.Variant) (cfg : Config) (env : StyleEnv σ) (ops : List (Op σ))
    (hv : v.recordInRender = false) (hr : cfg.record = true)
    (hops : ops.all (fun op => !isClearing op) = true) :
    exportPlain (exec v cfg env ops {}).record = fileVisible (exec v cfg env ops {}).file := by
  obtain ⟨bufs, h1, h2⟩ := exec_tracks v cfg env ops {} hv hr hops
  rw [h1, h2]
  simp [fileVisible_written]

/-- **export_text_eq_visible (general).**  Take any history `pre`, then a clearing export `e`, then any history
`post` without a clearing export, from any state.  What `export_text()` returns afterwards is exactly the
visible text of what `post` wrote to the file (`W`), in the same order. -/
theorem export_text_eq_visible (v : Console.Variant) (cfg : Config) (env : StyleEnv σ)
    (pre post : List (Op σ)) (e : Op σ) (s0 : State σ) (clr : Bool)
    (hv : v.recordInRender = false) (hr : cfg.record = true) (he : isClearing e = true)
    (hpost : post.all (fun op => !isClearing op) = true) :
    ∃ W, (exec v cfg env (pre ++ [e] ++ post) s0).file = (exec v cfg env (pre ++ [e]) s0).file ++ W ∧
      (step v cfg env (exec v cfg env (pre ++ [e] ++ post) s0) (.exportText clr false)).2 = .exported (fileVisible W) := by
  have hclear : (exec v cfg env (pre ++ [e]) s0).record = [] := by
    rw [exec_append, exec_cons, exec_nil]
    cases e <;> simp_all [isClearing, step]
  obtain ⟨bufs, h1, h2⟩ := exec_tracks v cfg env post (exec v cfg env (pre ++ [e]) s0) hv hr hpost
  refine ⟨written cfg env bufs, ?_, ?_⟩
  · rw [exec_append (a := pre ++ [e])]; exact h2
  · rw [(step_exportText_returns v cfg env _ clr hr).1, exec_append (a := pre ++ [e]), h1, hclear]
    simp [fileVisible_written]

/-! ## HTML export -/

/-- **unescape ∘ escape = id** at string level, for every string (`escape` is `export_html`'s three
`str.replace` calls; `unescape` decodes `&amp;` `&lt;` `&gt;`). -/
theorem unescape_escape (s : List Char) : unescape (escape s) = s := Console.unescape_escape s

/-- **export_html_text.**  The `{code}` part of the HTML export, *as a string*, with tags removed and entities
decoded, is the exported plain text — for both `inline_styles` modes, every record, every style table whose CSS
rules contain no `>` (and, for the code that writes links verbatim, whose links contain no `>`). -/
theorem export_html_text [LawfulBEq σ] (v : Console.Variant) (env : StyleEnv σ) (inline : Bool) (record : List (Segment σ))
    (hm : v.mergeCtl = false) (hsafe : TagSafe v env) :
    htmlDecode (flatFrags (exportHtmlParts v env inline record).1) = exportPlain record := by
  unfold htmlDecode exportHtmlParts
  cases inline with
  | true =>
    simp only [if_true]
    rw [stripTags_flatFrags _ (fragsOk_inline v env hsafe _), fragsText_inline, Console.unescape_escape,
      htmlSegments_text v hm]
  | false =>
    simp only [Bool.false_eq_true, if_false]
    obtain ⟨h1, h2⟩ := classLoop_text_ok v env hsafe (htmlSegments v record) []
    rw [stripTags_flatFrags _ h2, h1, Console.unescape_escape, htmlSegments_text v hm]

/-- With the repaired `href` (escaped like any attribute value) no assumption on links is needed. -/
theorem export_html_text_repaired [LawfulBEq σ] (v : Console.Variant) (env : StyleEnv σ) (inline : Bool)
    (record : List (Segment σ)) (hm : v.mergeCtl = false) (he : v.escapeHref = true)
    (hrule : ∀ s, '>' ∉ env.htmlRule s) :
    htmlDecode (flatFrags (exportHtmlParts v env inline record).1) = exportPlain record :=
  export_html_text v env inline record hm ⟨hrule, fun h => by simp [he] at h⟩

/-- Hence, after any history without a clearing export, the HTML text is the visible text written to the file. -/
theorem export_html_eq_visible_from_start [LawfulBEq σ] (v : Console.Variant) (cfg : Config) (env : StyleEnv σ)
    (ops : List (Op σ)) (inline : Bool)
    (hv : v.recordInRender = false) (hm : v.mergeCtl = false) (hsafe : TagSafe v env) (hr : cfg.record = true)
    (hops : ops.all (fun op => !isClearing op) = true) :
    htmlDecode (flatFrags (exportHtmlParts v env inline (exec v cfg env ops {}).record).1) =
      fileVisible (exec v cfg env ops {}).file := by
  rw [export_html_text v env inline _ hm hsafe, export_text_eq_visible_from_start v cfg env ops hv hr hops]

/-- The segments the HTML export walks carry the record's visible characters in the record's styles
(`Segment.simplify` + `filter_control` lose nothing but control segments). -/
theorem export_html_styles [LawfulBEq σ] (v : Console.Variant) (env : StyleEnv σ) (record : List (Segment σ))
    (hm : v.mergeCtl = false) :
    segStream env (htmlSegments v record) = segStream env record :=
  htmlSegments_segStream v hm env record

/-! ## the whole HTML document -/

/-- **export_html_document.**  For *any* `code_format` that contains the `{code}` placeholder once (`a`, `b`: the
template before and after it), any `{stylesheet}` / `{foreground}` / `{background}` and any record: the document is
`pre ++ code ++ post`, where `code` is exactly the fragments of `export_html_text` — the substitution keeps it
intact — and `pre`, `post` are the rest of the template filled in (they do not depend on the code).  If `pre` ends
outside an HTML tag, the document with its tags removed is the template's text, the escaped exported text, the
template's text; decoding the entities of the middle part gives the exported text (`unescape_escape`). -/
theorem export_html_document [LawfulBEq σ] (v : Console.Variant) (env : StyleEnv σ) (inline : Bool) (o : HtmlOpts)
    (record : List (Segment σ)) (a b : List TItem) (ht : o.template = a ++ [TItem.code] ++ b)
    (ha : TItem.code ∉ a) (hb : TItem.code ∉ b) (hm : v.mergeCtl = false) (hsafe : TagSafe v env) :
    exportHtml v env inline o record =
        formatTemplate { o with template := a } [] (exportHtmlParts v env inline record).2 ++
          flatFrags (exportHtmlParts v env inline record).1 ++
          formatTemplate { o with template := b } [] (exportHtmlParts v env inline record).2 ∧
    (tagState false (formatTemplate { o with template := a } [] (exportHtmlParts v env inline record).2) = false →
      stripTags (exportHtml v env inline o record) =
        stripTags (formatTemplate { o with template := a } [] (exportHtmlParts v env inline record).2) ++
          escape (exportPlain record) ++
          stripTags (formatTemplate { o with template := b } [] (exportHtmlParts v env inline record).2)) := by
  have h1 : exportHtml v env inline o record = _ :=
    formatTemplate_code_once o a b ht ha hb (exportHtmlParts v env inline record).2
      (flatFrags (exportHtmlParts v env inline record).1)
  obtain ⟨hok, htxt⟩ := exportHtmlParts_ok v env inline record hm hsafe
  refine ⟨h1, fun hpre => ?_⟩
  rw [h1, stripTags_document _ _ _ hok hpre, htxt]

/-- The default `code_format`, as translated from rich/console.py on this run, contains `{code}` exactly once, and the
text before it ends outside a tag whenever the placeholders before it expand to text without `<`
(obligations on the generated table). -/
theorem default_template_code_once :
    defaultTemplate = defaultTemplate.takeWhile (· != TItem.code) ++ [TItem.code] ++
        (defaultTemplate.dropWhile (· != TItem.code)).drop 1 ∧
    TItem.code ∉ defaultTemplate.takeWhile (· != TItem.code) ∧
    TItem.code ∉ (defaultTemplate.dropWhile (· != TItem.code)).drop 1 ∧
    templateScan false (defaultTemplate.takeWhile (· != TItem.code)) = some false := by decide +kernel

/-- **The default document.**  With rich's own template, colours and CSS rules free of `<` and `>`: the whole
document with its tags removed is the template's text around the escaped exported text. -/
theorem export_html_document_default [LawfulBEq σ] (v : Console.Variant) (env : StyleEnv σ) (inline : Bool) (o : HtmlOpts)
    (record : List (Segment σ)) (ht : o.template = defaultTemplate) (hm : v.mergeCtl = false) (hsafe : TagSafe v env)
    (hrule : ∀ s, '<' ∉ env.htmlRule s) (hf : '<' ∉ o.foreground) (hb : '<' ∉ o.background) :
    ∃ pre post, exportHtml v env inline o record = pre ++ flatFrags (exportHtmlParts v env inline record).1 ++ post ∧
      stripTags (exportHtml v env inline o record) = stripTags pre ++ escape (exportPlain record) ++ stripTags post := by
  obtain ⟨h1, h2, h3, h4⟩ := default_template_code_once
  obtain ⟨e1, e2⟩ := export_html_document v env inline o record _ _ (ht ▸ h1) h2 h3 hm hsafe
  refine ⟨_, _, e1, e2 ?_⟩
  exact templateScan_sound o [] _ (by simp) (exportHtmlParts_stylesheet_no_lt v env inline record hrule) hf hb _ _ _ h4

/-- The literal text of the default template contains no `&` (obligation on the generated table): nothing in the
template can be mistaken for an entity. -/
theorem default_template_no_ampersand :
    litsNoAmp (defaultTemplate.takeWhile (· != TItem.code)) = true ∧
    litsNoAmp ((defaultTemplate.dropWhile (· != TItem.code)).drop 1) = true := by decide +kernel

/-- **The default document, tags removed and entities decoded.**  With rich's own template, colours and CSS rules free
of `<`, `>` and `&`: decoding the *whole document* gives the template's text, then exactly the exported text, then
the template's text — the entity decoding touches nothing but the code. -/
theorem export_html_document_default_decoded [LawfulBEq σ] (v : Console.Variant) (env : StyleEnv σ) (inline : Bool)
    (o : HtmlOpts) (record : List (Segment σ)) (ht : o.template = defaultTemplate) (hm : v.mergeCtl = false)
    (hsafe : TagSafe v env) (hrule : ∀ s, '<' ∉ env.htmlRule s) (hamp : ∀ s, '&' ∉ env.htmlRule s)
    (hf : '<' ∉ o.foreground) (hb : '<' ∉ o.background) (hf' : '&' ∉ o.foreground) (hb' : '&' ∉ o.background) :
    ∃ pre post, exportHtml v env inline o record = pre ++ flatFrags (exportHtmlParts v env inline record).1 ++ post ∧
      htmlDecode (exportHtml v env inline o record) = stripTags pre ++ exportPlain record ++ stripTags post := by
  obtain ⟨h1, h2, h3, h4⟩ := default_template_code_once
  obtain ⟨n1, n2⟩ := default_template_no_ampersand
  obtain ⟨e1, e2⟩ := export_html_document v env inline o record _ _ (ht ▸ h1) h2 h3 hm hsafe
  have hss := exportHtmlParts_stylesheet_no_amp v env inline record hamp
  refine ⟨_, _, e1, ?_⟩
  unfold htmlDecode
  rw [e2 (templateScan_sound o [] _ (by simp) (exportHtmlParts_stylesheet_no_lt v env inline record hrule) hf hb _ _ _ h4)]
  apply unescape_around
  · intro hmem
    exact not_amp_mem_formatTemplate o [] _ _ n1 (by simp) hss hf' hb' (mem_stripTagsAux _ _ _ hmem)
  · intro hmem
    exact not_amp_mem_formatTemplate o [] _ _ n2 (by simp) hss hf' hb' (mem_stripTagsAux _ _ _ hmem)

/-- **export_html_stylesheet** (`inline_styles=False`), for every record: the `styles` table built by the loop has
exactly one entry per distinct CSS rule of the styled segments, in order of first use, numbered 1, 2, … n (so rules
and class numbers are both pairwise distinct: the numbering is injective); the code the loop produced is what one gets
by looking each segment's own rule up in that final table, so every `class="rN"` names an entry of the table whose
rule is that segment's rule; and the stylesheet is one `.rN {rule}` line per entry, in that order. -/
theorem export_html_stylesheet (v : Console.Variant) (env : StyleEnv σ) (record : List (Segment σ)) :
    let segs := htmlSegments v record
    let keys := firstOcc (classRules env segs)
    (htmlClassLoop v env segs []).2 = numberFrom 1 keys ∧
    keys.Nodup ∧ (∀ k, k ∈ keys → k ∈ classRules env segs) ∧
    (∀ (k : Nat) (hk : k < keys.length),
      (numberFrom 1 keys)[k]'(by rw [numberFrom_length]; exact hk) = (keys[k], 1 + k)) ∧
    (htmlClassLoop v env segs []).1 = segs.flatMap (htmlClassSeg v env (numberFrom 1 keys)) ∧
    exportHtmlParts v env false record =
      (segs.flatMap (htmlClassSeg v env (numberFrom 1 keys)),
       joinWith ['\n'] ((numberFrom 1 keys).map (fun p =>
         ".r".toList ++ (toString p.2).toList ++ " {".toList ++ p.1 ++ ['}']))) := by
  intro segs keys
  have hnum : (htmlClassLoop v env segs []).2 = numberFrom 1 keys := classLoop_numbering v env segs
  have hlook : (htmlClassLoop v env segs []).1 = segs.flatMap (htmlClassSeg v env (numberFrom 1 keys)) := by
    rw [← hnum]; exact classLoop_lookup v env segs []
  refine ⟨hnum, firstOcc_nodup _, mem_firstOcc _, fun k hk => numberFrom_getElem 1 keys k hk, hlook, ?_⟩
  simp only [exportHtmlParts, Bool.false_eq_true, if_false]
  rw [show htmlSegments v record = segs from rfl, hlook, hnum,
    stylesheet_lines keys (fun k hk => classRules_nonempty env segs k (mem_firstOcc _ k hk)) 1]

/-! ## `code_format` as a string: `str.format` with its error branch (`Model/ConsoleFormat.lean`) -/

/-- **code_format_ok_iff.**  For *any* format string (any characters: single and doubled braces, unknown, numbered or empty
fields …), `export_html(code_format=fmt)` returns a document exactly when the left-to-right scan of `fmt` reaches its end
(every `{` opens a field that is closed, every other brace is doubled) and every field is one of `code`, `stylesheet`,
`foreground`, `background`; the document is then `exportHtml` of `Model/Console` on the parsed template — so every
theorem of this file about templates (`export_html_document`, `…_decoded`, `export_html_stylesheet`) speaks about format
*strings*.  The substituted values are not scanned again (they are arguments of `formatTemplate`). -/
theorem code_format_ok_iff (v : Console.Variant) (env : StyleEnv σ) (inline : Bool) (fmt fg bg : List Char)
    (record : List (Segment σ)) (s : List Char) :
    ConsoleFormat.exportHtmlStr v env inline fmt fg bg record = .ok s ↔
      (ConsoleFormat.scan .lit fmt).2 = .done ∧ ∃ t, ConsoleFormat.toTemplate (ConsoleFormat.scan .lit fmt).1 = some t ∧
        s = exportHtml v env inline { template := t, foreground := fg, background := bg } record :=
  ConsoleFormat.formatStr_ok_iff _ fmt s

/-- **code_format_error_branch.**  What `export_html(code_format=fmt)` raises.  `KeyError(n)`: `n` is a field of `fmt`
that is neither one of the four keywords nor a number, and every field before it is one of the four (the first
offending field, left to right, decides).  Whatever is raised (or answered), it does not depend on the record, the
colours or the styles when the format string fails: no value makes a failing format string succeed. -/
theorem code_format_error_branch (v : Console.Variant) (env : StyleEnv σ) (inline : Bool) (fmt fg bg : List Char)
    (record : List (Segment σ)) :
    (∀ n, ConsoleFormat.exportHtmlStr v env inline fmt fg bg record = .error (.keyError n) →
      ∃ pre post, (ConsoleFormat.scan .lit fmt).1 = pre ++ ConsoleFormat.PItem.field n :: post ∧
        (∃ t, ConsoleFormat.toTemplate pre = some t) ∧ ConsoleFormat.fieldItem n = none ∧
        n.all ConsoleFormat.isAsciiDigit = false) ∧
    (((ConsoleFormat.scan .lit fmt).2 ≠ .done ∨ ConsoleFormat.toTemplate (ConsoleFormat.scan .lit fmt).1 = none) →
      ∀ (vals : ConsoleFormat.Vals) s, ConsoleFormat.formatStr vals fmt ≠ .ok s) :=
  ⟨fun n h => ConsoleFormat.fill_keyError _ n _ _ h, fun h vals s => ConsoleFormat.fill_not_ok vals _ _ h s⟩

/-- **code_format_doubled_braces.**  Doubling the braces of any text `s` gives a `code_format` whose document is
exactly `s`, for every record. -/
theorem code_format_doubled_braces (v : Console.Variant) (env : StyleEnv σ) (inline : Bool) (s fg bg : List Char)
    (record : List (Segment σ)) :
    ConsoleFormat.exportHtmlStr v env inline (ConsoleFormat.doubleBraces s) fg bg record = .ok s :=
  ConsoleFormat.formatStr_doubleBraces _ s

/-- **code_format_step.**  `export_html(clear, inline_styles, code_format=fmt)` as an operation on the console: it never
touches the file, the buffer or the capture depth; on a non-recording console it fails with `assert self.record`; it
clears the record only if `clear` is set *and the format succeeded* — when the format raises (`ValueError`,
`KeyError`, `IndexError`) the record is exactly what it was, `clear=True` or not; a successful call returns the same
document with and without `clear`. -/
theorem code_format_step (v : Console.Variant) (cfg : Config) (env : StyleEnv σ) (st : State σ) (clr inline : Bool)
    (fmt fg bg : List Char) :
    let r := ConsoleFormat.stepHtmlStr v cfg env st clr inline fmt fg bg
    r.1.file = st.file ∧ r.1.buffer = st.buffer ∧ r.1.index = st.index ∧ r.1.marks = st.marks ∧
    (cfg.record = false → r.2 = .assertionError ∧ r.1.record = st.record) ∧
    (cfg.record = true →
      (∀ s, ConsoleFormat.exportHtmlStr v env inline fmt fg bg st.record = .ok s →
        r.2 = .exported s ∧ r.1.record = (if clr then [] else st.record)) ∧
      (∀ e, ConsoleFormat.exportHtmlStr v env inline fmt fg bg st.record = .error e →
        r.2 = .raised e ∧ r.1.record = st.record) ∧
      (ConsoleFormat.exportHtmlStr v env inline fmt fg bg st.record = .unmodelled →
        r.2 = .unmodelled ∧ r.1.record = st.record)) := by
  intro r
  by_cases hr : cfg.record = true
  · have hr' : (!cfg.record) = false := by simp [hr]
    cases hx : ConsoleFormat.exportHtmlStr v env inline fmt fg bg st.record <;>
      simp [r, ConsoleFormat.stepHtmlStr, hr, hx]
  · have hr' : cfg.record = false := by simpa using hr
    simp [r, ConsoleFormat.stepHtmlStr, hr']

/-- **export_html_document_decoded — any template.**  For *any* `code_format` containing `{code}` once (`a`, `b`: the
template before and after it), with the part before the code ending outside a tag: the whole document with tags removed
*and entities decoded* is — exactly — the text before the code decoded in the context of what follows, i.e.
`(stripTags pre).foldr unescStep (exported text ++ decoded text after)`; and when the text before the code contains no
`&`, it is the text before, then exactly the exported text, then the text after the code decoded on its own — whatever
entities, `&` or tags the template has after the code.  (`old_amp_before_code_joins`: a template text ending in `&`
does join with the code.) -/
theorem export_html_document_decoded [LawfulBEq σ] (v : Console.Variant) (env : StyleEnv σ) (inline : Bool) (o : HtmlOpts)
    (record : List (Segment σ)) (a b : List TItem) (ht : o.template = a ++ [TItem.code] ++ b)
    (ha : TItem.code ∉ a) (hb : TItem.code ∉ b) (hm : v.mergeCtl = false) (hsafe : TagSafe v env)
    (hpre : tagState false (formatTemplate { o with template := a } [] (exportHtmlParts v env inline record).2) = false) :
    let pre := formatTemplate { o with template := a } [] (exportHtmlParts v env inline record).2
    let post := formatTemplate { o with template := b } [] (exportHtmlParts v env inline record).2
    htmlDecode (exportHtml v env inline o record) =
        (stripTags pre).foldr unescStep (exportPlain record ++ unescape (stripTags post)) ∧
    ('&' ∉ stripTags pre →
      htmlDecode (exportHtml v env inline o record) = stripTags pre ++ exportPlain record ++ unescape (stripTags post)) := by
  intro pre post
  obtain ⟨_, e2⟩ := export_html_document v env inline o record a b ht ha hb hm hsafe
  have e := e2 hpre
  unfold htmlDecode
  rw [e]
  exact ⟨ConsoleFormat.unescape_document_exact _ _ _, fun hamp => ConsoleFormat.unescape_document _ _ _ hamp⟩

/-- **export_html_document_format — the document theorem for format strings.**  Let `fmt` be any format string whose scan
reaches the end with the items `a ++ [{code}] ++ b`, every field of `a` and `b` being `stylesheet`, `foreground` or
`background` (`ta`, `tb`: the templates they denote, free of `{code}`).  Then `export_html(code_format=fmt)` returns
`pre ++ code ++ post` with `code` exactly the fragments of `export_html_text`, and — the text before the code ending
outside a tag and containing no `&` — the whole returned string, tags removed and entities decoded, is the text before
the code, the exported text, the decoded text after the code. -/
theorem export_html_document_format [LawfulBEq σ] (v : Console.Variant) (env : StyleEnv σ) (inline : Bool)
    (fmt fg bg : List Char) (record : List (Segment σ)) (a b : List ConsoleFormat.PItem) (ta tb : List TItem)
    (hs : ConsoleFormat.scan .lit fmt = (a ++ [ConsoleFormat.PItem.field "code".toList] ++ b, .done))
    (hta : ConsoleFormat.toTemplate a = some ta) (htb : ConsoleFormat.toTemplate b = some tb)
    (ha : TItem.code ∉ ta) (hb : TItem.code ∉ tb) (hm : v.mergeCtl = false) (hsafe : TagSafe v env) :
    let o : HtmlOpts := { template := ta ++ [TItem.code] ++ tb, foreground := fg, background := bg }
    let pre := formatTemplate { o with template := ta } [] (exportHtmlParts v env inline record).2
    let post := formatTemplate { o with template := tb } [] (exportHtmlParts v env inline record).2
    ConsoleFormat.exportHtmlStr v env inline fmt fg bg record =
        .ok (pre ++ flatFrags (exportHtmlParts v env inline record).1 ++ post) ∧
    (tagState false pre = false → '&' ∉ stripTags pre →
      htmlDecode (pre ++ flatFrags (exportHtmlParts v env inline record).1 ++ post) =
        stripTags pre ++ exportPlain record ++ unescape (stripTags post)) := by
  intro o pre post
  have htt : ConsoleFormat.toTemplate (a ++ [ConsoleFormat.PItem.field "code".toList] ++ b) = some (ta ++ [TItem.code] ++ tb) :=
    ConsoleFormat.toTemplate_append _ _ _ _ (ConsoleFormat.toTemplate_append _ _ _ _ hta rfl) htb
  have hok : ConsoleFormat.exportHtmlStr v env inline fmt fg bg record = .ok (exportHtml v env inline o record) :=
    (code_format_ok_iff v env inline fmt fg bg record _).2 ⟨by rw [hs], _, by rw [hs]; exact htt, rfl⟩
  obtain ⟨e1, _⟩ := export_html_document v env inline o record ta tb rfl ha hb hm hsafe
  refine ⟨by rw [hok, e1], fun hpre hamp => ?_⟩
  rw [← e1]
  exact (export_html_document_decoded v env inline o record ta tb rfl ha hb hm hsafe hpre).2 hamp

/-! ## the time column of `log` -/

/-- **log_time_cells** (`LogRender.__call__`, any number of `log` calls, any displays).  On a console with the time
column the time cell of a call is blank — as many spaces as the display is long — exactly when its `strftime` display
equals the display of the *previous* call, and is the display itself otherwise (`prev`: `_last_time` before the first
call, `none` on a fresh console); without the time column there is no cell. -/
theorem log_time_cells (prev : Option (List Char)) (ds : List (List Char)) :
    ConsoleLogTime.logTimeCells true { lastTime := prev } ds =
      (List.zip (prev :: ds.map some) ds).map (fun p =>
        if p.1 = some p.2 then some (List.replicate p.2.length ' ') else some p.2) ∧
    ConsoleLogTime.logTimeCells false { lastTime := prev } ds = ds.map (fun _ => none) :=
  ⟨ConsoleLogTime.logTimeCells_spec prev ds, ConsoleLogTime.logTimeCells_off _ ds⟩

/-! ## styled export -/

/-- **export_styled_decodes.**  Cut at the escape-code wrappers, the styled export has the record's visible
characters, each inside the wrapper of its own segment's style (null styles and `None` show as no style);
its visible text is the plain export. -/
theorem export_styled_decodes (env : StyleEnv σ) (record : List (Segment σ)) :
    pieceStream (exportStyledPieces env record) = segStream env record ∧
    visiblePieces (exportStyledPieces env record) = exportPlain record :=
  ⟨exportStyledPieces_stream env record, exportStyledPieces_visible env record⟩

/-- …and after any history without a clearing export, on a console that writes colour, the file and the styled
export decode to the same (character, style) stream. -/
theorem export_styled_eq_file_from_start (v : Console.Variant) (cfg : Config) (env : StyleEnv σ) (ops : List (Op σ))
    (hv : v.recordInRender = false) (hr : cfg.record = true) (hc : cfg.colorNone = false) (hn : cfg.noColor = false)
    (hops : ops.all (fun op => !isClearing op) = true) :
    pieceStream (exportStyledPieces env (exec v cfg env ops {}).record) =
      pieceStream (exec v cfg env ops {}).file.flatten := by
  obtain ⟨bufs, h1, h2⟩ := exec_tracks v cfg env ops {} hv hr hops
  rw [exportStyledPieces_stream, h1, h2]
  simp [pieceStream_written cfg env bufs hc hn]

/-- **What the styled export means on a console that does not write colour.**  `export_text(styles=True)` renders the
record with `Style.render`'s *default* colour system (TRUECOLOR), whatever the console's own configuration — it is a
function of the record alone (`export_styled_decodes`).  After any history without a clearing export:
* `color_system=None`: the file carries the same visible characters as the styled export, *all without style* (the
  export keeps the styles the file never showed);
* NO_COLOR with a colour system: the file carries the same characters, each in the colourless version
  (`Style.without_color`, via `Segment.remove_color`) of the style the export shows — the record is appended to
  *before* colour is removed. -/
theorem export_styled_vs_file_without_colour (v : Console.Variant) (cfg : Config) (env : StyleEnv σ) (ops : List (Op σ))
    (hv : v.recordInRender = false) (hr : cfg.record = true)
    (hops : ops.all (fun op => !isClearing op) = true) :
    pieceStream (exportStyledPieces env (exec v cfg env ops {}).record) = segStream env (exec v cfg env ops {}).record ∧
    (cfg.colorNone = true →
      pieceStream (exec v cfg env ops {}).file.flatten =
        (pieceStream (exportStyledPieces env (exec v cfg env ops {}).record)).map (fun p => (p.1, none))) ∧
    (cfg.colorNone = false → cfg.noColor = true →
      pieceStream (exec v cfg env ops {}).file.flatten = segStream env (Console.removeColor env (exec v cfg env ops {}).record)) := by
  obtain ⟨bufs, h1, h2⟩ := exec_tracks v cfg env ops {} hv hr hops
  refine ⟨exportStyledPieces_stream env _, fun hc => ?_, fun hc hn => ?_⟩
  · rw [exportStyledPieces_stream, h1, h2]
    simp only [List.nil_append]
    exact pieceStream_written_gen cfg env (fun b => (segStream env b).map (fun p => (p.1, none))) rfl
      (fun a b => by simp) (fun b => renderPieces_stream_plain cfg env b hc) bufs
  · rw [h1, h2]
    simp only [List.nil_append]
    exact pieceStream_written_gen cfg env (fun b => segStream env (Console.removeColor env b)) rfl
      (fun a b => by simp [removeColor_append]) (fun b => renderPieces_stream_noColor cfg env b hc hn) bufs

/-! ## capture -/

/-- **capture withholds.**  While the capture depth is and stays at least one, no operation whatsoever — print,
control codes, exports, nested begin/end — writes to the file.  (The `end_capture` that brings the depth back to
zero is covered by `capture_returns_and_withholds`.) -/
theorem capture_withholds (v : Console.Variant) (cfg : Config) (env : StyleEnv σ) (s : State σ) (op : Op σ)
    (hi : 1 ≤ s.index) (hi' : 1 ≤ (step v cfg env s op).1.index) : (step v cfg env s op).1.file = s.file :=
  step_file_nonzero v cfg env s op (by omega) (by omega)

/-- **capture_returns_and_withholds.**  Start outside any capture with an empty buffer (`s`; every reachable
outside-capture state is like that, `reachable_outside_empty`).  Let `inner` be any operations other than
begin/end capture.  Run them inside a capture block: what `end_capture` returns is, character for character, the
concatenation of what the same operations write to the file when run outside a capture (`W`); meanwhile the file
is unchanged, and afterwards the console is again outside any capture with an empty buffer.  Holds for every
variant of the code. -/
theorem capture_returns_and_withholds (v : Console.Variant) (cfg : Config) (env : StyleEnv σ) (s : State σ)
    (inner : List (Op σ)) (hi : s.index = 0) (hb : s.buffer = [])
    (hinner : inner.all (fun op => !isCapture op) = true) :
    ∃ W, (exec v cfg env inner s).file = s.file ++ W ∧
      (step v cfg env (exec v cfg env (.beginCapture :: inner) s) .endCapture).2 = .captured (flat W.flatten) ∧
      (exec v cfg env (.beginCapture :: inner) s).file = s.file ∧
      (step v cfg env (exec v cfg env (.beginCapture :: inner) s) .endCapture).1.file = s.file ∧
      (step v cfg env (exec v cfg env (.beginCapture :: inner) s) .endCapture).1.index = 0 ∧
      (step v cfg env (exec v cfg env (.beginCapture :: inner) s) .endCapture).1.buffer = [] := by
  obtain ⟨_, _, hf⟩ := exec_outside v cfg env inner s hi hb hinner
  let s1 : State σ := { s with index := s.index + 1,
                               marks := if v.captureMarks then s.buffer.length :: s.marks else s.marks }
  have hbegin : exec v cfg env (.beginCapture :: inner) s = exec v cfg env inner s1 := rfl
  obtain ⟨hb2, hx2, hf2⟩ := exec_inside v cfg env inner s1 (by simp [s1, hi]) hinner
  have hmk := exec_marks v cfg env inner s1 hinner
  have hstart : (if v.captureMarks = true then (exec v cfg env inner s1).marks.headD 0 else 0) = 0 := by
    rw [hmk]; cases hcm : v.captureMarks <;> simp [s1, hcm, hb]
  have hx3 : (exec v cfg env inner s1).index - 1 = 0 := by rw [hx2]; simp [s1, hi]
  refine ⟨written cfg env (inner.map (appended cfg)), hf, ?_, ?_, ?_, ?_, ?_⟩
  · rw [hbegin]
    simp only [step, renderBuffer, hstart, List.drop_zero]
    rw [hb2, flat_written]
    simp [s1, hb, List.flatMap_def]
  · rw [hbegin, hf2]
  · rw [hbegin]
    simp only [step, hstart, List.take_zero]
    rw [(checkBuffer_outside v cfg env _ hx3).2.2]
    simp [written_cons, hf2, s1]
  · rw [hbegin]
    simp only [step, checkBuffer_index]
    exact hx3
  · rw [hbegin]
    simp only [step]
    exact (checkBuffer_outside v cfg env _ hx3).1

/-- **Nested blocks (repaired `captureMarks` variant).**  A capture block opened at *any* depth, in *any* state,
returns exactly the rendering of what the operations directly inside it appended — the same string they would
write outside a capture — and, when it sits inside another block, leaves the enclosing block's pending buffer,
its marks, the depth and the file exactly as they were.  So blocks compose: an inner block is invisible to the
enclosing one.  (rich 9.10.0 as found, before fix 1202b8a: `nested_capture_steals`.) -/
theorem capture_block_transparent (v : Console.Variant) (cfg : Config) (env : StyleEnv σ) (s : State σ)
    (inner : List (Op σ)) (hm : v.captureMarks = true) (hi : 0 ≤ s.index)
    (hinner : inner.all (fun op => !isCapture op) = true) :
    (step v cfg env (exec v cfg env (.beginCapture :: inner) s) .endCapture).2 =
        .captured (flat (renderPieces cfg env (inner.flatMap (appended cfg)))) ∧
      flat (renderPieces cfg env (inner.flatMap (appended cfg))) =
        flat (written cfg env (inner.map (appended cfg))).flatten ∧
      (step v cfg env (exec v cfg env (.beginCapture :: inner) s) .endCapture).1.marks = s.marks ∧
      (step v cfg env (exec v cfg env (.beginCapture :: inner) s) .endCapture).1.index = s.index ∧
      (1 ≤ s.index →
        (step v cfg env (exec v cfg env (.beginCapture :: inner) s) .endCapture).1.buffer = s.buffer ∧
        (step v cfg env (exec v cfg env (.beginCapture :: inner) s) .endCapture).1.file = s.file) := by
  let s1 : State σ := { s with index := s.index + 1, marks := s.buffer.length :: s.marks }
  have hbegin : exec v cfg env (.beginCapture :: inner) s = exec v cfg env inner s1 := by
    show exec v cfg env inner (step v cfg env s .beginCapture).1 = _
    simp [step, hm, s1]
  obtain ⟨hb2, hx2, hf2⟩ := exec_inside v cfg env inner s1 (by simp only [s1]; omega) hinner
  have hmk := exec_marks v cfg env inner s1 hinner
  have hx3 : (exec v cfg env inner s1).index - 1 = s.index := by rw [hx2]; simp [s1]
  refine ⟨?_, ?_, ?_, ?_, ?_⟩
  · rw [hbegin]
    simp only [step, renderBuffer, hm, if_true, hmk, s1, List.headD_cons]
    rw [hb2]
    simp [s1, List.flatMap_def]
  · rw [flat_written]; simp [List.flatMap_def]
  · rw [hbegin]
    simp only [step, checkBuffer_marks, hm, if_true, hmk, s1, List.tail_cons]
  · rw [hbegin]
    simp only [step, checkBuffer_index]
    exact hx3
  · intro h1
    rw [hbegin]
    simp only [step]
    rw [checkBuffer_inside _ _ _ _ (by simp only; rw [hx3]; omega)]
    simp only [hm, if_true, hmk, s1, List.headD_cons]
    rw [hb2]
    exact ⟨by simp [s1], hf2⟩

/-- **capture_nesting — capture blocks and `with console:` blocks, nested and interleaved in any way, as one
statement** (repaired variant).

(A) *Well-bracketed histories.*  Let `ops` be any history in which `end_capture` never outnumbers `begin_capture` and
leaving `with console:` never outnumbers entering it (`wellBracketed`; blocks of both kinds may nest and interleave
arbitrarily and may be left open), started in any state `s` that represents a specification state `sp` (`Rel`; the
fresh console represents the empty specification state, `Rel.init`).  Then the console returns, operation by operation,
exactly what the specification machine `specRun` returns, and ends in a state that represents the specification's.
The specification (`specStep`, `Lemmas/ConsoleNest.lean`) keeps one frame per open capture block, the number of open
`with console:` blocks and the segments those hold back: an operation inside a capture block appends what it renders to
the innermost frame *and to nothing else — neither the file nor the record*; `end_capture` returns the rendering of
the innermost frame *only* and leaves every enclosing frame and the held-back segments untouched; outside every capture
block an operation's output is held back while a `with console:` block is open and is written to the file and recorded —
in order, as one write — the moment no block of either kind is open.  So every capture block returns exactly its own
output, whatever the nesting, and `with console:` only delays.

(B) *Arbitrary sequences, balanced or not.*  Nothing can raise except an export on a non-recording console
(`assert self.record`); the depth after any sequence is the initial depth plus begins and enters minus ends and exits
(it may go negative); a step that starts and ends at a non-zero depth — of either sign — writes nothing to the file (so
after a surplus `end_capture` output is withheld until the depth is back at zero); and an `end_capture` that finds no
open block returns the rendering of the whole pending buffer and empties it. -/
theorem capture_nesting (v : Console.Variant) (cfg : Config) (env : StyleEnv σ)
    (hm : v.captureMarks = true) (hv : v.recordInRender = false) :
    (∀ (ops : List (Op σ)) (s : State σ) (sp : Spec σ), Rel s sp → wellBracketed sp.frames.length sp.ctx ops = true →
      (run v cfg env ops s).2 = (specRun v cfg env ops sp).2 ∧
      Rel (run v cfg env ops s).1 (specRun v cfg env ops sp).1) ∧
    ((∀ (s : State σ) (op : Op σ), (step v cfg env s op).2 = .assertionError → isExport op = true ∧ cfg.record = false) ∧
     (∀ (ops : List (Op σ)) (s : State σ), (exec v cfg env ops s).index = s.index + depthDelta ops) ∧
     (∀ (s : State σ) (op : Op σ), s.index ≠ 0 → (step v cfg env s op).1.index ≠ 0 →
        (step v cfg env s op).1.file = s.file) ∧
     (∀ (s : State σ), s.marks = [] →
        (step v cfg env s .endCapture).2 = .captured (flat (renderPieces cfg env s.buffer)) ∧
        (step v cfg env s .endCapture).1.index = s.index - 1 ∧
        (step v cfg env s .endCapture).1.buffer = [] ∧ (step v cfg env s .endCapture).1.marks = [])) :=
  ⟨run_refines v cfg env hm hv,
   fun s op h => step_total v cfg env s op h,
   fun ops s => exec_index v cfg env ops s,
   fun s op h1 h2 => step_file_nonzero v cfg env s op h1 h2,
   fun s h => step_end_unbalanced v cfg env s h⟩

/-- The starting condition of `capture_returns_and_withholds` holds in every state reached from a fresh console by a
history whose capture blocks are well nested: the depth is never negative, and at depth zero the buffer is empty. -/
theorem reachable_outside_empty (v : Console.Variant) (cfg : Config) (env : StyleEnv σ) (ops : List (Op σ))
    (hw : wellNested 0 ops = true) :
    0 ≤ (exec v cfg env ops {}).index ∧ ((exec v cfg env ops {}).index = 0 → (exec v cfg env ops {}).buffer = []) := by
  obtain ⟨d, h1, h2⟩ := exec_outsideEmpty v cfg env ops {} 0 ⟨rfl, fun _ => rfl⟩ hw
  refine ⟨by rw [h1]; omega, fun h0 => h2 ?_⟩
  rw [h1] at h0
  exact_mod_cast h0

/-- In the repaired variant a capture block records nothing: after it the record is what it was
(for `inner` without exports). -/
theorem capture_not_recorded (v : Console.Variant) (cfg : Config) (env : StyleEnv σ) (s : State σ)
    (inner : List (Op σ)) (hv : v.recordInRender = false) (hr : cfg.record = true) (hi : s.index = 0)
    (hb : s.buffer = []) (hinner : inner.all (fun op => !isCapture op) = true)
    (hnoexp : inner.all (fun op => !isClearing op) = true) :
    (exec v cfg env (.beginCapture :: inner ++ [.endCapture]) s).record = s.record := by
  let s1 : State σ := { s with index := s.index + 1,
                               marks := if v.captureMarks then s.buffer.length :: s.marks else s.marks }
  have hbegin : exec v cfg env (.beginCapture :: inner ++ [.endCapture]) s =
      (step v cfg env (exec v cfg env inner s1) .endCapture).1 := by
    show exec v cfg env (inner ++ [.endCapture]) s1 = _
    rw [exec_append]; rfl
  obtain ⟨_, hx2, _⟩ := exec_inside v cfg env inner s1 (by simp [s1, hi]) hinner
  have hrec : (exec v cfg env inner s1).record = s.record :=
    exec_inside_record v cfg env inner _ (by simp [s1, hi]) hinner hnoexp
  have hmk := exec_marks v cfg env inner s1 hinner
  have hstart : (if v.captureMarks = true then (exec v cfg env inner s1).marks.headD 0 else 0) = 0 := by
    rw [hmk]; cases hcm : v.captureMarks <;> simp [s1, hcm, hb]
  have h0 : ((exec v cfg env inner s1).index - 1 == 0) = true := by
    rw [hx2]; simp [s1, hi]
  rw [hbegin]
  simp only [step, renderBuffer, hv, Bool.false_and, Bool.false_eq_true, if_false, hstart, List.take_zero]
  unfold checkBuffer
  simp [h0, renderBuffer, hv, hr, hrec]

/-! ## several consoles -/

/-- **consoles_do_not_interfere.**  Any number of consoles alive together — each with its own configuration (colour
system, terminal or not, recording or not, …) and style table — and any interleaving of operations addressed to them:
every console ends in exactly the state (record, file, buffer, capture depth), and receives exactly the answers
(exports, captures), of its own operations run alone.  So every theorem above holds per console in the presence of the
others: a clear on one console cannot empty another's record, a print on one cannot change another's export. -/
theorem consoles_do_not_interfere (v : Console.Variant) (cfgs : Nat → Config) (envs : Nat → StyleEnv σ)
    (sched : List (Nat × Op σ)) (sts : Nat → State σ) (k : Nat) :
    (multiRun v cfgs envs sched sts).1 k = (run v (cfgs k) (envs k) (projOps k sched) (sts k)).1 ∧
    projOuts k (multiRun v cfgs envs sched sts).2 = (run v (cfgs k) (envs k) (projOps k sched) (sts k)).2 :=
  multiRun_proj v cfgs envs sched sts k

/-! ## the strings printed -/

/-- **print_plain_segments** (rich's cell widths, console width ≥ 2, tab size ≥ 1).  For
`print(*strs, sep=…, end=…, style=…)` of plain strings — markup / emoji / highlight off, every other option at its
default, `end` being `"\n"` or `""` — the segments the derivation `ConsolePrint.printSegs` appends (the ones the
correspondence compares with rich) carry, character for character, the C02 wrap of `Text(sep).join(Text(s) for s in
strs)` at the console width: the wrapped lines joined by line feeds, followed by `end`.  The wrap succeeds, every
line fits the width (C02 `wrap_lines_fit`), the lines keep the non-whitespace characters of the text in order (C02
`wrap_fold_keeps_nonspace`), `Text.render` emits exactly the joined lines and `end` (C05 `render_view`), and the final
`split_and_crop_lines` removes nothing because every line fits (C13 `split_and_crop_refines`).  Composition of C05,
C02, C13 and the line/piece bridge of C01, read-only. -/
theorem print_plain_segments (env : ConsolePrint.Env) (a : ConsolePrint.PrintArgs) (hw : 2 ≤ env.width)
    (hts : env.tabSize ≠ 0) (hd : ConsolePrint.PlainDefault env a) :
    ∃ lines : List ConsolePrint.TT,
      Wrap.wrap Wrap.WVariant.repaired C13.cw ConsolePrint.alg (ConsolePrint.printText a) env.width
        (some Justify.default) (some Overflow.fold) (some env.tabSize) (some false) = .ok lines ∧
      (∀ l ∈ lines, cellLen C13.cw l.plain ≤ env.width) ∧
      (lines.flatMap (·.plain)).filter (fun c => !pyIsSpace c) =
        (ConsolePrint.printText a).plain.filter (fun c => !pyIsSpace c) ∧
      ConsolePrint.wrappedText C13.cw env.tabSize env.width a =
        ConsolePrint.joinNl (lines.map (·.plain)) ++ a.endStr ∧
      ∃ r, ConsolePrint.printSegs Wrap.WVariant.repaired C13.cw env a = .ok r ∧
        ∀ segs, r = some segs →
          ConsolePrint.allText segs = ConsolePrint.joinNl (lines.map (·.plain)) ++ a.endStr ∧
          ∀ s ∈ segs, s.control = false :=
  ConsolePrint.print_plain_segments C13.cw C02.rich_widths_admissible.1 C02.rich_widths_admissible.2.1
    C02.rich_widths_admissible.2.2 env a (by omega) (C02.statement_range C13.cw C02.rich_widths_admissible.2.1 _ hw) hts hd

/-- **export_text_of_prints.**  A recording console (repaired variant) of width ≥ 2 on which only
`print(*strs, sep, end, style)` of plain strings is called (`calls`: the arguments of each call with the segments it
appended, which are the derived ones — what the correspondence checks against rich).  Then `export_text()` returns
the concatenation, call after call, of the C02 wrap of that call's text at the console width — lines joined by line
feeds, followed by the call's `end`: "exported text = visible text" as a statement about the strings printed. -/
theorem export_text_of_prints (env : ConsolePrint.Env) (hw : 2 ≤ env.width) (hts : env.tabSize ≠ 0)
    (v : Console.Variant) (cfg : Config) (senv : StyleEnv Nat) (hv : v.recordInRender = false) (hr : cfg.record = true)
    (calls : List (ConsolePrint.PrintArgs × List (Segment Nat)))
    (hcalls : ∀ c ∈ calls, ConsolePrint.PlainDefault env c.1 ∧
      ConsolePrint.printSegs Wrap.WVariant.repaired C13.cw env c.1 = .ok (some c.2)) :
    (step v cfg senv (exec v cfg senv (calls.map (fun c => Op.print c.2)) {}) (.exportText false false)).2 =
      .exported (calls.flatMap (fun c => ConsolePrint.wrappedText C13.cw env.tabSize env.width c.1)) ∧
    fileVisible (exec v cfg senv (calls.map (fun c => Op.print c.2)) {}).file =
      calls.flatMap (fun c => ConsolePrint.wrappedText C13.cw env.tabSize env.width c.1) := by
  have h := ConsolePrint.export_text_of_prints C13.cw C02.rich_widths_admissible.1 C02.rich_widths_admissible.2.1
    C02.rich_widths_admissible.2.2 env (by omega) (C02.statement_range C13.cw C02.rich_widths_admissible.2.1 _ hw) hts
    v cfg senv hv hr calls hcalls
  refine ⟨by rw [(step_exportText_returns v cfg senv _ false hr).1, h], ?_⟩
  rw [← export_text_eq_visible_from_start v cfg senv _ hv hr (by simp [isClearing]), h]

/-! ## Witnesses: the defects found in rich 9.10.0 as found, all repaired in /repo since (machine-checked negations for the variants
selected by the flags of `Console.Variant`), and the nested-capture behaviour. -/

/-- A style table for the witnesses: style 1 is bold (SGR 1), style 2 carries the link `a">b`. -/
def wEnv : StyleEnv Nat :=
  { truthy := fun _ => true
    pre := fun _ => "\x1b[1m".toList, post := fun _ => "\x1b[0m".toList
    preT := fun _ => "\x1b[1m".toList, postT := fun _ => "\x1b[0m".toList
    withoutColor := id
    htmlRule := fun i => if i == 1 then "font-weight: bold".toList else []
    link := fun i => if i == 2 then some "a\">b".toList else none }

def wCfg : Config :=
  { record := true, colorNone := false, isTerminal := true, termDumb := false, noColor := false, legacyWindows := false }

/-- F17 (rich 9.10.0 as found, before fix 114bbe8; `recordInRender = true`): text printed inside a capture block is exported although it never
reached the file. -/
theorem old_capture_is_recorded :
    let s := exec Console.Variant.today wCfg wEnv [.beginCapture, .print [{ text := ['x'], style := none }], .endCapture] {}
    exportPlain s.record = ['x'] ∧ fileVisible s.file = [] := by decide

/-- The same history in the repaired variant: nothing recorded, nothing written. -/
example :
    let s := exec Console.Variant.repaired wCfg wEnv [.beginCapture, .print [{ text := ['x'], style := none }], .endCapture] {}
    exportPlain s.record = [] ∧ fileVisible s.file = [] := by decide

/-- Nested capture blocks (`captureMarks = false`, with or without the other repairs): the inner `end_capture` returns what was printed in the *outer* block
before the inner one began, and the outer capture returns nothing — `capture_returns_and_withholds` cannot be
extended to nested blocks on this code (rich 9.10.0 as found; repaired by fix 1202b8a). -/
theorem nested_capture_steals (v : Console.Variant) (hv : v = Console.Variant.today ∨ v = { Console.Variant.repaired with captureMarks := false }) :
    (run v wCfg wEnv [.beginCapture, .print [{ text := ['x'], style := none }], .beginCapture, .endCapture, .endCapture] {}).2
      = [.none, .none, .none, .captured ['x'], .captured []] := by
  rcases hv with rfl | rfl <;> decide

/-- The same history with `captureMarks = true`: each block returns what was printed directly inside it. -/
example :
    (run Console.Variant.repaired wCfg wEnv [.beginCapture, .print [{ text := ['x'], style := none }], .beginCapture, .endCapture, .endCapture] {}).2
      = [.none, .none, .none, .captured [], .captured ['x']] := by decide

/-- The `href` of rich 9.10.0 as found, before fix e488480 (`escapeHref = false`): a link containing `">` ends the tag early, and its tail shows up as text. -/
theorem old_href_breaks_html :
    htmlDecode (flatFrags (exportHtmlParts Console.Variant.today wEnv true [{ text := ['x'], style := some 2 }]).1)
      ≠ exportPlain ([{ text := ['x'], style := some 2 }] : List (Segment Nat)) := by decide

/-- F18 regression witness (`mergeCtl = true`, the code before commit b97fe77): `bell(); line()` put `\x07` into the HTML. -/
theorem old_simplify_bell_in_html :
    htmlDecode (flatFrags (exportHtmlParts { Console.Variant.repaired with mergeCtl := true } wEnv true
      [{ text := ['\x07'], style := none, control := true }, { text := ['\n'], style := none }]).1)
      ≠ exportPlain ([{ text := ['\x07'], style := none, control := true }, { text := ['\n'], style := none }] : List (Segment Nat)) := by
  decide

/-- Why `export_html_document_decoded` asks something of the text before `{code}`: with the format string `&{code}` and
the recorded text `lt;` the document is `&lt;`, which decodes to `<` — not to `&` followed by the exported text. -/
theorem old_amp_before_code_joins :
    let rec1 : List (Segment Nat) := [{ text := "lt;".toList, style := none }]
    ConsoleFormat.exportHtmlStr Console.Variant.repaired wEnv true "&{code}".toList [] [] rec1 = .ok "&lt;".toList ∧
    htmlDecode "&lt;".toList = ['<'] ∧ exportPlain rec1 = "lt;".toList := by decide

/-! ## Non-vacuity: the hypotheses are met by concrete non-trivial values, and the conclusions say something. -/

/-- `TagSafe` holds for the witness table in the repaired variant … -/
example : TagSafe Console.Variant.repaired wEnv :=
  ⟨fun s => by unfold wEnv; simp only; split <;> decide, fun h => by simp [Console.Variant.repaired] at h⟩

/-- … and the repaired HTML of the offending link decodes to the text. -/
example :
    htmlDecode (flatFrags (exportHtmlParts Console.Variant.repaired wEnv true [{ text := ['x', '<'], style := some 2 }]).1)
      = ['x', '<'] := by decide

/-- a history without clearing export, with styled text, a control code and a capture -/
example :
    let ops : List (Op Nat) := [.print [{ text := ['a', '&'], style := some 1 }], .bell, .beginCapture, .line 1, .endCapture, .line 2]
    ops.all (fun op => !isClearing op) = true ∧
    fileVisible (exec Console.Variant.repaired wCfg wEnv ops {}).file = ['a', '&', '\n', '\n'] ∧
    exportPlain (exec Console.Variant.repaired wCfg wEnv ops {}).record = ['a', '&', '\n', '\n'] := by decide

/-- the specification on a doubly nested history: each block returns its own prints, the file gets only what was
printed outside -/
example :
    let ops : List (Op Nat) := [.print [{ text := ['o'], style := none }], .beginCapture, .print [{ text := ['a'], style := none }],
      .beginCapture, .print [{ text := ['b'], style := none }], .beginCapture, .endCapture, .endCapture,
      .print [{ text := ['c'], style := none }], .endCapture]
    wellBracketed 0 0 ops = true ∧
    (specRun Console.Variant.repaired wCfg wEnv ops {}).2 =
      [.none, .none, .none, .none, .none, .none, .captured [], .captured ['b'], .none, .captured ['a', 'c']] ∧
    (run Console.Variant.repaired wCfg wEnv ops {}).2 = (specRun Console.Variant.repaired wCfg wEnv ops {}).2 ∧
    fileVisible (run Console.Variant.repaired wCfg wEnv ops {}).1.file = ['o'] := by decide
/-- class numbering on a record with the rules A, B, A: two entries, the third segment reuses r1 -/
example :
    let env : StyleEnv Nat := { wEnv with htmlRule := fun i => if i == 2 then "B".toList else "A".toList }
    let rec3 : List (Segment Nat) := [{ text := ['x'], style := some 1 }, { text := ['y'], style := some 2 }, { text := ['z'], style := some 3 }]
    (exportHtmlParts Console.Variant.repaired env false rec3).2 = ".r1 {A}\n.r2 {B}".toList ∧
    firstOcc (classRules env (htmlSegments Console.Variant.repaired rec3)) = ["A".toList, "B".toList] := by decide
/-- `with console:` interleaved with a capture block (enter, print o, begin, exit, print a, end): the capture returns
`a`; `o` is held back and written when the depth is back at zero -/
example :
    let ops : List (Op Nat) := [.enterBuffer, .print [{ text := ['o'], style := none }], .beginCapture, .exitBuffer,
      .print [{ text := ['a'], style := none }], .endCapture]
    wellBracketed 0 0 ops = true ∧
    (specRun Console.Variant.repaired wCfg wEnv ops {}).2 = [.none, .none, .none, .none, .none, .captured ['a']] ∧
    (run Console.Variant.repaired wCfg wEnv ops {}).2 = (specRun Console.Variant.repaired wCfg wEnv ops {}).2 ∧
    fileVisible (run Console.Variant.repaired wCfg wEnv ops {}).1.file = ['o'] ∧
    exportPlain (run Console.Variant.repaired wCfg wEnv ops {}).1.record = ['o'] := by decide
example : wellNested (σ := Nat) 0 [.beginCapture, .bell, .beginCapture, .endCapture, .endCapture, .line 1] = true := rfl
/-- the derivation on a concrete call: `print("ab cd", "e")` at width 3 wraps to three lines (a word keeps its
trailing blank when the line still fits) -/
example :
    (match ConsolePrint.printSegs Wrap.WVariant.repaired C13.cw { width := 3, nullId := 1, styleId := id }
        { strs := ["ab cd".toList, "e".toList] } with
      | .ok (some segs) => ConsolePrint.allText segs
      | _ => []) = "ab \ncd \ne\n".toList ∧
    ConsolePrint.wrappedText C13.cw 8 3 { strs := ["ab cd".toList, "e".toList] } = "ab \ncd \ne\n".toList := by
  decide +kernel
/-- two consoles: a clearing export on console 1 leaves console 0's record alone -/
example :
    let sched : List (Nat × Op Nat) := [(0, .print [{ text := ['a'], style := none }]), (1, .print [{ text := ['b'], style := none }]),
      (1, .exportText true false), (0, .exportText false false)]
    projOuts 0 (multiRun Console.Variant.repaired (fun _ => wCfg) (fun _ => wEnv) sched (fun _ => {})).2 = [.none, .exported ['a']] ∧
    projOuts 1 (multiRun Console.Variant.repaired (fun _ => wCfg) (fun _ => wEnv) sched (fun _ => {})).2 = [.none, .exported ['b']] := by
  decide
example : isClearing (σ := Nat) (.exportText true false) = true := rfl
example : ({} : State Nat).index = 0 ∧ ({} : State Nat).buffer = [] := ⟨rfl, rfl⟩
example : unescape "&amp;lt;&lt;&gt;&".toList = "&lt;<>&".toList := by decide

/-- format strings: a custom format with doubled braces and three fields; an unknown field; a numbered field; a single
brace; a failing format keeps the record although `clear=True` -/
example :
    let rec1 : List (Segment Nat) := [{ text := ['x', '<'], style := some 1 }]
    ConsoleFormat.exportHtmlStr Console.Variant.repaired wEnv true "{{{foreground}}}<pre>{code}</pre>".toList "#f".toList [] rec1 =
      .ok "{#f}<pre><span style=\"font-weight: bold\">x&lt;</span></pre>".toList ∧
    ConsoleFormat.exportHtmlStr Console.Variant.repaired wEnv true "{code}{colour}".toList [] [] rec1 = .error (.keyError "colour".toList) ∧
    ConsoleFormat.exportHtmlStr Console.Variant.repaired wEnv true "{code}{0}".toList [] [] rec1 = .error .indexError ∧
    ConsoleFormat.exportHtmlStr Console.Variant.repaired wEnv true "{code}}".toList [] [] rec1 = .error .valueError ∧
    (ConsoleFormat.stepHtmlStr Console.Variant.repaired wCfg wEnv { record := rec1 } true true "{code".toList [] []).1.record = rec1 ∧
    (ConsoleFormat.stepHtmlStr Console.Variant.repaired wCfg wEnv { record := rec1 } true true "{code}".toList [] []).1.record = [] := by
  decide
/-- the hypotheses of `export_html_document_format` on `<i>{foreground}</i>{code}&amp;{{` -/
example :
    ConsoleFormat.scan .lit "<i>{foreground}</i>{code}&amp;{{".toList =
      (("<i>".toList.map ConsoleFormat.PItem.lit ++ [.field "foreground".toList] ++ "</i>".toList.map ConsoleFormat.PItem.lit) ++
        [ConsoleFormat.PItem.field "code".toList] ++ "&amp;{".toList.map ConsoleFormat.PItem.lit, .done) ∧
    (ConsoleFormat.toTemplate ("<i>".toList.map ConsoleFormat.PItem.lit ++ [.field "foreground".toList] ++
      "</i>".toList.map ConsoleFormat.PItem.lit)).isSome = true := by decide
example : ConsoleLogTime.logTimeCells true {} ["[1]".toList, "[1]".toList, "[2]".toList, "[1]".toList] =
    [some "[1]".toList, some "   ".toList, some "[2]".toList, some "[1]".toList] := by decide

end RichModel.C15
