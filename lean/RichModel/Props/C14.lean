import RichModel.Lemmas.Totality
import RichModel.Lemmas.TotalityLayout
import RichModel.Lemmas.AnsiLine
import RichModel.Lemmas.TotalityTitle
/-!
# C14 — no input makes the pipeline fail with an undocumented error

Property theorems only.  `P : PyStr` are the character tables of the running Python (`str.isspace`,
`\d`/`int()` digit values, `str.lower`, the `int()` digit limit): **every theorem below holds for all
of them**, so nothing here depends on the generated Unicode tables; the driver's instance
(`Totality.Py.real`) is compared with the running interpreter by `./check C14`.

`vErr = false` is the repaired `Color.parse` (fix c34676b, the former
pending_fixes/C14-color-parse-rgb-valueerror.diff): it is what /repo contains now;
`vErr = true` is rich 9.10.0 as found, for which the `old_…` witnesses show the escape (F9) at every
entry point that reaches `Color.parse`.

Termination: every function of `Model/Totality.lean` is structurally recursive (accepted by Lean
without `partial` / fuel); so are C04's tokenizer and C20's lookup which it calls.

The second half composes the finished layers read-only: `decode_total` (C19's decoder model), `text_ctor_total` (C05),
`wrap_total` / `text_render_total` / `print_plain_total` (C02's `Wrap.wrap`, C05's `Text`, the `Text.__rich_console__` glue of
`Model/Layout.lean`, `Model/TotalityPrint.lean`), and `layout_total` over the inductive type `R` of renderable trees of
`Model/Layout.lean` (C01/C09) with C07's table solver (`calcWidths_total`, for `noColumnsAsserts = flexNegative = false`) and
C08's frames underneath; the two witnesses at the end show where rich 9.10.0 as found did raise (before fixes 1d61bac, ab98098).
-/
namespace RichModel.C14
open RichModel RichModel.Totality AsciiStr

/-! ## `Color.parse` -/

/-- **color_parse_total.**  For every string, `Color.parse` (repaired) returns a colour or raises
`ColorParseError` — nothing else. -/
theorem color_parse_total (P : PyStr) (s : List Char) :
    (∃ c, UColor.parse P false s = .ok c) ∨ UColor.parse P false s = .error .colorParseError := by
  cases h : UColor.parse P false s with
  | ok c => exact .inl ⟨c, rfl⟩
  | error e => rw [color_parse_err P s e h]; exact .inr rfl

/-- rich 9.10.0 as found (`vErr = true`, before fix c34676b): besides `ColorParseError` the only exception is the `ValueError` of `int()`. -/
theorem old_color_parse_errors (P : PyStr) (s : List Char) (e : Exc) (h : UColor.parse P true s = .error e) :
    e = .colorParseError ∨ e = .valueError :=
  parseNorm_err_old P _ e h

/-- F9: `Color.parse("rgb(1,,2)")` raises `ValueError` (`int("")`). -/
theorem old_color_parse_empty_component :
    UColor.parse PyStr.ascii true (cl! "rgb(1,,2)") = .error .valueError := by decide

/-- F9: `Color.parse("rgb(1 2,3,4)")` raises `ValueError` (`int("1 2")`). -/
theorem old_color_parse_inner_blank :
    UColor.parse PyStr.ascii true (cl! "rgb(1 2,3,4)") = .error .valueError := by decide

/-- F9 through `\s`: U+001C is white space for `RE_COLOR` and `strip()` but not for `int()`. -/
theorem old_color_parse_separator :
    UColor.parse PyStr.ascii true [' ', 'R', 'G', 'B', '(', Char.ofNat 28, '1', ',', '2', ',', '3', ')'] = .error .valueError := by decide

example : UColor.parse PyStr.ascii false (cl! "rgb(1,,2)") = .error .colorParseError := by decide
example : (UColor.parse PyStr.ascii false (cl! " RGB( 1 ,2,3)")).toOption.map (·.triplet) = some (some ⟨1, 2, 3⟩) := by decide
example : UColor.parse PyStr.ascii false (cl! "color(256)") = .error .colorParseError := by decide
example : (UColor.parse PyStr.ascii false (cl! "color(255)")).toOption.map (·.number) = some (some 255) := by decide

/-! ## `Style.parse`, `Style.normalize` -/

/-- **style_parse_total.**  For every string, `Style.parse` returns a style or raises
`StyleSyntaxError` ("link" / "on" / "not" as the last word, an unknown word, a bad colour, …). -/
theorem style_parse_total (P : PyStr) (s : List Char) :
    (∃ st, UStyle.parse P false s = .ok st) ∨ UStyle.parse P false s = .error .styleSyntaxError := by
  cases h : UStyle.parse P false s with
  | ok c => exact .inl ⟨c, rfl⟩
  | error e => rw [style_parse_err P s e h]; exact .inr rfl

/-- **normalize_total.**  `Style.normalize` never raises. -/
theorem normalize_total (P : PyStr) (s : List Char) : ∃ r, UStyle.normalize P false s = .ok r :=
  normalize_ok P s

theorem old_style_parse_value_error :
    UStyle.parse PyStr.ascii true (cl! "bold on rgb(1,,2)") = .error .valueError := by decide

theorem old_normalize_raises :
    UStyle.normalize PyStr.ascii true (cl! "rgb(1,,2)") = .error .valueError := by decide

example : UStyle.parse PyStr.ascii false (cl! "bold link") = .error .styleSyntaxError := by decide
example : UStyle.parse PyStr.ascii false (cl! "on") = .error .styleSyntaxError := by decide
example : UStyle.parse PyStr.ascii false (cl! "not") = .error .styleSyntaxError := by decide
example : UStyle.parse PyStr.ascii false (cl! "not Bold") = .error .styleSyntaxError := by decide
example : UStyle.parse PyStr.ascii false (cl! "bold on rgb(1,,2)") = .error .styleSyntaxError := by decide
example : UStyle.normalize PyStr.ascii false (cl! " B  ON Red ") = .ok (cl! "bold on red") := by decide
example : UStyle.normalize PyStr.ascii false (cl! " Bold X ") = .ok (cl! "bold x") := by decide

/-! ## `markup.render` -/

/-- **markup_render_total.**  For every string (emoji on or off), `markup.render` returns a text or
raises `MarkupError` (`[/]` on an empty stack, `[/x]` without an open `[x]`). -/
theorem markup_render_total (P : PyStr) (emoji : Option (List Char → Option (List Char))) (s : List Char) :
    (∃ r, markupRender P false emoji s = .ok r) ∨ markupRender P false emoji s = .error .markupError := by
  cases h : markupRender P false emoji s with
  | ok c => exact .inl ⟨c, rfl⟩
  | error e =>
    rw [renderE_err (markupCfg P emoji) (UStyle.normalize P false) (normalize_ok P) s e h]
    exact .inr rfl

/-- The render loop with a raising `normalize` is C04's `render` whenever `normalize` does not raise:
the theorems of `Props/C04.lean` are about the same function. -/
theorem markup_render_refines_c04 (cfg : Markup.Cfg) (norm : List Char → Except Exc (List Char))
    (hn : ∀ x, norm x = .ok (cfg.norm x)) (s : List Char) :
    renderE cfg norm s = liftM (Markup.render cfg s) :=
  renderE_eq_render cfg norm hn s

/-- F9 seen from markup: `markup.render("[rgb(1,,2)]x")` raises `ValueError`. -/
theorem old_markup_render_value_error :
    markupRender PyStr.ascii true none (cl! "[rgb(1,,2)]x") = .error .valueError := by decide

/-- … and from a closing tag (`normalize` is called outside the `try`). -/
theorem old_markup_close_value_error :
    markupRender PyStr.ascii true none (cl! "[b]x[/rgb(1,,2)]") = .error .valueError := by decide

example : markupRender PyStr.ascii false none (cl! "[/]") = .error .markupError := by decide
example : markupRender PyStr.ascii false none (cl! "[b]x[/i]") = .error .markupError := by decide
example : markupRender PyStr.ascii false none (cl! "[rgb(1,,2)]x[/rgb(1,,2)]") = .ok (cl! "x", [⟨0, 1, cl! "rgb(1,,2)"⟩]) := by decide
example : markupRender PyStr.ascii false none (cl! "[=x]a[link=]b") = .ok (cl! "[=x]ab", [⟨5, 6, cl! "link "⟩]) := by decide

/-! ## `Console.get_style` -/

/-- **get_style_total.**  For every name, every default (none, a `Style`, a string) and every theme
stack, `Console.get_style` returns a style or raises `MissingStyle`. -/
theorem get_style_total (P : PyStr) (st : Theme.Stack Style) (name : Theme.NS Style) (default : Option (Theme.NS Style)) :
    (∃ s, getStyle P false st name default = .ok s) ∨ getStyle P false st name default = .error .missingStyle := by
  cases h : getStyle P false st name default with
  | ok c => exact .inl ⟨c, rfl⟩
  | error e =>
    rw [getStyle_err (themeParse P false) (themeParse_no_other P) st name default e h]
    exact .inr rfl

theorem old_get_style_raises :
    getStyle PyStr.ascii true defaultStack (.str (cl! "x")) (some (.str (cl! "rgb(1,,2)"))) = .error .other := by decide

example : getStyle PyStr.ascii false defaultStack (.str (cl! "x")) (some (.str (cl! "rgb(1,,2)"))) = .error .missingStyle := by decide
example : (getStyle PyStr.ascii false defaultStack (.str (cl! "no such")) (some (.str (cl! "bold")))).toOption.isSome = true := by decide

/-! ## `AnsiDecoder.decode` (over C19's decoder model) -/

/-- **decode_total.**  The repaired decoder (`int()` failures skipped, fix 8dc20cb) accepts every string: every line of
`AnsiDecoder.decode(text)` decodes, whatever the decoder's carried style, the other code variants either way. -/
theorem decode_total (cfg : Ansi.Cfg) (h : cfg.intRaises = false) (st : Style) (text : List Char) :
    ∃ st' lines, Ansi.decode cfg st text = (st', .ok lines) := by
  obtain ⟨st', ts, h1, _⟩ := Ansi.decodeMany_total (Ansi.decodeLine_total cfg h) st (Ansi.splitlines text)
  exact ⟨st', ts, h1⟩

example : Ansi.Cfg.repaired.intRaises = false := rfl

/-- F10 on the decoder model as found: `"²".isdigit()` holds, `int("²")` raises. -/
theorem old_decode_value_error :
    (Ansi.decode Ansi.Cfg.old Style.null [Ansi.ESC, '[', '²', 'm']).2 = .error .valueError := by decide +kernel

/-! ## `Text(...)`, `Text.wrap`, `Text.render`, `Console.print(markup=False)` -/

section
open RichModel.Text

/-- **text_ctor_total.**  `Text(s, style, justify=…, overflow=…, no_wrap=…, end=…, tab_size=…)` constructs a consistent
text for every string — control characters included (they are stripped, and `len()` counts what is kept) — and with any
`spans` that lie inside the stripped text (C05: `inv_init`). -/
theorem text_ctor_total {σ : Type} (s : List Char) (style : σ) (spans : List (Span σ)) (j : Option Justify) (o : Option Overflow)
    (nw : Option Bool) (e : List Char) (ts : Option Nat) (hs : SpansIn spans ((stripControl s).length : Int)) :
    Text.Inv (Text.new Variant.repaired s style spans j o nw e ts) :=
  inv_new s style spans j o nw e ts hs

example : Text.Inv (Text.new Variant.repaired ['a', '\r', '\x08', 'b'] (0 : Nat)) :=
  text_ctor_total _ _ [] none none none _ _ (by intro sp h; cases h)
example : (Text.new Variant.repaired ['a', '\r', '\x08', 'b'] (0 : Nat)).plain = ['a', 'b'] := by decide

/-- **wrap_total.**  `Text.wrap(console, width, justify=, overflow=, tab_size=, no_wrap=)` of a consistent text never raises
and returns consistent lines: EVERY width (0 and 1 included — a double-width character then does not fit and `chop_cells`
yields an empty first chunk: the offsets repeat instead of increasing), every cell-width function, every `justify`
(default / left / center / right / full) and `overflow` (fold / crop / ellipsis / ignore) as argument or attribute,
`no_wrap` or not, every tab size ≥ 1; both variants of `rstrip_end`. -/
theorem wrap_total {σ : Type} [BEq σ] (chars : Bool) (cw : Char → Nat) (A : Wrap.StyleAlg σ) (t : Text σ) (h : Text.Inv t) (w : Nat)
    (justify : Option Justify) (overflow : Option Overflow) (ts : Nat) (hts : 0 < ts) (noWrap : Option Bool) :
    ∃ lines, Wrap.wrap (Wrap.WVariant.fixed chars) cw A t w justify overflow (some ts) noWrap = .ok lines ∧
      ∀ l ∈ lines, Text.Inv l :=
  Wrap.wrap_total (chars := chars) cw A t h w justify overflow ts hts noWrap

/-- `tab_size = 0` is not a valid option: `expand_tabs` divides by it (the console never passes 0:
`console.tab_size or self.tab_size or 8`). -/
example : Wrap.wrap Wrap.WVariant.repaired (fun _ => 1) Layout.alg (Text.new Variant.repaired ['a', '\t', 'b'] [0]) 5 none none (some 0)
    = .error .zeroDivisionError := by decide

/-- the offsets of `divide_line` at a width below a character's: ascending, not strictly -/
example : Wrap.divideLine (fun _ => 2) ['a', 'b'] 1 true = [0, 1] := by decide

/-- **text_render_total.**  `Text.render(console, end=e)` of a consistent text raises neither the `ValueError` of
`stack.remove` nor the `RuntimeError` of `Style.combine(())`. -/
theorem text_render_total {σ : Type} (t : Text σ) (h : Text.Inv t) (e : List Char) : ∃ segs, t.render e = .ok segs :=
  Text.render_total t h e

end

open Layout in
/-- `Text.__rich_console__` (wrap, `Text("\n").join`, render) of a consistent text never raises: every `ConsoleOptions`
in force (`justify`, `overflow`, `no_wrap`), every width, every console `tab_size`. -/
theorem text_console_total (cfg : Layout.Cfg) (hc : CfgRepaired cfg) (t : T) (h : Text.Inv t) (o : Opts) (w : Nat) :
    ∃ s, textConsoleE cfg t o w = .ok s :=
  textConsoleE_total cfg hc t h o w

open Layout in
/-- **print_plain_total.**  `Console.print(s, markup=False)` never raises: every string, every console width, every
width function, `overflow` / `no_wrap` / `sep` / `end` / `crop` as given, emoji replacement on (any emoji table) or off,
highlighting off or any highlighter keeping its contract (`HighlighterOk`: its spans lie inside the text; checked on
rich's `ReprHighlighter` per generated case by `./check C14`). -/
theorem print_plain_total (cfg : Layout.Cfg) (hc : CfgRepaired cfg) (po : PrintOpts)
    (hhl : ∀ hl, po.highlighter = some hl → HighlighterOk hl) (s : List Char) (w : Nat) :
    ∃ lines, printPlainE cfg po s w = .ok lines :=
  printPlainE_total cfg hc po hhl s w

/-- **text_measure_total.**  `Text.__rich_measure__` never reaches `max()` of an empty sequence: for every text — empty,
made only of white space of ANY kind (NO-BREAK SPACE, IDEOGRAPHIC SPACE, U+001C..U+001F, U+2028, …), or not — and every
width function, provided the blank-text guard (`if not text.strip()`) strips every character `str.split()` splits on.
In rich both are Python's `str.isspace` class (`pyIsSpace`, translated from the running interpreter): the corollary. -/
theorem text_measure_total (guard split : Char → Bool) (h : ∀ c, split c = true → guard c = true) (cw : Char → Nat)
    (plain : List Char) : ∃ m, textRichMeasureE guard split cw plain = .ok m :=
  textRichMeasureE_total guard split h cw plain

theorem text_measure_total_rich (cw : Char → Nat) (plain : List Char) :
    ∃ m, textRichMeasureE pyIsSpace pyIsSpace cw plain = .ok m :=
  text_measure_total pyIsSpace pyIsSpace (fun _ h => h) cw plain

/-- **text_measure_total_nl.**  The same for `Text.__rich_measure__` as /repo has it since fix 542a59e (the maximum over
`text.split("\n")` instead of `text.splitlines()`; `textRichMeasureNL` is what the driver answers `c14_text_measure` with;
`textRichMeasureE` above is the code before that fix): every text, every width function, any guard covering `split`. -/
theorem text_measure_total_nl (guard split : Char → Bool) (h : ∀ c, split c = true → guard c = true) (cw : Char → Nat)
    (plain : List Char) : ∃ m, textRichMeasureNL guard split cw plain = .ok m :=
  textRichMeasureNL_total guard split h cw plain

theorem text_measure_total_nl_rich (cw : Char → Nat) (plain : List Char) :
    ∃ m, textRichMeasureNL pyIsSpace pyIsSpace cw plain = .ok m :=
  text_measure_total_nl pyIsSpace pyIsSpace (fun _ h => h) cw plain

/-- the narrow guard still raises with the new line split (seeded change C14-f1) -/
theorem narrow_guard_measure_raises_nl :
    textRichMeasureNL asciiBlank pyIsSpace (fun _ => 1) [Char.ofNat 0xA0] = .error .valueError := by decide

example : textRichMeasureNL pyIsSpace pyIsSpace (fun _ => 1) ['a', 'b', ' ', 'c', '\n', 'd'] = .ok ⟨2, 4⟩ := by decide
/-- where the two differ: U+2028 ends a line for `splitlines()` only -/
example : textRichMeasureNL pyIsSpace pyIsSpace (fun _ => 1) ['a', Char.ofNat 0x2028, 'b'] = .ok ⟨1, 3⟩ ∧
    textRichMeasureE pyIsSpace pyIsSpace (fun _ => 1) ['a', Char.ofNat 0x2028, 'b'] = .ok ⟨1, 1⟩ := by decide

/-- a guard that strips only `" \t\n"` while `split()` keeps Python's white space: a cell holding a NO-BREAK SPACE raises
`ValueError` when it is measured (seeded change C14-f1) -/
theorem narrow_guard_measure_raises :
    textRichMeasureE asciiBlank pyIsSpace (fun _ => 1) [Char.ofNat 0xA0] = .error .valueError ∧
    textRichMeasureE asciiBlank pyIsSpace (fun _ => 1) [Char.ofNat 0x1C, Char.ofNat 0x3000] = .error .valueError := by decide

example : textRichMeasureE pyIsSpace pyIsSpace (fun _ => 1) [Char.ofNat 0xA0, Char.ofNat 0x3000] = .ok ⟨2, 2⟩ := by decide
example : textRichMeasureE pyIsSpace pyIsSpace (fun _ => 1) ['a', 'b', ' ', 'c', '\n', 'd'] = .ok ⟨2, 4⟩ := by decide
example : textRichMeasureE pyIsSpace pyIsSpace (fun _ => 1) [] = .ok ⟨0, 0⟩ := by decide

/-- a console with every code variant repaired (what /repo contains); unit cell widths keep the examples small -/
def exCfg : Layout.Cfg :=
  { cw := fun _ => 1, env := { consoleWidth := 10 },
    v := { zeroWidthChild := false, ruleRightRepeat := false, rstripCountsChars := false, columnsZeroCount := false },
    wv := Wrap.WVariant.repaired, fl := Flags.allRepaired, poison := [Frames.seg ['!']] }

example : Layout.CfgRepaired exCfg := ⟨⟨false, rfl⟩, rfl, rfl, rfl⟩
example : HighlighterOk (fun x => [⟨0, x.length, [7]⟩]) := by
  intro x sp hsp
  simp only [List.mem_singleton] at hsp
  subst hsp
  exact ⟨Int.le_refl 0, Int.natCast_nonneg _, Int.le_refl _⟩
example : (printPlainE exCfg {} ['a', 'b', ' ', 'c', '\t', 'd'] 2).toOption.map (·.map Layout.lineText)
    = some [['a', 'b', '\n'], ['c', ' ', '\n'], ['d', '\n']] := by decide

/-! ## Trees of built-in renderables (over the composition layer of C01/C09) -/

open Layout in
/-- **layout_total.**  For every tree of built-in renderables with valid options (`Valid`: every text consistent, every
`padding` an int or a tuple of 1, 2 or 4 ints — all other options are naturals and enumerations) and the repaired code
(`CfgRepaired`), no raising branch is taken anywhere in the tree (`AllOk`): at every node, for every `ConsoleOptions` in
force and EVERY width a parent may hand down — any natural number, however far below the structural minimum —
* a text (also the `Text` of a `Rule`, a table title / caption, the blank filler of `Columns`) wraps and renders;
* `Panel.__rich_console__` and `__rich_measure__` unpack their padding;
* `Table._calculate_column_widths` returns widths (no `AssertionError` of `ratio_distribute`: zero columns, zero-ratio
  columns, `width` / `min_width` / `expand` in any combination), for rendering and for measuring;
* `Columns` lays out at least one column (no `ZeroDivisionError`) and its inner grid's widths are computed;
Padding / Align / Constrain / Styled / group / Bar / ProgressBar / Tree have no raising branch (their model functions are
total).  `render` and `measure` of `Model/Layout.lean` are total functions: this theorem is what makes their poison
branches unreachable.  No bound on depth, number of children, rows, columns, or widths. -/
theorem layout_total (cfg : Layout.Cfg) (hc : CfgRepaired cfg) (r : R) (h : Valid r) : AllOk cfg r :=
  allOk cfg hc r h

open Layout in
/-- what `AllOk` says at a table node, spelled out: the scrutinee of `tableConsole` is `some _` at every width -/
theorem layout_total_table (cfg : Layout.Cfg) (hc : CfgRepaired cfg) (o : TableOpts) (cols : List Col) (h : Valid (.table o cols))
    (w : Nat) :
    ∃ ws, (toTable cfg o (colsR cfg cols)).calcWidths cfg.fl
      ((toTable cfg o (colsR cfg cols)).width.getD (w : Int) - (toTable cfg o (colsR cfg cols)).extraWidth) = some ws := by
  have := layout_total cfg hc _ h
  rw [AllOk] at this
  exact this.1.1 w

section
open Layout

def exText (s : String) : R := .text (Text.new Variant.repaired s.toList [0])

/-- a tree that raised three different ways in rich 9.10.0 as found: a table without columns asked to expand, a
zero-ratio column next to a ratio column with `min_width`, `Columns` with a `width` wider than the console -/
def exTree : R :=
  .panel { box := 0, padding := [0, 1] }
    (.group true [
      .table { expand := true, box := some 0 } [],
      .table { expand := true, minWidth := some 5, box := some 0, padding := ⟨0, 0, 0, 0⟩, padEdge := false }
        [.mk { ratio := some 1 } (exText "") (exText "") [], .mk { ratio := some 0 } (exText "") (exText "") []],
      .columns { lay := { width := some 30 } } [exText "ab", exText "c d"]])

example : Valid exTree := by
  have ht : ∀ s, Text.Inv (Text.new Variant.repaired s ([0] : S)) :=
    fun s => text_ctor_total s _ [] none none none _ _ (by intro sp h; cases h)
  simp only [exTree, exText, Valid, ValidL, ValidCols, ValidCol, OptInv, PadOk]
  repeat' apply And.intro
  all_goals first | exact ht _ | trivial | decide

/-- the same tree on the model of the code as found renders the poison at width 3 (a raising branch is taken) … -/
theorem old_layout_raises :
    (render { exCfg with fl := Flags.repaired, v := { exCfg.v with columnsZeroCount := true } }
      (.group true [.table { expand := true } [], .columns { lay := { width := some 30 } } [exText "ab"]]) {} 3)
      = [Frames.seg ['!'], Frames.seg ['!']] := by decide

/-- … and not with the repaired code -/
example : (render exCfg (.group true [.table { expand := true } [], .columns { lay := { width := some 30 } } [exText "ab"]]) {} 3).all
    (fun g => g.text != ['!']) = true := by decide

end

/-! ## `expand_tabs()` on a user `Text`: Rule / Panel titles, `with_indent_guides` (deepening 4, finding C14-T1)

`tabAssert = true` is rich as found (`assert tab_size is not None`, text.py:643) — C05's `Text.expandTabs`, the function C08's
title models call; `tabAssert = false` is pending_fixes/C14-expand-tabs-tab-size-none-assertion.diff (`if tab_size is None:
tab_size = 8`).  `TabOk t`: the text's `tab_size` option has a documented value — `None`, or a number ≥ 1. -/

section
open RichModel.Text

/-- **title_expand_tabs_total.**  With the repair, for every consistent `Text` — any content (tabs, line feeds), any spans,
every documented `tab_size` INCLUDING `None`, every other option — the title preparation of `Rule.__rich_console__`
(rule.py:76-79), `Panel._title` (panel.py:93-106, used by `__rich_console__` and `__rich_measure__`) and the
`copy(); expand_tabs()` of `Text.with_indent_guides` succeed and return a consistent text.  No bound on the length. -/
theorem title_expand_tabs_total {σ : Type} [BEq σ] (t : Text σ) (hi : Text.Inv t) (ht : TabOk t) :
    (∃ q, ruleTitlePrep false Variant.repaired t = .ok q ∧ Text.Inv q) ∧
    (∃ q, panelTitle false Variant.repaired t = .ok q ∧ Text.Inv q) ∧
    (∃ q, guidesPrep false Variant.repaired t = .ok q ∧ Text.Inv q) :=
  ⟨ruleTitlePrep_total t hi ht, panelTitle_total t hi ht, guidesPrep_total t hi ht⟩

/-- **expand_tabs_repair_conservative.**  The repair changes `expand_tabs(tab_size)` only where the code as found raised the
`AssertionError`: whenever a tab size is in force (the argument, else the text's attribute) both variants are the same
function — every existing theorem about `Text.expandTabs` with a tab size carries over. -/
theorem expand_tabs_repair_conservative {σ : Type} [BEq σ] (v : Variant) (t : Text σ) (ts : Option Nat) (n : Nat)
    (h : ts.orElse (fun _ => t.tabSize) = some n) :
    expandTabsV false v t ts = t.expandTabs v ts :=
  expandTabsV_agree v t ts n h

/-- a title `Text("a\tb", tab_size=None)`: every option documented -/
def exTabTitle : Text Nat := Text.new Variant.repaired ['a', '\t', 'b'] 0 [] none none none ['\n'] none

example : Text.Inv exTabTitle ∧ TabOk exTabTitle :=
  ⟨text_ctor_total _ _ [] none none none _ _ (by intro sp h; cases h), by intro n h; cases h⟩
example : (ruleTitlePrep false Variant.repaired exTabTitle).toOption.map (·.plain) = some (cl! "a       b") := by decide
example : (panelTitle false Variant.repaired exTabTitle).toOption.map (·.plain) = some (cl! " a       b ") := by decide
example : (none : Option Nat).orElse (fun _ => (Text.new Variant.repaired ['\t'] (0 : Nat)).tabSize) = some 8 := rfl

/-- C14-T1, the code as found: `Rule(Text("a\tb", tab_size=None))` raises `AssertionError` when rendered … -/
theorem old_rule_title_tab_assertion : ruleTitlePrep true Variant.repaired exTabTitle = .error .assertionError := by decide

/-- … so does `Panel("x", title=Text("a\tb", tab_size=None))`, rendered or measured … -/
theorem old_panel_title_tab_assertion : panelTitle true Variant.repaired exTabTitle = .error .assertionError := by decide

/-- … and `Text("a\tb", tab_size=None).with_indent_guides()`. -/
theorem old_indent_guides_tab_assertion : guidesPrep true Variant.repaired exTabTitle = .error .assertionError := by decide

/-- without a tab the code as found does not raise either (the assertion sits behind `if "\t" not in self.plain: return`) -/
example : (ruleTitlePrep true Variant.repaired (Text.new Variant.repaired ['a', '\n', 'b'] (0 : Nat) [] none none none ['\n'] none)).toOption.map (·.plain)
    = some (cl! "a b") := by decide

end

/-! ## Layout: what the frame / table models say -/

open Frames in
/-- `Panel`: with a valid `padding` option (an int, or a tuple of 1, 2 or 4 ints) neither `__rich_console__` nor
`__rich_measure__` raises, at any width, over any child oracle. -/
theorem panel_total (cw : Char → Nat) (env : Env) (v : Frames.Variant) (o : PanelOpts) (c : Child σ) (w mw : Int)
    (hp : o.padding.length = 1 ∨ o.padding.length = 2 ∨ o.padding.length = 4) :
    (∃ r, panelConsole cw env v o c w = .ok r) ∧ (∃ m, panelRichMeasure cw o c mw = .ok m) :=
  Layout.panel_ok cw env v o c w mw hp

example : ([0, 1] : List Nat).length = 1 ∨ ([0, 1] : List Nat).length = 2 ∨ ([0, 1] : List Nat).length = 4 := by decide

/-- NEW finding in rich 9.10.0 as found, repaired in /repo by fix 1d61bac (C07's model of `_calculate_column_widths`
reproduces it at `Flags.repaired`, which repairs only C07's first three defects and leaves `noColumnsAsserts` and
`flexNegative` on; `Flags.allRepaired` is the variant /repo contains now, see `C07.calc_widths_total`): a table without columns
that is asked to expand — `Table(expand=True)`, `Table(width=10)`, `Table(min_width=10)` — fails the
`assert total_ratio > 0` of `ratio_distribute`. -/
theorem old_table_no_columns_raises :
    ({ columns := [], expandFlag := true } : Table).calcWidths Flags.repaired 20 = none ∧
    ({ columns := [], width := some 10 } : Table).calcWidths Flags.repaired 10 = none ∧
    ({ columns := [], minWidth := some 10 } : Table).calcWidths Flags.repaired 20 = none := by decide

example : ({ columns := [] } : Table).calcWidths Flags.repaired 20 = some [] := by decide

/-- an empty cell (header `""`, no padding) -/
def emptyCell : Cell := { measure := fun _ => ⟨0, 0⟩, renderLines := fun _ => [] }

/-- NEW finding in rich 9.10.0 as found, repaired in /repo by fix ab98098: an expanding table with `min_width`, a `ratio=1` and a `ratio=0` column, rendered with no
room left for the columns (`max_width - extra_width = 0`: the width is spent on the borders):
`ratio_distribute(0, [1, 0], [1, 1])` hands the zero-ratio column the *remaining* −1, the widths sum to 0 and
the padding step's `ratio_distribute(…, widths)` fails its assertion. -/
def narrowTable : Table :=
  { columns := [{ header := emptyCell, footer := emptyCell, cells := [], ratio := some 1 },
                { header := emptyCell, footer := emptyCell, cells := [], ratio := some 0 }],
    expandFlag := true, minWidth := some 5, padding := (0, 0, 0, 0) }

theorem old_table_zero_ratio_narrow_raises : narrowTable.calcWidths Flags.repaired 0 = none := by decide

example : (narrowTable.calcWidths Flags.repaired 4).isSome = true := by decide

end RichModel.C14
