import RichModel.Lemmas.Totality
import RichModel.Model.Frames
import RichModel.Model.Table
/-!
# C14 — no input makes the pipeline fail with an undocumented error

Property theorems only.  `P : PyStr` are the character tables of the running Python (`str.isspace`,
`\d`/`int()` digit values, `str.lower`, the `int()` digit limit): **every theorem below holds for all
of them**, so nothing here depends on the generated Unicode tables; the driver's instance
(`Totality.Py.real`) is compared with the running interpreter by `./check C14`.

`vErr = false` is the repaired `Color.parse` (fix c34676b, the former
pending_fixes/C14-color-parse-rgb-valueerror.diff): it is what /repo contains now;
`vErr = true` is rich 9.10.0 as found, for which the `old_…` witnesses show the escape (F9) at every
entry point that reaches `Color.parse`.

Termination: every function of `Model/Totality.lean` is structurally recursive (accepted by Lean
without `partial` / fuel); so are C04's tokenizer and C20's lookup which it calls.

Not stated here (see the MANIFEST note of harness/props/c14.py).  Proved since in the files of the properties that
own the models: the decoder's totality as `C19.decode_total` (Props/C19.lean), the table solver's as
`C07.calc_widths_total` / `C07.table_render_total` / `C07.rich_measure_total` (Props/C07.lean, for
`noColumnsAsserts = flexNegative = false`; the two witnesses at the end of this file show where rich 9.10.0 as found
did raise, before fixes 1d61bac and ab98098), `Columns` as `C08.columns_repaired_never_raises` (Props/C08.lean).
Still without a theorem: `text_ctor_total` and `print_plain_total` (C05 / C02 models: `Model/Text.lean` and
`Model/ColorParse.lean` both declare `RichModel.Variant` and cannot be imported together).
-/
namespace RichModel.C14
open RichModel RichModel.Totality AsciiStr

/-! ## `Color.parse` -/

/-- **color_parse_total.**  For every string, `Color.parse` (repaired) returns a colour or raises
`ColorParseError` — nothing else. -/
theorem color_parse_total (P : PyStr) (s : List Char) :
    (∃ c, UColor.parse P false s = .ok c) ∨ UColor.parse P false s = .error .colorParseError := by
  cases h : UColor.parse P false s with
  | ok c => exact .inl ⟨c, rfl⟩
  | error e => rw [color_parse_err P s e h]; exact .inr rfl

/-- rich 9.10.0 as found (`vErr = true`, before fix c34676b): besides `ColorParseError` the only exception is the `ValueError` of `int()`. -/
theorem old_color_parse_errors (P : PyStr) (s : List Char) (e : Exc) (h : UColor.parse P true s = .error e) :
    e = .colorParseError ∨ e = .valueError :=
  parseNorm_err_old P _ e h

/-- F9: `Color.parse("rgb(1,,2)")` raises `ValueError` (`int("")`). -/
theorem old_color_parse_empty_component :
    UColor.parse PyStr.ascii true (cl! "rgb(1,,2)") = .error .valueError := by decide

/-- F9: `Color.parse("rgb(1 2,3,4)")` raises `ValueError` (`int("1 2")`). -/
theorem old_color_parse_inner_blank :
    UColor.parse PyStr.ascii true (cl! "rgb(1 2,3,4)") = .error .valueError := by decide

/-- F9 through `\s`: U+001C is white space for `RE_COLOR` and `strip()` but not for `int()`. -/
theorem old_color_parse_separator :
    UColor.parse PyStr.ascii true [' ', 'R', 'G', 'B', '(', Char.ofNat 28, '1', ',', '2', ',', '3', ')'] = .error .valueError := by decide

example : UColor.parse PyStr.ascii false (cl! "rgb(1,,2)") = .error .colorParseError := by decide
example : (UColor.parse PyStr.ascii false (cl! " RGB( 1 ,2,3)")).toOption.map (·.triplet) = some (some ⟨1, 2, 3⟩) := by decide
example : UColor.parse PyStr.ascii false (cl! "color(256)") = .error .colorParseError := by decide
example : (UColor.parse PyStr.ascii false (cl! "color(255)")).toOption.map (·.number) = some (some 255) := by decide

/-! ## `Style.parse`, `Style.normalize` -/

/-- **style_parse_total.**  For every string, `Style.parse` returns a style or raises
`StyleSyntaxError` ("link" / "on" / "not" as the last word, an unknown word, a bad colour, …). -/
theorem style_parse_total (P : PyStr) (s : List Char) :
    (∃ st, UStyle.parse P false s = .ok st) ∨ UStyle.parse P false s = .error .styleSyntaxError := by
  cases h : UStyle.parse P false s with
  | ok c => exact .inl ⟨c, rfl⟩
  | error e => rw [style_parse_err P s e h]; exact .inr rfl

/-- **normalize_total.**  `Style.normalize` never raises. -/
theorem normalize_total (P : PyStr) (s : List Char) : ∃ r, UStyle.normalize P false s = .ok r :=
  normalize_ok P s

theorem old_style_parse_value_error :
    UStyle.parse PyStr.ascii true (cl! "bold on rgb(1,,2)") = .error .valueError := by decide

theorem old_normalize_raises :
    UStyle.normalize PyStr.ascii true (cl! "rgb(1,,2)") = .error .valueError := by decide

example : UStyle.parse PyStr.ascii false (cl! "bold link") = .error .styleSyntaxError := by decide
example : UStyle.parse PyStr.ascii false (cl! "on") = .error .styleSyntaxError := by decide
example : UStyle.parse PyStr.ascii false (cl! "not") = .error .styleSyntaxError := by decide
example : UStyle.parse PyStr.ascii false (cl! "not Bold") = .error .styleSyntaxError := by decide
example : UStyle.parse PyStr.ascii false (cl! "bold on rgb(1,,2)") = .error .styleSyntaxError := by decide
example : UStyle.normalize PyStr.ascii false (cl! " B  ON Red ") = .ok (cl! "bold on red") := by decide
example : UStyle.normalize PyStr.ascii false (cl! " Bold X ") = .ok (cl! "bold x") := by decide

/-! ## `markup.render` -/

/-- **markup_render_total.**  For every string (emoji on or off), `markup.render` returns a text or
raises `MarkupError` (`[/]` on an empty stack, `[/x]` without an open `[x]`). -/
theorem markup_render_total (P : PyStr) (emoji : Option (List Char → Option (List Char))) (s : List Char) :
    (∃ r, markupRender P false emoji s = .ok r) ∨ markupRender P false emoji s = .error .markupError := by
  cases h : markupRender P false emoji s with
  | ok c => exact .inl ⟨c, rfl⟩
  | error e =>
    rw [renderE_err (markupCfg P emoji) (UStyle.normalize P false) (normalize_ok P) s e h]
    exact .inr rfl

/-- The render loop with a raising `normalize` is C04's `render` whenever `normalize` does not raise:
the theorems of `Props/C04.lean` are about the same function. -/
theorem markup_render_refines_c04 (cfg : Markup.Cfg) (norm : List Char → Except Exc (List Char))
    (hn : ∀ x, norm x = .ok (cfg.norm x)) (s : List Char) :
    renderE cfg norm s = liftM (Markup.render cfg s) :=
  renderE_eq_render cfg norm hn s

/-- F9 seen from markup: `markup.render("[rgb(1,,2)]x")` raises `ValueError`. -/
theorem old_markup_render_value_error :
    markupRender PyStr.ascii true none (cl! "[rgb(1,,2)]x") = .error .valueError := by decide

/-- … and from a closing tag (`normalize` is called outside the `try`). -/
theorem old_markup_close_value_error :
    markupRender PyStr.ascii true none (cl! "[b]x[/rgb(1,,2)]") = .error .valueError := by decide

example : markupRender PyStr.ascii false none (cl! "[/]") = .error .markupError := by decide
example : markupRender PyStr.ascii false none (cl! "[b]x[/i]") = .error .markupError := by decide
example : markupRender PyStr.ascii false none (cl! "[rgb(1,,2)]x[/rgb(1,,2)]") = .ok (cl! "x", [⟨0, 1, cl! "rgb(1,,2)"⟩]) := by decide
example : markupRender PyStr.ascii false none (cl! "[=x]a[link=]b") = .ok (cl! "[=x]ab", [⟨5, 6, cl! "link "⟩]) := by decide

/-! ## `Console.get_style` -/

/-- **get_style_total.**  For every name, every default (none, a `Style`, a string) and every theme
stack, `Console.get_style` returns a style or raises `MissingStyle`. -/
theorem get_style_total (P : PyStr) (st : Theme.Stack Style) (name : Theme.NS Style) (default : Option (Theme.NS Style)) :
    (∃ s, getStyle P false st name default = .ok s) ∨ getStyle P false st name default = .error .missingStyle := by
  cases h : getStyle P false st name default with
  | ok c => exact .inl ⟨c, rfl⟩
  | error e =>
    rw [getStyle_err (themeParse P false) (themeParse_no_other P) st name default e h]
    exact .inr rfl

theorem old_get_style_raises :
    getStyle PyStr.ascii true defaultStack (.str (cl! "x")) (some (.str (cl! "rgb(1,,2)"))) = .error .other := by decide

example : getStyle PyStr.ascii false defaultStack (.str (cl! "x")) (some (.str (cl! "rgb(1,,2)"))) = .error .missingStyle := by decide
example : (getStyle PyStr.ascii false defaultStack (.str (cl! "no such")) (some (.str (cl! "bold")))).toOption.isSome = true := by decide

/-! ## Layout: what the frame / table models say -/

open Frames in
/-- `Panel`: with a valid `padding` option (an int, or a tuple of 1, 2 or 4 ints) neither
`__rich_console__` nor `__rich_measure__` raises, at any width, over any child.  (The other frames —
Padding, Align, Constrain, Styled, Rule, Bar, ProgressBar, Tree — are total functions of the child oracle in
`Model/Frames*.lean`; `Columns` is `Props/C08.lean: columns_repaired_never_raises`.) -/
theorem panel_total (cw : Char → Nat) (env : Env) (v : Frames.Variant) (o : PanelOpts) (c : Child σ) (w mw : Int)
    (hp : o.padding.length = 1 ∨ o.padding.length = 2 ∨ o.padding.length = 4) :
    (∃ r, panelConsole cw env v o c w = .ok r) ∧ (∃ m, panelRichMeasure cw o c mw = .ok m) := by
  have hu : ∃ p, unpackPad o.padding = .ok p := by
    match h : o.padding, hp with
    | [a], _ => exact ⟨_, rfl⟩
    | [a, b], _ => exact ⟨_, rfl⟩
    | [a, b, c', d], _ => exact ⟨_, rfl⟩
    | [], hp => simp at hp
    | [_, _, _], hp => simp at hp
    | _ :: _ :: _ :: _ :: _ :: _, hp => simp at hp
  obtain ⟨p, hu⟩ := hu
  constructor
  · simp only [panelConsole, hu]
    repeat' split
    all_goals exact ⟨_, rfl⟩
  · simp only [panelRichMeasure, hu]
    repeat' split
    all_goals exact ⟨_, rfl⟩

example : ([0, 1] : List Nat).length = 1 ∨ ([0, 1] : List Nat).length = 2 ∨ ([0, 1] : List Nat).length = 4 := by decide

/-- NEW finding in rich 9.10.0 as found, repaired in /repo by fix 1d61bac (C07's model of `_calculate_column_widths`
reproduces it at `Flags.repaired`, which repairs only C07's first three defects and leaves `noColumnsAsserts` and
`flexNegative` on; `Flags.allRepaired` is the variant /repo contains now, see `C07.calc_widths_total`): a table without columns
that is asked to expand — `Table(expand=True)`, `Table(width=10)`, `Table(min_width=10)` — fails the
`assert total_ratio > 0` of `ratio_distribute`. -/
theorem old_table_no_columns_raises :
    ({ columns := [], expandFlag := true } : Table).calcWidths Flags.repaired 20 = none ∧
    ({ columns := [], width := some 10 } : Table).calcWidths Flags.repaired 10 = none ∧
    ({ columns := [], minWidth := some 10 } : Table).calcWidths Flags.repaired 20 = none := by decide

example : ({ columns := [] } : Table).calcWidths Flags.repaired 20 = some [] := by decide

/-- an empty cell (header `""`, no padding) -/
def emptyCell : Cell := { measure := fun _ => ⟨0, 0⟩, renderLines := fun _ => [] }

/-- NEW finding in rich 9.10.0 as found, repaired in /repo by fix ab98098: an expanding table with `min_width`, a `ratio=1` and a `ratio=0` column, rendered with no
room left for the columns (`max_width - extra_width = 0`: the width is spent on the borders):
`ratio_distribute(0, [1, 0], [1, 1])` hands the zero-ratio column the *remaining* −1, the widths sum to 0 and
the padding step's `ratio_distribute(…, widths)` fails its assertion. -/
def narrowTable : Table :=
  { columns := [{ header := emptyCell, footer := emptyCell, cells := [], ratio := some 1 },
                { header := emptyCell, footer := emptyCell, cells := [], ratio := some 0 }],
    expandFlag := true, minWidth := some 5, padding := (0, 0, 0, 0) }

theorem old_table_zero_ratio_narrow_raises : narrowTable.calcWidths Flags.repaired 0 = none := by decide

example : (narrowTable.calcWidths Flags.repaired 4).isSome = true := by decide

end RichModel.C14
