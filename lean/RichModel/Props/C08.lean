import RichModel.Lemmas.Cells
import RichModel.Lemmas.Segment
import RichModel.Lemmas.FramesRect
import RichModel.Lemmas.FramesBars
import RichModel.Lemmas.FramesTreeRect
import RichModel.Lemmas.FramesColumns
import RichModel.Lemmas.FramesStyled
import RichModel.Lemmas.FramesColumnsCells
import RichModel.Lemmas.FramesTitlePanel
import RichModel.Lemmas.FramesBarsStyled
import RichModel.Gen.CellWidths
import RichModel.Gen.Boxes
/-!
# C08 — framing renderables draw exact rectangles around intact content

Property theorems only (helper lemmas live in `Lemmas/Frames*.lean`).  `cw` is Rich's
`get_character_cell_size` over the table translated from `rich/_cell_widths.py` on this run; the box
table is translated from `rich/box.py` on this run.  Children are arbitrary: every theorem is stated
for every child oracle `c : Child σ` (what the real child measures / renders at each width), every
option value and every width, with the structural minimum as the only hypothesis.

"Lines" are what `Segment.split_lines` — the observer every consumer of a rendering uses — makes of
the frame's output.

52 theorems.  Besides the rectangles of `Model/Frames.lean` (text, segmentation, control flags) they cover the STYLED
layer of `Model/FramesStyled.lean` (`padding_style`, `panel_border_style`, `panel_content_pad_style`, `align_style`,
`vertical_center_lines`, `panel_title_own_width`, `rule_no_title_end`) and `Columns` down to the rendered grid table
(`columns_rendered_cells`, through `Model/Layout.lean` and `Model/Table.lean`).  Panel titles and Rule texts as real
`Text` objects (`Model/FramesTitle.lean`) have, since deepening round 4, theorems of their own: `rule_text_title_fills_width`,
`panel_text_title_own_width`, `panel_text_title_top_border` (proofs in `Lemmas/FramesTitleLine`, `FramesTitleRule`,
`FramesTitlePanel`); the styled `Bar` / `ProgressBar` of `Model/FramesBarsStyled.lean`: `progress_bar_styled_split`,
`progress_bar_styled_erases_to_text`, `progress_bar_finished_is_full`, `bar_styled_shape`, `bar_styled_erases_to_text`
(`panel_border_style` still takes the title as an arbitrary oracle).  All seven code-variant flags
(`Frames.Variant`, `SVariant`) are repaired in /repo (fixes a9def3a, 8879061, f5f2be9, f7ecf83, 63e086e, 0e1edf7,
a442cbd); the `old_…` theorems are the witnesses for rich 9.10.0 as found.

Documented non-claim.  Every function here is a pure function of the object's options as they are when it
is rendered.  One frame edits its own options while rendering: a `Rule` given a `Text` title works on that
`Text` in place (line feeds replaced, tabs expanded, truncated to the width), so a later, wider render of
the same `Rule` shows the truncated title.  Every render still fills its width exactly (`rule_exact`
applies to the title as it then is), which is all the statement asks; "a second render equals a fresh
object's render" is not claimed (the harness counts it as an observation only).
-/
namespace RichModel.C08
open RichModel RichModel.Frames

/-- `get_character_cell_size` at the generated table. -/
def cw : Char → Nat := charWidthT Gen.cellWidths

theorem cw_le_two (c : Char) : cw c ≤ 2 := by
  unfold cw charWidthT
  simp only
  split
  · omega
  · rw [codepointWidth_eq_linear _ (by decide +kernel : adjSorted Gen.cellWidths.toList = true)]
    exact linearScan_le_two _ (by decide +kernel : widthsSmall Gen.cellWidths.toList = true) _

theorem cw_space : cw ' ' = 1 := by decide

variable {σ : Type}

/-! ## Side conditions on the generated tables -/

def boxOk (b : Frames.Box) : Bool :=
  [b.topLeft, b.top, b.topRight, b.midLeft, b.midRight, b.bottomLeft, b.bottom, b.bottomRight].all
    (fun c => c != '\n' && cw c == 1)

/-- Every box of `rich/box.py` parses (8 lines of 4 characters) and its border characters are one cell
wide and are not line feeds. -/
theorem boxes_ok :
    (List.range Gen.boxes.length).all (fun i => match boxAt i with | some b => boxOk b | none => false) = true := by
  decide +kernel

/-- …hence whatever `Box.substitute` selects is such a box. -/
theorem boxAt_ok (i : Nat) (b : Frames.Box) (h : boxAt i = some b) : b.NoNl ∧ b.Narrow cw := by
  have hi : i < Gen.boxes.length := by
    unfold boxAt at h
    cases hb : Gen.boxes[i]? with
    | none => simp [hb] at h
    | some x => exact (List.getElem?_eq_some_iff.mp hb).1
  have := List.all_eq_true.mp boxes_ok i (List.mem_range.mpr hi)
  simp only [h] at this
  simp only [boxOk, List.all_cons, List.all_nil, Bool.and_true, Bool.and_eq_true, bne_iff_ne, ne_eq, beq_iff_eq] at this
  obtain ⟨⟨a1, a2⟩, ⟨b1, b2⟩, ⟨c1, c2⟩, ⟨d1, d2⟩, ⟨e1, e2⟩, ⟨f1, f2⟩, ⟨g1, g2⟩, ⟨h1, h2⟩⟩ := this
  exact ⟨⟨a1, b1, c1, d1, e1, f1, g1, h1⟩, ⟨a2, b2, c2, d2, e2, f2, g2, h2⟩⟩

/-- The tree guide strings are four cells wide (ASCII and the three Unicode sets). -/
theorem guides_ok : GuidesOk cw := by
  unfold GuidesOk
  decide +kernel

/-- The characters of bars and progress bars are one cell wide. -/
theorem bar_chars_narrow : ∀ c ∈ barChars ++ ['-', '━', '╸', '╺'], cw c = 1 := by decide +kernel

/-! ## Padding -/

/-- **padding_rect.**  For every child, padding tuple, `expand` flag and width with room for the
padding (`left + right ≤ width`): the lines drawn are `top` blank lines, then — in order — the child's
own lines as rendered alone at the inner width, each between exactly `left` and `right` blank cells
and followed by blanks only up to the inner width, then `bottom` blank lines; every line is exactly
`width` cells wide, and `width` is the full available width when expanding. -/
theorem padding_rect (v : Frames.Variant) (p : PadDims) (expand : Bool) (c : Child σ) (w : Int)
    (hfit : (p.left : Int) + p.right ≤ paddingWidth v p expand c w) :
    splitLines (paddingConsole cw v p expand c w) = paddingLines cw v p expand c w ∧
    (∀ l ∈ paddingLines cw v p expand c w, lineLength cw l = (paddingWidth v p expand c w).toNat) ∧
    (expand = true → paddingWidth v p expand c w = w) ∧
    (paddingWidth v p expand c w ≤ w) ∧
    (∀ l ∈ c.linesAt cw (paddingChildWidth v p expand c w) false,
      stream (adjustLineLength cw l (paddingChildWidth v p expand c w).toNat none) =
        stream l ++ List.replicate ((paddingChildWidth v p expand c w).toNat - lineLength cw l) (' ', none, false)) := by
  refine ⟨paddingConsole_lines cw cw_space cw_le_two v p expand c w,
    paddingLines_width cw cw_space cw_le_two v p expand c w hfit, ?_, ?_, ?_⟩
  · intro h; simp [paddingWidth, h]
  · unfold paddingWidth; split <;> omega
  · intro l hl
    exact adjust_stream_of_le cw l _ (renderLines_le cw cw_space cw_le_two _ _ false l hl)

/-- Shape of the padding lines: exactly `top` + (child lines) + `bottom` of them. -/
theorem padding_line_count (v : Frames.Variant) (p : PadDims) (expand : Bool) (c : Child σ) (w : Int) :
    (paddingLines cw v p expand c w).length =
      p.top + (c.linesAt cw (paddingChildWidth v p expand c w) false).length + p.bottom := by
  simp [paddingLines, Nat.add_assoc]

/-- `Padding.__rich_measure__` mirrors the render arithmetic: rendering at the measured maximum uses
no more than that many cells (for a child whose own measurement is sound: `0 ≤ maximum ≤ available`). -/
theorem padding_measure_covers_render (p : PadDims) (c : Child σ) (w : Int)
    (hroom : (p.left : Int) + p.right + 1 ≤ w)
    (hc : 0 ≤ (c.measureAt (w - p.left - p.right)).maximum ∧ (c.measureAt (w - p.left - p.right)).maximum ≤ w - p.left - p.right) :
    (paddingRichMeasure p c w).maximum = (c.measureAt (w - p.left - p.right)).maximum + p.left + p.right ∧
    (paddingRichMeasure p c w).maximum ≤ w := by
  unfold paddingRichMeasure
  have h1 : ¬ (w - ((p.left : Int) + p.right) < 1) := by omega
  have h2 : max 0 (w - ((p.left : Int) + p.right)) = w - p.left - p.right := by omega
  simp only [h1, if_false, h2, Measurement.withMaximum]
  omega

/-! ## Panel -/

/-- **panel_rect.**  For every child, box of `rich/box.py`, title, title alignment, `expand`, `width`,
padding and available width `w`, whenever the panel is at least 2 cells wide (4 with a title) and — for
the `Text.rstrip_end` of rich 9.10.0 as found only (before fix f5f2be9), which counts characters — the title has no more characters than the
console is wide: the lines drawn are the top border, then — unchanged and
in order — the lines `Console.render_lines` gives for the (padded) child at the inner width, each
between the two side border characters, then the bottom border; all of them are exactly
`inner width + 2` cells wide. -/
theorem panel_rect (env : Env) (v : Frames.Variant) (o : PanelOpts) (c : Child σ) (w : Int) (p : PadDims) (box : Frames.Box)
    (out : List (Segment σ)) (hp : unpackPad o.padding = .ok p)
    (hb : boxAt (substituteBox env (o.safeBox.getD env.safeBox) o.box) = some box)
    (h : panelConsole cw env v o c w = .ok (some out))
    (hmin : 0 ≤ panelChildWidth cw v o (panelInner cw v p c) w)
    (hmint : o.title ≠ [] → 2 ≤ panelChildWidth cw v o (panelInner cw v p c) w)
    (htl : v.rstripCountsChars = true → ∀ t, panelTitle o.title = some t →
      ((textAlign cw t o.titleAlign (panelChildWidth cw v o (panelInner cw v p c) w - 2) box.top).length : Int) ≤ env.consoleWidth) :
    let cwid := panelChildWidth cw v o (panelInner cw v p c) w
    ∃ top, splitLines out = [top]
        ++ ((panelInner cw v p c).linesAt cw cwid true).map (fun l => [seg [box.midLeft]] ++ l ++ [seg [box.midRight]])
        ++ [[seg (boxBottom box cwid)]] ∧
      (∀ l ∈ splitLines out, lineLength cw l = (cwid + 2).toNat) ∧
      (∀ l ∈ (panelInner cw v p c).linesAt cw cwid true, lineLength cw l = cwid.toNat) := by
  dsimp only
  obtain ⟨hnn, hnar⟩ := boxAt_ok _ box hb
  obtain ⟨top, htop, hlines⟩ := panelConsole_lines cw cw_space cw_le_two env v o c w p box out hp hb hnn h
  obtain ⟨n1, n2, n3, n4, n5, n6, n7, n8⟩ := hnar
  refine ⟨top, hlines, ?_, renderLines_exact cw cw_space cw_le_two _ _⟩
  generalize panelChildWidth cw v o (panelInner cw v p c) w = cwid at hmin hmint htl htop hlines ⊢
  intro l hl
  rw [hlines] at hl
  simp only [List.mem_append, List.mem_singleton, List.mem_map] at hl
  rcases hl with (rfl | ⟨l0, hl0, rfl⟩) | rfl
  · -- the top border
    unfold panelTopLine at htop
    cases hT : panelTitle o.title with
    | none =>
      simp only [hT, Option.some.injEq] at htop
      subst htop
      rw [show boxTop box cwid = [box.topLeft] ++ rep cwid box.top ++ [box.topRight] from rfl,
        lineLength_boxRow cw _ _ _ n1 n2 n3]
      omega
    | some t =>
      simp only [hT] at htop
      have htne : o.title ≠ [] := by
        intro he; simp [panelTitle, he] at hT
      have h2' := hmint htne
      cases hts : textConsoleSimple (σ := σ) cw v (textAlign cw t o.titleAlign (cwid - 2) box.top) [] (env.consoleWidth : Int) with
      | none => simp [hts] at htop
      | some ts =>
        simp only [hts, Option.some.injEq] at htop
        subst htop
        rw [lineLength_append, lineLength_append, textConsoleSimple_of_fits cw v _ _ ts hts (fun hv => htl hv t hT),
          textAlign_cellLen cw cw_space cw_le_two t _ _ _ n2 (by omega)]
        simp only [lineLength_seg, cellLen_cons, cellLen_nil, n1, n2, n3]
        omega
  · rw [lineLength_append, lineLength_append, renderLines_exact cw cw_space cw_le_two _ _ l0 hl0]
    simp only [lineLength_seg, cellLen_cons, cellLen_nil, n4, n5]
    omega
  · rw [show boxBottom box cwid = [box.bottomLeft] ++ rep cwid box.bottom ++ [box.bottomRight] from rfl,
      lineLength_boxRow cw _ _ _ n6 n7 n8]
    omega

/-- An expanding panel without a `width` option fills the available width exactly (`w ≥ 2`); with a
`width` option and no title it is exactly `min(w, width)` wide. -/
theorem panel_expand_width (v : Frames.Variant) (o : PanelOpts) (inner : Child σ) (w : Int) (he : o.expand = true) :
    (o.width = none → panelChildWidth cw v o inner w + 2 = w) ∧
    (∀ pw, o.width = some pw → o.title = [] → panelChildWidth cw v o inner w + 2 = min w pw) := by
  unfold panelChildWidth
  constructor
  · intro hw
    simp only [hw, he, if_true]
    cases panelTitle o.title <;> simp only <;> omega
  · intro pw hw ht
    simp only [hw, he, if_true, panelTitle, ht, List.isEmpty_nil]
    omega

/-- The panel never exceeds the available width (title or not), for a child whose measurement is sound. -/
theorem panel_width_le (v : Frames.Variant) (o : PanelOpts) (inner : Child σ) (w : Int) (hw : 3 ≤ w)
    (hm : ∀ k : Int, (inner.measureAt k).maximum ≤ max k 0) :
    panelChildWidth cw v o inner w + 2 ≤ w := by
  unfold panelChildWidth
  have hfit : ∀ k : Int, fitWidth v (inner.measureAt k).maximum ≤ max k 1 := by
    intro k
    have := hm k
    unfold fitWidth; split <;> omega
  cases panelTitle o.title with
  | some t => simp only; omega
  | none =>
    simp only
    cases ho : o.width with
    | none =>
      simp only
      split
      · omega
      · have := hfit (w - 2); omega
    | some pw =>
      simp only
      split
      · omega
      · have := hfit (min w pw - 2); omega

/-! ## Align, Constrain, Styled -/

/-- **align_rect.**  For every child, alignment, `pad` flag, `width` option and available width: the
lines drawn are — in order — the child's own lines (as it renders alone at the inner width), each
brought to their common width with trailing blanks only, between the left and right pads; the pads add
exactly `alignPadCells` cells, so that with `pad=True` (or right alignment) every line is exactly the
available width whenever the child's lines fit it. -/
theorem align_rect (env : Env) (v : Frames.Variant) (o : AlignOpts) (c : Child σ) (w : Int) :
    let L := alignChildLines env v o c w
    let sw := shapeWidth cw L
    splitLines (alignConsole cw env v o c w) = alignLines cw env v o c w ∧
    (alignLines cw env v o c w).length = L.length ∧
    (∀ l ∈ alignLines cw env v o c w, (lineLength cw l : Int) = sw + alignPadCells o (w - sw)) ∧
    ((o.pad = true ∨ o.align = .right) → (sw : Int) ≤ w →
      ∀ l ∈ alignLines cw env v o c w, (lineLength cw l : Int) = w) ∧
    (∀ l ∈ L, stream (adjustLineLength cw l sw none) = stream l ++ List.replicate (sw - lineLength cw l) (' ', none, false)) := by
  dsimp only
  have hw : ∀ l ∈ alignLines cw env v o c w, (lineLength cw l : Int) =
      shapeWidth cw (alignChildLines env v o c w) + alignPadCells o (w - shapeWidth cw (alignChildLines env v o c w)) := by
    intro l hl
    simp only [alignLines, List.mem_map] at hl
    obtain ⟨l1, ⟨l0, _, rfl⟩, rfl⟩ := hl
    rw [lineLength_append, lineLength_append, adjust_exact cw cw_space cw_le_two l0 _ none true (Or.inl rfl)]
    have := lineLength_alignPads (σ := σ) cw cw_space o (w - shapeWidth cw (alignChildLines env v o c w))
    omega
  refine ⟨alignConsole_lines cw cw_space cw_le_two env v o c w, by simp [alignLines], hw, ?_, ?_⟩
  · intro hpad hle l hl
    rw [hw l hl]
    unfold alignPadCells
    by_cases he : w - (shapeWidth cw (alignChildLines env v o c w) : Int) ≤ 0
    · simp only [he, if_true]; omega
    · simp only [he, if_false]
      rcases hpad with hp | hr
      · cases o.align <;> simp only [hp, if_true] <;> omega
      · simp only [hr]; omega
  · intro l hl
    exact adjust_stream_of_le cw l _ (le_shapeWidth cw _ l hl)

/-- `Constrain` renders the child at `min(width, available)` and nothing else; `Styled` leaves the
child's text, segmentation and control flags alone. -/
theorem constrain_is_child_at_min (width : Option Int) (c : Child σ) (w : Int) :
    constrainConsole width c w = c.renderAt (match width with | none => w | some k => min k w) := by
  cases width <;> rfl

theorem styled_is_child (c : Child σ) (w : Int) : styledConsole c w = c.renderAt w := rfl

/-! ### F25: a child whose measured maximum is 0 -/

/-- The repaired non-expanding frames never ask a child to render in no space when there is room. -/
theorem repaired_fit_width_pos (m : Int) : 1 ≤ fitWidth { zeroWidthChild := false } m := by
  unfold fitWidth; simp; omega

/-- Repaired `Align`: for a child that fits (`measured maximum ≤ w`) and renders the same lines at every
width from its measured maximum (at least 1) up to the available width, the lines shown are the lines
the child renders alone at the full available width — none is lost. -/
theorem align_shows_child_lines (env : Env) (o : AlignOpts) (c : Child σ) (w : Int) (hw : 1 ≤ w) (ho : o.width = none)
    (hm : (c.measureAt env.consoleWidth).maximum ≤ w)
    (hst : ∀ k : Int, 1 ≤ k → (c.measureAt env.consoleWidth).maximum ≤ k → k ≤ w →
      splitLines (c.renderAt k) = splitLines (c.renderAt w)) :
    alignChildLines env { zeroWidthChild := false } o c w = splitLines (c.renderAt w) := by
  unfold alignChildLines alignInnerWidth
  simp only [ho]
  apply hst <;> (unfold fitWidth; simp only [Bool.false_eq_true, if_false]; omega)

/-- Repaired `Padding(expand=False)`: same statement for the lines inside the padding. -/
theorem padding_fit_shows_child_lines (p : PadDims) (c : Child σ) (w : Int)
    (hroom : (p.left : Int) + p.right + 1 ≤ w) (hm : (c.measureAt w).maximum + p.left + p.right ≤ w)
    (hst : ∀ k : Int, 1 ≤ k → (c.measureAt w).maximum ≤ k → k ≤ w - p.left - p.right →
      c.linesAt cw k false = c.linesAt cw (w - p.left - p.right) false) :
    c.linesAt cw (paddingChildWidth { zeroWidthChild := false } p false c w) false
      = c.linesAt cw (w - p.left - p.right) false := by
  unfold paddingChildWidth paddingWidth
  simp only [Bool.false_eq_true, if_false]
  apply hst <;> (unfold fitWidth; simp only [Bool.false_eq_true, if_false]; omega)

/-- Repaired `Panel(expand=False)` without title or `width`: the body rows are the child's rows. -/
theorem panel_fit_shows_child_lines (o : PanelOpts) (inner : Child σ) (w : Int) (hw : 3 ≤ w)
    (he : o.expand = false) (hwd : o.width = none) (ht : o.title = [])
    (hm : (inner.measureAt (w - 2)).maximum ≤ w - 2)
    (hst : ∀ k : Int, 1 ≤ k → (inner.measureAt (w - 2)).maximum ≤ k → k ≤ w - 2 →
      (inner.linesAt cw k true).length = (inner.linesAt cw (w - 2) true).length) :
    (inner.linesAt cw (panelChildWidth cw { zeroWidthChild := false } o inner w) true).length
      = (inner.linesAt cw (w - 2) true).length := by
  unfold panelChildWidth
  simp only [hwd, he, Bool.false_eq_true, if_false, panelTitle, ht, List.isEmpty_nil, if_true]
  apply hst <;> (unfold fitWidth; simp only [Bool.false_eq_true, if_false]; omega)

/-- The child of F25: `Text("")` — measured `(0, 0)`, renders one empty line at every width ≥ 1. -/
def blankChild : Child Nat := { measure := fun _ => ⟨0, 0⟩, render := fun _ => [nl] }

/-- it meets the stability hypotheses of the three theorems above -/
example : ∀ k : Int, 1 ≤ k → k ≤ 10 → splitLines (blankChild.renderAt k) = splitLines (blankChild.renderAt 10) := by
  intro k h1 _
  simp [Child.renderAt, blankChild, show ¬ k < 1 by omega]

/-- F25, rich 9.10.0 as found (before fix a9def3a): `Align` shows NO line for a child that renders one blank line on its own. -/
theorem old_align_drops_child_line :
    alignChildLines { consoleWidth := 10 } { zeroWidthChild := true } { align := .center } blankChild 10 = [] ∧
    splitLines (blankChild.renderAt 10) = [[]] ∧
    alignConsole cw { consoleWidth := 10 } { zeroWidthChild := true } { align := .center } blankChild 10 = [] := by
  decide

/-- F25, rich 9.10.0 as found (before fix a9def3a): `Padding(expand=False)` — the child's line is gone (only nothing is drawn). -/
theorem old_padding_fit_drops_child_line :
    paddingConsole cw { zeroWidthChild := true } ⟨0, 0, 0, 2⟩ false blankChild 10 = [] ∧
    blankChild.linesAt cw 8 false = [[]] := by
  decide

/-- F25, rich 9.10.0 as found (before fix a9def3a): `Panel.fit(Text(""), padding=0)` has no body row. -/
theorem old_panel_fit_has_no_body_row :
    (blankChild.linesAt cw (panelChildWidth cw { zeroWidthChild := true } { box := 0, expand := false, padding := [0] } blankChild 10) true).length = 0 ∧
    (blankChild.linesAt cw 8 true).length = 1 := by
  decide

/-- …and the repaired variant shows it. -/
example : splitLines (alignConsole cw { consoleWidth := 10 } { zeroWidthChild := false } { align := .center } blankChild 10)
    = [[seg (rep 5 ' '), seg (rep 5 ' ')]] := by decide

/-! ## Styles of the cells a frame adds (styled layer, `Model/FramesStyled.lean`) -/

/-- **padding_style.**  For every child, style `s`, padding and width with room for the padding: the lines of
`Padding(child, pad, style=s)` are blank lines made of ONE segment of style `s`, and body lines made of the
left pad (style `s`), the child's line, the right pad (style `s`); the child's line is what
`render_lines(style=s)` gives — every rendered segment restyled to `s + its own style` — followed by blanks
that all carry `s`; every line is exactly `width` cells. -/
theorem padding_style (A : SOps σ) (sv : SVariant) (s : σ) (p : PadDims) (expand : Bool) (c : Child σ) (w : Int)
    (hfit : (p.left : Int) + p.right ≤ paddingWidth sv.base p expand c w) :
    splitLines (paddingConsoleS cw A sv s p expand c w) = paddingLinesS cw A sv s p expand c w ∧
    (∀ l ∈ paddingLinesS cw A sv s p expand c w, lineLength cw l = (paddingWidth sv.base p expand c w).toNat) ∧
    (∀ g ∈ (blankLineS (some s) (paddingWidth sv.base p expand c w) ++ padLeftSegsS s p ++ padRightSegsS s p : List (Segment σ)),
      g.style = some s ∧ ∀ ch ∈ g.text, ch = ' ') ∧
    (∀ l ∈ c.linesAtS cw A sv (paddingChildWidth sv.base p expand c w) (some s) false,
      stream (adjustLineLength cw l (paddingChildWidth sv.base p expand c w).toNat (some s)) =
        stream l ++ List.replicate ((paddingChildWidth sv.base p expand c w).toNat - lineLength cw l) (' ', some s, false)) ∧
    (∀ k, ∀ g ∈ Frames.applyStyle A (some s) (c.renderAt k), ∃ g0 ∈ c.renderAt k, g.text = g0.text ∧ g.control = g0.control ∧
      g.style = (if g0.control then none else some (A.addO s g0.style))) := by
  refine ⟨paddingConsoleS_lines cw cw_space cw_le_two A sv s p expand c w,
    paddingLinesS_width cw cw_space cw_le_two A sv s p expand c w hfit, ?_, ?_, fun k g hg => applyStyle_mem A s _ g hg⟩
  · intro g hg
    have hrep : ∀ n : Int, ∀ ch ∈ rep n ' ', ch = ' ' := by
      intro n ch hch; simp only [rep, List.mem_replicate] at hch; exact hch.2
    simp only [List.mem_append] at hg
    rcases hg with (hg | hg) | hg
    · unfold blankLineS at hg; split at hg
      · simp at hg
      · simp only [List.mem_singleton] at hg; subst hg; exact ⟨rfl, hrep _⟩
    · unfold padLeftSegsS at hg; split at hg
      · simp only [List.mem_singleton] at hg; subst hg; exact ⟨rfl, hrep _⟩
      · simp at hg
    · unfold padRightSegsS at hg; split at hg
      · simp only [List.mem_singleton] at hg; subst hg; exact ⟨rfl, hrep _⟩
      · simp at hg
  · intro l hl
    exact adjust_pad_stream cw l _ (some s) (renderLinesS_le cw cw_space cw_le_two A sv _ _ _ false l hl)

/-- **panel_border_style.**  For every child, box, styles `s` (panel) and `b` (border), title oracle, padding and
width: the top border, the two side cells of every body row and the bottom border are segments of style
`s + b`; between the side cells stands, unchanged, what `render_lines(style=s)` gives for the (padded) child. -/
theorem panel_border_style (A : SOps σ) (env : Env) (sv : SVariant) (o : PanelOpts) (s b : σ) (title : Option (TitleO σ))
    (c : Child σ) (w : Int) (p : PadDims) (box : Frames.Box) (out : List (Segment σ)) (hp : unpackPad o.padding = .ok p)
    (hb : boxAt (substituteBox env (o.safeBox.getD env.safeBox) o.box) = some box)
    (ht : ∀ t, title = some t → t.NlFreeO)
    (h : panelConsoleS cw A env sv o s b title c w = .ok (some out)) :
    let cwid := panelChildWidthS sv o title (panelInnerS cw A sv p c) w
    ∃ top, panelTopLineS A env sv s b title box cwid = some top ∧
      splitLines out = [top]
        ++ ((panelInnerS cw A sv p c).linesAtS cw A sv cwid (some s) true).map
            (fun l => [segS (some (A.add s b)) [box.midLeft]] ++ l ++ [segS (some (A.add s b)) [box.midRight]])
        ++ [[segS (some (A.add s b)) (boxBottom box cwid)]] ∧
      (∀ l ∈ (panelInnerS cw A sv p c).linesAtS cw A sv cwid (some s) true, lineLength cw l = cwid.toNat) ∧
      (title = none → top = [segS (some (A.add s b)) (boxTop box cwid)]) :=by
  dsimp only
  obtain ⟨hnn, _⟩ := boxAt_ok _ box hb
  obtain ⟨top, htop, hlines⟩ := panelConsoleS_lines cw cw_space cw_le_two A env sv o s b title c w p box out hp hb hnn ht h
  refine ⟨top, htop, hlines, renderLinesS_exact cw cw_space cw_le_two A sv _ _ _, ?_⟩
  intro hnone
  subst hnone
  simp only [panelTopLineS, Option.some.injEq] at htop
  exact htop.symm

/-- **panel_content_style** (repaired `render_lines`, fix 63e086e): the blanks that complete a short child line inside a
panel carry the panel style `s`, like every other content cell. -/
theorem panel_content_pad_style (A : SOps σ) (z t r : Bool) (bv : Frames.Variant) (inner : Child σ) (s : σ) (cwid : Int) :
    inner.linesAtS cw A { base := bv, linesPadUnstyled := false, titleAtConsoleWidth := t, ruleNoTitleEnd := r } cwid (some s) true =
      (splitLinesTagged (Frames.applyStyle A (some s) (inner.renderAt cwid))).map (fun q => adjustLineLength cw q.1 cwid.toNat (some s) true) := by
  have := z
  unfold Child.linesAtS
  rw [renderLinesS_pad_style]
  rfl

/-- a child rendering the one line `hi` (style 7) -/
def hiChild : Child Nat := { measure := fun _ => ⟨2, 2⟩, render := fun _ => [{ text := ['h', 'i'], style := some 7, control := false }, nl] }
def natOps : SOps Nat := { add := fun a b => a * 100 + b, null := 0 }

/-- Finding of the deepening round, rich 9.10.0 as found (before fix 63e086e): inside `Panel("hi", style=5, padding=0)` the blanks after `hi` have style `None`
(not the panel style): `render_lines` does not hand its `style` to `split_and_crop_lines`. -/
theorem old_panel_content_pad_unstyled :
    hiChild.linesAtS cw natOps { linesPadUnstyled := true } 4 (some 5) true
      = [[{ text := ['h', 'i'], style := some 507, control := false }, { text := [' ', ' '], style := none, control := false }]] ∧
    hiChild.linesAtS cw natOps { linesPadUnstyled := false } 4 (some 5) true
      = [[{ text := ['h', 'i'], style := some 507, control := false }, { text := [' ', ' '], style := some 5, control := false }]] := by
  decide

/-- **align_style.**  The lines of `Align(child, …, style=st)`: the pads are segments of style `st`, the child's own
lines (each brought to the common width with unstyled blanks) stand between them, and the whole line is then
restyled by `apply_style(st)` (`st + segment style`; nothing happens for `st = None`). -/
theorem align_style (A : SOps σ) (env : Env) (sv : SVariant) (o : AlignOpts) (style : Option σ) (c : Child σ) (w : Int) :
    splitLines (alignConsoleS cw A env sv o style c w) = alignLinesS cw A env sv o style c w :=
  alignConsoleS_lines cw cw_space cw_le_two A env sv o style c w

/-- **vertical_center_rect.**  `VerticalCenter`: `⌊(height − n)/2⌋` blank lines, the child's `n` own lines
(unpadded), the remaining blank lines; the blank lines are one segment of the requested style, as wide as the
child's widest line. -/
theorem vertical_center_lines (height : Int) (style : Option σ) (c : Child σ) (w : Int) :
    splitLines (verticalCenterConsoleS cw height style c w) = verticalCenterLinesS cw height style c w ∧
    ((c.linesAt cw w false).length ≤ height →
      ((verticalCenterLinesS cw height style c w).length : Int) = height) := by
  refine ⟨verticalCenterConsoleS_lines cw cw_space cw_le_two height style c w, ?_⟩
  intro hle
  simp only [verticalCenterLinesS, List.length_append, List.length_replicate]
  omega

/-! ### The two quirks of the first round, decided -/

/-- Repaired `Panel` (title rendered at the width it was aligned to: fix 0e1edf7; `rstrip_end` counting cells: fix f5f2be9): for a simple
title the title part of the top border is exactly `cwid − 2` cells — the top border is as wide as the rest of
the panel — at EVERY available width, wider than the console or not.  (`cwid` = child width, the panel is
`cwid + 2` wide; `hsimple`: the aligned title stays in the simple domain, i.e. the fill character is simple.) -/
theorem panel_title_own_width (v : Frames.Variant) (title : List Char) (a : AlignM) (t : TitleO σ) (st : σ)
    (cwid : Int) (ch : Char) (hch : cw ch = 1) (h2 : 2 ≤ cwid) (hv : v.rstripCountsChars = false)
    (ht : simpleTitle (σ := σ) cw v title a = some t)
    (hsimple : ∀ t0, panelTitle title = some t0 → (textAlign cw t0 a (cwid - 2) ch).all simpleChar = true) :
    ∃ ts, t.render st (cwid - 2) ch (cwid - 2) = some ts ∧ lineLength cw ts = (cwid - 2).toNat := by
  unfold simpleTitle at ht
  cases hT : panelTitle title with
  | none => simp [hT] at ht
  | some t0 =>
    simp only [hT, Option.some.injEq] at ht
    subst ht
    simp only
    by_cases hrw : cwid - 2 < 1
    · refine ⟨[], by simp [hrw], ?_⟩
      have : (cwid - 2).toNat = 0 := by omega
      rw [this]; rfl
    · simp only [hrw, if_false]
      have hlen := textAlign_cellLen cw cw_space cw_le_two t0 a (cwid - 2) ch hch (by omega)
      have hcond : ((textAlign cw t0 a (cwid - 2) ch).all simpleChar &&
          decide ((cellLen cw (textAlign cw t0 a (cwid - 2) ch) : Int) ≤ cwid - 2)) = true := by
        rw [hsimple t0 hT, hlen]; simp; omega
      cases hx : textConsoleSimple (σ := σ) cw v (textAlign cw t0 a (cwid - 2) ch) [] (cwid - 2) with
      | none =>
        unfold textConsoleSimple at hx
        rw [if_pos hcond] at hx
        cases hx
      | some ts0 =>
        refine ⟨_, rfl, ?_⟩
        have h1 := textConsoleSimple_of_fits cw v _ _ ts0 hx (by intro h; rw [hv] at h; cases h)
        have hmap : ∀ l : List (Segment σ), lineLength cw (l.map (fun g => { g with style := some st })) = lineLength cw l := by
          intro l
          induction l with
          | nil => rfl
          | cons x xs ih => simp only [List.map_cons, lineLength_cons, ih]; rfl
        rw [hmap, h1, hlen]

/-- Finding of the deepening round, rich 9.10.0 as found (before fix 0e1edf7): a panel rendered with options wider than the console gets its title cropped to
`console.width` — the title part is 10 cells where the border needs 26 (`Panel("x", title="a long title here")`
on a 10-column console rendered at width 30). -/
theorem old_panel_title_cropped_at_console_width :
    ((simpleTitle (σ := Nat) cw {} "a long title here".toList .center).bind
      (fun t => t.render 0 26 '─' 10)) = none ∧
    ((simpleTitle (σ := Nat) cw { rstripCountsChars := false } "a long title here".toList .center).bind
      (fun t => (t.render 0 26 '─' 26).map (lineLength cw))) = some 26 := by
  decide +kernel

/-- Repaired `Rule` without a title honours its `end` option (fix a442cbd); rich 9.10.0 as found ignores it (second conjunct:
the witness for `ruleNoTitleEnd`). -/
theorem rule_no_title_end (env : Env) (bv : Frames.Variant) (l t : Bool) (o : RuleOpts) (w : Int) (h : o.title = []) :
    (ruleTextS cw env { base := bv, linesPadUnstyled := l, titleAtConsoleWidth := t, ruleNoTitleEnd := false } o w).2 = o.endS ∧
    (ruleTextS cw env { base := bv, linesPadUnstyled := l, titleAtConsoleWidth := t, ruleNoTitleEnd := true } o w).2 = ['\n'] := by
  unfold ruleTextS ruleText
  simp [h]

/-! ## Rule -/

/-- **rule_exact.**  For every title, `characters` (any length, wide characters included), alignment,
`end` and width `w ≥ 1` in the modelled domain: the rule is one line of exactly `w` cells followed by
`end`.  With the repaired `Text.rstrip_end` (cell count; fix f5f2be9, what /repo contains now) this holds unconditionally — zero-width
characters in the title included; with the as-found one (character count) it needs the text to have no more
characters than cells available or not to end in a blank (see `old_rule_short_after_rstrip`). -/
theorem rule_exact (env : Env) (v : Frames.Variant) (o : RuleOpts) (w : Int) (hw : 1 ≤ w) (out : List (Segment σ))
    (h : ruleConsole cw env v o w = some out)
    (hns : v.rstripCountsChars = true →
      ((ruleText cw env v o w).1.length : Int) ≤ w ∨ trailingSpaces (ruleText cw env v o w).1 = 0) :
    out = [seg (ruleText cw env v o w).1] ++ (if (ruleText cw env v o w).2.isEmpty then [] else [seg (ruleText cw env v o w).2]) ∧
    cellLen cw (ruleText cw env v o w).1 = w.toNat := by
  have hlen := ruleText_cellLen cw cw_space cw_le_two env v o w (by omega)
  refine ⟨?_, hlen⟩
  unfold ruleConsole textConsoleSimple at h
  simp only at h
  split at h
  · have hid : rstripEnd cw v (ruleText cw env v o w).1 w = (ruleText cw env v o w).1 := by
      apply rstripEnd_id
      cases hv : v.rstripCountsChars
      · left; simp only [Bool.false_eq_true, if_false]; omega
      · rcases hns hv with h1 | h1
        · left; simp only [if_true]; exact h1
        · right; exact h1
    rw [hid] at h
    have hne : (ruleText cw env v o w).1.isEmpty = false := by
      cases hq : (ruleText cw env v o w).1 with
      | nil =>
        have h0 : cellLen cw ([] : List Char) = 0 := rfl
        rw [hq, h0] at hlen; omega
      | cons a b => rfl
    simp only [hne, Bool.false_eq_true, if_false, Option.some.injEq] at h
    exact h.symm
  · cases h

/-- Repaired `Text.rstrip_end`: every rule (any title, zero-width characters included, any alignment,
any `characters`) is exactly `w` cells wide. -/
theorem rule_exact_repaired (env : Env) (z r k : Bool) (o : RuleOpts) (w : Int) (hw : 1 ≤ w) (out : List (Segment σ))
    (h : ruleConsole cw env { zeroWidthChild := z, ruleRightRepeat := r, rstripCountsChars := false, columnsZeroCount := k } o w = some out) :
    ∃ plain e, out = [seg plain] ++ (if e.isEmpty then [] else [seg e]) ∧ cellLen cw plain = w.toNat := by
  obtain ⟨h1, h2⟩ := rule_exact env _ o w hw out h (by intro hv; cases hv)
  exact ⟨_, _, h1, h2⟩

/-- The text of a rule is exactly `w` cells wide for every input whatsoever (`w ≥ 0`). -/
theorem rule_text_exact (env : Env) (v : Frames.Variant) (o : RuleOpts) (w : Int) (hw : 0 ≤ w) :
    cellLen cw (ruleText cw env v o w).1 = w.toNat :=
  ruleText_cellLen cw cw_space cw_le_two env v o w hw

/-- Repaired `Rule(align="right")`: a title that fits is shown whole at the right end behind one blank,
after a side of exactly the remaining cells — for every `characters` string. -/
theorem rule_right_shows_title (env : Env) (z : Bool) (o : RuleOpts) (w : Int) (ha : o.align = .right) (hne : o.title ≠ [])
    (hfit : (cellLen cw (o.title.map (fun c => if c == '\n' then ' ' else c)) : Int) + 2 ≤ w) :
    ∃ side : List Char,
      (ruleText cw env { zeroWidthChild := z, ruleRightRepeat := false } o w).1
        = side ++ [' '] ++ o.title.map (fun c => if c == '\n' then ' ' else c) ∧
      (cellLen cw side : Int) = w - cellLen cw (o.title.map (fun c => if c == '\n' then ' ' else c)) - 1 :=
  ruleText_right_repaired cw cw_space cw_le_two env z o w ha hne hfit

/-- New finding, rich 9.10.0 as found (before fix 8879061): `Rule("title", characters="-=", align="right")` at width 20 does not show
its title at all (the side is `characters` repeated 14 times = 28 cells, and the final crop removes the title). -/
theorem old_rule_right_loses_title :
    (ruleText cw { consoleWidth := 20 } { ruleRightRepeat := true }
      { title := "title".toList, characters := "-=".toList, align := .right } 20).1 = "-=-=-=-=-=-=-=-=-=-=".toList := by
  decide

example : (ruleText cw { consoleWidth := 20 } { ruleRightRepeat := false }
      { title := "title".toList, characters := "-=".toList, align := .right } 20).1 = "-=-=-=-=-=-=-= title".toList := by
  decide

/-- New finding (rich 9.10.0 as found, before fix f5f2be9): a right-aligned title with a zero-width character and a trailing blank makes the rule
one cell short (`Rule(Text("à "), align="right")` at width 10 draws 9 cells). -/
theorem old_rule_short_after_rstrip :
    (ruleConsole (σ := Nat) cw { consoleWidth := 10 } {} { title := ['a', '\u0300', ' '], align := .right } 10).map (lineLength cw)
      = some 9 := by decide +kernel

example : (ruleConsole (σ := Nat) cw { consoleWidth := 10 } { rstripCountsChars := false } { title := ['a', '\u0300', ' '], align := .right } 10).map (lineLength cw)
      = some 10 := by decide +kernel

example : (ruleConsole (σ := Nat) cw { consoleWidth := 7 } {} { characters := ['あ'] } 7).map (lineLength cw) = some 7 := by
  decide +kernel

/-! ## Bar and ProgressBar -/

/-- **bar_begin_end_spec.**  Which cells of a `Bar` are blank, partial and full, as a function of `begin`, `end`,
`size` (exact rationals) and the width: with `lo = ⌊8·width·begin/size⌋`, `hi = ⌊8·width·end/size⌋` eighths
(`0 ≤ lo ≤ hi ≤ 8·width`): `lo / 8` blanks, the right-aligned partial block `BEGIN[lo % 8]` if `lo % 8 ≠ 0`, full
blocks up to cell `hi / 8`, the left-aligned partial block `END[hi % 8]` if `hi % 8 ≠ 0` and that cell is not
already the begin block's, blanks up to `width`. -/
theorem bar_begin_end_spec (o : BarOpts) (w : Int)
    (hsd : 0 < o.size.den) (hbd : 0 < o.beginV.den) (hed : 0 < o.endV.den)
    (hb0 : 0 ≤ o.beginV.num) (hes : o.endV.le o.size = true) (hlt : o.endV.le o.beginV = false)
    (hw : 0 ≤ barWidth o.width w) :
    let width := barWidth o.width w
    let lo := (width * 8 * o.beginV.num * o.size.den) / (o.beginV.den * o.size.num)
    let hi := (width * 8 * o.endV.num * o.size.den) / (o.endV.den * o.size.num)
    let px : List Char := if lo % 8 != 0 then [beginBlocks.getD (lo % 8).toNat ' '] else []
    let ex : List Char := if hi % 8 != 0 then [endBlocks.getD (hi % 8).toNat ' '] else []
    0 ≤ lo ∧ lo ≤ hi ∧ hi ≤ width * 8 ∧
    barConsole (σ := σ) o w =
      [seg (List.replicate (lo / 8).toNat ' ' ++ px
            ++ (List.replicate ((hi / 8).toNat - ((lo / 8).toNat + px.length)) '█'
                ++ (if (lo / 8).toNat + px.length ≤ (hi / 8).toNat then ex else []))
            ++ List.replicate (width.toNat - ((hi / 8).toNat + ex.length)) ' '), nl] :=
  barConsole_spec o w hsd hbd hed hb0 hes hlt hw

/-- an empty range (`end ≤ begin`) is all blanks -/
theorem bar_empty_range (o : BarOpts) (w : Int) (h : o.endV.le o.beginV = true) :
    barConsole (σ := σ) o w = [seg (rep (barWidth o.width w) ' '), nl] := by
  unfold barConsole; simp [h]

example : barConsole (σ := Nat) (barInit { size := ⟨10, 1⟩, beginV := ⟨3, 1⟩, endV := ⟨7, 1⟩, width := some 5 }) 20
    = [seg ['\x20', '▐', '█', '▌', '\x20'], nl] := by decide


/-- **bar_exact.**  `Bar` (as `__init__` leaves it: `begin ≥ 0`, `end ≤ size`) draws one segment of
exactly `width` cells, for every size, begin, end (exact rationals) and width. -/
theorem bar_exact (o : BarOpts) (w : Int)
    (hsd : 0 < o.size.den) (hbd : 0 < o.beginV.den) (hed : 0 < o.endV.den)
    (hb0 : 0 ≤ o.beginV.num) (hes : o.endV.le o.size = true) (hw : 0 ≤ barWidth o.width w) :
    ∃ text : List Char, barConsole (σ := σ) o w = [seg text, nl] ∧ cellLen cw text = (barWidth o.width w).toNat := by
  obtain ⟨text, h1, h2, h3⟩ := barConsole_exact (σ := σ) o w hsd hbd hed hb0 hes hw
  refine ⟨text, h1, ?_⟩
  rw [cellLen_eq_length cw text (fun c hc => bar_chars_narrow c (List.mem_append.mpr (Or.inl (h3 c hc)))), h2]

/-- `Bar.__init__` establishes the hypotheses of `bar_exact`. -/
theorem bar_init_ok (o : BarOpts) (hbd : 0 < o.beginV.den) :
    0 ≤ (barInit o).beginV.num ∧ (barInit o).endV.le (barInit o).size = true ∧ 0 < (barInit o).beginV.den := by
  unfold barInit
  simp only
  refine ⟨?_, ?_, ?_⟩
  · split
    · simp
    · rename_i h
      simp only [Rat'.lt, Bool.not_eq_true, decide_eq_false_iff_not] at h
      have : (0 : Int) < o.beginV.den := by omega
      by_cases hn : 0 ≤ o.beginV.num
      · exact hn
      · exact absurd (by omega : o.beginV.num * ((1 : Nat) : Int) < 0 * (o.beginV.den : Int)) h
  · split
    · simp [Rat'.le]
    · rename_i h
      simp only [Rat'.lt, Bool.not_eq_true, decide_eq_false_iff_not] at h
      simp only [Rat'.le, decide_eq_true_eq]
      omega
  · split
    · show 0 < 1; omega
    · exact hbd

/-- **bar_le / progress_bar_exact_with_colour.**  A progress bar never exceeds its width, and fills it
exactly when colour is available (`no_color` off and a colour system present), for every total,
completed (exact rationals, any sign) and width. -/
theorem progress_bar_le_and_exact (env : Env) (o : ProgressOpts) (w : Int) (hp : o.pulse = false)
    (hw : 0 ≤ barWidth o.width w) (htd : 0 < o.total.den) (hcd : 0 < o.completed.den) :
    lineLength cw (progressConsole (σ := σ) env o w) ≤ (barWidth o.width w).toNat ∧
    (env.noColor = false → env.colorSystem ≠ 0 →
      lineLength cw (progressConsole (σ := σ) env o w) = (barWidth o.width w).toNat) :=
  progress_bar_cells cw cw_space (bar_chars_narrow _ (by decide)) (bar_chars_narrow _ (by decide))
    (bar_chars_narrow _ (by decide)) (bar_chars_narrow _ (by decide)) env o w hp hw htd hcd

/-- The pulse animation is exactly `width` cells for every time stamp and console. -/
theorem progress_pulse_exact_width (env : Env) (o : ProgressOpts) (w : Int) (hp : o.pulse = true)
    (hw : 0 ≤ barWidth o.width w) :
    lineLength cw (progressConsole (σ := σ) env o w) = (barWidth o.width w).toNat :=
  progress_pulse_exact cw cw_space (bar_chars_narrow _ (by decide)) (bar_chars_narrow _ (by decide)) env o w hp hw

/-- F23: no line feed is ever emitted by a progress bar (so the next renderable continues its line). -/
theorem progress_bar_has_no_newline (env : Env) (o : ProgressOpts) (w : Int) :
    ∀ s ∈ progressConsole (σ := σ) env o w, '\n' ∉ s.text :=
  progressConsole_no_nl env o w

/-! ## Columns -/

/-- **columns_each_once_in_order.**  For every item count, padding, `width`, `equal`, `column_first`,
`right_to_left` and available width for which `Columns` renders: the grid handed to the inner table has
`column_count > 0` columns, every row has exactly that many cells, and reading the rows left to right
(right to left under `right_to_left`) gives `itemOrder` followed only by fewer than `column_count`
blanks; `itemOrder` is `0, 1, …, n-1` row-first, and column-first it puts item `off j + r` at row `r`
of column `j` (consecutive indices down each column, columns left to right); in both cases every item
occurs exactly once. -/
theorem columns_each_once_in_order (v : Frames.Variant) (o : ColumnsOpts) (measured : List Int) (maxWidth : Int) (L : ColumnsLayout)
    (h : columnsLayout v o measured maxWidth = .ok (some L)) :
    0 < L.columnCount ∧
    (∀ row ∈ L.rows, row.length = L.columnCount) ∧
    (∃ k, k < L.columnCount ∧
      ((if o.rightToLeft then L.rows.map List.reverse else L.rows).flatten
        = (itemOrder o.columnFirst measured.length L.columnCount).map some ++ List.replicate k none)) ∧
    (L.rows.flatten.filterMap id).Perm (List.range measured.length) ∧
    (o.columnFirst = false → itemOrder o.columnFirst measured.length L.columnCount = List.range measured.length) ∧
    (o.columnFirst = true → ∀ r j, j < L.columnCount → r * L.columnCount + j < measured.length →
      (itemOrder o.columnFirst measured.length L.columnCount)[r * L.columnCount + j]?
        = some (colOff measured.length L.columnCount j + r)) := by
  obtain ⟨hc, hrows, hk⟩ := columnsLayout_each_once v o measured maxWidth L h
  refine ⟨hc, hrows, hk, columnsLayout_items_perm v o measured maxWidth L h, ?_, ?_⟩
  · intro hf; rw [hf]; exact itemOrder_rowFirst _ _
  · intro hf r j hj hp; rw [hf]; exact itemOrder_columnFirst_getElem? hc r j hj hp

/-- F11, rich 9.10.0 as found, before fix f7ecf83 (belongs to C14, lives in this model): `Columns(width=…)` raises
`ZeroDivisionError` exactly when the requested column width plus padding is 0 or exceeds the available width. -/
theorem old_columns_zero_division_iff (z r k : Bool) (o : ColumnsOpts) (measured : List Int) (maxWidth : Int) (p : PadDims) (cwid : Int)
    (hne : measured ≠ []) (hp : unpackPad o.padding = .ok p) (hw : o.width = some cwid) :
    columnsLayout { zeroWidthChild := z, ruleRightRepeat := r, rstripCountsChars := k, columnsZeroCount := true } o measured maxWidth
        = .error .zeroDivision ↔
      (cwid + max (p.left : Int) p.right = 0 ∨ maxWidth / (cwid + max (p.left : Int) p.right) ≤ 0) := by
  rw [columnsLayout_error_iff _ o measured maxWidth p hne hp, hw]
  simp

/-- Repaired `Columns` (`column_count = max(1, max_width // max(1, width + padding))`): with valid padding
and at least one item it never raises — for every `width` option whatsoever, and without one whenever the
items' measurements are sound — and lays the items out in at least one column. -/
theorem columns_repaired_never_raises (z r k : Bool) (o : ColumnsOpts) (measured : List Int) (maxWidth : Int) (p : PadDims)
    (hne : measured ≠ []) (hp : unpackPad o.padding = .ok p) (hmw : 0 ≤ maxWidth)
    (hw : o.width = none → ∀ m ∈ measured, m ≤ maxWidth) :
    ∃ L, columnsLayout { zeroWidthChild := z, ruleRightRepeat := r, rstripCountsChars := k, columnsZeroCount := false } o measured maxWidth
        = .ok (some L) ∧ 0 < L.columnCount := by
  generalize hv : ({ zeroWidthChild := z, ruleRightRepeat := r, rstripCountsChars := k, columnsZeroCount := false } : Frames.Variant) = v
  have hvz : v.columnsZeroCount = false := by rw [← hv]
  cases hres : columnsLayout v o measured maxWidth with
  | error e =>
    exfalso
    have he := (columnsLayout_error v o measured maxWidth p hne hp e).mp hres
    have hz : columnsLayout v o measured maxWidth = .error .zeroDivision := by rw [hres, he.1]
    cases ho : o.width with
    | none => exact columnsLayout_no_zeroDivision v o measured maxWidth ho hmw (hw ho) hz
    | some cwid =>
      rw [columnsLayout_error_iff v o measured maxWidth p hne hp, ho] at hz
      simp only [hvz, Bool.false_eq_true, false_and] at hz
  | ok r' =>
    cases r' with
    | none =>
      exfalso
      rw [columnsLayout_eq v o measured maxWidth p hne hp] at hres
      split at hres
      · cases hres
      · split at hres <;> cases hres
    | some L => exact ⟨L, rfl, (columnsLayout_each_once v o measured maxWidth L hres).1⟩

/-- Without a `width` option no `ZeroDivisionError` is possible when the items' measurements are sound. -/
theorem columns_auto_width_total (v : Frames.Variant) (o : ColumnsOpts) (measured : List Int) (maxWidth : Int)
    (hw : o.width = none) (hmw : 0 ≤ maxWidth) (hfit : ∀ m ∈ measured, m ≤ maxWidth) :
    columnsLayout v o measured maxWidth ≠ .error .zeroDivision :=
  columnsLayout_no_zeroDivision v o measured maxWidth hw hmw hfit

example : (match columnsLayout {} { width := some 30 } [3, 3] 20 with | .error .zeroDivision => true | _ => false) = true := by decide
example : (match columnsLayout { columnsZeroCount := false } { width := some 30 } [3, 3] 20 with
    | .ok (some L) => L == ⟨1, [[some 0], [some 1]]⟩ | _ => false) = true := by decide
example : (match columnsLayout { columnsZeroCount := false } { width := some 0, padding := [0] } [3, 3] 4 with
    | .ok (some L) => L == ⟨4, [[some 0, some 1, none, none]]⟩ | _ => false) = true := by decide
example : (match columnsLayout {} { columnFirst := true } [1, 1, 1, 1, 1] 5 with
    | .ok (some L) => L == ⟨3, [[some 0, some 2, some 4], [some 1, some 3, none]]⟩ | _ => false) = true := by decide

/-- **columns_rendered_cells.**  `Columns` down to the characters (composition layer `Model/Layout.lean`, inner
`Table.grid` = `Model/Table.lean`): what is rendered is the grid table whose cell at row `r`, column `j` is the
oracle of the item the layout puts there — `itemOrder` read row by row, blanks last — wrapped in `Constrain` /
`Align` as `equal` / `align` ask, or the blank text.  Together with C07's `rows_in_order` and
`fold_cells_in_column` (every cell's own lines appear verbatim inside its column's span of its row) this is:
every item is RENDERED exactly once, at the documented grid position. -/
theorem columns_rendered_cells (cfg : Layout.Cfg) (o : Layout.ColsOpts) (opts : Layout.Opts) (items : List (Child Nat)) (w : Nat)
    (p : PadDims) (lay : ColumnsLayout) (hp : unpackPad o.lay.padding = .ok p)
    (hlay : columnsLayout cfg.v o.lay (items.map (fun c => (c.measureAt (w : Int)).maximum)) (w : Int) = .ok (some lay)) :
    Layout.columnsConsole cfg o opts items w = Layout.tableConsole cfg (o.grid p) opts (Layout.colsGrid cfg o items w lay) w ∧
    (Layout.colsGrid cfg o items w lay).length = lay.columnCount ∧
    (∀ j r, j < lay.columnCount → r < lay.rows.length →
      ∃ col, (Layout.colsGrid cfg o items w lay)[j]? = some col ∧ col.cells.length = lay.rows.length ∧
        col.cells[r]? = some (Layout.colsCell cfg o items w ((lay.rows.getD r []).getD j none))) ∧
    (lay.rows.flatten.filterMap id).Perm (List.range items.length) := by
  refine ⟨Layout.columnsConsole_eq_grid cfg o opts items w p lay hp hlay, Layout.colsGrid_length cfg o items w lay,
    fun j r hj hr => Layout.colsGrid_cell cfg o items w lay j r hj hr, ?_⟩
  have := columnsLayout_items_perm cfg.v o.lay _ _ lay hlay
  simpa using this

/-! ## Tree -/

/-- **tree_dfs_prefix4 (1).**  The explicit stack walk of `Tree.__rich_console__` (with the fuel the
model gives it: it terminates) equals the depth-first reference walk `specTree`: a node's label lines,
then its children in order if it is expanded, every line behind one guide segment per ancestor level.
For every tree shape, every `expanded` flag, every label, every guide style. -/
theorem tree_walk_is_depth_first (env : Env) (root : TreeN σ) (w : Int) :
    treeConsole cw env root w = specTree cw env root w :=
  treeConsole_eq_spec cw env root w

/-- **tree_dfs_prefix4 (2).**  A guide prefix of `d` levels is exactly `4 * d` cells wide (ASCII,
legacy-windows and the three Unicode guide sets alike). -/
theorem tree_prefix_four_cells_per_level (env : Env) (gs : List Guide) (h : ∀ g ∈ gs, g.idx < 4) :
    lineLength cw (gs.map (guideSeg (σ := σ) env)) = 4 * gs.length :=
  (guides_cells cw guides_ok env gs h).1

/-- **tree_dfs_prefix4 (3).**  Every line of a rendered tree is exactly `w` cells wide: label line of
`w - 4 * depth` cells behind `4 * depth` guide cells. -/
theorem tree_rect (env : Env) (root : TreeN σ) (w : Int) :
    ∀ l ∈ splitLines (treeConsole cw env root w), lineLength cw l = w.toNat :=
  treeConsole_rect cw cw_space cw_le_two guides_ok env root w


/-! ## Deepening round 4: `Text` titles of Rule / Panel, styled Bar / ProgressBar -/

section TextTitles
open RichModel.Text RichModel.Wrap
variable [BEq σ]

theorem cw_ellipsis : cw '…' = 1 := by decide +kernel

/-- **rule_text_title_fills_width.**  `Rule.__rich_console__` on real `Text` values (`ruleConsoleT`): for EVERY title text
(spans, tabs, line feeds, wide characters, longer than the rule; `none` = no title), every `characters` string free of
line feed / tab / stripped control codes (wide characters included; the constructor guarantees at least one cell), every
alignment, every `end`, every width `w ≥ 1` and every justify / overflow / no_wrap in force, on the repaired code:
nothing raises and the output is ONE line of exactly `w` cells followed by the `end` (`"\n"` for a title-less rule under
the as-found flag `ruleNoTitleEnd`).  Title hypothesis: a consistent `Text` whose `tab_size` is positive (what
`Text.__init__` builds). -/
theorem rule_text_title_fills_width (cfg : TCfg σ) (hcw : cfg.cw = cw) (hwv : cfg.wv = WVariant.repaired) (env : Env)
    (sv : SVariant) (o : RuleOptsT σ) (opts : TOpts) (w : Nat) (hw : 1 ≤ w) (hch : GoodC o.characters)
    (htitle : ∀ t, o.title = some t → Text.Inv t ∧ ∃ ts, 0 < ts ∧ t.tabSize = some ts) :
    ∃ segs x, ruleConsoleT cfg env sv o opts (w : Int) = .ok segs ∧
      segChars segs = x ++ (if o.title.isNone && sv.ruleNoTitleEnd then ['\n'] else o.endS) ∧
      cellLen cw x = w ∧ '\n' ∉ x ∧ ∀ s ∈ segs, s.control = false := by
  have := ruleConsoleT_exact cfg hwv (by rw [hcw]; exact cw_space) (by rw [hcw]; exact cw_le_two) env sv o opts w hw hch htitle
  rw [hcw] at this
  exact this

/-- **panel_text_title_own_width.**  The title part of a panel's top border, for EVERY consistent `Text` title (spans,
tabs, line feeds, wide characters, any alignment, longer than the panel or not) whose own overflow method is not
"ignore": `Panel._title` succeeds and `title_text.align(…, cwid − 2, box.top)` rendered at `cwid − 2` is one line of
exactly `cwid − 2` cells (nothing at all when `cwid − 2 < 1`: `Console.render` yields nothing in no space). -/
theorem panel_text_title_own_width (cfg : TCfg σ) (hcw : cfg.cw = cw) (hwv : cfg.wv = WVariant.repaired) (a : AlignM)
    (t0 : Text σ) (hi : Text.Inv t0) (ts : Nat) (hts : 0 < ts) (htab : t0.tabSize = some ts)
    (hov : t0.overflow ≠ some RichModel.Overflow.ignore) (st : σ) (cwid : Int) (ch : Char) (hch : cw ch = 1) (hg : GoodC [ch]) :
    ∃ title segs, panelTitleText Variant.repaired true t0 = .ok (some title) ∧
      (textTitleO cfg a title).render st (cwid - 2) ch (cwid - 2) = some segs ∧
      lineLength cw segs = (cwid - 2).toNat ∧ '\n' ∉ segChars segs ∧ ∀ s ∈ segs, s.control = false := by
  have := textTitleO_own_width cfg hwv (by rw [hcw]; exact cw_space) (by rw [hcw]; exact cw_le_two) (by rw [hcw]; exact cw_ellipsis)
    a t0 hi ts hts htab hov st cwid ch (by rw [hcw]; exact hch) hg
  rw [hcw] at this
  exact this

/-- **panel_text_title_top_border.**  Hence the whole top border of a repaired panel with such a title — corner, one
`top`, the title part, one `top`, corner — is exactly `cwid + 2` cells, the width of every other line of the panel
(`panel_border_style`), for every child width `cwid ≥ 2`. -/
theorem panel_text_title_top_border (cfg : TCfg σ) (hcw : cfg.cw = cw) (hwv : cfg.wv = WVariant.repaired) (A : SOps σ)
    (env : Env) (sv : SVariant) (hsv : sv.titleAtConsoleWidth = false) (a : AlignM)
    (t0 : Text σ) (hi : Text.Inv t0) (ts : Nat) (hts : 0 < ts) (htab : t0.tabSize = some ts)
    (hov : t0.overflow ≠ some RichModel.Overflow.ignore) (s b : σ) (box : Frames.Box) (hbox : box.Narrow cw)
    (hg : GoodC [box.top]) (cwid : Int) (h2 : 2 ≤ cwid) :
    ∃ title top, panelTitleText Variant.repaired true t0 = .ok (some title) ∧
      panelTopLineS A env sv s b (some (textTitleO cfg a title)) box cwid = some top ∧
      lineLength cw top = (cwid + 2).toNat := by
  obtain ⟨title, segs, h1, h2', h3, _, _⟩ := panel_text_title_own_width cfg hcw hwv a t0 hi ts hts htab hov (A.add s b) cwid
    box.top hbox.2.1 hg
  refine ⟨title, [segS (some (A.add s b)) [box.topLeft, box.top]] ++ segs ++ [segS (some (A.add s b)) [box.top, box.topRight]], h1, ?_, ?_⟩
  · simp only [panelTopLineS, hsv, Bool.false_eq_true, if_false, h2']
  · simp only [lineLength, List.map_append, List.sum_append, List.map_cons, List.map_nil, List.sum_cons, List.sum_nil] at h3 ⊢
    rw [h3]
    simp only [Segment.cellLength, segS, cellLen, List.map_cons, List.map_nil, List.sum_cons, List.sum_nil,
      hbox.1, hbox.2.1, hbox.2.2.1]
    simp
    omega

/-- a title with a tab, a wide character and a span; `natOps` as the style algebra -/
def exTitle : Text Nat :=
  { plain := ['a', '\t', 'あ', '\n', 'b'], length := 5, spans := [⟨1, 4, 7⟩], style := 0, justify := none, overflow := none,
    noWrap := none, endStr := ['\n'], tabSize := some 8 }
def exCfg : TCfg Nat := { cw := cw, A := natOps, wv := WVariant.repaired }

example : Text.Inv exTitle := by unfold Text.Inv; decide
example : GoodC ['─', 'あ'] := by
  intro c hc
  simp only [List.mem_cons, List.mem_nil_iff, or_false] at hc
  rcases hc with rfl | rfl <;> decide
example : exTitle.overflow ≠ some RichModel.Overflow.ignore ∧ exTitle.tabSize = some 8 := by decide

end TextTitles

/-! ### styled Bar / ProgressBar (`Model/FramesBarsStyled.lean`; the pulse animation depends on `monotonic()` and is excluded) -/

/-- **progress_bar_styled_split.**  `ProgressBar.__rich_console__` (no pulse) cell by cell with the style of every cell, for
every total (0 and negative included), completed (negative, beyond the total), width option and available width with a
non-negative bar width: `h / 2` bar cells then `h % 2` half-bar cell, all in the complete style — the finished style iff
`completed ≥ total` —, then, only when colour is available, the remaining `width − h/2 − h%2` cells in the background
style (the first a left half bar when the completed part ends on a full cell); `width` cells in all with colour, never
more without (`h` = `complete_halves`). -/
theorem progress_bar_styled_split (env : Env) (o : ProgressOpts) (w : Int) (hw : 0 ≤ barWidth o.width w)
    (htd : 0 < o.total.den) (hcd : 0 < o.completed.den) :
    let width := barWidth o.width w
    let ascii := env.legacyWindows || env.asciiOnly
    let bar := if ascii then '-' else '━'
    let halfR := if ascii then ' ' else '╸'
    let halfL := if ascii then ' ' else '╺'
    let h := progressHalves o width
    let fill := progressFillSty o
    let colour := !env.noColor && env.colorSystem != 0
    let rem := width - h / 2 - h % 2
    let lead : Nat := if h % 2 = 0 ∧ 0 < h / 2 ∧ 0 < rem then 1 else 0
    0 ≤ h ∧ h ≤ width * 2 ∧ 0 ≤ rem ∧
    styledCells (progressStyled env o w) =
      List.replicate (h / 2).toNat (bar, fill) ++ List.replicate (h % 2).toNat (halfR, fill)
        ++ (if colour then List.replicate lead (halfL, BarSty.back) ++ List.replicate (rem.toNat - lead) (bar, BarSty.back)
            else []) ∧
    (styledCells (progressStyled env o w)).length = (if colour then width.toNat else ((h + 1) / 2).toNat) ∧
    (styledCells (progressStyled env o w)).length ≤ width.toNat :=
  progressStyled_split env o w hw htd hcd

/-- erasing the style ids gives back the text model of `Model/Frames.lean` (`progress_bar_le_and_exact` is about it) -/
theorem progress_bar_styled_erases_to_text (env : Env) (o : ProgressOpts) (w : Int) (hp : o.pulse = false) :
    eraseSty (σ := σ) (progressStyled env o w) = progressConsole env o w :=
  progressStyled_erase env o w hp

/-- a finished bar (total ≠ 0) is full: `complete_halves = 2 · width`, so by the split theorem every cell is a bar cell
in the finished style -/
theorem progress_bar_finished_is_full (o : ProgressOpts) (width : Int) (htd : 0 < o.total.den) (hcd : 0 < o.completed.den)
    (hz : o.total.isZero = false) (hfin : progressFillSty o = BarSty.finished) : progressHalves o width = width * 2 :=
  progressHalves_finished o width htd hcd hz hfin

/-- `Bar.__rich_console__`: ONE segment in the bar's own style, then `Segment.line()` -/
theorem bar_styled_shape (o : BarOpts) (w : Int) : ∃ t, barStyled o w = [(t, BarSty.own), (['\n'], BarSty.line)] :=
  barStyled_shape o w

theorem bar_styled_erases_to_text (o : BarOpts) (w : Int) : eraseSty (σ := σ) (barStyled o w) = barConsole o w :=
  barStyled_erase o w

/-! ## Non-vacuity -/

/-- a one-line child `"ab"` that measures (2, 2) -/
def abChild : Child Nat := { measure := fun _ => ⟨2, 2⟩, render := fun _ => [seg ['a', 'b'], nl] }

example : (3 : Int) + 1 ≤ paddingWidth { zeroWidthChild := true } ⟨1, 1, 0, 3⟩ true abChild 8 := by decide
example : splitLines (paddingConsole cw {} ⟨1, 1, 0, 3⟩ false abChild 8)
    = [[seg (rep 6 ' ')], [seg (rep 3 ' '), seg ['a', 'b'], seg [' ']]] := by decide
example : (panelConsole cw { consoleWidth := 8 } {} { box := 0, title := ['T'] } abChild 8).toOption.isSome = true := by decide
example : (treeConsole cw { consoleWidth := 12 } (.node abChild {} true [.node abChild {} true [], .node abChild {} true []]) 8).length = 11 := by
  decide +kernel

end RichModel.C08
