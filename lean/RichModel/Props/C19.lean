import RichModel.Lemmas.AnsiForeign
import RichModel.Lemmas.AnsiLegacy
import RichModel.Lemmas.AnsiCsi
import RichModel.Lemmas.AnsiLiveStreams
import RichModel.Lemmas.AnsiParams
import RichModel.Lemmas.AnsiProxyApi
import RichModel.Props.C10
/-!
# C19 — the ANSI decoder inverts the truecolor encoder, and redirected output is never lost

Model: `Model/Ansi.lean` (`rich/ansi.py`, `rich/file_proxy.py`, the truecolor path of `Style.render`).
Tables: `Gen/SgrMap.lean` (`SGR_STYLE_MAP`, `Style._style_map`, translated on every run) and
`Gen/PyDigits.lean` (`str.isdigit`, `int`, `sys.get_int_max_str_digits` of the running Python).

Everything here holds for lines, texts, styles, histories of any size.  `decide +kernel` is used
only for the two table obligations and for closed witnesses that look a character up in those tables.

The code variants (`Ansi.Cfg`), each `true` for rich 9.10.0 as found and `false` for the repaired code /repo contains
now: `intRaises` (F10, fix 8dc20cb), `flushRaw` (F20, fix c4ae818), `emptyIgnored` (F27, fix eb349e5), `resetDropsLink`
(F28, fix c143415), `offSingle` (F29, fix b9c1000), `crErases` (F31, fix 70d7986), `sgrLazy` (F32, fix a4759bf),
`oscStOnly` (F33, fix 37dd303).  The full-strength theorems are proved for the repaired variant (each names the flags it
needs as hypotheses) and the `old_…` theorems show by evaluation that the variant as found violates them.  The round
trip `decode_encode` holds for every variant (the encoder never writes anything the eight variants read differently).
Proofs: `Lemmas/AnsiTables`, `AnsiSgr`, `AnsiState`, `AnsiColor`, `AnsiEncode`, `AnsiTok`, `AnsiRound`, `AnsiRoundTrip`,
`AnsiLine` (round trip, totality), `AnsiProxy` (proxy against `units`), `AnsiEcma`, `AnsiForeign` (ECMA-48 reading of SGR),
`AnsiCsi` (other CSI, carriage returns), `AnsiLegacy`, `AnsiLive`, `AnsiLiveStreams` (the proxy inside C10's display).
Fourth round: `AnsiParams` (every SGR parameter the encoder can emit, fed to the decoder: exhaustive over the finite forms,
symbolic for `38;2;r;g;b`; exact reset) over `Model/AnsiParams.lean`, and `AnsiProxyApi` (`write` of a non-`str`, `writelines`,
no-op `flush`) over `Model/AnsiProxyApi.lean`.

A carriage return that is NOT at the end of a line is outside the statement: `decode_line` keeps what follows the
last one ("what is visible after the cursor returned": `10%\r50%\r100%` → `100%`), which is what the code means
to do and agrees with a terminal whenever the later text is at least as long as the earlier; a faithful overwrite
(`abc\rxy` → `xyc`) would need cell positions, which a line of text printed through the console does not have.
The proxy theorems hold for such lines too (they are about what is handed to the decoder); only "complete" is
then relative to that reading, and the generators keep interior CRs in the model-only stream.

Escape sequences that are neither SGR, OSC nor CSI — classification against "complete … with its ANSI styling preserved"
(evidence: the probes of `section_decoder`, compared with the model on every run, counted with `ctx.note`):
* control strings DCS / SOS / PM / APC (`ESC P|X|^|_ … ESC \`): `re_csi` removes the two-character introducer and the
  terminator, the PAYLOAD is printed as text (`ESC P q#0… ESC \` prints `q#0…`).  Nothing written as text is lost and no
  styling changes; characters that were not text appear.  Outside the statement (it speaks of lines written and their
  styling, not of control strings a line-oriented console cannot honour); a repair (`re_csi` consuming the whole string) is
  noted in the MANIFEST, not proposed as a finding.
* 8-bit C1 controls (`U+009B` CSI, `U+009D` OSC, `U+0090` DCS, `U+009C` ST): not part of the decoder's grammar, kept
  verbatim and handed to the terminal as written — complete, styling as the terminal reads it.  Outside.
* two-character escapes other than `ESC @ … ESC _` (`ESC 7`, `ESC 8`, `ESC c`, `ESC =`, `ESC ( B`): kept verbatim, ESC included.
  Complete; whether the terminal then moves its cursor is the display's concern (C10), not this property's.
* ISO 8613-6 colon sub-parameters (`ESC [ 38:2::r:g:b m`, `4:3`): read as SGR (nothing is swallowed), the parameter is not a
  number and is ignored like every invalid code — the text is complete and unstyled.  `decode_sgr_means_ecma` is about
  semicolon-separated numeric parameters; this form is outside it.

Outside the statement (observed by the harness and counted, not a check): WHERE a partial line pending at `stop()`
lands.  Such text is not a *line written* (no newline yet) and no *flush* was asked for, which are the two things the
property speaks of; nor is it lost.  In rich 9.10.0 as found `Live.stop` / `Progress.stop` did not flush the two
proxies: `io.IOBase.close` calls `flush`, so the text was printed when the proxy object was collected
(`proxy_flush_empties` covers that flush), after the final frame or later.  Since fix 4c3921f (a finding of C10, the
display's property) `stop` flushes both proxies before the last refresh and the text lands above the final frame; on the
model that placement is part of `live_screen_with_proxied_streams` below (the body's lines, then the pending text of
stdout, then of stderr, then the last frame).  `proxy_two_streams` and `proxy_lines` say what is pending (`pending h`)
and that it stays in the stream's own buffer up to that flush.
-/
namespace RichModel.C19
open RichModel RichModel.Ansi RichModel.Style

/-! ## The table half of the round trip -/

/-- Every SGR parameter the encoder can write is read back by the decoder's table as the very attribute
or colour it was written for: for each of the 13 attribute bits `Style._style_map[bit]` is a number `k`
such that `Style.parse(SGR_STYLE_MAP[k])` sets exactly that bit; 30-37 / 90-97 / 40-47 / 100-107 / 39 / 49
parse to the sixteen standard colours and `default` on the right side; every entry parses; 38 and 48 are
not in the table (they would shadow the extended-colour sub-parsers); the off codes 22-29, 54, 55 only switch
off the attributes ECMA-48 assigns to them.  (Style operations at `StyleVariant.fixed`, see `Ansi.Cfg.sv`.) -/
theorem sgr_table_inverts_style_map : tablesOk StyleVariant.fixed = true := tables_ok

/-- `str(n)` for `n ≤ 255` is made of characters `str.isdigit` accepts, `int()` reads it back as `n`, and it
contains none of `;`, `m`, newline, ESC, CR. -/
theorem sgr_numbers_read_back : digitsOk = true := digits_ok

/-! ## The decoder inverts the encoder -/

/-- **decode_encode.**  For every line of segments satisfying `SegOk` (`noEsc`: no ESC / stripped control
code in the text, no ESC / line break in link and link id, no `;` in the link id, no BEL in link and link id —
BEL ends an OSC string in the repaired tokenizer —, colours as the constructors build them, styles
with the constructors' invariant), every code variant and every blank decoder state (in particular a fresh
decoder): `_render_buffer` on a truecolor terminal succeeds, `decode_line` of its output succeeds, leaves
the decoder blank again, and yields **per character** the same character with the same attributes that
are on, the same colours (type, number, triplet) and the same link. -/
theorem decode_encode (cfg : Ansi.Cfg) (segs : List Seg) (hok : ∀ g ∈ segs, SegOk g) (st : Style) (hst : Blank st) :
    ∃ x st' runs, encodeSegs false segs = .ok x ∧ decodeLine cfg st x = (st', .ok runs) ∧ Blank st' ∧
      charsOf runs = expectedChars segs := by
  obtain ⟨x, st2, runs, hx, hcr, hR, hb, hch⟩ := segs_roundtrip cfg segs hok st hst [] rfl
  refine ⟨x, st2, runs, hx, ?_, hb, by simpa using hch⟩
  simpa [decodeLine, R, tokenize, afterLastCR_noCR cfg.crErases x hcr] using hR

/-- The same for a whole printed text: lines decoded one after the other by one decoder
(`AnsiDecoder.decode` after `splitlines`) — the style carried from line to line is blank at every line
break, so every line decodes to what its own segments say. -/
theorem decode_encode_lines (cfg : Ansi.Cfg) (lines : List (List Seg)) (hok : ∀ l ∈ lines, ∀ g ∈ l, SegOk g)
    (st : Style) (hst : Blank st) :
    ∃ xs st' texts, lines.mapM (encodeSegs false) = .ok xs ∧ decodeMany cfg st xs = (st', .ok texts) ∧ Blank st' ∧
      texts.map charsOf = lines.map expectedChars := by
  induction lines generalizing st with
  | nil => exact ⟨[], st, [], rfl, rfl, hst, rfl⟩
  | cons l r ih =>
    obtain ⟨x, s1, runs, hx, hd, hb, hch⟩ := decode_encode cfg l (hok l (by simp)) st hst
    obtain ⟨xs, s2, texts, hxs, hd2, hb2, hch2⟩ := ih (fun y hy => hok y (by simp [hy])) s1 hb
    refine ⟨x :: xs, s2, runs :: texts, ?_, ?_, hb2, by simp [hch, hch2]⟩
    · simp [List.mapM_cons, hx, hxs, bind, Except.bind, pure, Except.pure]
    · simp [decodeMany, hd, hd2, Except.map]

/-- A line without escapes and stripped control codes decodes to itself, complete and in order,
whatever the decoder's state. -/
theorem decode_plain_complete (cfg : Ansi.Cfg) (st : Style) (l : List Char) (h : textOk l = true) :
    ∃ runs, decodeLine cfg st l = (st, .ok runs) ∧ plainOf runs = l :=
  decodeLine_plain cfg st l h

/-- Repaired variant: `decode_line` never raises, for every line and every decoder state. -/
theorem decode_total (cfg : Ansi.Cfg) (h : cfg.intRaises = false) (st : Style) (l : List Char) :
    ∃ st' runs, decodeLine cfg st l = (st', .ok runs) :=
  decodeLine_total cfg h st l

/-- F10 on the model of the code as found: `AnsiDecoder().decode_line("\x1b[²m")` raises `ValueError`
(`"²".isdigit()` is true, `int("²")` is not defined). -/
theorem old_decode_raises :
    (decodeLine Ansi.Cfg.old Style.null [ESC, '[', '²', 'm']).2 = .error .valueError := by decide +kernel

/-! ## Redirected output is never lost -/

/-- **proxy_lines.**  For every history of `write` / `flush` calls on a fresh proxy (repaired variant): the
line texts handed to the console are exactly the decoded units of the *flattened* history — the
character stream cut at every newline and at every flush with something pending — each once, in order,
decoded by one decoder whose state is carried along; nothing is raised; what stays buffered is the
unterminated rest. -/
theorem proxy_lines (cfg : Ansi.Cfg) (hraw : cfg.flushRaw = false) (hint : cfg.intRaises = false) (h : List Op) :
    ∃ st' ts,
      decodeMany cfg Style.null (units h) = (st', .ok ts) ∧
      printedTexts (run cfg Proxy.init h).2 = ts ∧ ts.length = (units h).length ∧
      (run cfg Proxy.init h).1.buffer.flatten = pending h ∧ (run cfg Proxy.init h).1.style = st' := by
  obtain ⟨st', ts, h1, h2, _, h4, h5, _⟩ :=
    run_spec hraw (decodeLine_total cfg hint) h Proxy.init (by simp [Proxy.NE, Proxy.init])
  have hlen : ts.length = (units h).length := by
    obtain ⟨s2, t2, e, hl⟩ := decodeMany_total (decodeLine_total cfg hint) Style.null (units h)
    simp only [Proxy.init, List.flatten_nil] at h1
    rw [show (unitsAux (flat h) []).1 = units h from rfl, e] at h1
    simp only [Prod.mk.injEq, Except.ok.injEq] at h1
    rw [← h1.2]; exact hl
  exact ⟨st', ts, by simpa [Proxy.init, units] using h1, h2, hlen, by simpa [Proxy.init, pending] using h4, h5⟩

/-- Where one `write` ends and the next begins plays no role: two histories with the same flattened
character stream print the same texts in the same order. -/
theorem proxy_chunking_irrelevant (cfg : Ansi.Cfg) (hraw : cfg.flushRaw = false) (hint : cfg.intRaises = false)
    (h1 h2 : List Op) (hflat : flat h1 = flat h2) :
    printedTexts (run cfg Proxy.init h1).2 = printedTexts (run cfg Proxy.init h2).2 := by
  obtain ⟨s1, t1, a1, b1, _⟩ := proxy_lines cfg hraw hint h1
  obtain ⟨s2, t2, a2, b2, _⟩ := proxy_lines cfg hraw hint h2
  have hu : units h1 = units h2 := by simp [units, hflat]
  rw [hu, a2] at a1
  simp only [Prod.mk.injEq, Except.ok.injEq] at a1
  rw [b1, b2, a1.2]

/-- Without flushes the units are the complete (newline-terminated) lines of the concatenation of
everything written, and the unterminated rest stays pending. -/
theorem proxy_writes_complete_lines (ws : List (List Char)) :
    units (writesOnly ws) = (completeLines ws.flatten []).1 ∧
    pending (writesOnly ws) = (completeLines ws.flatten []).2 := by
  unfold units pending
  rw [flat_writesOnly, unitsAux_map_ch]
  exact ⟨rfl, rfl⟩

/-- A flush emits the pending partial line: after a history that ends with `flush`, nothing is pending. -/
theorem proxy_flush_empties (cfg : Ansi.Cfg) (hraw : cfg.flushRaw = false) (hint : cfg.intRaises = false)
    (h : List Op) (b : Bool) : (run cfg Proxy.init (h ++ [.flush b])).1.buffer = [] := by
  obtain ⟨_, _, _, _, _, hbuf, _, hne⟩ :=
    run_spec hraw (decodeLine_total cfg hint) (h ++ [.flush b]) Proxy.init (by simp [Proxy.NE, Proxy.init])
  have hp : (unitsAux (flat (h ++ [.flush b])) []).2 = [] := by
    have hf : flat (h ++ [.flush b]) = flat h ++ [.fl] := by rw [flat_append]; rfl
    rw [hf, unitsAux_append]
    simp only [unitsAux]
    split <;> rfl
  simp only [Proxy.init, List.flatten_nil] at hbuf
  rw [hp] at hbuf
  exact (flatten_eq_nil_of_NE hne).mp hbuf

/-- **proxy_verbatim.**  Repaired variant: every print the proxy issues, in every history, is
`console.print(text, markup=False, emoji=False, highlight=False)` with a `Text` produced by the proxy's
decoder; no exception is recorded. -/
theorem proxy_verbatim (cfg : Ansi.Cfg) (hraw : cfg.flushRaw = false) (hint : cfg.intRaises = false) (h : List Op) :
    ∀ e ∈ (run cfg Proxy.init h).2, e.verbatim = true := by
  obtain ⟨_, _, _, _, hv, _⟩ :=
    run_spec hraw (decodeLine_total cfg hint) h Proxy.init (by simp [Proxy.NE, Proxy.init])
  exact hv

/-- F20 on the model of the code as found: `write("[b]x"); flush()` hands the raw string to
`console.print` (markup, emoji and highlighting on, nothing decoded). -/
theorem old_flush_prints_raw :
    (run Ansi.Cfg.old Proxy.init [.write ['[', 'b', ']', 'x'], .flush false]).2 = [.call (.printStr ['[', 'b', ']', 'x'])] ∧
    ¬ (∀ e ∈ (run Ansi.Cfg.old Proxy.init [.write ['[', 'b', ']', 'x'], .flush false]).2, e.verbatim = true) := by
  decide +kernel

/-- F10 through the proxy, code as found: `write("q\n\x1b[²m\n")` raises and prints nothing — the complete
line `q` is lost (`units` says it must be printed). -/
theorem old_write_loses_line :
    (run ⟨true, false, false, false, false, false, true, false⟩ Proxy.init [.write ['q', '\n', ESC, '[', '²', 'm', '\n']]).2 = [.raised .valueError] ∧
    units [.write ['q', '\n', ESC, '[', '²', 'm', '\n']] = [['q'], [ESC, '[', '²', 'm']] := by
  decide +kernel

/-! ## The proxies as a live display installs them: stdout and stderr on one console -/

/-- **proxy_two_streams.**  `Live.start` / `Progress.start` install two proxies (stdout, stderr), each with its own
buffer and decoder, printing through one console.  For every interleaved history of calls on the two streams and
each stream `b`: what the console is asked to print on behalf of `b` is exactly the decoded units of the flattened
calls made on `b` — each once, in order, complete, carried by `b`'s own decoder state; so nothing written to one
stream is ever glued to, or styled by, what was written to the other; nothing is raised; `b`'s unterminated rest
stays in `b`'s buffer; every print is verbatim. -/
theorem proxy_two_streams (cfg : Ansi.Cfg) (hraw : cfg.flushRaw = false) (hint : cfg.intRaises = false)
    (h : List (Bool × Op)) (b : Bool) :
    ∃ st' ts,
      decodeMany cfg Style.null (units (proj b h)) = (st', .ok ts) ∧
      printedTexts (eventsOf b (run2 cfg Proxies.init h).2) = ts ∧ ts.length = (units (proj b h)).length ∧
      ((run2 cfg Proxies.init h).1.get b).buffer.flatten = pending (proj b h) ∧
      (∀ e ∈ eventsOf b (run2 cfg Proxies.init h).2, e.verbatim = true) := by
  obtain ⟨h1, h2⟩ := run2_proj cfg b h Proxies.init
  have hinit : Proxies.init.get b = Proxy.init := by cases b <;> rfl
  rw [hinit] at h1 h2
  obtain ⟨st', ts, a1, a2, a3, a4, _⟩ := proxy_lines cfg hraw hint (proj b h)
  refine ⟨st', ts, a1, by rw [h1]; exact a2, a3, by rw [h2]; exact a4, ?_⟩
  rw [h1]
  exact proxy_verbatim cfg hraw hint (proj b h)

/-! ## The proxies inside the live display (C10's model, imported read-only) -/

/-- **live_write_is_proxy_write.**  The `Op.write` of C10's display model IS the `FileProxy.write` of this model —
the same function on the same inputs: on a redirected stream it prints, through the display, exactly the lines
`writeLoop` completes from the pending text and the written characters, and keeps exactly `writeLoop`'s new buffer
pending.  (C10 restates the part of `proxy_lines` it needs as `stream_writes_print_complete_lines`; with
this theorem the two models cannot drift apart: `cutNL_eq_completeLines`, `writeLoop_eq_pw`.) -/
theorem live_write_is_proxy_write (cfg : Live.Cfg) (fails : Nat → Bool) (st : Live.St) (e : Bool)
    (lines : List Live.Line) (tail : Live.Line) (hp : Live.proxied st e = true)
    (hnl : (∀ l ∈ lines, '\n' ∉ l) ∧ '\n' ∉ tail) (buf : List (List Char)) (hb : buf.flatten = Live.getBuf st e) :
    Live.doWrite cfg fails st e lines tail =
      (match (writeLoop (Live.flatW (lines, tail)) [] buf []).1 with
       | [] => { st := Live.setBuf st e (writeLoop (Live.flatW (lines, tail)) [] buf []).2.flatten }
       | ls => Live.doPrint cfg fails (Live.setBuf st e (writeLoop (Live.flatW (lines, tail)) [] buf []).2.flatten) ls) :=
  doWrite_eq_proxy cfg fails st e lines tail hp hnl buf hb

/-- **live_screen_with_proxied_streams** (C10's `live_screen` composed with this property).  A display is started,
then any sequence `b` of prints, refreshes, updates, resizes and writes to the two redirected streams (chunked
anyhow), then it is stopped (repaired `stop`).  Replaying everything written on a fresh terminal shows:
the printed lines, then the last frame, then blank rows only — where the printed lines are, operation by operation
in program order, what C19's proxy hands over (`bodyPrinted`), followed by the text still pending on stdout, then on
stderr; and for each stream `e` the lines printed on its behalf are exactly the complete lines of `e`'s own
flattened character stream (`unitsAux`: each once, in order, nothing glued in from the other stream) and its
pending text is the unterminated rest.  Every such line without escapes is printed as it was written
(`decode_plain_complete`: the decoded Text's characters are the line's). -/
theorem live_screen_with_proxied_streams (cfg : Live.Cfg) (ov : Live.Overflow) (r0 : Live.Frame) (b : List Live.Op)
    (hfix : cfg.bareBypass = false) (hflush : cfg.flushFix = true)
    (hwf : Live.wf cfg ov r0 (.start :: b ++ [.stop]) = true)
    (hb : ∀ op ∈ b, isBody op = true ∧ writeOk op)
    (hprox : ∀ e, Live.proxied (Live.step cfg Live.noFault (Live.initSt ov r0) .start).st e = true) :
    let st1 := (Live.step cfg Live.noFault (Live.initSt ov r0) .start).st
    let stE := runBody cfg st1 b
    (∃ k, (Screen.replay cfg.height Screen.init (Live.emit cfg ov r0 (.start :: b ++ [.stop]))).rows =
        (Live.printed cfg ov r0 (.start :: b ++ [.stop]) ++ Live.lastFrame cfg ov r0 (.start :: b ++ [.stop])).map
          (Live.cells cfg.cw) ++ List.replicate k []) ∧
    Live.printed cfg ov r0 (.start :: b ++ [.stop]) =
      bodyPrinted cfg st1 b ++ (if stE.started then Live.pendLines cfg stE else []) ∧
    (∀ e, streamLines cfg e st1 b = (unitsAux ((streamText e b).map .ch) (Live.getBuf st1 e)).1 ∧
          Live.getBuf stE e = (unitsAux ((streamText e b).map .ch) (Live.getBuf st1 e)).2) ∧
    (∀ (acfg : Ansi.Cfg) (dst : Style) (l : List Char), textOk l = true →
        ∃ runs, decodeLine acfg dst l = (dst, .ok runs) ∧ plainOf runs = l) := by
  intro st1 stE
  refine ⟨C10.live_screen cfg ov r0 _ hfix hflush hwf, ?_, ?_, fun acfg dst l hl => decode_plain_complete acfg dst l hl⟩
  · have hok : ∀ op ∈ (Live.Op.start :: b ++ [Live.Op.stop]), writeOk op := by
      intro op hop
      simp only [List.cons_append, List.mem_cons, List.mem_append, List.not_mem_nil, or_false] at hop
      rcases hop with rfl | hop | rfl
      · trivial
      · exact (hb op hop).2
      · trivial
    have h1 := specRun_printed cfg (.start :: b ++ [.stop]) hok (Live.initSt ov r0) {}
    have hne : (Live.Op.start : Live.Op) ≠ .stop := by decide
    simp only [Live.printed]
    rw [h1]
    simp only [List.nil_append, List.cons_append, printedRunJ, hne, if_false, printedByJ]
    exact printedRunJ_body_stop cfg b (fun o ho => (hb o ho).1) st1
  · intro e
    obtain ⟨a1, a2, _⟩ := body_stream_lines cfg e b st1 hb hprox
    exact ⟨a1, a2⟩

/-- a display 6 rows high with the repaired `stop`, and a body mixing writes to both streams, a refresh and a print -/
def jointCfg : Live.Cfg := { C10.cfgLive with bareBypass := false, flushFix := true, height := 6 }
def jointBody : List Live.Op :=
  [.write false [['a']] ['b'], .write true [] ['x'], .refresh, .write false [['c']] [], .print [['p']], .write true [['y']] ['z']]

example : Live.wf jointCfg .crop [['F']] (.start :: jointBody ++ [.stop]) = true := by decide
example : ∀ e, Live.proxied (Live.step jointCfg Live.noFault (Live.initSt .crop [['F']]) .start).st e = true := by decide
example : ∀ op ∈ jointBody, isBody op = true := by decide
/-- stdout wrote `a⏎b` then `c⏎`, stderr `x` then `y⏎z`: lines `a`, `bc`, (print `p`), `xy`, and `z` completed by `stop` -/
example : Live.printed jointCfg .crop [['F']] (.start :: jointBody ++ [.stop]) = [['a'], ['b', 'c'], ['p'], ['x', 'y'], ['z']] := by
  decide

/-! ## Foreign ANSI: the decoder reads SGR the way ECMA-48 does -/

/-- Every row of the decoder's table (repaired rows for 24 / 25) has exactly the effect ECMA-48 8.3.117 gives
its code on the modelled aspects, and no code ECMA-48 gives a meaning to is missing (0, 38, 48 are handled by
the loop itself; 26 is outside).  Re-proved on the translated table on every run. -/
theorem sgr_table_agrees_with_ecma48 : tableAgrees Ansi.Cfg.repaired = true := table_agrees_ecma

/-- **decode_sgr_means_ecma.**  Repaired variant: for every style that kept the constructors' invariant and
every list of SGR parameters (without 26), the style the decoder reaches means — attributes on, foreground,
background, hyperlink — exactly what the ECMA-48 / ISO 8613-6 interpreter `ecmaFold` computes from the meaning
of the style it started from.  In particular a reset keeps the hyperlink, 24 / 25 clear the double variants. -/
theorem decode_sgr_means_ecma (cfg : Ansi.Cfg) (hr : cfg.resetDropsLink = false) (ho : cfg.offSingle = false)
    (codes : List Nat) (h26 : ∀ c ∈ codes, c ≠ 26) (st : Style) (hs : Inv st) :
    absStyle (applyCodes cfg st codes 0).1 = ecmaFold (absStyle st) codes 0 :=
  (applyCodes_means_ecma cfg hr ho codes h26 st hs 0).1

/-- Repaired variant: an omitted parameter is a zero (ECMA-48 5.4.2) — `p1;p2;…` with each `pi` omitted or a
number ≤ 255 in decimal reads as those numbers, and `ESC [ m` reads as `[0]`, a reset. -/
theorem sgr_omitted_parameters_are_zero (cfg : Ansi.Cfg) (he : cfg.emptyIgnored = false) :
    sgrCodes cfg [] = .ok [0] ∧
    ∀ ps : List (Option Nat), ps ≠ [] → (∀ n, some n ∈ ps → n < 256) →
      sgrCodes cfg (joinWith ';' (ps.map paramText)) = .ok (ps.map (·.getD 0)) :=
  ⟨sgrCodes_empty cfg he, fun ps hne hlt => sgrCodes_params cfg he ps hne hlt⟩

/-- F27 on the code as found: in `ESC[1m b ESC[m p` the `p` is still bold; repaired: it is plain. -/
theorem old_empty_param_ignored :
    ((decodeLine Ansi.Cfg.old Style.null [ESC, '[', '1', 'm', 'b', ESC, '[', 'm', 'p']).2.toOption.map charsOf).map (·.map (·.2.on.head?))
      = some [some true, some true] ∧
    ((decodeLine Ansi.Cfg.repaired Style.null [ESC, '[', '1', 'm', 'b', ESC, '[', 'm', 'p']).2.toOption.map charsOf).map (·.map (·.2.on.head?))
      = some [some true, some false] := by decide +kernel

/-- F28 on the code as found: SGR 0 inside a hyperlink drops the link; ECMA-48 keeps it. -/
theorem old_reset_drops_link :
    (absStyle (applyCodes Ansi.Cfg.old (linkOnly (some ['u'])) [0] 0).1).link = none ∧
    (ecmaFold (absStyle (linkOnly (some ['u']))) [0] 0).link = some ['u'] := by decide +kernel

/-- F29 on the code as found: `21;24` leaves the double underline (bit 9) on; ECMA-48: not underlined. -/
theorem old_off_keeps_double :
    (absStyle (applyCodes Ansi.Cfg.old Style.null [21, 24] 0).1).on = 512 ∧
    (ecmaFold ⟨0, none, none, none⟩ [21, 24] 0).on = 0 := by decide +kernel

/-! ## Foreign output: CR LF line ends and control sequences other than SGR -/

/-- **crlf_lines_complete** (repaired F31).  A line of CR LF terminated output reaches `decode_line` with its
carriage return(s) at the end (the proxy cuts at LF only): they erase nothing — the text comes out complete. -/
theorem crlf_lines_complete (cfg : Ansi.Cfg) (hc : cfg.crErases = false) (st : Style) (l : List Char)
    (h : textOk l = true) (k : Nat) :
    ∃ runs, decodeLine cfg st (l ++ List.replicate k '\r') = (st, .ok runs) ∧ plainOf runs = l :=
  decodeLine_trailing_cr cfg hc st l h k

/-- **osc_bel_terminated** (repaired F33).  An OSC 8 hyperlink written with the BEL terminator — `ESC ] 8 ; params ; url BEL`,
the form most programs use — is read exactly like the `ESC \\` form: whatever text was pending is flushed with the old
state, the decoder's style gets the link (or loses it, for an empty url), and decoding goes on after the BEL. -/
theorem osc_bel_terminated (cfg : Ansi.Cfg) (hb : cfg.oscStOnly = false) (st : Style) (params link rest acc : List Char)
    (hp : ∀ c ∈ params, c ≠ ESC ∧ c ≠ '\n' ∧ c ≠ ';' ∧ c ≠ BEL) (hl : ∀ c ∈ link, c ≠ ESC ∧ c ≠ '\n' ∧ c ≠ BEL) :
    R cfg st ([ESC, ']', '8', ';'] ++ params ++ ';' :: link ++ [BEL] ++ rest) acc =
      push (flushRuns st acc) (R cfg (Style.updateLink cfg.sv st (linkOrNone link)) rest []) :=
  R_osc8_bel cfg hb st params link rest acc hp hl

/-- F33 on the code as found: `ESC]8;;http://x BEL link ESC]8;; BEL` — the link is lost and `8;;http://x` is printed. -/
theorem old_osc_bel_not_recognised :
    ((decodeLine { Ansi.Cfg.repaired with oscStOnly := true } Style.null
        (ESC :: ']' :: "8;;u".toList ++ BEL :: 'L' :: ESC :: ']' :: "8;;".toList ++ [BEL])).2.toOption.map fun rs => (plainOf rs, charsOf rs |>.map (·.2.link)))
      = some ("8;;u".toList ++ BEL :: 'L' :: "8;;".toList ++ [BEL], List.replicate 10 none) ∧
    ((decodeLine Ansi.Cfg.repaired Style.null
        (ESC :: ']' :: "8;;u".toList ++ BEL :: 'L' :: ESC :: ']' :: "8;;".toList ++ [BEL])).2.toOption.map fun rs => (plainOf rs, charsOf rs |>.map (·.2.link)))
      = some (['L'], [some ['u']]) := by
  decide +kernel

/-- **decode_cr_keeps_last_segment.**  Exactly what is kept of a line with carriage returns inside (repaired F31): the
text after the last carriage return that is followed by text.  `pre ⏎ seg ⏎…⏎` with `seg` non-empty and free of CR
decodes as `seg` alone — whatever `pre` contains (text, escapes, further CRs) has no effect, not even on the decoder's
state.  A terminal would show `seg` written over `pre`: the two readings agree whenever `seg` covers at least as many
cells as what was on the line before (evaluated on real rich by the harness), otherwise the tail of the earlier text
that a terminal would leave visible is dropped. -/
theorem decode_cr_keeps_last_segment (cfg : Ansi.Cfg) (hc : cfg.crErases = false) (st : Style) (pre seg : List Char)
    (hs : ∀ c ∈ seg, c ≠ '\r') (hne : seg ≠ []) (k : Nat) :
    decodeLine cfg st (pre ++ '\r' :: (seg ++ List.replicate k '\r')) = decodeLine cfg st seg := by
  simp only [decodeLine, hc, afterLastCR_last_segment pre seg hs hne k, afterLastCR_noCR false seg hs]

/-- **other_csi_dropped** (repaired F32).  A control sequence `ESC [ params intermediates final` that is not SGR
(cursor show / hide, erase, cursor movement, private sequences …) is dropped and the text before and after it
comes out complete — nothing up to "the next letter m" is swallowed. -/
theorem other_csi_dropped (cfg : Ansi.Cfg) (hl : cfg.sgrLazy = false) (st : Style) {ps is : List Char} {f : Char}
    (h : OtherCsi ps is f) (t1 t2 : List Char) (h1 : textOk t1 = true) (h2 : textOk t2 = true) :
    ∃ runs, decodeLine cfg st (t1 ++ csiSeq ps is f ++ t2) = (st, .ok runs) ∧ plainOf runs = t1 ++ t2 :=
  decodeLine_other_csi cfg hl st h t1 t2 h1 h2

/-- `other_csi_dropped` leaves no gap: every control sequence `ESC [ P…P I…I F` — any parameter bytes `0-?`, any
intermediate bytes (space to slash), ANY final byte `@-~` — is either exactly what the repaired pattern reads as SGR (final `m`, no
intermediates, parameters in `[0-9;:]`) or an `OtherCsi`, which is dropped with the text around it intact. -/
theorem every_csi_is_sgr_or_dropped (ps is : List Char) (f : Char) (hp : ∀ c ∈ ps, isCsiParam c = true)
    (hi : ∀ c ∈ is, isCsiInter c = true) (hf : isCsiFinal f = true) :
    (f = 'm' ∧ is = [] ∧ ∀ c ∈ ps, isSgrParam c = true) ∨ OtherCsi ps is f := by
  by_cases h1 : f = 'm'
  · by_cases h2 : is = []
    · cases h3 : ps.all isSgrParam with
      | true => exact Or.inl ⟨h1, h2, by simpa [List.all_eq_true] using h3⟩
      | false =>
        refine Or.inr ⟨hp, hi, hf, Or.inr (Or.inr ?_)⟩
        obtain ⟨c, hc, hbad⟩ := List.all_eq_false.mp h3
        exact ⟨c, hc, by simpa using hbad⟩
    · exact Or.inr ⟨hp, hi, hf, Or.inr (Or.inl h2)⟩
  · exact Or.inr ⟨hp, hi, hf, Or.inl h1⟩

/-- F31 on the code as found: `write("foo\r\n")` — the line `foo\r` decodes to nothing. -/
theorem old_trailing_cr_erases_line :
    ((decodeLine Ansi.Cfg.old Style.null ['f', 'o', 'o', '\r']).2.toOption.map plainOf) = some [] ∧
    ((decodeLine Ansi.Cfg.repaired Style.null ['f', 'o', 'o', '\r']).2.toOption.map plainOf) = some ['f', 'o', 'o'] := by
  decide +kernel

/-- F32 on the code as found: `ESC[?25l` followed by `loading items` — everything up to the `m` is swallowed. -/
theorem old_csi_swallows_text :
    ((decodeLine Ansi.Cfg.old Style.null (ESC :: '[' :: "?25lloading items".toList)).2.toOption.map plainOf) = some ['s'] ∧
    ((decodeLine Ansi.Cfg.repaired Style.null (ESC :: '[' :: "?25lloading items".toList)).2.toOption.map plainOf)
      = some "loading items".toList := by
  decide +kernel

example : OtherCsi ['?', '2', '5'] [] 'l' := ⟨by decide, by decide, by decide, Or.inl (by decide)⟩
example : OtherCsi ['2'] [] 'K' := ⟨by decide, by decide, by decide, Or.inl (by decide)⟩
example : OtherCsi ['>', '4', ';', '2'] [] 'm' := ⟨by decide, by decide, by decide, Or.inr (Or.inr ⟨'>', by decide, by decide⟩)⟩

/-! ## `legacy_windows=True` -/

/-- On a legacy Windows console `Style.render` writes no hyperlink: the round trip holds with the link
dropped from what is expected, everything else — characters, attributes, colours — as before. -/
theorem decode_encode_legacy (cfg : Ansi.Cfg) (segs : List Seg) (hok : ∀ g ∈ segs, SegOk g) (st : Style) (hst : Blank st) :
    ∃ x st' runs, encodeSegs true segs = .ok x ∧ decodeLine cfg st x = (st', .ok runs) ∧ Blank st' ∧
      charsOf runs = (expectedChars segs).map fun p => (p.1, p.2.dropLink) := by
  have hok' : ∀ g ∈ segs.map stripLink, SegOk g := by
    intro g hg
    simp only [List.mem_map] at hg
    obtain ⟨g0, h0, rfl⟩ := hg
    exact segOk_stripLink (hok g0 h0)
  obtain ⟨x, st', runs, h1, h2, h3, h4⟩ := decode_encode cfg (segs.map stripLink) hok' st hst
  exact ⟨x, st', runs, by rw [encodeSegs_legacy]; exact h1, h2, h3, by rw [h4, expectedChars_stripLink]⟩

/-! ## Non-vacuity -/

/-- bold italic, truecolor on an 8-bit background, with a link -/
def sampleStyle : Style :=
  { color := some (fromRgb 255 136 0), bgcolor := some (fromAnsi 200), attributes := 5, setAttributes := 7,
    link := some ['h', ':', 'x'], hash := ⟨none, none, none, none, none⟩, isNull := false, styleDef := none }

def sampleSegs : List Seg :=
  [⟨['a', 'b'], some sampleStyle, ['1', '.', '5']⟩, ⟨[' '], none, []⟩, ⟨['c'], some (fromColor StyleVariant.fixed (some defaultColor) none), []⟩]

example : ∀ g ∈ sampleSegs, SegOk g := by
  intro g hg
  simp only [sampleSegs, List.mem_cons, List.not_mem_nil, or_false] at hg
  rcases hg with rfl | rfl | rfl
  · refine ⟨by decide, by decide, ?_, ⟨by decide, ?_⟩⟩
    · intro s hs
      simp only [Option.some.injEq] at hs
      subst hs
      exact ⟨⟨by decide, by decide, by intro h; cases h⟩, by decide, by decide⟩
    · intro s hs
      simp only [Option.some.injEq] at hs
      subst hs
      decide
  · exact ⟨by decide, by decide, (by intro s hs; cases hs), ⟨by decide, (by intro s hs; cases hs)⟩⟩
  · refine ⟨by decide, by decide, ?_, ⟨by decide, ?_⟩⟩
    · intro s hs
      simp only [Option.some.injEq] at hs
      subst hs
      exact ⟨inv_fromColor _ _ _, by decide, by decide⟩
    · intro s hs
      simp only [Option.some.injEq] at hs
      subst hs
      decide

example : Blank Style.null := blank_null

/-- what the model writes for the sample, and that it decodes back (evaluated) -/
example : (encodeSegs false sampleSegs).toOption.map (fun x => (decodeLine Ansi.Cfg.old Style.null x).2.toOption.map charsOf)
    = some (some (expectedChars sampleSegs)) := by decide +kernel

example : units [.write ['a'], .write ['b', '\n', 'c'], .flush false, .flush false, .write ['\n']] = [['a', 'b'], ['c'], []] := by
  decide

example : (run Ansi.Cfg.repaired Proxy.init [.write ['a'], .write ['b', '\n', 'c'], .flush false, .write ['\n']]).2.length = 3 := by
  decide +kernel

/-! ## Every SGR parameter the encoder can emit is decoded (function level, exhaustive over the finite parts) -/

/-- **encoder_sgr_params_decoded.**  On the tables translated from the working tree, for the code as it is now and as
found: for each of the 13 attributes, `Style(attr=False)` writes no parameter and `Style(attr=True)` writes one
non-empty parameter text which `decode_line` (a fresh decoder: `sgrCodes`, then the loop `applyCodes`) reads back as a
style with exactly that attribute set and on, no colour, no link; for every palette number `n ≤ 255`, foreground and
background, what `Color.from_ansi(n)` makes the encoder write (30-37 / 90-97 / 40-47 / 100-107 below 16, `38;5;n` /
`48;5;n` above) is read back as exactly `from_ansi(n)` on that side and nothing else, and so is the explicit form
`38;5;n` / `48;5;n` for EVERY `n` (also below 16); `default` (39 / 49) likewise.  `decide +kernel` over
13 × 2 + 256 × 4 + 2 closed evaluations of the two models. -/
theorem encoder_sgr_params_decoded :
    encoderParamsOk Ansi.Cfg.repaired = true ∧ encoderParamsOk Ansi.Cfg.old = true :=
  ⟨encoderParams_repaired, encoderParams_old⟩

/-- The numbers the encoder writes for the 13 attributes, in bit order: 1-9, 21 (`underline2`), 51-53 (`frame`,
`encircle`, `overline`) — each of which `encoder_sgr_params_decoded` shows to be read back. -/
theorem encoder_attribute_numbers :
    (List.range 13).map (fun i => (makeAnsiCodes (attrStyle i true)).toOption) =
      [1, 2, 3, 4, 5, 6, 7, 8, 9, 21, 51, 52, 53].map (fun k => some (natStr k)) := attr_numbers

/-- **truecolor_params_decoded.**  The form `38;2;r;g;b` / `48;2;r;g;b`, all `r g b ≤ 255`, every variant: it is what the
encoder writes for `Color.from_rgb(r, g, b)`; the decoder splits it into exactly those five numbers; and from the null
style the loop reaches, without raising, a style whose colour on that side is `from_rgb(r, g, b)` (name, type,
triplet), the other side, all attributes and the link untouched. -/
theorem truecolor_params_decoded (cfg : Ansi.Cfg) (fg : Bool) (r g b : Nat) (hr : r < 256) (hg : g < 256) (hb : b < 256) :
    colorCodes (fromRgb r g b) fg = .ok ([if fg then 38 else 48, 2, r, g, b].map natStr) ∧
    sgrCodes cfg (joinWith ';' ([if fg then 38 else 48, 2, r, g, b].map natStr)) = .ok [if fg then 38 else 48, 2, r, g, b] ∧
    ∃ st', applyCodes cfg Style.null [if fg then 38 else 48, 2, r, g, b] 0 = (st', none) ∧
      SetColor fg (fromRgb r g b) Style.null st' :=
  truecolor_params cfg fg r g b hr hg hb

example : ∃ st', applyCodes Ansi.Cfg.repaired Style.null [38, 2, 255, 136, 0] 0 = (st', none) ∧
    SetColor true (fromRgb 255 136 0) Style.null st' :=
  (truecolor_params_decoded Ansi.Cfg.repaired true 255 136 0 (by decide) (by decide) (by decide)).2.2

/-- **sgr_reset_exact.**  Repaired variant: SGR 0 — written `ESC [ 0 m` or with the parameter omitted, `ESC [ m` —
resets exactly, from ANY style: both parameter texts read as `[0]`, the loop does not raise, and the style reached has
no colour, no attribute set and — OSC 8 not being part of the rendition — the link it had; without a link it is
`Style.null()`. -/
theorem sgr_reset_exact (cfg : Ansi.Cfg) (he : cfg.emptyIgnored = false) (hr : cfg.resetDropsLink = false) (st : Style) :
    sgrCodes cfg [] = .ok [0] ∧ sgrCodes cfg ['0'] = .ok [0] ∧
    applyCodes cfg st [0] 0 = (resetOf cfg st, none) ∧
    fieldsOf (resetOf cfg st) =
      (if strTruthy st.link then ⟨none, none, 0, 0, st.link, false⟩ else fieldsOf Style.null) :=
  reset_exact cfg he hr st

/-- a fully styled, linked state is reset to "link only" -/
example : fieldsOf (resetOf Ansi.Cfg.repaired sampleStyle) = ⟨none, none, 0, 0, some ['h', ':', 'x'], false⟩ := by decide +kernel

/-! ## The rest of `FileProxy`'s file-object surface: non-`str` writes, `writelines`, `flush` with nothing pending -/

/-- **proxy_api_is_write_flush.**  Repaired variant: a history of `write(str)`, `flush()` and `writelines([str, …])` calls
(`io.IOBase.writelines`: one `write` per element) does exactly what the `write` / `flush` history `flatOps h` does — same
final buffer and decoder state, same prints in the same order — so `proxy_lines`, `proxy_chunking_irrelevant` and
`proxy_verbatim` speak about `writelines` too. -/
theorem proxy_api_is_write_flush (cfg : Ansi.Cfg) (hint : cfg.intRaises = false) (h : List ApiOp) (hs : allStr h = true) (p : Proxy) :
    apiRun cfg p h = ((run cfg p (flatOps h)).1, (run cfg p (flatOps h)).2.map .ev) :=
  apiRun_str cfg (decodeLine_total cfg hint) h hs p

/-- **proxy_api_noops.**  Every variant, every proxy state: `write(x)` with `x` not a `str` raises `TypeError` and changes
nothing (pending text and decoder state kept, nothing printed); `write("")` does nothing; `flush()` with nothing pending
does nothing (no empty line is printed). -/
theorem proxy_api_noops (cfg : Ansi.Cfg) (p : Proxy) :
    apiWrite cfg p .notStr = (p, [.typeError]) ∧ p.write cfg [] = (p, []) ∧
    (p.buffer = [] → ∀ b, p.flush cfg b = (p, [])) :=
  ⟨write_notStr cfg p, write_empty cfg p, fun h b => flush_empty cfg p b h⟩

example : allStr [.write (.str ['a']), .writelines [.str ['b', '\n'], .str ['c']], .flush] = true := by decide
example : flatOps [.write (.str ['a']), .writelines [.str ['b', '\n'], .str ['c']], .flush] =
    [.write ['a'], .write ['b', '\n'], .write ['c'], .flush false] := by decide
/-- a non-`str` element ends `writelines` with `TypeError`; what was written before it stays pending -/
example : (apiRun Ansi.Cfg.repaired Proxy.init [.writelines [.str ['a'], .notStr, .str ['b']]]) =
    (⟨[['a']], Style.null⟩, [.typeError]) := by decide +kernel

end RichModel.C19
