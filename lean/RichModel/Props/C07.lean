import RichModel.Lemmas.Ratio
/-!
# C07 — tables are rectangles that show every cell in its own column

This file: the arithmetic core ("ratio_distribute / ratio_reduce split integers so that the parts sum
to the total", `_collapse_widths`).  The table renderer's theorems are added below by the layout layer.
-/
namespace RichModel.C07
open RichModel

/-- `ratio_distribute(total, ratios)` without minimums — the call that pads an expanding table — yields
one part per column, none negative, summing to **exactly** `total`, for every list of non-negative
ratios with a positive sum.  (This is what makes an expanded table exactly as wide as asked.) -/
theorem ratio_distribute_sums_to_total (total : Int) (ratios : List Int) (hpos : ∀ r ∈ ratios, 0 ≤ r)
    (hsum : 0 < ratios.sum) (ht : 0 ≤ total) :
    ∃ l, ratioDistribute total ratios none = some l ∧ l.sum = total ∧ l.length = ratios.length ∧ ∀ d ∈ l, 0 ≤ d :=
  ratioDistribute_none total ratios hpos hsum ht

/-- With minimums the parts sum to at least `total` (a binding minimum can only add). -/
theorem ratio_distribute_loop_at_least (items : List (Int × Int)) (total tr : Int)
    (hpos : ∀ it ∈ items, 0 ≤ it.1) (htr : tr = (items.map (·.1)).sum) (h0 : 0 < tr) :
    total ≤ (ratioDistributeLoop items total tr).sum :=
  rdLoop_sum_ge items total tr hpos htr h0

/-- `ratio_reduce` never takes more than `total` in all, never a negative amount, never more than a
slot's maximum, and leaves zero-ratio slots alone. -/
theorem ratio_reduce_bounds (items : List (Int × Int × Int)) (total tr : Int)
    (hpos : ∀ it ∈ items, 0 ≤ it.1 ∧ 0 ≤ it.2.1) (htr : tr = (rrRatios items).sum) (h0 : 0 ≤ total) :
    (ratioReduceLoop items total tr).length = items.length ∧
    (rrValues items).sum - total ≤ (ratioReduceLoop items total tr).sum ∧
    (ratioReduceLoop items total tr).sum ≤ (rrValues items).sum ∧
    (∀ p ∈ items.zip (ratioReduceLoop items total tr), p.1.2.2 - p.1.2.1 ≤ p.2 ∧ p.2 ≤ p.1.2.2) ∧
    (∀ p ∈ items.zip (ratioReduceLoop items total tr), p.1.1 = 0 → p.2 = p.1.2.2) :=
  let ⟨a, b, c, d⟩ := ratioReduceLoop_bounds items total tr hpos htr h0
  ⟨a, b, c, d, ratioReduceLoop_zero_ratio items total tr⟩

/-- When no maximum binds, `ratio_reduce` takes exactly `total` (the docstring's guarantee). -/
theorem ratio_reduce_exact_when_uncapped (items : List (Int × Int × Int)) (total tr : Int)
    (hpos : ∀ it ∈ items, 0 ≤ it.1 ∧ total ≤ it.2.1) (htr : tr = (rrRatios items).sum) (h0 : 0 < tr)
    (ht : 0 ≤ total) : (ratioReduceLoop items total tr).sum = (rrValues items).sum - total :=
  ratioReduceLoop_exact items total tr hpos htr h0 ht

/-- `Table._collapse_widths` terminates (within the fuel the model gives it), keeps one width per
column, never produces a negative width or grows the table, never shrinks below `max_width`, and ends
with the widths fitting `max_width` unless every wrappable column is already 0. -/
theorem collapse_widths_post (widths : List Int) (wrapable : List Bool) (maxWidth : Int)
    (hlen : widths.length = wrapable.length) (hnn : ∀ w ∈ widths, 0 ≤ w) :
    let r := collapseWidths widths wrapable maxWidth
    r.length = widths.length ∧ (∀ w ∈ r, 0 ≤ w) ∧ r.sum ≤ widths.sum ∧
    (wrapable.any id = true → (r.sum ≤ maxWidth ∨ wrapZero r wrapable)) ∧
    (maxWidth ≤ widths.sum → maxWidth ≤ r.sum) :=
  collapseWidths_post widths wrapable maxWidth hlen hnn

/-- Tables whose columns are all free to wrap: the collapsed widths fit any non-negative budget. -/
theorem collapse_widths_fit_when_all_wrappable (widths : List Int) (wrapable : List Bool) (maxWidth : Int)
    (hlen : widths.length = wrapable.length) (hnn : ∀ w ∈ widths, 0 ≤ w) (hall : ∀ b ∈ wrapable, b = true)
    (hne : widths ≠ []) (hmw : 0 ≤ maxWidth) : (collapseWidths widths wrapable maxWidth).sum ≤ maxWidth :=
  collapseWidths_all_wrappable widths wrapable maxWidth hlen hnn hall hne hmw

/-! Non-vacuity and the order-dependence the docstring hides (a cap binding early loses cells). -/
example : ratioDistribute 10 [1, 2, 0] none = some [4, 6, 0] := by decide
example : ratioReduce 50 [1, 1] [100, 1] [100, 1] = [75, 0] := by decide   -- only 26 of 50 taken
example : collapseWidths [10, 20, 5] [true, true, false] 20 = [8, 7, 5] := by decide

end RichModel.C07
