import RichModel.Lemmas.Ratio
import RichModel.Lemmas.TableRender
import RichModel.Lemmas.TableWidths
import RichModel.Lemmas.CollapseKeep
import RichModel.Lemmas.TableTotal
import RichModel.Lemmas.TableChars
import RichModel.Lemmas.TableText
import RichModel.Lemmas.TableStable
import RichModel.Lemmas.TableGeneral
import RichModel.Lemmas.TableExpand
import RichModel.Lemmas.TableRows
import RichModel.Gen.CellWidths
import RichModel.Gen.TableBoxes
/-!
# C07 — tables are rectangles that show every cell in its own column

First the arithmetic core ("ratio_distribute / ratio_reduce split integers so that the parts sum to the
total", `_collapse_widths`), then the table itself (`Model/Table.lean`, cells as oracles — see
`Model/TABLE_API.md`): rectangle, exact expansion, fitting the available width, row order, every cell inside
its column's span; then the same sentence on rendered CHARACTERS (`cell_characters_in_column`, for text cells through
C02's model of `Text.wrap`), the width bound for ARBITRARY columns (`width_bound_general`) and totality
(`calc_widths_total`, what C14 needs).  `Flags.today` (the name dates from before the `fix:` commits) is rich 9.10.0 as
found; the full-strength theorems are proved for the repaired variants and `old_…` witnesses show the as-found code
violating them at a concrete table.  `Flags.repaired` repairs the first three defects (fixes dd342b5, c798468, b5d172f);
`Flags.allRepaired` repairs all seven flags (also 1d61bac, ab98098, f955c6c, and 75c2776 = `flexClampZero`, the
`max(0, width)` clamp that came in with ab98098 and is read only when `flexNegative = false`) and is what /repo contains now.
-/
namespace RichModel.C07
open RichModel

/-- `ratio_distribute(total, ratios)` without minimums — the call that pads an expanding table — yields
one part per column, none negative, summing to **exactly** `total`, for every list of non-negative
ratios with a positive sum.  (This is what makes an expanded table exactly as wide as asked.) -/
theorem ratio_distribute_sums_to_total (total : Int) (ratios : List Int) (hpos : ∀ r ∈ ratios, 0 ≤ r)
    (hsum : 0 < ratios.sum) (ht : 0 ≤ total) :
    ∃ l, ratioDistribute total ratios none = some l ∧ l.sum = total ∧ l.length = ratios.length ∧ ∀ d ∈ l, 0 ≤ d :=
  ratioDistribute_none total ratios hpos hsum ht

/-- With minimums the parts sum to at least `total` (a binding minimum can only add). -/
theorem ratio_distribute_loop_at_least (items : List (Int × Int)) (total tr : Int)
    (hpos : ∀ it ∈ items, 0 ≤ it.1) (htr : tr = (items.map (·.1)).sum) (h0 : 0 < tr) :
    total ≤ (ratioDistributeLoop items total tr).sum :=
  rdLoop_sum_ge items total tr hpos htr h0

/-- `ratio_reduce` never takes more than `total` in all, never a negative amount, never more than a
slot's maximum, and leaves zero-ratio slots alone. -/
theorem ratio_reduce_bounds (items : List (Int × Int × Int)) (total tr : Int)
    (hpos : ∀ it ∈ items, 0 ≤ it.1 ∧ 0 ≤ it.2.1) (htr : tr = (rrRatios items).sum) (h0 : 0 ≤ total) :
    (ratioReduceLoop items total tr).length = items.length ∧
    (rrValues items).sum - total ≤ (ratioReduceLoop items total tr).sum ∧
    (ratioReduceLoop items total tr).sum ≤ (rrValues items).sum ∧
    (∀ p ∈ items.zip (ratioReduceLoop items total tr), p.1.2.2 - p.1.2.1 ≤ p.2 ∧ p.2 ≤ p.1.2.2) ∧
    (∀ p ∈ items.zip (ratioReduceLoop items total tr), p.1.1 = 0 → p.2 = p.1.2.2) :=
  let ⟨a, b, c, d⟩ := ratioReduceLoop_bounds items total tr hpos htr h0
  ⟨a, b, c, d, ratioReduceLoop_zero_ratio items total tr⟩

/-- When no maximum binds, `ratio_reduce` takes exactly `total` (the docstring's guarantee). -/
theorem ratio_reduce_exact_when_uncapped (items : List (Int × Int × Int)) (total tr : Int)
    (hpos : ∀ it ∈ items, 0 ≤ it.1 ∧ total ≤ it.2.1) (htr : tr = (rrRatios items).sum) (h0 : 0 < tr)
    (ht : 0 ≤ total) : (ratioReduceLoop items total tr).sum = (rrValues items).sum - total :=
  ratioReduceLoop_exact items total tr hpos htr h0 ht

/-- `Table._collapse_widths` terminates (within the fuel the model gives it), keeps one width per
column, never produces a negative width or grows the table, never shrinks below `max_width`, and ends
with the widths fitting `max_width` unless every wrappable column is already 0. -/
theorem collapse_widths_post (widths : List Int) (wrapable : List Bool) (maxWidth : Int)
    (hlen : widths.length = wrapable.length) (hnn : ∀ w ∈ widths, 0 ≤ w) :
    let r := collapseWidths widths wrapable maxWidth
    r.length = widths.length ∧ (∀ w ∈ r, 0 ≤ w) ∧ r.sum ≤ widths.sum ∧
    (wrapable.any id = true → (r.sum ≤ maxWidth ∨ wrapZero r wrapable)) ∧
    (maxWidth ≤ widths.sum → maxWidth ≤ r.sum) :=
  collapseWidths_post widths wrapable maxWidth hlen hnn

/-- Tables whose columns are all free to wrap: the collapsed widths fit any non-negative budget. -/
theorem collapse_widths_fit_when_all_wrappable (widths : List Int) (wrapable : List Bool) (maxWidth : Int)
    (hlen : widths.length = wrapable.length) (hnn : ∀ w ∈ widths, 0 ≤ w) (hall : ∀ b ∈ wrapable, b = true)
    (hne : widths ≠ []) (hmw : 0 ≤ maxWidth) : (collapseWidths widths wrapable maxWidth).sum ≤ maxWidth :=
  collapseWidths_all_wrappable widths wrapable maxWidth hlen hnn hall hne hmw

/-! Non-vacuity and the order-dependence the docstring hides (a cap binding early loses cells). -/
example : ratioDistribute 10 [1, 2, 0] none = some [4, 6, 0] := by decide
example : ratioReduce 50 [1, 1] [100, 1] [100, 1] = [75, 0] := by decide   -- only 26 of 50 taken
example : collapseWidths [10, 20, 5] [true, true, false] 20 = [8, 7, 5] := by decide

/-! ## The table -/

/-- `get_character_cell_size` at the table translated from `rich/_cell_widths.py` on this run. -/
def cw : Char → Nat := charWidthT Gen.cellWidths

theorem cellWidths_sortedDisjoint : adjSorted Gen.cellWidths.toList = true := by decide +kernel
theorem cellWidths_small : widthsSmall Gen.cellWidths.toList = true := by decide +kernel

theorem charWidth_le_two (c : Char) : cw c ≤ 2 := by
  unfold cw charWidthT
  simp only
  split
  · omega
  · rw [codepointWidth_eq_linear _ cellWidths_sortedDisjoint]; exact linearScan_le_two _ cellWidths_small _

theorem charWidth_space : cw ' ' = 1 := by decide

/-- Executable form of "every box literal of rich/box.py is 8 lines of 4 characters, each one cell wide". -/
def boxesOk : Bool :=
  Gen.tableBoxes.all (fun e => match Box.ofLines? e.2.2 with
    | some b => decide (b.wf cw)
    | none => false)

/-- Side condition on the *generated* box table (re-proved on every run against rich/box.py as it is now). -/
theorem boxes_wellformed : boxesOk = true := by decide +kernel

/-- …so every box constant of rich/box.py parses (`Box.__init__` does not raise) into a box all of whose
characters occupy exactly one cell. -/
theorem boxes_all_wf : ∀ e ∈ Gen.tableBoxes, ∃ b, Box.ofLines? e.2.2 = some b ∧ b.wf cw := by
  intro e he
  have h := boxes_wellformed
  unfold boxesOk at h
  rw [List.all_eq_true] at h
  have := h e he
  split at this
  · rename_i b hb; exact ⟨b, hb, of_decide_eq_true this⟩
  · cases this

/-- With at least one column the rectangle's width is `_extra_width` plus the column widths. -/
theorem bodyWidth_eq (t : Table) (widths : List Nat) (hlen : widths.length = t.columns.length) (hne : t.columns ≠ []) :
    (t.bodyWidth widths : Int) = t.extraWidth + (widths.sum : Int) := by
  have hn : 1 ≤ t.columns.length := by
    cases h : t.columns with
    | nil => exact absurd h hne
    | cons _ _ => simp
  unfold Table.bodyWidth lineWidth Table.edged Table.sepLen Table.extraWidth
  rw [hlen]
  cases t.box.isSome <;> cases t.showEdge <;> simp <;> omega

/-- **table_rect.**  Every line of the rendered table body — top and bottom edge, head/foot/row/blank
separators, every line of every row — has the same cell width: the edge characters, one divider between
neighbouring columns and the column widths, i.e. `_extra_width + Σ widths`.  For every table (any number of
columns and rows, every option), every box whose characters are one cell wide, every width vector with one
entry per column and arbitrary cell oracles.  (`leading` repaired to one separator line per unit; see
`old_table_rect_fails`.) -/
theorem table_rect (fl : Flags) (hfl : fl.leadingRepeat = false) (t : Table) (hwf : ∀ b, t.box = some b → b.wf cw)
    (widths : List Nat) (hlen : widths.length = t.columns.length) :
    ∀ l ∈ t.renderBody fl cw widths, cellLen cw l.text = t.bodyWidth widths :=
  fun l hl => (renderBody_good cw charWidth_space charWidth_le_two fl hfl t hwf widths hlen l hl).text_width

/-- The same through `Table.__rich_console__`: whatever widths `_calculate_column_widths` returned (one per
column, none negative), every body line is `_extra_width + Σ widths` cells wide. -/
theorem table_render_rect (fl : Flags) (hfl : fl.leadingRepeat = false) (t : Table) (hwf : ∀ b, t.box = some b → b.wf cw)
    (hne : t.columns ≠ []) (avail : Int) (r : Rendered) (hr : t.render fl cw avail = some r)
    (hlen : r.widths.length = t.columns.length) (hnn : ∀ w ∈ r.widths, 0 ≤ w) :
    ∀ l ∈ r.body, (cellLen cw l.text : Int) = t.extraWidth + r.widths.sum := by
  unfold Table.render at hr
  simp only at hr
  split at hr
  · cases hr
  · rename_i ws hws
    simp only [Option.some.injEq] at hr
    subst hr
    simp only at hlen hnn ⊢
    intro l hl
    have hl' : (ws.map Int.toNat).length = t.columns.length := by simpa using hlen
    rw [table_rect fl hfl t hwf _ hl' l hl, bodyWidth_eq t _ hl' hne]
    have : ((ws.map Int.toNat).sum : Int) = ws.sum := by
      clear hws hlen hl hl'
      induction ws with
      | nil => rfl
      | cons x xs ih =>
        have hx := hnn x (by simp)
        simp only [List.map_cons, List.sum_cons, Int.natCast_add, ih (fun w hw => hnn w (List.mem_cons_of_mem _ hw))]
        omega
    rw [this]

/-! Witness for F16 (`leading ≥ 2` with a box; before fix dd342b5): the as-found `_render` emits `get_row(widths, "mid") * leading`
as ONE line, `leading` times too wide. -/

def wBox : Box :=
  { top := ⟨'+', '-', '+', '+'⟩, head := ⟨'|', ' ', '|', '|'⟩, headRow := ⟨'+', '=', '+', '+'⟩, mid := ⟨'|', ' ', '|', '|'⟩,
    row := ⟨'+', '-', '+', '+'⟩, footRow := ⟨'+', '-', '+', '+'⟩, foot := ⟨'|', ' ', '|', '|'⟩, bottom := ⟨'+', '-', '+', '+'⟩ }

/-- A text-like cell oracle: natural width `|s|`, one line padded (or cut) to the width offered. -/
def wCell (s : List Char) : Cell :=
  { measure := fun w => ⟨min s.length w, min s.length w⟩, renderLines := fun w => [(s ++ List.replicate (w - s.length) ' ').take w] }

def wTable : Table :=
  { columns := [{ header := wCell ['a'], footer := wCell [], cells := [wCell ['1'], wCell ['2']] },
                { header := wCell ['b', 'b'], footer := wCell [], cells := [wCell ['3'], wCell ['4', '5', '6']] }],
    rowEndSection := [false, false], box := some wBox, leading := 2, padding := (0, 0, 0, 0) }

/-- rich 9.10.0 as found: the separator between the two rows is 14 cells wide in a 7-cell table. -/
theorem old_table_rect_fails :
    ∃ l ∈ wTable.renderBody Flags.today (fun _ => 1) [1, 3], cellLen (fun _ => 1) l.text ≠ wTable.bodyWidth [1, 3] := by decide

/-- The repaired code on the same table: every line 7 cells wide, two separate blank separator lines. -/
example : (wTable.renderBody Flags.repaired (fun _ => 1) [1, 3]).map (fun l => String.ofList l.text) =
    ["+-+---+", "|a|bb |", "+=+===+", "|1|3  |", "| |   |", "| |   |", "|2|456|", "+-+---+"] := by decide

/-! ### rows and columns -/

/-- **rows_in_order.**  Reading the body top to bottom and keeping only the lines that carry cells gives:
all lines `0 … h₀-1` of row 0, then all lines of row 1, … — the rows in the order `zip(*columns)` yields them,
each on lines of its own (a line belongs to exactly one row or is a separator), each row at least one line
high.  For every table, every option, every width vector, as-found code and repaired alike. -/
theorem rows_in_order (fl : Flags) (t : Table) (widths : List Nat) :
    (t.renderBody fl cw widths).filterMap BodyLine.cellTag
      = t.rows.zipIdx.flatMap (fun ri => (List.range (shapeRow cw widths ri.1).1).map (fun k => (ri.2, k)))
    ∧ ∀ row, 1 ≤ (shapeRow cw widths row).1 :=
  ⟨renderBody_tags fl cw t widths, fun _ => (rowHeight_ge _).1⟩

/-- …and those rows are: the header (if shown), the rows in INSERTION order, the footer (if shown) — for every
table whose columns hold the same number of cells (any table built with `add_row`). -/
theorem rows_header_cells_footer (t : Table) (m : Nat) (hne : t.columns ≠ []) (hrect : ∀ c ∈ t.columns, c.cells.length = m) :
    t.rows = (if t.showHeader then [t.columns.map (·.header)] else [])
      ++ (List.range m).map (fun r => t.columns.map (fun c => c.cells.getD r default))
      ++ (if t.showFooter then [t.columns.map (·.footer)] else []) :=
  rows_rectangular t m hne hrect

/-- **fold_cells_in_column.**  Take any body line that carries cells, say line `k` of row `i`, and any column
`j`.  The line splits as `pre ++ part ++ post` where `pre` is exactly `colOffset j` cells wide (left edge,
the earlier columns, one divider each), `part` is exactly `widths[j]` cells wide, and `part` IS line `k` of
what cell `(i, j)` rendered at the column's width — verbatim, every character in order — or blank padding
when that cell has fewer than `k+1` lines.  So the characters of a cell appear inside its column's span of
cells and nowhere else on the line.  (The oracle hypothesis `hexact` is what `render_lines` guarantees; C13.) -/
theorem fold_cells_in_column (fl : Flags) (t : Table) (hwf : ∀ b, t.box = some b → b.wf cw) (widths : List Nat)
    (hlen : widths.length = t.columns.length) (l : BodyLine) (i k : Nat)
    (hl : l ∈ t.renderBody fl cw widths) (htag : l.cellTag = some (i, k)) (j : Nat) (hj : j < widths.length) :
    ∃ (row : List Cell) (hrow : j < row.length), t.rows[i]? = some row ∧ k < (shapeRow cw widths row).1 ∧
      ∃ pre part post, l.text = pre ++ part ++ post ∧ cellLen cw pre = t.colOffset widths j ∧ cellLen cw part = widths[j] ∧
        ((∀ x ∈ row[j].renderLines widths[j], cellLen cw x = widths[j]) →
          part = if h : k < (row[j].renderLines widths[j]).length then (row[j].renderLines widths[j])[k]
                 else List.replicate widths[j] ' ') := by
  obtain ⟨row, hrow, hk, rfl⟩ := renderBody_cell_line fl cw t widths l i k hl htag
  have hrl : row.length = widths.length := by
    have := zipRows_row_length _ row (List.mem_of_getElem? hrow)
    simpa [hlen] using this
  obtain ⟨hjp, pre, post, h1, h2, h3, h4⟩ :=
    cellLine_column cw charWidth_space charWidth_le_two t hwf widths (i == 0) (i + 1 == t.rows.length) i row hrl k hk j hj
  refine ⟨row, by omega, hrow, hk, pre, _, post, h1, h2, h3, ?_⟩
  intro hexact
  have hg := shapeRow_getElem cw widths row hrl j hj
  have : (t.cellLine cw widths (i == 0) (i + 1 == t.rows.length) i row k).parts[j]
      = (shapeCell cw widths[j] (shapeRow cw widths row).1 (row[j].renderLines widths[j])).getD k [] := by
    have hj2 : j < ((shapeRow cw widths row).2.map (fun c => c.getD k [])).length := by rw [← h4]; exact hjp
    have : (t.cellLine cw widths (i == 0) (i + 1 == t.rows.length) i row k).parts[j]
        = ((shapeRow cw widths row).2.map (fun c => c.getD k []))[j] := by simp only [h4]
    rw [this, List.getElem_map]
    have hj3 : j < (shapeRow cw widths row).2.length := by simpa using hj2
    rw [List.getElem?_eq_getElem hj3] at hg
    simp only [Option.some.injEq] at hg
    rw [hg]
  rw [this]
  exact shapeCell_getD cw widths[j] _ _ hexact k hk

/-- Every rendered line of every cell is shown: line `k` of cell `(i, j)` is on body line `(i, k)`. -/
theorem every_cell_line_shown (fl : Flags) (t : Table) (widths : List Nat) (hlen : widths.length = t.columns.length)
    (i : Nat) (row : List Cell) (hrow : t.rows[i]? = some row) (j : Nat) (hj : j < widths.length) (hjr : j < row.length)
    (k : Nat) (hk : k < (row[j].renderLines widths[j]).length) :
    (i, k) ∈ (t.renderBody fl cw widths).filterMap BodyLine.cellTag := by
  have hrl : row.length = widths.length := by
    have := zipRows_row_length _ row (List.mem_of_getElem? hrow)
    simpa [hlen] using this
  rw [renderBody_tags]
  simp only [List.mem_flatMap, List.mem_map, List.mem_range]
  refine ⟨(row, i), List.mem_zipIdx_iff_getElem?.2 (by simpa using hrow), k, ?_, rfl⟩
  have := cell_height_le cw widths row hrl j hj
  simp only at this ⊢
  omega

/-- Part `j` of line `k` of a row is line `k` of that cell's shaped rendering. -/
theorem cellLine_part (t : Table) (widths : List Nat) (first last : Bool) (i : Nat) (row : List Cell)
    (hrl : row.length = widths.length) (k j : Nat) (hj : j < widths.length) :
    (t.cellLine cw widths first last i row k).parts.getD j []
      = (shapeCell cw widths[j] (shapeRow cw widths row).1 ((row[j]'(by omega)).renderLines widths[j])).getD k [] := by
  have hparts : (t.cellLine cw widths first last i row k).parts = (shapeRow cw widths row).2.map (fun c => c.getD k []) := by
    unfold Table.cellLine; cases t.box <;> rfl
  have hg := shapeRow_getElem cw widths row hrl j hj
  rw [hparts, List.getD_eq_getElem?_getD, List.getElem?_map, hg]
  rfl

/-- **The property's sentence, on rendered characters.**  Take any cell — row `i`, column `j` — whose rendering at the
column's width consists of lines of exactly that width (what `render_lines` guarantees) and keeps the non-whitespace
characters of its source text `src` in order (for a text cell in a fold column: C02's `wrap_fold_keeps_nonspace`).  Then
* every line `k < h` of row `i` is a line of the rendered body, and it reads `pre ++ part ++ post` where `pre` is exactly
  `colOffset j` cells wide (the left edge, the earlier columns, one divider each) and `part` exactly `widths[j]` cells;
* reading those parts top to bottom and dropping whitespace gives EXACTLY the non-whitespace characters of `src`, in order —
  every one of them, none twice, inside column `j`'s span of cells; the rest of each line (`pre`, `post`) belongs to the
  edges, the dividers and the other columns. -/
theorem cell_characters_in_column (fl : Flags) (t : Table) (hwf : ∀ b, t.box = some b → b.wf cw) (widths : List Nat)
    (hlen : widths.length = t.columns.length) (isSp : Char → Bool) (hsp : isSp ' ' = true)
    (i : Nat) (row : List Cell) (hrow : t.rows[i]? = some row) (j : Nat) (hj : j < widths.length) (hjr : j < row.length)
    (src : List Char) (hexact : ∀ x ∈ row[j].renderLines widths[j], cellLen cw x = widths[j])
    (hkeep : ((row[j].renderLines widths[j]).flatten).filter (fun c => !isSp c) = src.filter (fun c => !isSp c)) :
    (∀ k, k < (shapeRow cw widths row).1 →
      t.cellLine cw widths (i == 0) (i + 1 == t.rows.length) i row k ∈ t.renderBody fl cw widths ∧
      ∃ pre post, (t.cellLine cw widths (i == 0) (i + 1 == t.rows.length) i row k).text
          = pre ++ (t.cellLine cw widths (i == 0) (i + 1 == t.rows.length) i row k).parts.getD j [] ++ post ∧
        cellLen cw pre = t.colOffset widths j ∧
        cellLen cw ((t.cellLine cw widths (i == 0) (i + 1 == t.rows.length) i row k).parts.getD j []) = widths[j]) ∧
    ((List.range (shapeRow cw widths row).1).flatMap
        (fun k => (t.cellLine cw widths (i == 0) (i + 1 == t.rows.length) i row k).parts.getD j [])).filter (fun c => !isSp c)
      = src.filter (fun c => !isSp c) := by
  have hrl : row.length = widths.length := by
    have := zipRows_row_length _ row (List.mem_of_getElem? hrow)
    simpa [hlen] using this
  refine ⟨?_, ?_⟩
  · intro k hk
    refine ⟨cellLine_mem_body fl cw t widths i row hrow k hk, ?_⟩
    obtain ⟨hjp, pre, post, h1, h2, h3, _⟩ :=
      cellLine_column cw charWidth_space charWidth_le_two t hwf widths (i == 0) (i + 1 == t.rows.length) i row hrl k hk j hj
    have hg : (t.cellLine cw widths (i == 0) (i + 1 == t.rows.length) i row k).parts.getD j []
        = (t.cellLine cw widths (i == 0) (i + 1 == t.rows.length) i row k).parts[j] := by
      rw [List.getD_eq_getElem?_getD, List.getElem?_eq_getElem hjp]; rfl
    rw [hg]
    exact ⟨pre, post, h1, h2, h3⟩
  · have hcongr : (List.range (shapeRow cw widths row).1).flatMap
          (fun k => (t.cellLine cw widths (i == 0) (i + 1 == t.rows.length) i row k).parts.getD j [])
        = (List.range (shapeRow cw widths row).1).flatMap
          (fun k => (shapeCell cw widths[j] (shapeRow cw widths row).1 (row[j].renderLines widths[j])).getD k []) := by
      congr 1
      funext k
      exact cellLine_part t widths _ _ i row hrl k j hj
    rw [hcongr, shaped_lines_nonspace cw isSp hsp widths[j] _ _ hexact (cell_height_le cw widths row hrl j hj)]
    exact hkeep

/-- …and when no character of the line is zero cells wide, the part IS what slicing the rendered line at the column's cell
offset for the column's width returns: `cellSpan line (colOffset j) widths[j]`. -/
theorem cell_span_is_part (t : Table) (hwf : ∀ b, t.box = some b → b.wf cw) (widths : List Nat) (first last : Bool) (i : Nat)
    (row : List Cell) (hrl : row.length = widths.length) (k : Nat) (hk : k < (shapeRow cw widths row).1) (j : Nat) (hj : j < widths.length)
    (hpos : ∀ c ∈ (t.cellLine cw widths first last i row k).text, 1 ≤ cw c) :
    cellSpan cw (t.cellLine cw widths first last i row k).text (t.colOffset widths j) widths[j]
      = (t.cellLine cw widths first last i row k).parts.getD j [] := by
  obtain ⟨hjp, pre, post, h1, h2, h3, _⟩ :=
    cellLine_column cw charWidth_space charWidth_le_two t hwf widths first last i row hrl k hk j hj
  have hg : (t.cellLine cw widths first last i row k).parts.getD j [] = (t.cellLine cw widths first last i row k).parts[j] := by
    rw [List.getD_eq_getElem?_getD, List.getElem?_eq_getElem hjp]; rfl
  rw [hg]
  rw [h1] at hpos ⊢
  rw [← h2, ← h3]
  exact cellSpan_eq cw pre _ post (fun c hc => hpos c (by simp [hc])) (fun c hc => hpos c (by simp [hc]))

/-- **…literally, for text cells.**  Let cell `(i, j)` be a text cell — `Padding(text, (pt, pr, pb, pl))` rendered at the
column's width with overflow "fold", wrapping on, any justify; its lines are C02's model of `Text.wrap` at the content
width (`wrapCell`) — in a column at least 2 cells wider than its padding.  Then on the rendered table every
non-whitespace character of the text appears, in order, exactly once, inside column `j`'s span of cells on the lines of
row `i` (and the rest of those lines is edges, dividers and the other columns).  Uses `C02.wrap_fold_keeps_nonspace` and
`C02.wrap_lines_fit` for the cell, `cell_characters_in_column` for the table. -/
theorem text_cell_characters_in_column {σ : Type} [BEq σ] [LawfulBEq σ] (chars : Bool) (A : Wrap.StyleAlg σ) (txt : RichModel.Text σ)
    (htxt : Text.Inv txt) (pt pr pb pl : Nat) (justify : Option RichModel.Justify) (meas : Nat → Measurement)
    (fl : Flags) (t : Table) (hwf : ∀ b, t.box = some b → b.wf cw) (widths : List Nat)
    (hlen : widths.length = t.columns.length)
    (i : Nat) (row : List Cell) (hrow : t.rows[i]? = some row) (j : Nat) (hj : j < widths.length) (hjr : j < row.length)
    (hcell : row[j] = wrapCell chars cw A txt pt pr pb pl justify meas)
    (hw : 2 ≤ widths[j] - pl - pr) (hfit : pl + pr ≤ widths[j]) :
    (∀ k, k < (shapeRow cw widths row).1 →
      t.cellLine cw widths (i == 0) (i + 1 == t.rows.length) i row k ∈ t.renderBody fl cw widths ∧
      ∃ pre post, (t.cellLine cw widths (i == 0) (i + 1 == t.rows.length) i row k).text
          = pre ++ (t.cellLine cw widths (i == 0) (i + 1 == t.rows.length) i row k).parts.getD j [] ++ post ∧
        cellLen cw pre = t.colOffset widths j ∧
        cellLen cw ((t.cellLine cw widths (i == 0) (i + 1 == t.rows.length) i row k).parts.getD j []) = widths[j]) ∧
    ((List.range (shapeRow cw widths row).1).flatMap
        (fun k => (t.cellLine cw widths (i == 0) (i + 1 == t.rows.length) i row k).parts.getD j [])).filter (fun c => !RichModel.pyIsSpace c)
      = txt.plain.filter (fun c => !RichModel.pyIsSpace c) := by
  have hc := wrapCell_contract chars cw charWidth_space charWidth_le_two C02.rich_widths_admissible.2.2 A txt htxt pt pr pb pl justify widths[j] hw hfit
  apply cell_characters_in_column fl t hwf widths hlen RichModel.pyIsSpace pyIsSpace_space i row hrow j hj hjr txt.plain
  · rw [hcell]; exact hc.1
  · rw [hcell]; exact hc.2

/-! ### column widths -/

/-- **table_expand_exact.**  An expanding table (`expand=True` or an explicit `width`) whose columns fit the
width on offer at their natural widths is padded to EXACTLY that width: `Σ widths = max_width`, one width
per column, no column narrower than its natural width.  Any columns (fixed, capped, ratio), any cells.
(With the pad target repaired, or without a table `min_width`; see `old_expand_exact_fails`.) -/
theorem table_expand_exact (fl : Flags) (t : Table) (maxWidth : Int) (ws0 : List Int) (hexp : t.expand = true)
    (hfl : fl.minWidthCapsExpand = false ∨ t.minWidth = none)
    (hcols : t.columns ≠ [])
    (h0 : t.firstWidths fl maxWidth = some ws0) (hne : ws0 ≠ []) (hpos : ∀ w ∈ ws0, 1 ≤ w) (hfit : ws0.sum ≤ maxWidth) :
    ∃ ws, t.calcWidths fl maxWidth = some ws ∧ ws.sum = maxWidth ∧ ws.length = ws0.length ∧ ∀ p ∈ ws0.zip ws, p.1 ≤ p.2 := by
  rw [calcWidths_ne fl t maxWidth hcols, h0]
  simp only [show ¬ (ws0.sum > maxWidth) by omega, if_false]
  obtain ⟨r, h1, h2, h3, h4⟩ := padWidths_spec fl t ws0 ws0.sum maxWidth hne hpos
  refine ⟨r, h1, ?_, h2, h4⟩
  rw [h3, padTarget_expand fl t maxWidth hexp hfl]
  split
  · omega
  · rename_i hc
    unfold Table.padCond at hc
    simp only [hexp, Bool.and_true, Bool.or_eq_true, decide_eq_true_eq, not_or] at hc
    omega

/-- The same from hypotheses about the cells only: no active ratio column, every column free (no `width`, no
`min_width`, cells measuring ≥ 0 as `Measurement.get` guarantees).  If the natural widths fit, the
expanding table is exactly as wide as asked. -/
theorem table_expand_exact_free (fl : Flags) (t : Table) (maxWidth : Int) (hexp : t.expand = true)
    (hfl : fl.minWidthCapsExpand = false ∨ t.minWidth = none) (hnr : t.NoRatio) (hfree : t.AllFree) (hne : t.columns ≠ [])
    (hfit : (t.indexed.map (fun ci => orOne (t.measureColumn ci.2 ci.1 maxWidth).maximum)).sum ≤ maxWidth) :
    ∃ ws, t.calcWidths fl maxWidth = some ws ∧ ws.sum = maxWidth ∧ ws.length = t.columns.length := by
  obtain ⟨ws0, h0, hl, hp⟩ := firstWidths_free fl t hnr hfree maxWidth
  have h0' := firstWidths_noRatio fl t hnr maxWidth
  rw [h0] at h0'
  simp only [Option.some.injEq] at h0'
  have hne0 : ws0 ≠ [] := by
    intro h; rw [h] at hl; simp at hl
    exact hne (List.eq_nil_of_length_eq_zero hl.symm)
  obtain ⟨ws, h1, h2, h3, _⟩ := table_expand_exact fl t maxWidth ws0 hexp hfl hne h0 hne0 hp (by rw [h0']; exact hfit)
  exact ⟨ws, h1, h2, by omega⟩

/-- Witness: in rich 9.10.0 as found (before fix c798468) `Table(expand=True, min_width=…)` with a small `min_width` does NOT expand — the pad target
is `min(min_width - extra, max_width)`, below the natural width, so nothing is handed out. -/
def wTableMin : Table :=
  { columns := [{ header := wCell ['a', 'b', 'c'], footer := wCell [], cells := [wCell ['1']] }],
    rowEndSection := [false], box := none, expandFlag := true, minWidth := some 2, padding := (0, 0, 0, 0) }

theorem old_expand_exact_fails : wTableMin.calcWidths Flags.today 10 = some [3] := by decide
example : wTableMin.calcWidths Flags.repaired 10 = some [10] := by decide

/-- Witness: in rich 9.10.0 as found (before fix b5d172f) an expanding table with a ratio column next to a column that measures 0 (`Table.grid(expand=True)`,
`add_column(ratio=1)`, `add_column()`, `add_row("abc", "")`) is NOT expanded: 0 cells are reserved for the empty
column, it gets 1 (`maximum or 1`), the table is one cell over, the collapse takes the cell back from the ratio
column and the re-measure then shrinks that column to its content. -/
def wTableRatio : Table :=
  { columns := [{ header := wCell [], footer := wCell [], cells := [wCell ['a', 'b', 'c']], ratio := some 1 },
                { header := wCell [], footer := wCell [], cells := [wCell []] }],
    rowEndSection := [false], box := none, showHeader := false, expandFlag := true, padding := (0, 0, 0, 0) }

theorem old_expand_ratio_fails : wTableRatio.calcWidths Flags.today 30 = some [3, 1] := by decide
example : wTableRatio.calcWidths Flags.repaired 30 = some [29, 1] := by decide

/-- **table_expand_exact (after collapsing).**  When the natural widths do NOT fit and every column may
wrap, the collapsed widths sum to exactly `max_width`; if re-measuring the columns at those widths gives the
same widths back (true of text cells: a cell that was cut to `w` measures `w` at `w`), the table — expanding
or not, as-found code or repaired — is exactly `max_width` wide. -/
theorem table_exact_collapsed (fl : Flags) (t : Table) (maxWidth : Int) (hnr : t.NoRatio) (hfree : t.AllFree)
    (hne : t.columns ≠ []) (hnw : ∀ c ∈ t.columns, c.noWrap = false) (hmw : 0 ≤ maxWidth)
    (hover : maxWidth < (t.indexed.map (fun ci => orOne (t.measureColumn ci.2 ci.1 maxWidth).maximum)).sum)
    (hstable : ∀ ws0, t.firstWidths fl maxWidth = some ws0 →
      t.remeasure (collapseWidths ws0 t.wrapable maxWidth) = collapseWidths ws0 t.wrapable maxWidth) :
    ∃ ws, t.calcWidths fl maxWidth = some ws ∧ ws.sum = maxWidth ∧ ws.length = t.columns.length := by
  obtain ⟨ws0, h0, hl, hp⟩ := firstWidths_free fl t hnr hfree maxWidth
  have h0' := firstWidths_noRatio fl t hnr maxWidth
  rw [h0] at h0'
  simp only [Option.some.injEq] at h0'
  have hwrap : ∀ c ∈ t.columns, c.width = none ∧ c.noWrap = false := by
    intro c hc
    obtain ⟨i, hi, rfl⟩ := List.getElem_of_mem hc
    have : (t.columns[i], i) ∈ t.indexed := by
      unfold Table.indexed; exact List.mem_zipIdx_iff_getElem?.2 (by simp [hi])
    exact ⟨(hfree _ this).1, hnw _ (List.getElem_mem _)⟩
  have hover' : maxWidth < ws0.sum := by rw [h0']; exact hover
  obtain ⟨hsw, hsum, hrl, _⟩ := shrinkWidths_all_wrappable t maxWidth ws0 hl (fun w hw => by have := hp w hw; omega) hover' hmw hwrap
  have hst := hstable ws0 h0
  rw [calcWidths_ne fl t maxWidth hne, h0]
  simp only [show ws0.sum > maxWidth by omega, if_true, hsw, hst, hsum, ite_self]
  have hr1 : ∀ w ∈ collapseWidths ws0 t.wrapable maxWidth, 1 ≤ w := by
    rw [← hst]; exact remeasure_pos t hfree _
  have hrne : collapseWidths ws0 t.wrapable maxWidth ≠ [] := by
    intro h; rw [h] at hrl; simp at hrl
    exact hne (List.eq_nil_of_length_eq_zero hrl.symm)
  obtain ⟨r, h1, h2, h3, _⟩ := padWidths_spec fl t _ maxWidth maxWidth hrne hr1
  refine ⟨r, h1, ?_, by omega⟩
  rw [h3, hsum]
  have := padTarget_le fl t maxWidth
  split <;> omega

/-- `_collapse_widths` never widens a column: pointwise, every collapsed width is at most what it started from. -/
theorem collapse_widths_le (widths : List Int) (wrapable : List Bool) (maxWidth : Int)
    (hlen : widths.length = wrapable.length) (hnn : ∀ w ∈ widths, 0 ≤ w) :
    ListLe (collapseWidths widths wrapable maxWidth) widths :=
  collapseWidths_le widths wrapable maxWidth hlen hnn

/-- **The stability hypothesis of `table_exact_collapsed`, derived from the oracle contract of text cells.**  If every cell
measures like a text — `maximum = min(natural width, width on offer)`, which is what `Measurement.get` returns for `Text`
and for `Padding(Text)` — then the columns collapsed to `r` measure exactly `r` again.  So a table of free columns whose
natural widths do not fit is EXACTLY `max_width` wide (expanding or not, whatever the flags), at every `max_width` of at
least one cell per column. -/
theorem table_exact_collapsed_textlike (fl : Flags) (t : Table) (maxWidth : Int) (hnr : t.NoRatio) (hfree : t.AllFree)
    (htl : ∀ c ∈ t.columns, ∀ cell ∈ t.getCells c, cell.TextLike)
    (hne : t.columns ≠ []) (hnw : ∀ c ∈ t.columns, c.noWrap = false) (hmw : (t.columns.length : Int) ≤ maxWidth)
    (hover : maxWidth < (t.indexed.map (fun ci => orOne (t.measureColumn ci.2 ci.1 maxWidth).maximum)).sum) :
    ∃ ws, t.calcWidths fl maxWidth = some ws ∧ ws.sum = maxWidth ∧ ws.length = t.columns.length := by
  have hn1 : 1 ≤ t.columns.length := by
    cases h : t.columns with
    | nil => exact absurd h hne
    | cons _ _ => simp
  apply table_exact_collapsed fl t maxWidth hnr hfree hne hnw (by omega) hover
  intro ws0 h0
  obtain ⟨ws0', h0', hl, hp⟩ := firstWidths_free fl t hnr hfree maxWidth
  have h0'' := firstWidths_noRatio fl t hnr maxWidth
  rw [h0] at h0' h0''
  simp only [Option.some.injEq] at h0' h0''
  subst h0'
  have hwrap : ∀ c ∈ t.columns, c.width = none ∧ c.noWrap = false := by
    intro c hc
    obtain ⟨i, hi, rfl⟩ := List.getElem_of_mem hc
    have : (t.columns[i], i) ∈ t.indexed := by
      unfold Table.indexed; exact List.mem_zipIdx_iff_getElem?.2 (by simp [hi])
    exact ⟨(hfree _ this).1, hnw _ (List.getElem_mem _)⟩
  have hwl : ws0.length = t.wrapable.length := by simp [Table.wrapable, hl]
  have hle := collapse_widths_le ws0 t.wrapable maxWidth hwl (fun w hw => by have := hp w hw; omega)
  have hk := collapseWidths_keep ws0 t.wrapable maxWidth hwl (wrapable_all t hwrap) hp (by omega)
  have hle' : ListLe (collapseWidths ws0 t.wrapable maxWidth)
      (t.indexed.map (fun ci => orOne (t.measureColumn ci.2 ci.1 maxWidth).maximum)) := by rw [← h0'']; exact hle
  exact remeasure_stable_textlike t hfree htl maxWidth (by omega) _ hle' hk

/-- Witness that the stability hypothesis is NOT automatic: a cell that measures 6 when offered at least 6 cells but only
2 when offered less (a renderable with a fixed-size layout and a compact fallback) — the non-expanding table is collapsed
to 9 cells, re-measured, and ends up 7 cells wide in 9 (still a rectangle, still fitting, not "exactly `max_width`"). -/
def wShrinkCell : Cell :=
  { measure := fun w => if 6 ≤ w then ⟨6, 6⟩ else ⟨2, 2⟩, renderLines := fun w => [List.replicate w ' '] }

theorem remeasure_can_shrink :
    ({ columns := [{ header := wShrinkCell, footer := wCell [], cells := [] },
                   { header := wCell ['a', 'b', 'c', 'd', 'e', 'f', 'g', 'h'], footer := wCell [], cells := [] }],
       padding := (0, 0, 0, 0) } : Table).calcWidths Flags.allRepaired 9 = some [2, 5] := by decide

/-- `_collapse_widths` never starves a column: every column free to wrap, every width at least 1, a budget of
at least one cell per column ⇒ every collapsed width is at least 1 (so the `maximum or 1` of the re-measure
never *adds* a cell).  The even split with banker's rounding is the delicate case. -/
theorem collapse_widths_keep (widths : List Int) (wrapable : List Bool) (maxWidth : Int)
    (hlen : widths.length = wrapable.length) (hall : ∀ b ∈ wrapable, b = true) (h1 : ∀ w ∈ widths, 1 ≤ w)
    (hmw : (widths.length : Int) ≤ maxWidth) : ∀ w ∈ collapseWidths widths wrapable maxWidth, 1 ≤ w :=
  collapseWidths_keep widths wrapable maxWidth hlen hall h1 hmw

/-- `width_fits` with the "collapse keeps one cell per column" fact as a hypothesis (discharged below). -/
theorem width_fits_of_keep (fl : Flags) (t : Table) (maxWidth : Int)
    (hfirst : ∃ ws0, t.firstWidths fl maxWidth = some ws0 ∧ ws0.length = t.columns.length ∧ ∀ w ∈ ws0, 1 ≤ w) (hfree : t.AllFree)
    (hne : t.columns ≠ []) (hnw : ∀ c ∈ t.columns, c.noWrap = false) (hmw : (t.columns.length : Int) ≤ maxWidth)
    (hkeep : ∀ ws0, t.firstWidths fl maxWidth = some ws0 → ∀ w ∈ collapseWidths ws0 t.wrapable maxWidth, 1 ≤ w) :
    ∃ ws, t.calcWidths fl maxWidth = some ws ∧ ws.sum ≤ maxWidth ∧ ws.length = t.columns.length ∧ ∀ w ∈ ws, 1 ≤ w := by
  obtain ⟨ws0, h0, hl, hp⟩ := hfirst
  have hwrap : ∀ c ∈ t.columns, c.width = none ∧ c.noWrap = false := by
    intro c hc
    obtain ⟨i, hi, rfl⟩ := List.getElem_of_mem hc
    have : (t.columns[i], i) ∈ t.indexed := by
      unfold Table.indexed; exact List.mem_zipIdx_iff_getElem?.2 (by simp [hi])
    exact ⟨(hfree _ this).1, hnw _ (List.getElem_mem _)⟩
  have hne0 : ws0 ≠ [] := by
    intro h; rw [h] at hl; simp at hl
    exact hne (List.eq_nil_of_length_eq_zero hl.symm)
  have hge1 : ∀ (a b : List Int), (∀ p ∈ a.zip b, p.1 ≤ p.2) → a.length = b.length → (∀ w ∈ a, 1 ≤ w) → ∀ w ∈ b, 1 ≤ w := by
    intro a b hz hlen ha w hw
    obtain ⟨i, hi, rfl⟩ := List.getElem_of_mem hw
    have hia : i < a.length := by omega
    have := hz (a[i], b[i]) (by rw [List.mem_iff_getElem]; exact ⟨i, by simp; omega, by simp⟩)
    have := ha a[i] (List.getElem_mem _)
    simp only at *; omega
  rw [calcWidths_ne fl t maxWidth hne, h0]
  by_cases hover : ws0.sum > maxWidth
  · simp only [hover, if_true]
    obtain ⟨hsw, hsum, hrl, _⟩ := shrinkWidths_all_wrappable t maxWidth ws0 hl (fun w hw => by have := hp w hw; omega)
      (by omega) (by omega) hwrap
    simp only [hsw]
    obtain ⟨hml, hm1, hmle⟩ := remeasure_free t hfree _ hrl (hkeep ws0 h0)
    have hmne : t.remeasure (collapseWidths ws0 t.wrapable maxWidth) ≠ [] := by
      intro h; rw [h] at hml; simp at hml
      rw [← hml] at hrl
      exact hne (List.eq_nil_of_length_eq_zero hrl.symm)
    have hs := sum_le_of_zip_le _ _ hml hmle
    have htw : (t.remeasure (collapseWidths ws0 t.wrapable maxWidth)).sum ≤
        (if fl.staleTableWidth then maxWidth else (t.remeasure (collapseWidths ws0 t.wrapable maxWidth)).sum) := by
      split <;> omega
    generalize (if fl.staleTableWidth then maxWidth else (t.remeasure (collapseWidths ws0 t.wrapable maxWidth)).sum) = tw at htw ⊢
    obtain ⟨r, h1, h2, h3, h4⟩ := padWidths_spec fl t _ tw maxWidth hmne hm1
    refine ⟨r, h1, ?_, by omega, hge1 _ _ h4 h2.symm hm1⟩
    rw [h3]
    have := padTarget_le fl t maxWidth
    split <;> omega
  · simp only [hover, if_false]
    obtain ⟨r, h1, h2, h3, h4⟩ := padWidths_spec fl t ws0 ws0.sum maxWidth hne0 hp
    refine ⟨r, h1, ?_, by omega, hge1 _ _ h4 h2.symm hp⟩
    rw [h3]
    have := padTarget_le fl t maxWidth
    split <;> omega

/-- `width_fits` from any first pass that gives every column at least one cell. -/
theorem width_fits_core (fl : Flags) (t : Table) (maxWidth : Int)
    (hfirst : ∃ ws0, t.firstWidths fl maxWidth = some ws0 ∧ ws0.length = t.columns.length ∧ ∀ w ∈ ws0, 1 ≤ w) (hfree : t.AllFree)
    (hne : t.columns ≠ []) (hnw : ∀ c ∈ t.columns, c.noWrap = false) (hmw : (t.columns.length : Int) ≤ maxWidth) :
    ∃ ws, t.calcWidths fl maxWidth = some ws ∧ ws.sum ≤ maxWidth ∧ ws.length = t.columns.length ∧ ∀ w ∈ ws, 1 ≤ w := by
  apply width_fits_of_keep fl t maxWidth hfirst hfree hne hnw hmw
  intro ws0 h0
  obtain ⟨ws0', h0', hl, hp⟩ := hfirst
  rw [h0] at h0'
  simp only [Option.some.injEq] at h0'
  subst h0'
  have hwrap : ∀ c ∈ t.columns, c.width = none ∧ c.noWrap = false := by
    intro c hc
    obtain ⟨i, hi, rfl⟩ := List.getElem_of_mem hc
    have : (t.columns[i], i) ∈ t.indexed := by
      unfold Table.indexed; exact List.mem_zipIdx_iff_getElem?.2 (by simp [hi])
    exact ⟨(hfree _ this).1, hnw _ (List.getElem_mem _)⟩
  exact collapse_widths_keep ws0 t.wrapable maxWidth (by simp [Table.wrapable, hl]) (wrapable_all t hwrap) hp (by omega)

/-- **width_fits.**  Every column free to wrap (no `width`, `min_width`, `no_wrap`; no active ratio), cells
measuring `0 ≤ maximum` (what `Measurement.get` guarantees), and an available width of at least the structural
minimum — one cell per column: `_calculate_column_widths` succeeds, gives every column at least one cell, and
the table is NEVER wider than the width on offer.  Natural widths that fit are kept (padded at most up to
`max_width`); wider ones are collapsed to exactly `max_width`, no column below one cell
(`collapse_widths_keep`), and the re-measure (`maximum or 1`) can then only shrink a column. -/
theorem width_fits (fl : Flags) (t : Table) (maxWidth : Int) (hnr : t.NoRatio) (hfree : t.AllFree)
    (hne : t.columns ≠ []) (hnw : ∀ c ∈ t.columns, c.noWrap = false) (hmw : (t.columns.length : Int) ≤ maxWidth) :
    ∃ ws, t.calcWidths fl maxWidth = some ws ∧ ws.sum ≤ maxWidth ∧ ws.length = t.columns.length ∧ ∀ w ∈ ws, 1 ≤ w :=
  width_fits_core fl t maxWidth (firstWidths_free fl t hnr hfree maxWidth) hfree hne hnw hmw

/-- The first pass of a table of free columns with ANY non-negative ratios (zero included), flexible widths kept at
their minimums (`flexNegative`, `flexClampZero` repaired), padding not negative: every column at least one cell. -/
theorem first_widths_any_ratio (fl : Flags) (h2 : fl.flexNegative = false) (h3 : fl.flexClampZero = false) (t : Table)
    (maxWidth : Int) (hfree : t.AllFree) (hpad : ∀ i, 0 ≤ t.paddingWidth i) (hrat : ∀ c ∈ t.columns, 0 ≤ c.ratio.getD 0) :
    ∃ ws0, t.firstWidths fl maxWidth = some ws0 ∧ ws0.length = t.columns.length ∧ ∀ w ∈ ws0, 1 ≤ w := by
  apply firstWidths_ge_one fl h2 h3 t maxWidth _ hpad _ hrat
  · intro ci hci; exact (measureColumn_free t ci.2 ci.1 maxWidth (hfree ci hci)).1
  · intro c hc
    obtain ⟨i, hi, rfl⟩ := List.getElem_of_mem hc
    have : (t.columns[i], i) ∈ t.indexed := by
      unfold Table.indexed; exact List.mem_zipIdx_iff_getElem?.2 (by simp [hi])
    rw [(hfree _ this).1]; simp

/-- **width_fits with ratio columns, zero ratios included** (the `NoRatio` exclusion is gone once a zero-ratio column
keeps its flex minimum): free columns, any non-negative ratios, expanding or not — never wider than the width on offer,
every column at least one cell.  (Subsumes `width_fits_ratio` of Lemmas/LayoutTableRatio, which needs every ratio ≥ 1.) -/
theorem width_fits_any_ratio (fl : Flags) (h2 : fl.flexNegative = false) (h3 : fl.flexClampZero = false) (t : Table)
    (maxWidth : Int) (hfree : t.AllFree) (hpad : ∀ i, 0 ≤ t.paddingWidth i) (hrat : ∀ c ∈ t.columns, 0 ≤ c.ratio.getD 0)
    (hne : t.columns ≠ []) (hnw : ∀ c ∈ t.columns, c.noWrap = false) (hmw : (t.columns.length : Int) ≤ maxWidth) :
    ∃ ws, t.calcWidths fl maxWidth = some ws ∧ ws.sum ≤ maxWidth ∧ ws.length = t.columns.length ∧ ∀ w ∈ ws, 1 ≤ w :=
  width_fits_core fl t maxWidth (first_widths_any_ratio fl h2 h3 t maxWidth hfree hpad hrat) hfree hne hnw hmw

/-- Non-vacuity: a two-column text table that does not fit 9 cells is collapsed to exactly 9. -/
example : ({ columns := [{ header := wCell ['a', 'b', 'c', 'd', 'e', 'f'], footer := wCell [], cells := [wCell ['1']] },
                          { header := wCell ['g', 'h', 'i', 'j', 'k', 'l', 'm', 'n'], footer := wCell [], cells := [] }],
             padding := (0, 0, 0, 0) } : Table).calcWidths Flags.today 9 = some [4, 5] := by decide

/-- **table_expand_exact, unconditionally for free columns.**  With `table_width` recomputed after the re-measure
(`staleTableWidth` repaired) an expanding table of free columns (no `width` / `min_width` / `no_wrap`, no active ratio;
cells measuring `0 ≤ maximum`) is EXACTLY as wide as asked at every available width of at least one cell per column —
whether its natural widths fit or had to be collapsed, and whatever the re-measure did to the collapsed widths. -/
theorem table_expand_exact_core (fl : Flags) (hst : fl.staleTableWidth = false) (t : Table) (maxWidth : Int)
    (hexp : t.expand = true) (hfl : fl.minWidthCapsExpand = false ∨ t.minWidth = none)
    (hfirst : ∃ ws0, t.firstWidths fl maxWidth = some ws0 ∧ ws0.length = t.columns.length ∧ ∀ w ∈ ws0, 1 ≤ w)
    (hfree : t.AllFree) (hne : t.columns ≠ []) (hnw : ∀ c ∈ t.columns, c.noWrap = false)
    (hmw : (t.columns.length : Int) ≤ maxWidth) :
    ∃ ws, t.calcWidths fl maxWidth = some ws ∧ ws.sum = maxWidth ∧ ws.length = t.columns.length := by
  obtain ⟨ws0, h0, hl, hp⟩ := hfirst
  by_cases hover : ws0.sum > maxWidth
  · have hwrap : ∀ c ∈ t.columns, c.width = none ∧ c.noWrap = false := by
      intro c hc
      obtain ⟨i, hi, rfl⟩ := List.getElem_of_mem hc
      have : (t.columns[i], i) ∈ t.indexed := by
        unfold Table.indexed; exact List.mem_zipIdx_iff_getElem?.2 (by simp [hi])
      exact ⟨(hfree _ this).1, hnw _ (List.getElem_mem _)⟩
    obtain ⟨hsw, hsum, hrl, _⟩ := shrinkWidths_all_wrappable t maxWidth ws0 hl (fun w hw => by have := hp w hw; omega)
      (by omega) (by omega) hwrap
    have hkeep := collapse_widths_keep ws0 t.wrapable maxWidth (by simp [Table.wrapable, hl]) (wrapable_all t hwrap) hp (by omega)
    obtain ⟨hml, hm1, hmle⟩ := remeasure_free t hfree _ hrl hkeep
    have hmne : t.remeasure (collapseWidths ws0 t.wrapable maxWidth) ≠ [] := by
      intro h; rw [h] at hml; simp at hml
      rw [← hml] at hrl
      exact hne (List.eq_nil_of_length_eq_zero hrl.symm)
    have hs := sum_le_of_zip_le _ _ hml hmle
    rw [calcWidths_ne fl t maxWidth hne, h0]
    simp only [hover, if_true, hsw, hst, Bool.false_eq_true, if_false]
    obtain ⟨r, h1, h2, h3, _⟩ := padWidths_spec fl t _ (t.remeasure (collapseWidths ws0 t.wrapable maxWidth)).sum maxWidth hmne hm1
    refine ⟨r, h1, ?_, by omega⟩
    rw [h3, padTarget_expand fl t maxWidth hexp hfl]
    split
    · omega
    · rename_i hc
      unfold Table.padCond at hc
      simp only [hexp, Bool.and_true, Bool.or_eq_true, decide_eq_true_eq, not_or] at hc
      omega
  · have hne0 : ws0 ≠ [] := by
      intro h; rw [h] at hl; simp at hl
      exact hne (List.eq_nil_of_length_eq_zero hl.symm)
    obtain ⟨ws, h1, h2, h3, _⟩ := table_expand_exact fl t maxWidth ws0 hexp hfl hne h0 hne0 hp (by omega)
    exact ⟨ws, h1, h2, by omega⟩

/-- …in particular for tables without active ratio columns. -/
theorem table_expand_exact_all (fl : Flags) (hst : fl.staleTableWidth = false) (t : Table) (maxWidth : Int)
    (hexp : t.expand = true) (hfl : fl.minWidthCapsExpand = false ∨ t.minWidth = none)
    (hnr : t.NoRatio) (hfree : t.AllFree) (hne : t.columns ≠ []) (hnw : ∀ c ∈ t.columns, c.noWrap = false)
    (hmw : (t.columns.length : Int) ≤ maxWidth) :
    ∃ ws, t.calcWidths fl maxWidth = some ws ∧ ws.sum = maxWidth ∧ ws.length = t.columns.length :=
  table_expand_exact_core fl hst t maxWidth hexp hfl (firstWidths_free fl t hnr hfree maxWidth) hfree hne hnw hmw

/-- **table_expand_exact with ratio columns, zero ratios included**: with all repairs an expanding table of free columns
with any non-negative ratios is EXACTLY as wide as asked at every available width of at least one cell per column. -/
theorem table_expand_exact_any_ratio (fl : Flags) (hst : fl.staleTableWidth = false) (h2 : fl.flexNegative = false)
    (h3 : fl.flexClampZero = false) (t : Table) (maxWidth : Int)
    (hexp : t.expand = true) (hfl : fl.minWidthCapsExpand = false ∨ t.minWidth = none)
    (hfree : t.AllFree) (hpad : ∀ i, 0 ≤ t.paddingWidth i) (hrat : ∀ c ∈ t.columns, 0 ≤ c.ratio.getD 0)
    (hne : t.columns ≠ []) (hnw : ∀ c ∈ t.columns, c.noWrap = false) (hmw : (t.columns.length : Int) ≤ maxWidth) :
    ∃ ws, t.calcWidths fl maxWidth = some ws ∧ ws.sum = maxWidth ∧ ws.length = t.columns.length :=
  table_expand_exact_core fl hst t maxWidth hexp hfl (first_widths_any_ratio fl h2 h3 t maxWidth hfree hpad hrat) hfree hne hnw hmw

/-- Witness (found by the C01/C09 builder; before fix 75c2776, `flexClampZero = true` with every other flag repaired): with
`max(0, width)` a zero-ratio column that finds no room is handed 0 cells
and gets one back from the `maximum or 1` re-measure after the collapse — the expanding table is ONE CELL TOO WIDE
(7 for 6 here) at every width where the wide ordinary column wraps.  With `max(minimum, width)` (fix 75c2776,
`Flags.allRepaired`) it is exact. -/
def wTableRatioZero : Table :=
  { columns := [{ header := wCell [], footer := wCell [], cells := [], ratio := some 1 },
                { header := wCell [], footer := wCell [], cells := [], ratio := some 0 },
                { header := wCell ['w', 'i', 'd', 'e', ' ', 'c', 'o', 'l', 'u', 'm'], footer := wCell [], cells := [] }],
    box := none, expandFlag := true, padding := (0, 0, 0, 0) }

theorem old_ratio_zero_column_too_wide :
    wTableRatioZero.calcWidths { Flags.allRepaired with flexClampZero := true } 6 = some [1, 1, 5] := by decide
example : wTableRatioZero.calcWidths Flags.allRepaired 6 = some [1, 1, 4] := by decide

/-- Witness: before fix f955c6c (`Flags.repaired` leaves `staleTableWidth` on) an expanding table whose ratio column was handed its flex minimum (1 + padding) and then collapsed is
re-measured down to its content and never padded again — 4 cells instead of 6. -/
def wTableStale : Table :=
  { columns := [{ header := wCell ['a', 'a', 'a', 'a'], footer := wCell [], cells := [] },
                { header := wCell ['b'], footer := wCell [], cells := [], ratio := some 1 }],
    box := none, expandFlag := true, padding := (0, 2, 0, 0) }

theorem old_expand_stale_width_fails : wTableStale.calcWidths Flags.repaired 6 = some [3, 1] := by decide
example : wTableStale.calcWidths Flags.allRepaired 6 = some [5, 1] := by decide

/-! ### every kind of column: fixed `width`, `min_width`, `max_width`, `no_wrap` -/

theorem floorSum_nonneg (t : Table) : 0 ≤ t.floorSum := by
  unfold Table.floorSum
  apply sum_nonneg_of_all
  intro x hx
  simp only [List.mem_map] at hx
  obtain ⟨ci, _, rfl⟩ := hx
  exact colFloor_nonneg t ci.2 ci.1

/-- **The structural minimum, and the exact bound, for ARBITRARY columns.**  Let `ws0` be the first-pass widths (every
column at least one cell).  The table's structural minimum is `Σ ws0 over the columns that may not shrink` (fixed `width`,
`no_wrap`) `+ 1 per column that may` (`nonWrapSum + wrapCount`).  If `max_width` is at least that:
`_calculate_column_widths` succeeds, gives every column at least one cell, never needs the last-resort `ratio_reduce`, and
the table is at most `max_width + floorSum` wide, where `floorSum` adds up the `min_width + padding` floors of the columns
that have a `min_width` — the ONLY way the result exceeds the offer (the collapse ignores `min_width`, the re-measure puts
it back).  Any sane table, any flags. -/
theorem width_bound_general (fl : Flags) (t : Table) (maxWidth : Int) (hsane : t.Sane) (hne : t.columns ≠ [])
    (ws0 : List Int) (h0 : t.firstWidths fl maxWidth = some ws0) (hl : ws0.length = t.columns.length) (hp : ∀ w ∈ ws0, 1 ≤ w)
    (hbudget : nonWrapSum (ws0.zip t.wrapable) + wrapCount (ws0.zip t.wrapable) ≤ maxWidth) :
    ∃ ws, t.calcWidths fl maxWidth = some ws ∧ ws.sum ≤ maxWidth + t.floorSum ∧ ws.length = t.columns.length ∧ ∀ w ∈ ws, 1 ≤ w := by
  have hF := floorSum_nonneg t
  have hne0 : ws0 ≠ [] := by
    intro h; rw [h] at hl; simp at hl
    exact hne (List.eq_nil_of_length_eq_zero hl.symm)
  have hge1 : ∀ (a b : List Int), (∀ p ∈ a.zip b, p.1 ≤ p.2) → a.length = b.length → (∀ w ∈ a, 1 ≤ w) → ∀ w ∈ b, 1 ≤ w := by
    intro a b hz hlen ha w hw
    obtain ⟨i, hi, rfl⟩ := List.getElem_of_mem hw
    have hia : i < a.length := by omega
    have := hz (a[i], b[i]) (by rw [List.mem_iff_getElem]; exact ⟨i, by simp; omega, by simp⟩)
    have := ha a[i] (List.getElem_mem _)
    simp only at *; omega
  rw [calcWidths_ne fl t maxWidth hne, h0]
  by_cases hover : ws0.sum > maxWidth
  · simp only [hover, if_true]
    obtain ⟨hpre, hrs, hrl, hr1⟩ := shrinkPre_budget t maxWidth ws0 hl hp (by omega) hbudget
    unfold Table.shrinkWidths
    simp only [hpre]
    obtain ⟨hml, hm1, hms⟩ := remeasure_general t hsane _ hrl hr1
    have hmne : t.remeasure (collapseWidths ws0 t.wrapable maxWidth) ≠ [] := by
      intro h; rw [h] at hml; simp at hml
      exact hne (List.eq_nil_of_length_eq_zero hml.symm)
    by_cases hst : fl.staleTableWidth = true
    · simp only [hst, if_true]
      obtain ⟨r, h1, h2, h3, h4⟩ := padWidths_spec fl t _ (collapseWidths ws0 t.wrapable maxWidth).sum maxWidth hmne hm1
      refine ⟨r, h1, ?_, by omega, hge1 _ _ h4 h2.symm hm1⟩
      rw [h3]
      have := padTarget_le fl t maxWidth
      split <;> omega
    · simp only [hst, Bool.false_eq_true, if_false]
      obtain ⟨r, h1, h2, h3, h4⟩ := padWidths_spec fl t _ (t.remeasure (collapseWidths ws0 t.wrapable maxWidth)).sum maxWidth hmne hm1
      refine ⟨r, h1, ?_, by omega, hge1 _ _ h4 h2.symm hm1⟩
      rw [h3]
      have := padTarget_le fl t maxWidth
      split <;> omega
  · simp only [hover, if_false]
    obtain ⟨r, h1, h2, h3, h4⟩ := padWidths_spec fl t ws0 ws0.sum maxWidth hne0 hp
    refine ⟨r, h1, ?_, by omega, hge1 _ _ h4 h2.symm hp⟩
    rw [h3]
    have := padTarget_le fl t maxWidth
    split <;> omega

/-- **width_fits for arbitrary columns without a binding `min_width`**: fixed-width, capped and `no_wrap` columns allowed,
no active ratio; at or above the structural minimum the table is never wider than the width on offer. -/
theorem width_fits_general (fl : Flags) (t : Table) (maxWidth : Int) (hsane : t.Sane) (hnr : t.NoRatio) (hne : t.columns ≠ [])
    (hnomin : ∀ c ∈ t.columns, c.minWidth = none ∨ c.width.isSome = true)
    (hbudget : nonWrapSum ((t.indexed.map (fun ci => orOne (t.measureColumn ci.2 ci.1 maxWidth).maximum)).zip t.wrapable)
      + wrapCount ((t.indexed.map (fun ci => orOne (t.measureColumn ci.2 ci.1 maxWidth).maximum)).zip t.wrapable) ≤ maxWidth) :
    ∃ ws, t.calcWidths fl maxWidth = some ws ∧ ws.sum ≤ maxWidth ∧ ws.length = t.columns.length ∧ ∀ w ∈ ws, 1 ≤ w := by
  have hF : t.floorSum = 0 := by
    unfold Table.floorSum
    apply sum_zero_of_all_zero
    intro x hx
    simp only [List.mem_map] at hx
    obtain ⟨ci, hci, rfl⟩ := hx
    unfold Table.colFloor
    rcases hnomin ci.1 (mem_indexed t ci hci) with h | h
    · simp [h]
    · simp [h]
  obtain ⟨ws, h1, h2, h3, h4⟩ := width_bound_general fl t maxWidth hsane hne _ (firstWidths_noRatio fl t hnr maxWidth)
    (by simp [indexed_length]) (by
      intro w hw
      simp only [List.mem_map] at hw
      obtain ⟨ci, hci, rfl⟩ := hw
      exact orOne_pos _ (measureColumn_nonneg t hsane ci.2 ci.1 (mem_indexed t ci hci) maxWidth)) hbudget
  exact ⟨ws, h1, by omega, h3, h4⟩

/-- BELOW the structural minimum the table can be wider than the offer, by an amount the order-dependent caps of the
last-resort `ratio_reduce` decide: two `no_wrap` columns measuring 6 and 1 when offered 6 cells (structural minimum 7) get
`[6, 1]` — 7 cells, 1 too many (`ratio_reduce(1, [1,1], [6,1], [6,1]) = [6, 0]`: banker's rounding gives the first column
`round(1/2) = 0` to give up, the second all of its single cell; then `0 or 1`). -/
theorem below_structural_minimum_overflows :
    ({ columns := [{ header := wCell ['a', 'a', 'a', 'a', 'a', 'a', 'a', 'a', 'a', 'a'], footer := wCell [], cells := [], noWrap := true },
                   { header := wCell ['b'], footer := wCell [], cells := [], noWrap := true }],
       padding := (0, 0, 0, 0) } : Table).calcWidths Flags.allRepaired 6 = some [6, 1] := by decide

/-- …and with a `min_width` the bound `max_width + floorSum` is attained: columns of natural width 12 with `min_width` 10
and 12 without, offered 16 (structural minimum 2): collapsed evenly to `[8, 8]`, re-measured to `[10, 8]` — 18 in 16. -/
theorem min_width_overflows :
    ({ columns := [{ header := wCell ['a', 'a', 'a', 'a', 'a', 'a', 'a', 'a', 'a', 'a', 'a', 'a'], footer := wCell [], cells := [], minWidth := some 10 },
                   { header := wCell ['b', 'b', 'b', 'b', 'b', 'b', 'b', 'b', 'b', 'b', 'b', 'b'], footer := wCell [], cells := [] }],
       padding := (0, 0, 0, 0) } : Table).calcWidths Flags.allRepaired 16 = some [10, 8] := by decide

/-! ### exact expansion for EVERY kind of column: `min_width`, `no_wrap`, fixed `width`, `max_width` -/

/-- **table_expand_exact for arbitrary columns.**  With `table_width` refreshed after the re-measure (`staleTableWidth` repaired, as
in /repo now) an expanding table of ARBITRARY sane columns — `min_width`, `no_wrap`, fixed `width`, `max_width`, ratio columns through
the first-pass widths `ws0` — offered at least its structural minimum (`Σ ws0` over the columns that may not shrink + one cell per column
that may) is EXACTLY as wide as asked, every column at least one cell, PROVIDED the re-measure after the collapse does not push the
columns over the offer again.  (Natural widths that fit: no proviso at all.) -/
theorem table_expand_exact_general (fl : Flags) (hst : fl.staleTableWidth = false) (t : Table) (maxWidth : Int)
    (hexp : t.expand = true) (hfl : fl.minWidthCapsExpand = false ∨ t.minWidth = none)
    (hsane : t.Sane) (hne : t.columns ≠ [])
    (ws0 : List Int) (h0 : t.firstWidths fl maxWidth = some ws0) (hl : ws0.length = t.columns.length) (hp : ∀ w ∈ ws0, 1 ≤ w)
    (hbudget : nonWrapSum (ws0.zip t.wrapable) + wrapCount (ws0.zip t.wrapable) ≤ maxWidth)
    (hrem : maxWidth < ws0.sum → (t.remeasure (collapseWidths ws0 t.wrapable maxWidth)).sum ≤ maxWidth) :
    ∃ ws, t.calcWidths fl maxWidth = some ws ∧ ws.sum = maxWidth ∧ ws.length = t.columns.length ∧ ∀ w ∈ ws, 1 ≤ w :=
  calcWidths_expand_exact_general fl hst t maxWidth hexp hfl hsane hne ws0 h0 hl hp hbudget hrem

/-- **…with `min_width` columns**: the proviso holds whenever `_collapse_widths` (which knows nothing of `min_width`) leaves every
column at or above its `min_width + padding` floor (`Table.floors`; 0 for a column without `min_width`).  Then the re-measure cannot
widen any column and the expanding table is exactly as wide as asked.  `expand_min_width_column_overflows` shows the condition is
needed: below a floor the code as it stands is too wide. -/
theorem table_expand_exact_above_floors (fl : Flags) (hst : fl.staleTableWidth = false) (t : Table) (maxWidth : Int)
    (hexp : t.expand = true) (hfl : fl.minWidthCapsExpand = false ∨ t.minWidth = none)
    (hsane : t.Sane) (hne : t.columns ≠ [])
    (ws0 : List Int) (h0 : t.firstWidths fl maxWidth = some ws0) (hl : ws0.length = t.columns.length) (hp : ∀ w ∈ ws0, 1 ≤ w)
    (hbudget : nonWrapSum (ws0.zip t.wrapable) + wrapCount (ws0.zip t.wrapable) ≤ maxWidth)
    (hfloor : maxWidth < ws0.sum → ∀ p ∈ (collapseWidths ws0 t.wrapable maxWidth).zip t.floors, p.2 ≤ p.1) :
    ∃ ws, t.calcWidths fl maxWidth = some ws ∧ ws.sum = maxWidth ∧ ws.length = t.columns.length ∧ ∀ w ∈ ws, 1 ≤ w := by
  apply table_expand_exact_general fl hst t maxWidth hexp hfl hsane hne ws0 h0 hl hp hbudget
  intro hover
  obtain ⟨_, hrs, hrl, hr1⟩ := shrinkPre_budget t maxWidth ws0 hl hp hover hbudget
  have := remeasure_le_of_floor t hsane _ hrl hr1 (hfloor hover)
  omega

/-- **…with `no_wrap` columns (and fixed-width / capped ones), no `min_width` that is read, no active ratio**: NO proviso.  At every
available width from the structural minimum up — the natural widths of the columns that may not shrink plus one cell for each that
may — the expanding table is exactly as wide as asked. -/
theorem table_expand_exact_no_wrap (fl : Flags) (hst : fl.staleTableWidth = false) (t : Table) (maxWidth : Int)
    (hexp : t.expand = true) (hfl : fl.minWidthCapsExpand = false ∨ t.minWidth = none)
    (hsane : t.Sane) (hnr : t.NoRatio) (hne : t.columns ≠ [])
    (hnomin : ∀ c ∈ t.columns, c.minWidth = none ∨ c.width.isSome = true)
    (hbudget : nonWrapSum ((t.indexed.map (fun ci => orOne (t.measureColumn ci.2 ci.1 maxWidth).maximum)).zip t.wrapable)
      + wrapCount ((t.indexed.map (fun ci => orOne (t.measureColumn ci.2 ci.1 maxWidth).maximum)).zip t.wrapable) ≤ maxWidth) :
    ∃ ws, t.calcWidths fl maxWidth = some ws ∧ ws.sum = maxWidth ∧ ws.length = t.columns.length ∧ ∀ w ∈ ws, 1 ≤ w := by
  have hp : ∀ w ∈ t.indexed.map (fun ci => orOne (t.measureColumn ci.2 ci.1 maxWidth).maximum), 1 ≤ w := by
    intro w hw
    simp only [List.mem_map] at hw
    obtain ⟨ci, hci, rfl⟩ := hw
    exact orOne_pos _ (measureColumn_nonneg t hsane ci.2 ci.1 (mem_indexed t ci hci) maxWidth)
  have hl : (t.indexed.map (fun ci => orOne (t.measureColumn ci.2 ci.1 maxWidth).maximum)).length = t.columns.length := by
    simp [indexed_length]
  apply table_expand_exact_above_floors fl hst t maxWidth hexp hfl hsane hne _ (firstWidths_noRatio fl t hnr maxWidth) hl hp hbudget
  intro hover p hpm
  obtain ⟨_, _, _, hr1⟩ := shrinkPre_budget t maxWidth _ hl hp hover hbudget
  have h1 := hr1 p.1 (List.of_mem_zip hpm).1
  have h2 := floors_zero t hnomin p.2 (List.of_mem_zip hpm).2
  omega

/-- Non-vacuity: a `no_wrap` column beside a wrapping `min_width` column whose floor (3) the collapse stays above — offered 12 cells
for natural widths 6 + 12, the expanding table is exactly 12 wide; and a `no_wrap` column alone with a free one. -/
example : ({ columns := [{ header := wCell ['a', 'a', 'a', 'a', 'a', 'a'], footer := wCell [], cells := [], noWrap := true },
                          { header := wCell ['b', 'b', 'b', 'b', 'b', 'b', 'b', 'b', 'b', 'b', 'b', 'b'], footer := wCell [], cells := [], minWidth := some 3 }],
             expandFlag := true, padding := (0, 0, 0, 0) } : Table).calcWidths Flags.allRepaired 12 = some [6, 6] := by decide
example : ({ columns := [{ header := wCell ['a', 'a', 'a', 'a', 'a', 'a'], footer := wCell [], cells := [], noWrap := true },
                          { header := wCell ['b', 'b', 'b', 'b', 'b', 'b', 'b', 'b', 'b', 'b', 'b', 'b'], footer := wCell [], cells := [] }],
             expandFlag := true, padding := (0, 0, 0, 0) } : Table).floors = [0, 0] := by decide

/-- **Finding (the code as it stands, `Flags.allRepaired` = /repo now): an expanding table with a `min_width` column is WIDER than
asked although it could fit.**  Columns of natural width 12, the first with `min_width=10`, `expand=True`, 16 cells on offer (structural
minimum 10 + 1 = 11): `_collapse_widths` ignores `min_width` and shrinks both columns to 8, the re-measure puts the first back to 10 —
`[10, 8]`, 18 cells in 16 (`[10, 6]` would fit and keep the floor).  `table_expand_exact_above_floors` is exactly the part of the
statement that holds. -/
def wTableMinCol : Table :=
  { columns := [{ header := wCell ['a', 'a', 'a', 'a', 'a', 'a', 'a', 'a', 'a', 'a', 'a', 'a'], footer := wCell [], cells := [], minWidth := some 10 },
                { header := wCell ['b', 'b', 'b', 'b', 'b', 'b', 'b', 'b', 'b', 'b', 'b', 'b'], footer := wCell [], cells := [] }],
    expandFlag := true, padding := (0, 0, 0, 0) }

theorem expand_min_width_column_overflows :
    wTableMinCol.calcWidths Flags.allRepaired 16 = some [10, 8] ∧ wTableMinCol.expand = true ∧
    nonWrapSum (([12, 12] : List Int).zip wTableMinCol.wrapable) + wrapCount (([12, 12] : List Int).zip wTableMinCol.wrapable) + wTableMinCol.floorSum ≤ 16 := by
  decide

/-! ### `add_row`: the row bookkeeping (`Model/TableRows.lean`) -/

section AddRow
open TableRows

/-- `add_row` raises `NotRenderableError` exactly when one of its arguments is not renderable (`None` is fine). -/
theorem add_row_raises_iff {α : Type} (blank blankText : α) (b : Builder α) (args : List (Arg α)) (m : RowMeta) :
    (b.addRow blank blankText args m).2 = true ↔ ∀ a ∈ args, a ≠ Arg.bad :=
  addRow_flag blank blankText b args m

/-- **One accepted `add_row`** on a table whose columns each hold one cell per row: it still does, `rows` got exactly this `Row` at
the end, there are `max(columns, arguments)` columns, no earlier cell moved, a column the call created holds `Text("")` in every
earlier row, and the new row holds the arguments in order (`""` for `None` and for the columns the call did not reach). -/
theorem add_row_spec {α : Type} (blank blankText : α) (b : Builder α) (hr : b.Rect) (args : List (Arg α)) (m : RowMeta)
    (hok : (b.addRow blank blankText args m).2 = true) :
    (b.addRow blank blankText args m).1.Rect ∧ (b.addRow blank blankText args m).1.rows = b.rows ++ [m] ∧
    (b.addRow blank blankText args m).1.cols.length = max b.cols.length args.length ∧
    (∀ j k, j < b.cols.length → k < b.rows.length → (b.addRow blank blankText args m).1.cellAt blank j k = b.cellAt blank j k) ∧
    (∀ j k, b.cols.length ≤ j → j < (b.addRow blank blankText args m).1.cols.length → k < b.rows.length →
      (b.addRow blank blankText args m).1.cellAt blank j k = blankText) ∧
    (∀ j, j < (b.addRow blank blankText args m).1.cols.length →
      (b.addRow blank blankText args m).1.cellAt blank j b.rows.length = (args.getD j Arg.none).val blank) :=
  addRow_ok blank blankText b hr args m hok

/-- **Rows are kept in insertion order, for every sequence of accepted `add_row` calls** (any number of calls, any number of
arguments each, on any rectangular table — in particular the empty one with `n` declared columns): the table stays rectangular, `rows`
is the old rows followed by one `Row` per call in call order (so `end_section` / the row style sit at the call's own index), and row
`b.rows.length + i` holds the arguments of call `i` — `""` for `None` or a missing argument, `Text("")` in the columns later calls
created. -/
theorem add_rows_in_insertion_order {α : Type} (blank blankText : α) (calls : List (List (Arg α) × RowMeta)) (b : Builder α)
    (hr : b.Rect) (hok : (b.addRows blank blankText calls).2 = true) :
    (b.addRows blank blankText calls).1.Rect ∧ (b.addRows blank blankText calls).1.rows = b.rows ++ calls.map (·.2) ∧
    b.cols.length ≤ (b.addRows blank blankText calls).1.cols.length ∧
    (∀ j k, j < b.cols.length → k < b.rows.length → (b.addRows blank blankText calls).1.cellAt blank j k = b.cellAt blank j k) ∧
    (∀ j k, b.cols.length ≤ j → j < (b.addRows blank blankText calls).1.cols.length → k < b.rows.length →
      (b.addRows blank blankText calls).1.cellAt blank j k = blankText) ∧
    (∀ i, i < calls.length → ∀ j, j < (b.addRows blank blankText calls).1.cols.length →
      (b.addRows blank blankText calls).1.cellAt blank j (b.rows.length + i) =
        if j < ncolsAfter b.cols.length calls i then ((calls.getD i ([], {})).1.getD j Arg.none).val blank else blankText) :=
  addRows_spec blank blankText calls b hr hok

/-- **A call that raises leaves the table half-updated** (the code as it stands; `Row` is not appended): the columns left of the
offending argument already hold their new cell, the column AT it exists (created and back-filled if it was missing) without one,
the columns to its right are untouched — the table is no longer rectangular. -/
theorem add_row_error_state {α : Type} (blank blankText : α) (b : Builder α) (pre post : List (Arg α)) (m : RowMeta)
    (hpre : ∀ a ∈ pre, a ≠ Arg.bad) :
    b.addRow blank blankText (pre ++ Arg.bad :: post) m =
      ({ cols := (List.range pre.length).map (fun j => b.cols.getD j (List.replicate b.rows.length blankText) ++ [(pre.getD j Arg.none).val blank])
            ++ b.cols.getD pre.length (List.replicate b.rows.length blankText) :: b.cols.drop (pre.length + 1),
         rows := b.rows }, false) := by
  have hp : ∃ post', padArgs b.cols.length (pre ++ Arg.bad :: post) = pre ++ Arg.bad :: post' := by
    unfold padArgs
    split
    · exact ⟨post ++ List.replicate (b.cols.length - (pre ++ Arg.bad :: post).length) Arg.none, by simp [List.append_assoc]⟩
    · exact ⟨post, rfl⟩
  obtain ⟨post', hp⟩ := hp
  unfold Builder.addRow
  simp only [hp, addCells_bad blank blankText b.rows.length pre post' b.cols hpre, Bool.false_eq_true, if_false]

/-- Non-vacuity: two declared columns; `add_row("a")`, then `add_row("b", None, "c", end_section=True)` creates a third column and
back-fills row 0; a third call with a non-renderable second argument raises and leaves column 0 one cell longer. -/
example : (({ cols := [[], []], rows := [] } : Builder Nat).addRows 0 99
      [([Arg.ok 1], {}), ([Arg.ok 2, Arg.none, Arg.ok 3], { endSection := true })]).1.cols = [[1, 2], [0, 0], [99, 3]] := by decide
example : (({ cols := [[1, 2], [0, 0], [99, 3]], rows := [{}, {}] } : Builder Nat).addRow 0 99 [Arg.ok 4, Arg.bad] {}) =
    ({ cols := [[1, 2, 4], [0, 0], [99, 3]], rows := [{}, {}] }, false) := by decide

/-- **…and so the rendered table shows header, the `add_row` calls in call order, footer**: for a table whose columns' `_cells` are
what a sequence of accepted `add_row` calls built (from a rectangular start), the rows `_render` zips are the header (if shown), one
row per `Row` in insertion order, the footer (if shown) — `rows_in_order` then puts each on lines of its own, top to bottom. -/
theorem built_table_rows (blank blankText : Cell) (b0 : Builder Cell) (calls : List (List (Arg Cell) × RowMeta)) (t : Table)
    (hne : t.columns ≠ []) (hb0 : b0.Rect) (hok : (b0.addRows blank blankText calls).2 = true)
    (hcols : t.columns.map (·.cells) = (b0.addRows blank blankText calls).1.cols) :
    t.rows = (if t.showHeader then [t.columns.map (·.header)] else [])
      ++ (List.range (b0.rows.length + calls.length)).map (fun r => t.columns.map (fun c => c.cells.getD r default))
      ++ (if t.showFooter then [t.columns.map (·.footer)] else []) := by
  obtain ⟨h1, h2, _⟩ := addRows_spec blank blankText calls b0 hb0 hok
  apply rows_header_cells_footer t _ hne
  intro c hc
  have : c.cells ∈ (b0.addRows blank blankText calls).1.cols := by rw [← hcols]; exact List.mem_map_of_mem hc
  rw [h1 _ this, h2]
  simp

end AddRow

/-! ### which style every character carries (`Model/TableRows.lean`, styles as the list of their sources) -/

section Styles
open TableRows

/-- `row_styles` cycle: data row `r` starts with `row_styles[r % n]` (an index inside the list), rows `r` and `r + n` get the same
entry, and the row's own style — if it has one — comes after it (so it wins). -/
theorem row_styles_cycle (n : Nat) (hn : 0 < n) (rows : List RowMeta) (r : Nat) :
    getRowStyle n rows r = Src.rowStyles (r % n) :: (match (rows.getD r {}).style with | some s => [Src.row s] | none => []) ∧
    r % n < n ∧ (r + n) % n = r % n := by
  refine ⟨?_, Nat.mod_lt _ hn, by simp⟩
  unfold getRowStyle
  simp only [Nat.pos_iff_ne_zero.mp hn, if_false, List.singleton_append]
  rfl

/-- Without `row_styles` a row carries only its own style (or none). -/
theorem row_style_without_row_styles (rows : List RowMeta) (r : Nat) :
    getRowStyle 0 rows r = (match (rows.getD r {}).style with | some s => [Src.row s] | none => []) := by
  unfold getRowStyle
  simp only [if_true, List.nil_append]
  rfl

/-- **Which style a cell's characters carry**, in a table whose columns each hold `nrows` cells (so the zipped row's kind and the
column entry's kind agree; `n` = number of zipped rows): the header row carries `table.style + table.header_style +
column.header_style` and NO row style; the footer row `table.style + table.footer_style + column.footer_style`; data row `r`
`table.style + row_styles[r % k] + rows[r].style + table.style + column.style` — to which the cell's own rendering adds its styles
on the right. -/
theorem cell_style_spec (showHeader showFooter : Bool) (k : Nat) (rows : List RowMeta) (n index j : Nat) :
    cellStyle showHeader showFooter k rows n index j n =
      match rowKind showHeader showFooter n index with
      | .header => [Src.table, Src.tableHeader, Src.colHeader j]
      | .footer => [Src.table, Src.tableFooter, Src.colFooter j]
      | .data r => [Src.table] ++ getRowStyle k rows r ++ [Src.table, Src.colStyle j] := by
  unfold cellStyle cellOwnStyle rowKind
  by_cases h1 : (index == 0 && showHeader) = true
  · simp [h1, rowStyle]
  · by_cases h2 : (index + 1 == n && showFooter) = true
    · simp [h1, h2, rowStyle]
    · simp [h1, h2, rowStyle]

/-- The zipped row at `index` is the header exactly at index 0 of a table that shows it, the footer exactly at the last index of one
that shows it, and otherwise data row `index - (1 if show_header)` — which is a valid index into `table.rows`. -/
theorem row_kind_spec (showHeader showFooter : Bool) (nrows n index : Nat)
    (hn : n = (if showHeader then 1 else 0) + nrows + (if showFooter then 1 else 0)) (hidx : index < n) :
    (rowKind showHeader showFooter n index = .header ↔ (index = 0 ∧ showHeader = true)) ∧
    (rowKind showHeader showFooter n index = .footer → (index + 1 = n ∧ showFooter = true)) ∧
    (∀ r, rowKind showHeader showFooter n index = .data r → r < nrows ∧ index = r + (if showHeader then 1 else 0)) := by
  subst hn
  unfold rowKind
  cases showHeader <;> cases showFooter <;>
    simp only [Bool.and_true, Bool.and_false, Bool.false_eq_true, if_false, if_true, beq_iff_eq, Nat.add_zero, Nat.zero_add] at hidx ⊢ <;>
    refine ⟨?_, ?_, ?_⟩ <;> grind

/-- Borders, edges and separators never depend on the row: always `table.style + border_style`; a divider does only when its
character is whitespace, and then only through the row's BACKGROUND. -/
theorem divider_style_spec (sp showHeader showFooter : Bool) (k : Nat) (rows : List RowMeta) (n index : Nat) :
    dividerStyle sp showHeader showFooter k rows n index =
      if sp then [Src.bgOf (rowStyle k rows (rowKind showHeader showFooter n index)), Src.table, Src.border] else [Src.table, Src.border] := by
  unfold dividerStyle borderStyle
  split <;> simp

/-- The blank lines that fill a shorter cell up to the row height carry the table and row style only (no column style). -/
theorem fill_is_cell_prefix (showHeader showFooter : Bool) (k : Nat) (rows : List RowMeta) (n index j m : Nat) :
    cellStyle showHeader showFooter k rows n index j m =
      fillStyle showHeader showFooter k rows n index ++ cellOwnStyle showHeader showFooter j m index := rfl

end Styles

/-! ### totality (what C14 needs): `_calculate_column_widths` never trips `assert total_ratio > 0` -/

/-- **calc_widths_total.**  With the two assertion defects repaired (`noColumnsAsserts`, `flexNegative` = false; the
other flags either way), `_calculate_column_widths` returns widths for EVERY table whose options are not negative
and whose cells measure `0 ≤ maximum` (`Table.Sane`): any number of columns INCLUDING ZERO, any mix of fixed /
capped / ratio (also ratio 0) columns, expanding or not, any `width` / `min_width`, at every `max_width`
(negative, 0, tiny, huge). -/
theorem calc_widths_total (fl : Flags) (h1 : fl.noColumnsAsserts = false) (h2 : fl.flexNegative = false)
    (t : Table) (h : t.Sane) (maxWidth : Int) : ∃ ws, t.calcWidths fl maxWidth = some ws :=
  calcWidths_total fl h1 h2 t h maxWidth

/-- …hence `Table.__rich_console__` and `Table.__rich_measure__` never raise that assertion either. -/
theorem table_render_total (fl : Flags) (h1 : fl.noColumnsAsserts = false) (h2 : fl.flexNegative = false)
    (t : Table) (h : t.Sane) (avail : Int) : ∃ r, t.render fl cw avail = some r := by
  obtain ⟨ws, hws⟩ := calcWidths_total fl h1 h2 t h (t.width.getD avail - t.extraWidth)
  unfold Table.render
  simp only [hws]
  exact ⟨_, rfl⟩

theorem rich_measure_total (fl : Flags) (h1 : fl.noColumnsAsserts = false) (h2 : fl.flexNegative = false)
    (t : Table) (h : t.Sane) (maxWidth : Int) : ∃ m, t.richMeasure fl maxWidth = some m := by
  unfold Table.richMeasure
  simp only
  split
  · exact ⟨_, rfl⟩
  · obtain ⟨ws, hws⟩ := calcWidths_total fl h1 h2 t h (t.width.getD maxWidth - t.extraWidth)
    simp only [hws]
    exact ⟨_, rfl⟩

/-- Witnesses (found by the C14 builder; `Flags.repaired` leaves these two defects as they were in rich 9.10.0 as found;
repaired in /repo by fixes 1d61bac and ab98098, `Flags.allRepaired`): a table
without columns that expands / has a `width` / a `min_width` asserts … -/
theorem old_no_columns_asserts :
    ({ columns := [], expandFlag := true } : Table).calcWidths Flags.repaired 20 = none ∧
    ({ columns := [], width := some 10 } : Table).calcWidths Flags.repaired 10 = none ∧
    ({ columns := [], minWidth := some 10 } : Table).calcWidths Flags.repaired 20 = none := by decide

example : ({ columns := [], expandFlag := true } : Table).calcWidths Flags.allRepaired 20 = some [] := by decide

/-- … and so does `Table(expand=True, min_width=5, padding=0)` with a `ratio=1` and a `ratio=0` column when no room is
left: `ratio_distribute(0, [1, 0], [1, 1]) = [1, -1]`, the widths sum to 0. -/
def wTableNarrow : Table :=
  { columns := [{ header := wCell [], footer := wCell [], cells := [], ratio := some 1 },
                { header := wCell [], footer := wCell [], cells := [], ratio := some 0 }],
    expandFlag := true, minWidth := some 5, padding := (0, 0, 0, 0) }

theorem old_flex_negative_asserts : wTableNarrow.calcWidths Flags.repaired 0 = none := by decide
example : wTableNarrow.calcWidths Flags.allRepaired 0 = some [1, 1] := by decide

/-- `Table.Sane` is satisfiable by a non-trivial table. -/
example : wTableNarrow.Sane :=
  ⟨by decide, by decide, by decide, by decide, by decide, by
    intro c hc cell hcell w
    simp only [wTableNarrow, List.mem_cons, List.not_mem_nil, or_false] at hc
    rcases hc with rfl | rfl <;>
      · simp only [Table.getCells, wTableNarrow, wCell, List.mem_cons, List.not_mem_nil, or_false, List.append_nil,
          if_true, if_false, List.nil_append, Bool.false_eq_true] at hcell
        subst hcell
        show (0 : Int) ≤ min 0 (w : Int)
        omega⟩

end RichModel.C07
