import RichModel.Lemmas.Pretty
import RichModel.Lemmas.PrettyTraverse
import RichModel.Lemmas.PrettyMeasure
import RichModel.Lemmas.PrettyConsole
/-!
# C16 — pretty-printed data evaluates back to the data

Property theorems only (helper lemmas live in `Lemmas/Pretty*.lean`).  The model is
`Model/Pretty.lean` (`Node`, `_Line`, the render loop, `traverse` over a heap with identities).

What is proved here is everything about the printer that is *not* Python's `repr`/`eval`: the
rendered text is the one-line form with layout inserted (so it denotes the same expression), the
one-line form is chosen exactly when it fits, kept lines fit, indentation is regular, abbreviations
count exactly, cycles end in the marker and `traverse` is total; and (last section) that the width
`Pretty.__rich_measure__` reports is enough to render in, what the options do outside their documented
domain, and that the root's `last` flag cannot be observed.  "Evaluates back" itself rests on
`eval` and on `repr` of leaves, which are runtime: it is evaluated on every generated case by
`harness/props/c16.py`.

All theorems hold for an **arbitrary width function** `cw` and any `max_width`, `indent_size`,
tree size and depth.  `Variant.repaired` is the code with the three fixes (`fix:` commits 376cec1, e5d1b9a,
db5535b), which is what /repo contains now; `Variant.today` (the name dates from before those commits) is
rich 9.10.0 as found; `Variant.current` (the name dates from before db5535b) is the code with the first two
fixes only, i.e. with `__rich_measure__` still ignoring `expand_all` (witnesses `old_*` show where the
as-found behaviour breaks the statement).
-/
namespace RichModel.C16
open RichModel RichModel.Pretty

variable (cw : Char → Nat)

/-! ## The render loop -/

/-- **render_terminates.** The `while line_no < len(lines)` loop of `Node.render`, run as an iteration
with a step budget, finishes within `weight n + 2` steps (`weight` = twice the number of nodes,
minus one) for every tree, width, indent and variant, and its result is the well-founded
`renderLines` the driver executes.  (That `renderLoop` is accepted by Lean at all is the
well-foundedness on the total weight of the pending lines.) -/
theorem render_terminates (v : Variant) (n : Node) (w ind : Int) (ea : Bool) :
    renderLoopFuel cw v w ind ea (n.weight + 2) [rootLine n] [] = some (renderLines cw v n w ind ea) := by
  apply renderLoopFuel_eq
  simp only [todoWeight, Line.weight, rootLine]
  omega

/-- **The loop computes the structural specification**: a line whose node is a non-empty container
that must be expanded becomes `open`, then each child (recursively) at one more indent, then
`close`; every other line is kept. -/
theorem render_is_spec (v : Variant) (n : Node) (w ind : Int) (ea : Bool) :
    renderLines cw v n w ind ea = specLine ⟨cw, v, w, ind, ea⟩ (rootLine n) n :=
  renderLines_eq_spec cw v n w ind ea

/-- …where the specification satisfies exactly this equation (no hidden cases). -/
theorem spec_equation (c : Cfg) (l : Line) (n : Node) :
    specLine c l n =
      if n.isContainer && !n.children.isEmpty && !l.expanded && mustExpand c.cw c.w c.ea l n then
        l.expandHead n :: ((l.expandTail c.v n c.ind).flatMap (specOf c))
      else [l] :=
  specLine_unfold c l n

/-- `__str__` is the one-line form with `", "` between items. -/
theorem str_is_inline (n : Node) : n.str = n.flat [',', ' '] := Node.str_eq_flat n

/-! ## layout_only -/

/-- **layout_only** (repaired code).  For every well-formed tree, at every width / indent /
`expand_all`: erasing the layout — the indentation and line breaks of the rendered lines, and the
blank after the item separators of the lines kept on one line — leaves exactly the one-line form
with the blanks after its separators erased.  No comma, brace, key or leaf is lost, added or moved;
in particular the comma of a one-element tuple survives every expansion. -/
theorem layout_only (n : Node) (hw : n.wf = true) (w ind : Int) (ea : Bool) :
    ((renderLines cw .repaired n w ind ea).map Line.compact).flatten = n.compact := by
  rw [render_is_spec]
  have := specLine_compact ⟨cw, .repaired, w, ind, ea⟩ rfl n (rootLine n) hw rfl rfl
  rw [this]
  simp [Line.compact, rootLine]

/-- The tree of the F24 witness: `([1, 2],)`. -/
def tupleOfList : Node :=
  .mk [] [] ['('] [')'] [] true true true
    [.mk [] [] ['['] [']'] [] true false true
      [.mk [] ['1'] [] [] [] false false false [], .mk [] ['2'] [] [] [] true false false []]]

/-- **F24 (rich 9.10.0 as found, before fix 376cec1).**  `([1, 2],)` at width 3: the closing line of the expanded list takes its
suffix from the node (`last` ⇒ none) instead of the `","` its line was given, the rendered text is
`(\n    [\n        1,\n        2\n    ]\n)` and the tuple's comma is gone. -/
theorem old_layout_only_fails :
    ((renderLines (fun _ => 1) .today tupleOfList 3 4 false).map Line.compact).flatten
      ≠ tupleOfList.compact := by
  rw [render_is_spec]; decide

/-- …and what it prints, character for character. -/
theorem old_render_drops_tuple_comma :
    (specLine ⟨fun _ => 1, .today, 3, 4, false⟩ (rootLine tupleOfList) tupleOfList).map Line.str
      = ["(".toList, "    [".toList, "        1,".toList, "        2".toList, "    ]".toList, ")".toList] := by
  decide

/-- the repaired code keeps it. -/
theorem repaired_render_keeps_tuple_comma :
    (specLine ⟨fun _ => 1, .repaired, 3, 4, false⟩ (rootLine tupleOfList) tupleOfList).map Line.str
      = ["(".toList, "    [".toList, "        1,".toList, "        2".toList, "    ],".toList, ")".toList] := by
  decide

/-! ## one_line_iff_fits, kept_line_fits -/

/-- **one_line_iff_fits.**  The output is a single line — then it is `str(node)`, i.e. the `repr()`-like
one-line form — exactly when the value is a leaf or an empty container, or `expand_all` is off and
the one-line form fits the width; otherwise it is `open`, at least one item line, `close`. -/
theorem one_line_iff_fits (v : Variant) (n : Node) (w ind : Int) (ea : Bool) :
    ((renderLines cw v n w ind ea).length = 1 ↔
        (n.expandable = false ∨ (ea = false ∧ (cellLen cw n.str : Int) ≤ w))) ∧
    ((renderLines cw v n w ind ea).length = 1 → render cw v n w ind ea = n.str) ∧
    ((renderLines cw v n w ind ea).length ≠ 1 → 3 ≤ (renderLines cw v n w ind ea).length) := by
  rw [render, render_is_spec]
  have hroot : (rootLine n).expanded = false := rfl
  rcases specLine_cases ⟨cw, v, w, ind, ea⟩ (rootLine n) n with ⟨heq, hno⟩ | ⟨mid, heq, hne, _, hyes⟩
  · rw [heq]
    refine ⟨⟨fun _ => ?_, fun _ => rfl⟩, fun _ => ?_, fun h => absurd rfl h⟩
    · cases he : n.expandable with
      | false => exact Or.inl rfl
      | true =>
        right
        simp only [he, hroot, Bool.not_false, Bool.true_and] at hno
        have hc : n.isContainer = true := by
          simp only [Node.expandable, Bool.and_eq_true] at he; exact he.1
        have hno' : ¬ (ea = true ∨ w < cellLen cw n.str) :=
          fun h => hno ((mustExpand_root cw w ea n hc).mpr h)
        constructor
        · cases ea with
          | false => rfl
          | true => exact absurd (Or.inl rfl) hno'
        · have : ¬ w < cellLen cw n.str := fun h => hno' (Or.inr h)
          omega
    · simp [joinLines, Line.str, rootLine]
  · have hlen : 3 ≤ (specLine ⟨cw, v, w, ind, ea⟩ (rootLine n) n).length := by
      have : 1 ≤ mid.length := by cases mid with | nil => exact absurd rfl hne | cons _ _ => simp
      rw [heq]; simp; omega
    simp only [Bool.and_eq_true] at hyes
    obtain ⟨⟨he, _⟩, hm⟩ := hyes
    have hc : n.isContainer = true := by
      simp only [Node.expandable, Bool.and_eq_true] at he; exact he.1
    have hm' := (mustExpand_root cw w ea n hc).mp hm
    refine ⟨⟨fun h => by omega, fun h => ?_⟩, fun h => by omega, fun _ => hlen⟩
    rcases h with h | ⟨h1, h2⟩
    · rw [he] at h; cases h
    · rcases hm' with h' | h'
      · rw [h1] at h'; cases h'
      · omega

/-- **kept_line_fits.**  Whatever the tree, width and variant: a line of the output that still holds a
non-empty container was only kept because `expand_all` is off and it passed `check_length`: its
indentation, text, one-line form and suffix together need at most `max_width` cells. -/
theorem kept_line_fits (v : Variant) (n : Node) (w ind : Int) (ea : Bool) :
    ∀ l ∈ renderLines cw v n w ind ea, ∀ m, l.node = some m → m.expandable = true →
      ea = false ∧ l.whitespace.length + cellLen cw l.text + cellLen cw l.suffix + cellLen cw m.str ≤ w := by
  intro l hl m hm he
  rw [render_is_spec] at hl
  obtain ⟨h1, h2⟩ := specLine_kept_fits ⟨cw, v, w, ind, ea⟩ n (rootLine n) rfl rfl l hl m hm he
  refine ⟨h1, ?_⟩
  have hc : m.isContainer = true := by
    simp only [Node.expandable, Bool.and_eq_true] at he; exact he.1
  exact (Node.checkLength_iff cw m _ w hc).mp h2

/-- **indent_consistent.**  Every line of the output is indented by a whole number of
`indent_size` blanks and by nothing else. -/
theorem indent_consistent (v : Variant) (n : Node) (w ind : Int) (ea : Bool) :
    ∀ l ∈ renderLines cw v n w ind ea, ∃ d, l.whitespace = List.replicate (d * ind.toNat) ' ' := by
  intro l hl
  rw [render_is_spec] at hl
  obtain ⟨d, hd⟩ := specLine_indent ⟨cw, v, w, ind, ea⟩ n (rootLine n) l hl
  exact ⟨d, by simpa [rootLine] using hd⟩

/-- …and the nesting is regular at every level: an expanded line becomes its opening brace at the
*same* indentation, then the renderings of its children's lines — each child line starting **exactly
one** indent deeper, everything inside at least one deeper (whole multiples) — and its closing brace
at the same indentation again. -/
theorem indent_nested (c : Cfg) (l : Line) (n : Node) :
    specLine c l n = [l] ∨
    ∃ mid, specLine c l n = l.expandHead n :: (mid ++ [l.expandClose c.v n]) ∧ mid ≠ [] ∧
      mid = (l.expandKids n c.ind).flatMap (specOf c) ∧
      (∀ k ∈ l.expandKids n c.ind, k.whitespace = l.whitespace ++ List.replicate c.ind.toNat ' ' ∧
        (specOf c k).head?.map (·.whitespace) = some k.whitespace) ∧
      (l.expandHead n).whitespace = l.whitespace ∧ (l.expandClose c.v n).whitespace = l.whitespace ∧
      ∀ m ∈ mid, ∃ d, m.whitespace = l.whitespace ++ List.replicate ((d + 1) * c.ind.toNat) ' ' := by
  rcases specLine_cases c l n with ⟨h, _⟩ | ⟨mid, h, hne, hmid, _⟩
  · exact Or.inl h
  · refine Or.inr ⟨mid, h, hne, hmid, ?_, ?_, rfl, ?_⟩
    · intro k hk
      simp only [Line.expandKids, List.mem_map] at hk
      obtain ⟨x, _, rfl⟩ := hk
      refine ⟨rfl, ?_⟩
      simp only [specOf]
      generalize hk : ({ node := some x, whitespace := l.whitespace ++ List.replicate c.ind.toNat ' ', suffix := if n.tupleOfOne then [','] else x.separator } : Line) = k
      rcases specLine_cases c k x with ⟨h', _⟩ | ⟨mid', h', _, _, _⟩
      · rw [h']; subst hk; rfl
      · rw [h']; subst hk
        simp only [List.head?_cons, Option.map_some, Line.expandHead]
        split <;> rfl
    · simp only [Line.expandHead]; split <;> rfl
    · intro m hm
      rw [hmid, List.mem_flatMap] at hm
      obtain ⟨k, hk, hmk⟩ := hm
      simp only [Line.expandKids, List.mem_map] at hk
      obtain ⟨x, _, rfl⟩ := hk
      simp only [specOf] at hmk
      obtain ⟨d, hd⟩ := specLine_indent c x _ m hmk
      exact ⟨d, by
        rw [hd, List.append_assoc, List.replicate_append_replicate]
        congr 2; rw [Nat.add_mul]; omega⟩

/-- In cells: with blanks one cell wide, a kept container line is at most `max_width` cells long. -/
theorem kept_line_fits_cells (hs : cw ' ' = 1) (v : Variant) (n : Node) (w ind : Int) (ea : Bool) :
    ∀ l ∈ renderLines cw v n w ind ea, l.expandable = true → cellLen cw l.str ≤ w := by
  intro l hl he
  cases hn : l.node with
  | none => simp [Line.expandable, hn] at he
  | some m =>
    have hm : m.expandable = true := by simpa [Line.expandable, hn, Node.expandable] using he
    obtain ⟨_, hfit⟩ := kept_line_fits cw v n w ind ea l hl m hn hm
    obtain ⟨d, hd⟩ := indent_consistent cw v n w ind ea l hl
    have hws : cellLen cw l.whitespace = l.whitespace.length := by
      rw [hd, cellLen_replicate_space cw hs]; simp
    simp only [Line.str, hn, cellLen_append, hws]
    omega

/-- With `expand_all`, no non-empty container is left on one line. -/
theorem expand_all_expands_all (v : Variant) (n : Node) (w ind : Int) :
    ∀ l ∈ renderLines cw v n w ind true, l.expandable = false := by
  intro l hl
  cases he : l.expandable with
  | false => rfl
  | true =>
    cases hn : l.node with
    | none => simp [Line.expandable, hn] at he
    | some m =>
      have hm : m.expandable = true := by simpa [Line.expandable, hn, Node.expandable] using he
      have := (kept_line_fits cw v n w ind true l hl m hn hm).1
      cases this

/-! ## traverse: totality, cycles, abbreviations -/

/-- **cycle_marker (termination).**  On every heap whose references stay inside it — cyclic or not —
`traverse` returns a tree: the depth budget `|heap| + 1` is never exhausted, because the ids on the
current path are distinct. -/
theorem cycle_marker (cfg : TravCfg) (h : Heap) (hok : HeapOk h) (root : Nat) (hr : root < h.length) :
    ∃ n, traverse cfg h root = some n := by
  have := traverse_isSome cfg h hok root hr
  cases ht : traverse cfg h root with
  | none => rw [ht] at this; cases this
  | some n => exact ⟨n, rfl⟩

/-- A reference to a container that is on the current path is rendered as the marker `...` … -/
theorem cycle_marker_backedge (cfg : TravCfg) (h : Heap) (fuel : Nat) (visited : List Nat) (id : Nat)
    (root : Bool) (hv : visited.contains id = true)
    (hc : (∃ k aux items, h[id]? = some (.seq k aux items)) ∨ (∃ k aux items, h[id]? = some (.map k aux items))) :
    traverseObj cfg h (fuel + 1) visited id root = some cycleMarker ∧ cycleMarker.str = ['.', '.', '.'] := by
  refine ⟨?_, by decide⟩
  rcases hc with ⟨k, aux, items, hg⟩ | ⟨k, aux, items, hg⟩ <;> rw [traverseObj, hg] <;> simp only [hv, if_true]

/-- … and only then: a container that is not on the path is traversed into a container node. -/
theorem container_unless_backedge (cfg : TravCfg) (h : Heap) (fuel : Nat) (visited : List Nat) (id : Nat)
    (root : Bool) (n : Node) (hv : visited.contains id = false)
    (hc : (∃ k aux items, h[id]? = some (.seq k aux items)) ∨ (∃ k aux items, h[id]? = some (.map k aux items)))
    (hres : traverseObj cfg h (fuel + 1) visited id root = some n) : n.isContainer = true := by
  rcases hc with ⟨k, aux, items, hg⟩ | ⟨k, aux, items, hg⟩
  · cases hne : items.isEmpty with
    | true =>
      rw [traverseObj, hg] at hres
      simp only [hv, hne, Bool.false_eq_true, if_false, if_true] at hres
      cases hres; rfl
    | false =>
      obtain ⟨kids, _, rfl⟩ := traverseObj_seq cfg h fuel visited id root k aux items n hg hv hne hres
      rfl
  · cases hne : items.isEmpty with
    | true =>
      rw [traverseObj, hg] at hres
      simp only [hv, hne, Bool.false_eq_true, if_false, if_true] at hres
      cases hres; rfl
    | false =>
      obtain ⟨kids, _, rfl⟩ := traverseObj_map cfg h fuel visited id root k aux items n hg hv hne hres
      rfl

/-- Every tree `traverse` produces is well-formed (so `layout_only` applies to it). -/
theorem traverse_wellformed (cfg : TravCfg) (h : Heap) (root : Nat) (n : Node)
    (ht : traverse cfg h root = some n) : n.wf = true :=
  traverseObj_wf cfg h _ _ _ _ n ht

/-- **abbrev_counts_exact (items).**  For a non-empty list / tuple / set / frozenset / deque / array of
`N` items: the children are the first `min N max_length` items, in order, followed — exactly when
`N > max_length` — by one node `... +(N - max_length)`; shown + reported = `N`. -/
theorem abbrev_counts_exact (cfg : TravCfg) (h : Heap) (fuel : Nat) (visited : List Nat) (id : Nat)
    (root : Bool) (k : SeqKind) (aux : Str) (items : List Nat) (n : Node)
    (hget : h[id]? = some (.seq k aux items)) (hv : visited.contains id = false)
    (hne : items.isEmpty = false) (hres : traverseObj cfg h (fuel + 1) visited id root = some n) :
    ∃ kids,
      optList ((enum 0 (shown cfg.maxLength items)).map fun (p : Nat × Nat) =>
        (traverseObj cfg h fuel (id :: visited) p.2 false).map (·.setLast (p.1 == items.length - 1))) = some kids ∧
      (match cfg.maxLength with
        | none => kids.length = items.length ∧ n.children = kids
        | some m =>
          kids.length = min m items.length ∧
          (items.length ≤ m → n.children = kids) ∧
          (m < items.length →
            n.children = kids ++ [moreMarker (items.length - m)] ∧
            (moreMarker (items.length - m)).valueRepr = "... +".toList ++ natStr (items.length - m) ∧
            kids.length + (items.length - m) = items.length)) := by
  obtain ⟨kids, hk, rfl⟩ := traverseObj_seq cfg h fuel visited id root k aux items n hget hv hne hres
  refine ⟨kids, hk, ?_⟩
  have hlen := optList_length _ _ hk
  simp only [List.length_map, enum_length, shown_length] at hlen
  cases hml : cfg.maxLength with
  | none => simp only [hml] at hlen; simp [hlen, Node.children, withMore]
  | some m =>
    simp only [hml] at hlen
    refine ⟨hlen, fun hle => ?_, fun hlt => ⟨?_, rfl, by omega⟩⟩
    · simp [Node.children, withMore, Nat.not_lt.mpr hle]
    · simp [Node.children, withMore, hlt]

/-- The same for the mapping containers (dict, defaultdict, Counter, environ). -/
theorem abbrev_counts_exact_map (cfg : TravCfg) (h : Heap) (fuel : Nat) (visited : List Nat) (id : Nat)
    (root : Bool) (k : MapKind) (aux : Str) (items : List (Leaf × Nat)) (n : Node)
    (hget : h[id]? = some (.map k aux items)) (hv : visited.contains id = false)
    (hne : items.isEmpty = false) (hres : traverseObj cfg h (fuel + 1) visited id root = some n) :
    ∃ kids, kids.length = (match cfg.maxLength with | none => items.length | some m => min m items.length) ∧
      n.children = kids ++ (match cfg.maxLength with
        | some m => if items.length > m then [moreMarker (items.length - m)] else []
        | none => []) := by
  obtain ⟨kids, hk, rfl⟩ := traverseObj_map cfg h fuel visited id root k aux items n hget hv hne hres
  have hlen := optList_length _ _ hk
  simp only [List.length_map, enum_length, shown_length] at hlen
  refine ⟨kids, ?_, ?_⟩
  · cases hml : cfg.maxLength <;> simp only [hml] at hlen ⊢ <;> exact hlen
  · rw [Node.children, withMore_eq]; cases cfg.maxLength <;> rfl

/-- **abbrev_counts_exact (characters).**  For `max_string = m ≥ 0`: a `str`/`bytes` of `L > m` characters
is printed as the `repr` of its first `m` characters, `+`, and `L - m`; a shorter one in full.
(For a *negative* `max_string` — outside the documented domain — the code still truncates: it prints
`obj[:m]`, i.e. all but the last `|m|` characters, and reports `L + |m|`; the model does the same, see
`max_string_negative`.) -/
theorem max_string_exact (pyRepr : Bool → Str → Str) (m : Nat) (b : Bool) (cs : Str) :
    (m < cs.length → toRepr pyRepr (some (m : Int)) (.str b cs) = pyRepr b (cs.take m) ++ ['+'] ++ natStr (cs.length - m)
        ∧ (cs.take m).length + (cs.length - m) = cs.length) ∧
    (cs.length ≤ m → toRepr pyRepr (some (m : Int)) (.str b cs) = pyRepr b cs) ∧
    toRepr pyRepr none (.str b cs) = pyRepr b cs := by
  refine ⟨fun h => ⟨?_, by simp only [List.length_take]; omega⟩, fun h => ?_, rfl⟩
  · have h1 : (cs.length : Int) > (m : Int) := by omega
    have h2 : ((cs.length : Int) - (m : Int)).toNat = cs.length - m := by omega
    simp only [toRepr, strRepr, h1, if_true, sliceTo, h2]
    simp
  · have h1 : ¬ (cs.length : Int) > (m : Int) := by omega
    simp only [toRepr, strRepr, h1, if_false]

/-- What the code does with a negative `max_string` (not an abbreviation one can trust: the count it
reports is `L + |m|`, not the number of omitted characters). -/
theorem max_string_negative (pyRepr : Bool → Str → Str) (k : Nat) (b : Bool) (cs : Str) :
    toRepr pyRepr (some (-(k + 1 : Nat) : Int)) (.str b cs) =
      pyRepr b (cs.take (cs.length - (k + 1))) ++ ['+'] ++ natStr (cs.length + (k + 1)) := by
  have h1 : (cs.length : Int) > (-(k + 1 : Nat) : Int) := by omega
  have h2 : ((cs.length : Int) - (-(k + 1 : Nat) : Int)).toNat = cs.length + (k + 1) := by omega
  have h3 : ¬ ((-(k + 1 : Nat) : Int) ≥ 0) := by omega
  have h4 : ((cs.length : Int) + (-(k + 1 : Nat) : Int)).toNat = cs.length - (k + 1) := by omega
  simp only [toRepr, strRepr, h1, if_true, sliceTo, h2, h3, if_false, h4]

/-! ## End to end, and the second defect -/

/-- **pretty_repr, repaired code**: for every heap (cyclic or not), every option set and every width,
`pretty_repr` returns a text, and that text is the one-line form of the traversed tree up to layout. -/
theorem pretty_repr_layout_only (cfg : TravCfg) (h : Heap) (hok : HeapOk h) (root : Nat)
    (hr : root < h.length) (w ind : Int) (ea : Bool) :
    ∃ n, traverse cfg h root = some n ∧
      prettyRepr cw { cfg with variant := .repaired } h root w ind ea ≠ none ∧
      ((renderLines cw .repaired n w ind ea).map Line.compact).flatten = n.compact := by
  obtain ⟨n, hn⟩ := cycle_marker cfg h hok root hr
  obtain ⟨n', hn'⟩ := cycle_marker { cfg with variant := .repaired } h hok root hr
  exact ⟨n, hn, by simp [prettyRepr, hn'], layout_only cw n (traverse_wellformed cfg h root n hn) w ind ea⟩

def cfg0 (v : Variant) : TravCfg := { pyRepr := fun _ s => s, variant := v, maxLength := none, maxString := none }

/-- **F12 (rich 9.10.0 as found, before fix e5d1b9a).**  An empty `array('i')` is printed as the literal text
`array({_object.typecode!r})` (the f-string prefix is missing in `_get_braces_for_array`). -/
theorem old_empty_array_literal :
    (traverse (cfg0 .today) [.seq .array "'i'".toList []] 0).map Node.str
      = some "array({_object.typecode!r})".toList := by decide

/-- The repaired code prints `array('i')`. -/
theorem repaired_empty_array :
    (traverse (cfg0 .repaired) [.seq .array "'i'".toList []] 0).map Node.str = some "array('i')".toList := by
  decide

/-! ## `Pretty.__rich_measure__` (the Pretty clause of C09) and options outside their domain -/

/-- **pretty_measure_sound** (code that passes `expand_all` to the measurement, i.e. /repo since fix db5535b;
`margin = 0`).
If `__rich_measure__` at an available width `W` reports `Measurement(m, m)`, then rendering the same
object at width `m` yields only lines of at most `m` cells — for every tree, `W`, indent and
`expand_all`.  Hypotheses: blanks are one cell wide, and the only line breaks in the text measured are
the layout's (no leaf `repr` contains a line boundary). -/
theorem pretty_measure_sound (hs : cw ' ' = 1) (v : Variant) (hv : v.measureNoExpandAll = false)
    (n : Node) (W ind : Int) (ea : Bool) (m : Nat)
    (hb : ∀ l ∈ renderLines cw v n W ind ea, noBreak l.str)
    (hm : prettyMeasure cw v n W ind ea = .ok m) :
    ∀ l ∈ renderLines cw v n (m : Int) ind ea, cellLen cw l.str ≤ m := by
  -- every line at W is at most m cells
  have hW : ∀ l ∈ renderLines cw v n W ind ea, cellLen cw l.str ≤ m := by
    intro l hl
    simp only [prettyMeasure, hv, Bool.false_eq_true, if_false, render] at hm
    by_cases he : l.str = []
    · rw [he]; exact Nat.zero_le _
    · have hmem := mem_splitlines_join ((renderLines cw v n W ind ea).map Line.str)
        (by intro s hs
            simp only [List.mem_map] at hs
            obtain ⟨l', hl', rfl⟩ := hs
            exact hb l' hl') l.str (List.mem_map.mpr ⟨l, hl, rfl⟩) he
      exact pyMax_ge _ m hm _ (List.mem_map.mpr ⟨_, hmem, rfl⟩)
  have cells_of : ∀ (w : Int) (l : Line), l ∈ renderLines cw v n w ind ea → cellLen cw l.str = l.cells cw := by
    intro w l hl
    obtain ⟨d, hd⟩ := indent_consistent cw v n w ind ea l hl
    exact Line.cells_eq_str cw hs l _ hd
  intro l hl
  rw [cells_of (m : Int) l hl]
  rw [render_is_spec] at hl
  cases hea : ea with
  | true =>
    subst hea
    have := specLine_ea_width ⟨cw, v, W, ind, true⟩ (m : Int) rfl n (rootLine n)
    rw [this, ← render_is_spec] at hl
    rw [← cells_of W l hl]; exact hW l hl
  | false =>
    subst hea
    refine specLine_bound ⟨cw, v, W, ind, false⟩ m rfl n (rootLine n) rfl ?_ l hl
    intro l' hl'
    rw [← render_is_spec] at hl'
    rw [← cells_of W l' hl']; exact hW l' hl'

/-- the tree of `[['a']]`. -/
def nestedList : Node :=
  .mk [] [] ['['] [']'] [] true false true
    [.mk [] [] ['['] [']'] [] true false true [.mk [] "'a'".toList [] [] [] true false false []]]

/-- **F26 (rich 9.10.0 as found, before fix db5535b; `Variant.current` = the first two fixes only).**
`__rich_measure__` calls `pretty_repr` without `expand_all`:
`Pretty([['a']], expand_all=True)` measures 7 (the one-line form) but renders, at width 7, the line
`        'a'` of 11 cells — a container sized from the measurement (Panel.fit, a table column) crops it. -/
theorem old_pretty_measure_unsound :
    prettyMeasure (fun _ => 1) .current nestedList 80 4 true = .ok 7 ∧
    ∃ l ∈ specLine ⟨fun _ => 1, .current, 7, 4, true⟩ (rootLine nestedList) nestedList,
      cellLen (fun _ => 1) l.str = 11 := by
  constructor
  · unfold prettyMeasure render; rw [render_is_spec]; dsimp only; decide
  · decide

/-- the repaired measurement of the same value is 11. -/
theorem repaired_pretty_measure :
    prettyMeasure (fun _ => 1) .repaired nestedList 80 4 true = .ok 11 := by
  unfold prettyMeasure render; rw [render_is_spec]; dsimp only; decide

/-- The error branch: an object whose `repr()` is empty renders as the empty string, which has no
lines, and `__rich_measure__` raises `ValueError` (`max()` of an empty sequence). -/
theorem measure_of_empty_repr_raises (v : Variant) (W ind : Int) (ea : Bool) :
    prettyMeasure cw v (.mk [] [] [] [] [] true false false []) W ind ea = .error .valueError := by
  unfold prettyMeasure render; rw [render_is_spec]
  simp [specLine, joinLines, List.intercalate, Line.str, rootLine, Node.str, Node.tokens, splitlines, splitLoop, pyMax]

/-- **The root's `last` flag is unobservable** in the code with fix 376cec1 (the closing line carries its
line's suffix): the rendered text does not depend on it.  (Children's `last` flags decide the
separators; in the code as found the root's flag decided the suffix of the root's closing line.) -/
theorem root_last_unobservable (v : Variant) (hv : v.dropSuffix = false) (n : Node) (b : Bool)
    (w ind : Int) (ea : Bool) :
    render cw v (n.setLast b) w ind ea = render cw v n w ind ea := by
  unfold render
  rw [render_is_spec, render_is_spec]
  have := specLine_setLast_str ⟨cw, v, w, ind, ea⟩ hv n { isRoot := true } b
  simp only [rootLine] at this ⊢
  rw [this]

/-- **Domain of `max_length`.**  A negative `max_length` makes `traverse` raise `ValueError` exactly when
the root is a non-empty container, and is otherwise never looked at; a non-negative one is the
natural number the other theorems speak about. -/
theorem max_length_domain (pyRepr : Bool → Str → Str) (v : Variant) (m : Int) (ms : Option Int)
    (h : Heap) (root : Nat) :
    (m < 0 → traverseAny pyRepr v (some m) ms h root =
      if nonEmptyContainer h root then .error .valueError
      else .ok (traverse ⟨pyRepr, v, none, ms⟩ h root)) ∧
    (0 ≤ m → traverseAny pyRepr v (some m) ms h root = .ok (traverse ⟨pyRepr, v, some m.toNat, ms⟩ h root)) := by
  refine ⟨fun hm => by simp [traverseAny, hm], fun hm => ?_⟩
  have : ¬ m < 0 := by omega
  simp [traverseAny, this]

/-- **Domain of `max_width`**: for a negative (or zero) `max_width` every non-empty container is
expanded, at every level, and nothing else changes — the output is the `expand_all` output. -/
theorem nonpositive_width_is_expand_all (v : Variant) (n : Node) (w ind : Int) (hneg : w ≤ 0)
    (hpos : ∀ l ∈ renderLines cw v n w ind false, ∀ m, l.node = some m → m.expandable = true → 0 < cellLen cw m.str) :
    ∀ l ∈ renderLines cw v n w ind false, l.expandable = false := by
  intro l hl
  cases he : l.expandable with
  | false => rfl
  | true =>
    cases hn : l.node with
    | none => simp [Line.expandable, hn] at he
    | some m =>
      have hm : m.expandable = true := by simpa [Line.expandable, hn, Node.expandable] using he
      have := (kept_line_fits cw v n w ind false l hl m hn hm).2
      have := hpos l hl m hn hm
      omega


/-! ## Deepening round 4: everything `Pretty.__rich_console__` yields; the measurement with line boundaries inside
leaf reprs and with a margin -/

/-- **console_chars_exact.**  Without indent guides (`indent_guides` off, or an `ascii_only` console) the characters
`Pretty.__rich_console__` yields are exactly those of `pretty_repr` at `options.max_width - margin` with the
`Pretty`'s own `indent_size` / `expand_all` (minus the four control codes `Text.__init__` strips), preceded by one
empty renderable exactly when `insert_line` is set and that text has a line break — for every tree, width, margin and
option set; `justify` / `overflow` are Python's `or`, `no_wrap` is `pick_bool`.  The highlighter does not occur: it is
a span source. -/
theorem console_chars_exact (v : Variant) (n : Node) (p : PrettyOpts) (o : ConsoleOpts)
    (hg : (p.indentGuides && !o.asciiOnly) = false) :
    prettyConsoleFull cw v n p o = .ok
      { parts := (if p.insertLine &&
            (stripControl (render cw v n (o.maxWidth - p.margin) p.indentSize p.expandAll)).contains '\n'
          then [[]] else []) ++ [stripControl (render cw v n (o.maxWidth - p.margin) p.indentSize p.expandAll)],
        justify := strOr p.justify o.justify,
        overflow := strOr p.overflow o.overflow,
        noWrap := pickBool p.noWrap o.noWrap } := by
  simp only [prettyConsoleFull, hg, Bool.false_eq_true, if_false]
  rfl

/-- …and that text is what `pretty_repr(obj, max_width=options.max_width - margin, indent_size=…, max_length=…,
max_string=…, expand_all=…)` returns for the object (any heap, options as Python receives them). -/
theorem console_is_pretty_repr (pyRepr : Bool → Str → Str) (v : Variant) (ml ms : Option Int) (h : Heap)
    (root : Nat) (n : Node) (p : PrettyOpts) (o : ConsoleOpts)
    (ht : traverseAny pyRepr v ml ms h root = .ok (some n))
    (hg : (p.indentGuides && !o.asciiOnly) = false) :
    ∃ s, prettyReprAny cw pyRepr v ml ms h root (o.maxWidth - p.margin) p.indentSize p.expandAll = .ok (some s) ∧
      (prettyConsoleFull cw v n p o).map (·.parts) =
        .ok ((if p.insertLine && (stripControl s).contains '\n' then [[]] else []) ++ [stripControl s]) := by
  refine ⟨render cw v n (o.maxWidth - p.margin) p.indentSize p.expandAll, ?_, ?_⟩
  · simp only [prettyReprAny, ht]; rfl
  · rw [console_chars_exact cw v n p o hg]; rfl

/-- a text without the four stripped control codes goes through `Text.__init__` unchanged. -/
theorem stripControl_id (s : Str)
    (h : ∀ c ∈ s, ¬ (c.toNat = 8 ∨ c.toNat = 11 ∨ c.toNat = 12 ∨ c.toNat = 13)) : stripControl s = s := by
  unfold stripControl
  rw [List.filter_eq_self]
  intro c hc
  have := h c hc
  simp only [Bool.not_eq_true', Bool.or_eq_false_iff, beq_eq_false_iff_ne, ne_eq]
  simp only [not_or] at this
  exact ⟨⟨⟨this.1, this.2.1⟩, this.2.2.1⟩, this.2.2.2⟩

/-- **console_guides_chars.**  With indent guides (`indent_guides` on, console not `ascii_only`), a positive
`indent_size` and no blank line in the text: `__rich_console__` yields the same lines, each with the same number of
characters and the same characters after its indentation; the indentation itself — `n` blanks — has become
`new_indent`: `n` characters, each a blank or the guide character, one guide at every whole multiple of
`indent_size`.  The inserted empty renderable is decided on the guided text. -/
theorem console_guides_chars (v : Variant) (n : Node) (p : PrettyOpts) (o : ConsoleOpts)
    (hk : 0 < p.indentSize) (hg : (p.indentGuides && !o.asciiOnly) = true)
    (hnb : noBlankLine (Syntax.textSplitC
      (stripControl (render cw v n (o.maxWidth - p.margin) p.indentSize p.expandAll)) false)) :
    (prettyConsoleFull cw v n p o).map (·.parts) = .ok
      (let t := Syntax.joinNL ((Syntax.textSplitC
          (stripControl (render cw v n (o.maxWidth - p.margin) p.indentSize p.expandAll)) false).map
            (guideLine p.indentSize))
       (if p.insertLine && t.contains '\n' then [[]] else []) ++ [t]) ∧
    ∀ l : Str, (guideLine p.indentSize l).length = l.length ∧
      (guideLine p.indentSize l).drop (Syntax.leadSpaces l) = l.drop (Syntax.leadSpaces l) ∧
      (guideLine p.indentSize l).take (Syntax.leadSpaces l) = Syntax.newIndent p.indentSize.toNat (Syntax.leadSpaces l) ∧
      (Syntax.newIndent p.indentSize.toNat (Syntax.leadSpaces l)).length = Syntax.leadSpaces l ∧
      ∀ c ∈ Syntax.newIndent p.indentSize.toNat (Syntax.leadSpaces l), c = ' ' ∨ c = Syntax.guideChar := by
  refine ⟨?_, fun l => ⟨guideLine_length _ hk l, guideLine_rest _ hk l, guideLine_indent _ hk l,
    newIndent_length _ _ (by omega), newIndent_chars _ _⟩⟩
  have hk0 : p.indentSize ≠ 0 := by omega
  simp only [prettyConsoleFull, hg, if_true, withIndentGuides, guideLoopI_noBlank _ hk0 _ hnb]
  rfl

/-- `indent_size = 0` with guides: `divmod(len(indent), 0)` raises at the first line that is not blank. -/
theorem console_guides_zero_raises (l : Str) (rest : List Str)
    (hl : (l.drop (Syntax.leadSpaces l)).isEmpty = false) :
    guideLoopI 0 0 (l :: rest) = .error .zeroDivision := by
  rw [guideLoopI]; simp [hl]

/-- **pretty_measure_sound_pieces** (extends `pretty_measure_sound` to leaf reprs that contain line boundaries —
rich measures by the longest piece `str.splitlines` finds).  If `__rich_measure__` at an available width `W` reports
`m`, then every piece of every line rendered at width `m` is at most `m` cells — provided the *container lines kept
on one line at `W`* contain no line boundary (a multi-line repr on a line of its own, at any depth, is fine).  The
hypothesis cannot be dropped: `kept_line_break_needed`. -/
theorem pretty_measure_sound_pieces (hs : cw ' ' = 1) (v : Variant) (hv : v.measureNoExpandAll = false)
    (n : Node) (W ind : Int) (ea : Bool) (m : Nat)
    (hb : ∀ l ∈ renderLines cw v n W ind ea, l.expandable = true → noBreak l.str)
    (hm : prettyMeasure cw v n W ind ea = .ok m) :
    ∀ l ∈ renderLines cw v n (m : Int) ind ea, ∀ p ∈ splitlines l.str, cellLen cw p ≤ m := by
  have hW : ∀ l ∈ renderLines cw v n W ind ea, ∀ p ∈ splitlines l.str, cellLen cw p ≤ m := by
    intro l hl p hp
    simp only [prettyMeasure, hv, Bool.false_eq_true, if_false, render] at hm
    have hmem := pieces_mem_join ((renderLines cw v n W ind ea).map Line.str) l.str
      (List.mem_map.mpr ⟨l, hl, rfl⟩) p hp
    exact pyMax_ge _ m hm _ (List.mem_map.mpr ⟨_, hmem, rfl⟩)
  intro l hl
  rw [render_is_spec] at hl
  cases hea : ea with
  | true =>
    subst hea
    have := specLine_ea_width ⟨cw, v, W, ind, true⟩ (m : Int) rfl n (rootLine n)
    rw [this, ← render_is_spec] at hl
    exact hW l hl
  | false =>
    subst hea
    refine specLine_boundP ⟨cw, v, W, ind, false⟩ m rfl (fun l => ∀ p ∈ splitlines l.str, cellLen cw p ≤ m)
      ?_ n (rootLine n) rfl ⟨0, rfl⟩ ?_ ?_ l hl
    · rintro l ⟨k, hk⟩ hc p hp
      have := splitlines_piece_le cw l.str p hp
      rw [Line.cells_eq_str cw hs l k hk] at this
      exact Nat.le_trans this hc
    · intro l' hl'
      rw [← render_is_spec] at hl'
      exact hW l' hl'
    · intro l' hl' he
      rw [← render_is_spec] at hl'
      obtain ⟨d, hd⟩ := indent_consistent cw v n W ind false l' hl'
      rw [← Line.cells_eq_str cw hs l' _ hd]
      by_cases hne : l'.str = []
      · rw [hne]; exact Nat.zero_le _
      · have hmem := mem_splitlines_join [l'.str] (by simpa using hb l' hl' he) l'.str (by simp) hne
        have hj : joinLines [l'.str] = l'.str := by simp [joinLines, List.intercalate]
        rw [hj] at hmem
        exact hW l' hl' _ hmem

/-- the tree of `[R, 'bbbbbbbb']` where `repr(R)` is `"a\n"`. -/
def breakInList : Node :=
  .mk [] [] ['['] [']'] [] true false true
    [.mk [] ['a', '\n'] [] [] [] false false false [], .mk [] "'bbbbbbbb'".toList [] [] [] true false false []]

/-- The hypothesis of `pretty_measure_sound_pieces` is needed: `check_length` adds up the cells of a whole line,
`__rich_measure__` takes the longest piece.  `[R, 'bbbbbbbb']` with `repr(R) == "a\n"` measures 13 (the piece
`, 'bbbbbbbb']`), does not fit 13 as a whole (15 cells), is expanded at width 13 and then has the line
`    'bbbbbbbb'` of 14 cells.  (Outside C16's statement: only an object with a custom multi-line `__repr__` inside a
container that fits gets there; `repr` of `str` / `bytes` escapes every line boundary.) -/
theorem kept_line_break_needed :
    prettyMeasure (fun _ => 1) .repaired breakInList 80 4 false = .ok 13 ∧
    ∃ l ∈ specLine ⟨fun _ => 1, .repaired, 13, 4, false⟩ (rootLine breakInList) breakInList,
      cellLen (fun _ => 1) l.str = 14 := by
  constructor
  · unfold prettyMeasure render; rw [render_is_spec]; dsimp only; decide
  · decide

/-- **pretty_measure_sound_margin** (the repaired measurement, `margin ≥ 0`).  `__rich_console__` renders at
`options.max_width - margin`.  If the measurement at available width `W` reports `M`, then what `__rich_console__`
renders when given exactly `M` — `pretty_repr` at `M - margin` — has no piece wider than `M`. -/
theorem pretty_measure_sound_margin (hs : cw ' ' = 1) (v : Variant) (hv : v.measureNoExpandAll = false)
    (n : Node) (W ind : Int) (ea : Bool) (margin : Int) (hmg : 0 ≤ margin) (M : Int)
    (hb : ∀ l ∈ renderLines cw v n (W - margin) ind ea, l.expandable = true → noBreak l.str)
    (hm : prettyMeasureM false cw v n W ind ea margin = .ok M) :
    ∀ l ∈ renderLines cw v n (M - margin) ind ea, ∀ p ∈ splitlines l.str, (cellLen cw p : Int) ≤ M := by
  simp only [prettyMeasureM, Bool.false_eq_true, if_false] at hm
  cases h : prettyMeasure cw v n (W - margin) ind ea with
  | error e => rw [h] at hm; cases hm
  | ok m =>
    rw [h] at hm
    have hM : M = (m : Int) + margin := by cases hm; rfl
    subst hM
    have hw : ((m : Int) + margin - margin) = (m : Int) := by omega
    rw [hw]
    intro l hl p hp
    have := pretty_measure_sound_pieces cw hs v hv n (W - margin) ind ea m hb h l hl p hp
    omega

/-- the tree of `[['aaaa']]`. -/
def nestedList4 : Node :=
  .mk [] [] ['['] [']'] [] true false true
    [.mk [] [] ['['] [']'] [] true false true [.mk [] "'aaaa'".toList [] [] [] true false false []]]

/-- **New finding (deepening round 4): `__rich_measure__` ignores `margin`.**  `Pretty([['aaaa']], margin=1)`
measures 10 (the one-line form) at available width 80; given exactly 10, `__rich_console__` renders `pretty_repr` at
width 9, where nothing fits on one line any more, and yields the line `        'aaaa'` of 14 cells: `Panel.fit`
crops the value. -/
theorem old_pretty_measure_margin_unsound :
    prettyMeasureM true (fun _ => 1) .repaired nestedList4 80 4 false 1 = .ok 10 ∧
    ∃ l ∈ specLine ⟨fun _ => 1, .repaired, 10 - 1, 4, false⟩ (rootLine nestedList4) nestedList4,
      cellLen (fun _ => 1) l.str = 14 := by
  constructor
  · simp only [prettyMeasureM, if_true]
    unfold prettyMeasure render; rw [render_is_spec]; dsimp only; decide
  · decide

/-- the repaired measurement of the same value is 11: rendered at 11 - 1 the one-line form (10 cells) fits. -/
theorem repaired_pretty_measure_margin :
    prettyMeasureM false (fun _ => 1) .repaired nestedList4 80 4 false 1 = .ok 11 ∧
    (specLine ⟨fun _ => 1, .repaired, 11 - 1, 4, false⟩ (rootLine nestedList4) nestedList4).map Line.str
      = ["[['aaaa']]".toList] := by
  constructor
  · simp only [prettyMeasureM, Bool.false_eq_true, if_false]
    unfold prettyMeasure render; rw [render_is_spec]; dsimp only; decide
  · decide

/-! ## Non-vacuity: the hypotheses are met by concrete non-trivial values -/

/-- `a = [1, a]` (a self-referential list): the heap is well-formed, `traverse` ends with the marker. -/
example : HeapOk [.seq .list [] [1, 0], .leaf (.atom ['1']) false] := by
  intro o ho
  simp only [List.mem_cons, List.not_mem_nil, or_false] at ho
  rcases ho with rfl | rfl <;> simp
example : (traverse (cfg0 .today) [.seq .list [] [1, 0], .leaf (.atom ['1']) false] 0).map Node.str
    = some "[1, ...]".toList := by decide
/-- the F24 tree is well-formed and expandable; at width 3 it does not fit. -/
example : tupleOfList.wf = true ∧ tupleOfList.expandable = true ∧ ¬ cellLen (fun _ => 1) tupleOfList.str ≤ 3 := by decide
example : tupleOfList.str = "([1, 2],)".toList ∧ tupleOfList.compact = "([1,2],)".toList := by decide
/-- abbreviation: 3 items, `max_length = 1`. -/
example : (traverse { cfg0 .today with maxLength := some 1 }
    [.seq .tuple [] [1, 1, 1], .leaf (.atom ['7']) false] 0).map Node.str = some "(7, ... +2)".toList := by decide
example : toRepr (fun _ s => ['\''] ++ s ++ ['\'']) (some 2) (.str false "hello".toList) = "'he'+3".toList := by decide

/-- round 4: a multi-line repr on a line of its own inside an expanded list meets the hypothesis of
`pretty_measure_sound_pieces` (no kept container line at `W = 3`), and is measured by its longest piece. -/
def multiLineInList : Node :=
  .mk [] [] ['['] [']'] [] true false true [.mk [] "ab\ncdefgh".toList [] [] [] true false false []]
example : prettyMeasure (fun _ => 1) .repaired multiLineInList 3 4 false = .ok 6 ∧
    ∀ l ∈ specLine ⟨fun _ => 1, .repaired, 3, 4, false⟩ (rootLine multiLineInList) multiLineInList,
      l.expandable = false := by
  constructor
  · unfold prettyMeasure render; rw [render_is_spec]; dsimp only; decide
  · decide
/-- guides: `    1,` with `indent_size = 4` becomes `│   1,`; the text of the F24 tree at width 3 has no blank line. -/
example : guideLine 4 "    1,".toList = "│   1,".toList := by decide
example : noBlankLine (Syntax.textSplitC "(\n    [\n        1,\n    ],\n)".toList false) := by
  unfold noBlankLine; decide
example : withIndentGuides 4 "(\n    [\n        1,\n    ],\n)".toList = .ok "(\n│   [\n│   │   1,\n│   ],\n)".toList := by
  decide

end RichModel.C16
