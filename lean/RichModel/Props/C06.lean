import RichModel.Lemmas.Style
import RichModel.Lemmas.StyleText
import RichModel.Lemmas.StyleParse
import RichModel.Lemmas.StyleSpell
import RichModel.Lemmas.StyleSpellNum
import RichModel.Lemmas.StyleSpellRgb
import RichModel.Lemmas.StrTablesReal
import RichModel.Lemmas.StyleCtor
/-!
# C06 — styles form a consistent algebra, round-trip through text, and hash consistently

Property theorems only, 53 of them (helper lemmas live in `Lemmas/Style`, `StyleText`, `StyleParse`,
`StyleSpell`, `StyleSpellNum`, `StyleSpellRgb`, `ColorParse`, `StrTablesReal`, `StyleCtor`).  `v : StyleVariant`
selects the code variant (seven flags, `Model/ColorParse.lean`; `StyleVariant.old` = rich 9.10.0 as
found, `StyleVariant.fixed` = `.repaired` = what /repo contains since fixes c34676b, a639ea2, cf948b2,
c566893): the algebra and the text theorems hold for *every* variant unless a flag is named in the
hypotheses; the hash theorems (`hash_from_fields`, `eq_hash`) need the four hash repairs, the `str()`
round trip of arbitrary reachable styles (`parse_str_roundtrip`) needs the `update_link` cache repair
(`updateLinkDef = false`), and the unconditional left identity `add_null_left` with `add_is_merge`,
`add_respects_eq`, `empty_style_is_identity` needs `emptyLink = false` (`add_null_left_of_link` is the
every-variant form, for links other than `""`).  Each of the six defects has a `decide`d witness on
`StyleVariant.old` (`old_*`, last section).  `Reachable v s` = `s` can be built with the public
constructors (`Lemmas/Style.lean`).

`T : StrTables` are the interpreter's character tables (`str.isspace`, `str.isdecimal`/`int`,
`str.lower`, the `int()` digit limit); every text theorem holds for **all** tables satisfying
`StrTables.Lawful` — both `StrTables.ascii` (`ascii_tables_lawful`) and the tables translated from the
running Python on this run (`StrTables.real`, all code points: `real_tables_lawful`, re-proved from the
regenerated tables by `decide +kernel` on every run) are proved lawful.  `parse v` / `normalize v` / `wf v` without `T` are the ASCII instances.

`Style.eq` is `Style.__eq__`; `hashKey` is the tuple whose `hash()` the object stores.
-/
namespace RichModel.C06
open RichModel RichModel.Style RichModel.AsciiStr

/-! ## The `+` algebra -/

/-- `(a + b) + c` and `a + (b + c)` are the same object state — fields, `_null`, stored hash and
definition cache — for every three styles and every code variant. -/
theorem add_assoc (v : StyleVariant) (a b c : Style) : add v (add v a b) c = add v a (add v b c) :=
  Style.add_assoc v a b c

/-- The null style is a right identity (the very same object is returned), also for `+ None`. -/
theorem add_null_right (v : StyleVariant) (a : Style) :
    add v a Style.null = a ∧ addOpt v a (some Style.null) = a ∧ addOpt v a none = a :=
  ⟨Style.add_null_right v a, Style.add_null_right v a, rfl⟩

/-- The null style is a left identity up to `==`, for every constructible style whose link is not
the empty string — in every code variant. -/
theorem add_null_left_of_link (v : StyleVariant) (a : Style) (ha : Reachable v a) (hl : a.link ≠ some []) :
    eq (add v Style.null a) a = true := by
  cases hn : a.isNull with
  | false => rw [Style.add_null_left v a hn]; simp [eq]
  | true =>
    obtain ⟨h1, h2, h3, h4, h5⟩ := ha.inv.null_empty hn
    have : a.link = none := by
      cases hk : a.link with
      | none => rfl
      | some l =>
        cases l with
        | nil => exact absurd hk hl
        | cons x r => rw [hk] at h5; cases h5
    simp [add, hn, eq, Style.null, h1, h2, h3, h4, this]

/-- **The null style is a left identity up to `==` for every constructible style**, once an empty
link is stored as `None` (`emptyLink = false`: fix c566893 in /repo, proposed as
pending_fixes/C06-empty-link-is-no-link.diff).  On rich 9.10.0 as found this is false at
`Style(link="")`: `old_empty_link_breaks_identity`. -/
theorem add_null_left (v : StyleVariant) (hv : v.emptyLink = false) (a : Style) (ha : Reachable v a) :
    eq (add v Style.null a) a = true :=
  add_null_left_of_link v a ha (ha.linkOk hv)

/-- Right bias, attributes: bit by bit the right operand wins exactly where it specifies a value
(`attr` is the descriptor `style.bold`, `style.dim`, …: `none` = not set). -/
theorem add_right_bias_attr (v : StyleVariant) (a b : Style) (ha : Reachable v a) (hb : Reachable v b) (i : Nat) :
    (add v a b).attr i = (b.attr i).or (a.attr i) :=
  attr_add v ha.inv hb.inv i

/-- Right bias, colours. -/
theorem add_right_bias_color (v : StyleVariant) (a b : Style) (ha : Reachable v a) (hb : Reachable v b) :
    (add v a b).color = b.color.or a.color ∧ (add v a b).bgcolor = b.bgcolor.or a.bgcolor :=
  color_add v ha.inv hb.inv

/-- Right bias, link: the right operand's link wins exactly where it is a (non-empty) link;
`linkVal` reads the empty string as "no link", which is how `+`, `str`, `_null` and the renderer treat it. -/
theorem add_right_bias_link (v : StyleVariant) (a b : Style) (ha : Reachable v a) (hb : Reachable v b) :
    linkVal (add v a b).link = if strTruthy b.link then b.link else linkVal a.link :=
  link_add v ha.inv hb.inv

/-- …and literally, when neither link is the empty string. -/
theorem add_right_bias_link_exact (v : StyleVariant) (a b : Style) (ha : Reachable v a) (hb : Reachable v b)
    (hla : a.link ≠ some []) (hlb : b.link ≠ some []) :
    (add v a b).link = b.link.or a.link := by
  have h := add_right_bias_link v a b ha hb
  have tr : ∀ l : Option (List Char), l ≠ some [] → (strTruthy l = l.isSome ∧ linkVal l = l) := by
    intro l hl
    cases l with
    | none => exact ⟨rfl, rfl⟩
    | some w =>
      cases w with
      | nil => exact absurd rfl hl
      | cons x r => exact ⟨rfl, rfl⟩
  have hab : (add v a b).link ≠ some [] := by
    unfold add
    by_cases h1 : b.isNull = true
    · simpa [h1] using hla
    · by_cases h2 : a.isNull = true
      · simpa [h1, h2] using hlb
      · simp only [h1, h2, if_false, Bool.false_eq_true, linkOr]
        split <;> assumption
  rw [(tr _ hab).2, (tr _ hla).2, (tr _ hlb).1] at h
  rw [h]
  cases b.link <;> rfl

/-- `Style.chain(*styles)` / `Style.combine(styles)` is the left fold of `+`; on an empty iterable
`next()` raises `StopIteration`. -/
theorem chain_is_fold (v : StyleVariant) (first : Style) (rest : List Style) :
    chain v (first :: rest) = .ok (rest.foldl (add v) first) ∧ chain v [] = .error .stopIteration :=
  ⟨rfl, rfl⟩

/-! ### The stored `_null` flag

`_null` is stored, not recomputed: `without_color`, `update_link` and `copy` set it to `False` even
when no field is left (`Style(color="red").without_color == Style()` yet `bool()` of it is `True`),
and `+` short-cuts on it.  This does **not** break the statement of C06: `_null` is not compared by
`==`, not hashed, and — the next two theorems — cannot be observed through `+` and `==` either: the
compared fields of a sum are the general merge of the operands' compared fields whatever the flags
say, so `+` respects `==`, and a "non-null empty" style is as much an identity as `NULL_STYLE`
(`a + e == a`, `e + a == a`).  What the flag does change is `bool(style)`, which is outside C06. -/

/-- The five compared fields of `a + b` are the merge of the compared fields of `a` and `b`: the
`_null` short cuts of `__add__` are unobservable. -/
theorem add_is_merge (v : StyleVariant) (hv : v.emptyLink = false) (a b : Style)
    (ha : Reachable v a) (hb : Reachable v b) :
    (add v a b).color = b.color.or a.color ∧ (add v a b).bgcolor = b.bgcolor.or a.bgcolor ∧
    (add v a b).setAttributes = a.setAttributes ||| b.setAttributes ∧
    (add v a b).attributes = andNot a.attributes b.setAttributes ||| (b.attributes &&& b.setAttributes) ∧
    (add v a b).link = linkOr b.link a.link :=
  add_fields v ha.inv hb.inv (ha.linkOk hv) (hb.linkOk hv)

/-- `+` respects `==`: equal operands (however built, whatever their `_null` flags, hashes and caches)
give equal sums. -/
theorem add_respects_eq (v : StyleVariant) (hv : v.emptyLink = false) (a a' b b' : Style)
    (ha : Reachable v a) (ha' : Reachable v a') (hb : Reachable v b) (hb' : Reachable v b')
    (e1 : eq a a' = true) (e2 : eq b b' = true) : eq (add v a b) (add v a' b') = true :=
  add_congr v ha.inv ha'.inv hb.inv hb'.inv (ha.linkOk hv) (ha'.linkOk hv) (hb.linkOk hv) (hb'.linkOk hv) e1 e2

/-- Every constructible style that compares equal to `NULL_STYLE` is a two-sided identity up to `==`,
flagged `_null` or not. -/
theorem empty_style_is_identity (v : StyleVariant) (hv : v.emptyLink = false) (e a : Style)
    (he : Reachable v e) (ha : Reachable v a) (h : eq e Style.null = true) :
    eq (add v a e) a = true ∧ eq (add v e a) a = true := by
  have hn : Reachable v Style.null := Reachable.null
  have eqa : eq a a = true := by simp [eq]
  constructor
  · have := add_respects_eq v hv a a e Style.null ha ha he hn eqa h
    rwa [Style.add_null_right] at this
  · have h1 := add_respects_eq v hv e Style.null a a he hn ha ha h eqa
    have h2 := add_null_left v hv a ha
    rw [eq_iff] at h1 h2 ⊢
    obtain ⟨p1, p2, p3, p4, p5⟩ := h1
    obtain ⟨q1, q2, q3, q4, q5⟩ := h2
    exact ⟨p1.trans q1, p2.trans q2, p3.trans q3, p4.trans q4, p5.trans q5⟩

/-! ## Text round trip -/

/-- The ASCII rules are lawful character tables (so every theorem below holds for the two-argument
`parse v`, `normalize v`, `wf v` that other models use). -/
theorem ascii_tables_lawful : StrTables.Lawful StrTables.ascii := inferInstance

/-- The character tables translated from the running Python on this run (`str.isspace`,
`str.isdecimal`/`int`, `str.lower` of every code point, `Gen/StrTables.lean`) are lawful: they agree
with the ASCII rules below 128, `lower()` is idempotent and creates no white space.  So every theorem
below holds for `Color.parse` / `Style.parse` over **all** code points (the one thing outside the
tables is the context-dependent lower-casing of GREEK CAPITAL SIGMA). -/
theorem real_tables_lawful : StrTables.Lawful StrTables.real := inferInstance


/-- **Round trip of the computed definition.**  For every well-formed style (`Style.wf`, decidable:
13 attribute bits with values only where set, colours whose name is a white-space-free definition
of that very colour, a link that is `None` or one non-empty word) the definition `__str__`
computes parses, and parses back to an equal style. -/
theorem parse_render_roundtrip (T : StrTables) [T.Lawful] (v : StyleVariant) (s : Style) (hwf : wfT T v s = true) :
    ∃ s', parseT T v (render s) = .ok s' ∧ eq s' s = true :=
  parse_render (wf_iff.mp hwf)

/-- **Round trip of `str()`** for every constructible well-formed style, once `update_link` no
longer copies the cached definition (otherwise false: `old_update_link_stale_str`). -/
theorem parse_str_roundtrip (T : StrTables) [T.Lawful] (v : StyleVariant) (hv : v.updateLinkDef = false) (s : Style) (hr : Reachable v s)
    (hwf : wfT T v s = true) : ∃ s', parseT T v (str s) = .ok s' ∧ eq s' s = true := by
  have : str s = render s := by
    rcases hr.cacheOk hv with h | h <;> simp [str, h]
  rw [this]
  exact parse_render_roundtrip T v s hwf

/-- Every style that `Style.parse` returns is well-formed (so the round trip applies to it), for
every input string, every code variant and every lawful character table. -/
theorem parse_result_wf (T : StrTables) [T.Lawful] (v : StyleVariant) (d : List Char) (s : Style) (h : parseT T v d = .ok s) : wfT T v s = true :=
  (parse_wf h).1

/-- `parse(str(parse(d))) == parse(d)` for every definition `d` that parses. -/
theorem parse_str_parse (T : StrTables) [T.Lawful] (v : StyleVariant) (d : List Char) (s : Style) (h : parseT T v d = .ok s) :
    ∃ s', parseT T v (str s) = .ok s' ∧ eq s' s = true := by
  rw [(parse_wf h).2]
  exact parse_render_roundtrip T v s (parse_wf h).1

/-- `normalize(d)` parses back to `parse(d)`, for every definition that parses. -/
theorem normalize_roundtrip (T : StrTables) [T.Lawful] (v : StyleVariant) (d : List Char) (s : Style) (h : parseT T v d = .ok s) :
    ∃ t s', normalizeT T v d = .ok t ∧ parseT T v t = .ok s' ∧ eq s' s = true := by
  obtain ⟨s', h1, h2⟩ := parse_str_parse T v d s h
  exact ⟨str s, s', by simp [normalizeT, h], h1, h2⟩

/-- `normalize` is idempotent on every definition that parses: `normalize(normalize(d)) == normalize(d)`.

Full statement (no hypothesis on `d`) is **false on the code as it is**, see
`normalize_not_idempotent_unparseable`: the fallback `style.strip().lower()` of a definition that
does not parse can produce one that does (the word after `not` is the only one `parse` does not
lower-case) and is then normalised further.  Definitions that do not parse are outside the
statement of C06 ("the string form of any style"). -/
theorem normalize_idempotent (T : StrTables) [T.Lawful] (v : StyleVariant) (d : List Char) (s : Style) (h : parseT T v d = .ok s) :
    ∃ t, normalizeT T v d = .ok t ∧ normalizeT T v t = .ok t := by
  obtain ⟨s', h1, h2⟩ := parse_str_parse T v d s h
  refine ⟨str s, by simp [normalizeT, h], ?_⟩
  have e1 : str s' = render s' := (parse_wf h1).2
  have e2 : str s = render s := (parse_wf h).2
  simp only [normalizeT, h1]
  rw [e1, e2, render_eq_of_eq h2]

/-- Witness for the remark above (any variant of the code). -/
theorem normalize_not_idempotent_unparseable :
    (normalize StyleVariant.old (cl! "italic not Bold")).toOption = some (cl! "italic not bold") ∧
    (normalize StyleVariant.old (cl! "italic not bold")).toOption = some (cl! "not bold italic") := by
  decide

/-! ## Documented spellings (table driven) -/

/-- The documented attribute words (docs/source/style.rst and the `Style` docstring) with the bit
of the attribute each one names: 0 bold, 1 dim, 2 italic, 3 underline, 4 blink, 5 blink2, 6 reverse,
7 conceal, 8 strike, 9 underline2, 10 frame, 11 encircle, 12 overline. -/
def documentedAttrs : List (List Char × Nat) :=
  [(cl! "bold", 0), (cl! "b", 0), (cl! "dim", 1), (cl! "d", 1), (cl! "italic", 2), (cl! "i", 2),
   (cl! "underline", 3), (cl! "u", 3), (cl! "blink", 4), (cl! "blink2", 5), (cl! "reverse", 6), (cl! "r", 6),
   (cl! "conceal", 7), (cl! "c", 7), (cl! "strike", 8), (cl! "s", 8), (cl! "underline2", 9), (cl! "uu", 9),
   (cl! "frame", 10), (cl! "encircle", 11), (cl! "overline", 12), (cl! "o", 12)]

theorem attr_spellings_tbl : documentedAttrs.all (fun p => goodAttr (p.2, p.1)) = true := by
  decide

/-- Every documented attribute word parses to exactly that attribute switched on, and `not <word>`
to exactly that attribute switched off (nothing else set) — in every code variant and for every
lawful character table. -/
theorem attr_spellings (T : StrTables) [T.Lawful] (v : StyleVariant) (w : List Char) (i : Nat)
    (h : (w, i) ∈ documentedAttrs) :
    parseT T v w = .ok (single i true) ∧ parseT T v (cl! "not " ++ w) = .ok (single i false) :=
  parse_attr_word (goodAttr_of (p := (i, w)) (List.all_eq_true.mp attr_spellings_tbl (w, i) h))

/-- Every name in `ANSI_COLOR_NAMES` (as translated from rich/color.py on this run) parses to the
colour of that name and number — standard below 16, eight-bit from 16 — as a foreground colour, and
after `on` as a background colour; nothing else is set. -/
theorem named_color_spellings (T : StrTables) [T.Lawful] (v : StyleVariant) (name : List Char) (number : Nat)
    (h : (name, number) ∈ Gen.ansiColorNames) :
    let c : Color := { name := name, type := if number < 16 then .standard else .eightBit, number := some number }
    parseT T v name = .ok (onlyColor c true) ∧ parseT T v (cl! "on " ++ name) = .ok (onlyColor c false) :=
  parse_color_word (named_color_wf v h)

/-- The sixteen system colours carry their documented names. -/
theorem standard_color_names :
    ([cl! "black", cl! "red", cl! "green", cl! "yellow", cl! "blue", cl! "magenta", cl! "cyan", cl! "white",
      cl! "bright_black", cl! "bright_red", cl! "bright_green", cl! "bright_yellow", cl! "bright_blue",
      cl! "bright_magenta", cl! "bright_cyan", cl! "bright_white"].map ansiColorNumber) =
      (List.range 16).map some :=
  standard_names_tbl

/-- `color(n)` for every n ≤ 255 (decimal digits of n) is colour number n, foreground and background. -/
theorem color_number_spellings (T : StrTables) [T.Lawful] (v : StyleVariant) (n : Nat) (h : n < 256) :
    let text := cl! "color(" ++ Nat.toDigits 10 n ++ cl! ")"
    let c : Color := { name := text, type := if n < 16 then .standard else .eightBit, number := some n }
    parseT T v text = .ok (onlyColor c true) ∧ parseT T v (cl! "on " ++ text) = .ok (onlyColor c false) :=
  parse_color_word (numbered_color_wf v h)

/-- `default` is the default colour (`default on default` is what the documentation calls the
terminal's starting style). -/
theorem default_color_spelling (T : StrTables) [T.Lawful] (v : StyleVariant) :
    parseT T v (cl! "default") = .ok (onlyColor defaultColor true) ∧
    parseT T v (cl! "on default") = .ok (onlyColor defaultColor false) :=
  parse_color_word (default_color_wf v)

/-- `#` followed by three pairs of hex digits **of either letter case** is the truecolor with those
components, foreground and background — for all 22^6 such strings.  `Style.parse` (alone) and
`Color.parse` (after `on`) lower-case the word, so the colour's name is the lower-cased text. -/
theorem hex_color_spellings (T : StrTables) [T.Lawful] (v : StyleVariant) (a b c d e f : Char)
    (h : [a, b, c, d, e, f].all isHex = true) :
    let text := ['#', a, b, c, d, e, f]
    let (a', b', c', d', e', f') := (lowerChar a, lowerChar b, lowerChar c, lowerChar d, lowerChar e, lowerChar f)
    let col : Color := { name := ['#', a', b', c', d', e', f'], type := .truecolor,
                         triplet := some ⟨16 * hexVal a' + hexVal b', 16 * hexVal c' + hexVal d', 16 * hexVal e' + hexVal f'⟩ }
    parseT T v text = .ok (onlyColor col true) ∧ parseT T v (cl! "on " ++ text) = .ok (onlyColor col false) := by
  obtain ⟨hl, hx, hns⟩ := lower_hex (T := T) a b c d e f h
  exact parse_color_word_lower (hex_color_wf v _ _ _ _ _ _ hx) (by simp) hns hl

/-- `hexVal` reads the sixteen digits as 0..15. -/
theorem hex_digit_values : (cl! "0123456789abcdef").map hexVal = List.range 16 ∧
    (cl! "0123456789ABCDEF").map (fun c => hexVal (lowerChar c)) = List.range 16 ∧
    (cl! "0123456789abcdefABCDEF").all isHex = true := by
  decide

/-- `rgb(r,g,b)` with decimal r, g, b ≤ 255 is the truecolor with those components, foreground and
background — for all 2^24 triplets. -/
theorem rgb_color_spellings (T : StrTables) [T.Lawful] (v : StyleVariant) (r g b : Nat) (hr : r < 256) (hg : g < 256) (hb : b < 256) :
    let text := cl! "rgb(" ++ (Nat.toDigits 10 r ++ ',' :: (Nat.toDigits 10 g ++ ',' :: Nat.toDigits 10 b)) ++ [')']
    let col : Color := { name := text, type := .truecolor, triplet := some ⟨r, g, b⟩ }
    parseT T v text = .ok (onlyColor col true) ∧ parseT T v (cl! "on " ++ text) = .ok (onlyColor col false) :=
  parse_color_word (rgb_color_wf v r g b hr hg hb)

/-- The words the style grammar gives a meaning of their own (`on not link none` and the 22
attribute words) are not colour definitions on this run's `ANSI_COLOR_NAMES` — the side condition
that makes the round trip unambiguous. -/
theorem keywords_are_not_colors (T : StrTables) [T.Lawful] (v : StyleVariant) (k : List Char) (hk : k ∈ styleKeywords) :
    Color.parseT T v k = .error .colorParse :=
  keyword_not_color T v hk

/-! ## The public colour constructors as construction routes

`Color.from_ansi`, `Color.from_triplet`, `Color.from_rgb`, `Color.default` (`Model/StyleCtor.lean`) store a
name that is a definition of the very colour they build — same name, same `ColorType`, same number, same
triplet (colours are NamedTuples: `==` and `hash` see all four fields).  So a style whose colours come
from these constructors is `==` (with equal stored hash) to the one parsed from its text, and its `str()`
round trips.  An off-by-one in `from_ansi`'s `number < 16` alone (not in `Color.parse`) breaks exactly
`from_ansi_is_parsed_color` at 16. -/

/-- `Color.parse("color(n)")` is `Color.from_ansi(n)` — field by field, `ColorType` included — for every n ≤ 255. -/
theorem from_ansi_is_parsed_color (T : StrTables) [T.Lawful] (v : StyleVariant) (n : Nat) (h : n < 256) :
    Color.parseT T v (cl! "color(" ++ Nat.toDigits 10 n ++ cl! ")") = .ok (Color.fromAnsi n) ∧
    (Color.fromAnsi n).type = (if n < 16 then .standard else .eightBit) ∧ (Color.fromAnsi n).number = some n :=
  ⟨(wfColor_facts (fromAnsi_wf (T := T) v h)).2.2.2, rfl, rfl⟩

/-- `Color.from_ansi` does not validate: `from_ansi(256)` is an eight-bit colour named `color(256)`, which
`Color.parse` rejects — the bound in `from_ansi_is_parsed_color` is needed. -/
theorem from_ansi_out_of_range :
    (Color.fromAnsi 256).type = .eightBit ∧ wfColorT StrTables.ascii StyleVariant.fixed (Color.fromAnsi 256) = false := by
  decide

/-- `Color.parse(triplet.hex)` is `Color.from_triplet(triplet)` (= `Color.from_rgb` of floats truncating to
it), and `Color.parse(triplet.rgb)` is the truecolor with the same triplet — for all 2^24 triplets. -/
theorem from_triplet_is_parsed_hex (T : StrTables) [T.Lawful] (v : StyleVariant) (r g b : Nat)
    (hr : r < 256) (hg : g < 256) (hb : b < 256) :
    Color.parseT T v (Color.tripletHex ⟨r, g, b⟩) = .ok (Color.fromTriplet ⟨r, g, b⟩) ∧
    Color.parseT T v (Color.tripletRgb ⟨r, g, b⟩) =
      .ok { name := Color.tripletRgb ⟨r, g, b⟩, type := .truecolor, triplet := some ⟨r, g, b⟩ } ∧
    (∀ r4 g4 b4, r4 / 4 = r → g4 / 4 = g → b4 / 4 = b → Color.fromRgbQuarters r4 g4 b4 = Color.fromTriplet ⟨r, g, b⟩) := by
  refine ⟨(wfColor_facts (fromTriplet_wf (T := T) v hr hg hb)).2.2.2,
    (wfColor_facts (rgb_color_wf (T := T) v r g b hr hg hb)).2.2.2, ?_⟩
  intro r4 g4 b4 e1 e2 e3
  simp [Color.fromRgbQuarters, e1, e2, e3]

/-- Every colour the public constructors make from in-range arguments (and every table name) is
well-formed: white-space free and parsed back from its own name. -/
theorem made_color_wf (T : StrTables) [T.Lawful] (v : StyleVariant) (c : Color) (h : MadeColor c) :
    wfColorT T v c = true ∧ Color.parseT T v c.name = .ok c :=
  ⟨h.wf v, (wfColor_facts (h.wf (T := T) v)).2.2.2⟩

/-- **All routes from a constructor-made colour to a one-colour style agree**: `Style(color=c)`,
`Style(color=c.name)`, `Style.parse(c.name)`, `Style.from_color(c)` are the same style, with the same
stored hash key; likewise for the background with `on`, and `background_style` of any style with that
background. -/
theorem made_color_routes_agree (T : StrTables) [T.Lawful] (v : StyleVariant) (hv : v.fromColorHash = false)
    (c : Color) (h : MadeColor c) :
    let fg := onlyColor c true
    let bg := onlyColor c false
    initT T v (some (.color c)) none [] none = .ok fg ∧ initT T v (some (.str c.name)) none [] none = .ok fg ∧
    parseT T v c.name = .ok fg ∧ fromColor v (some c) none = fg ∧
    initT T v none (some (.color c)) [] none = .ok bg ∧ initT T v none (some (.str c.name)) [] none = .ok bg ∧
    parseT T v (cl! "on " ++ c.name) = .ok bg ∧ fromColor v none (some c) = bg ∧
    (∀ s : Style, s.bgcolor = some c → backgroundStyleT T v s = .ok bg) :=
  have hw := h.wf (T := T) v
  ⟨(init_color T v c).1, (init_color_name hw).1, (parse_color_word hw).1, (fromColor_only v hv c).1,
   (init_color T v c).2, (init_color_name hw).2, (parse_color_word hw).2, (fromColor_only v hv c).2,
   fun _ hs => backgroundStyle_some T v hs⟩

/-- **Round trip for constructor-made colours**: every constructible style whose colours come from the
public colour constructors (in range) and whose link is `None` or one word has a `str()` that parses back to it. -/
theorem made_color_roundtrip (T : StrTables) [T.Lawful] (v : StyleVariant) (hv : v.updateLinkDef = false) (s : Style)
    (hr : Reachable v s) (hc : ∀ c, s.color = some c → MadeColor c) (hb : ∀ c, s.bgcolor = some c → MadeColor c)
    (hl : wfLinkT T s.link = true) : ∃ s', parseT T v (str s) = .ok s' ∧ eq s' s = true :=
  parse_str_roundtrip T v hv s hr
    (wf_iff.mpr ⟨hr.inv.attrs_sub, hr.inv.set_lt, fun c h => (hc c h).wf v, fun c h => (hb c h).wf v, hl⟩)

/-! ## Links -/

/-- **A link containing white space cannot round trip**, by construction of the grammar (`link` takes the
next word only): whatever `str()` of such a style parses to, its link differs.  This is why the round
trip is stated for `Style.wf` (link `None` or one non-empty word); any single word — upper case, `%`,
non-ASCII, of any length — is inside `wf` and is kept verbatim (`parse` does not lower-case the word after `link`). -/
theorem link_with_space_no_roundtrip (T : StrTables) [T.Lawful] (v : StyleVariant) (s s' : Style) (l : List Char)
    (hl : s.link = some l) (hsp : T.noSpace l = false) (d : List Char) (h : parseT T v d = .ok s') :
    s'.link ≠ s.link := by
  intro e
  have hw := (wf_iff.mp (parse_result_wf T v d s' h)).link
  rw [e, hl] at hw
  simp [wfLinkT, hsp] at hw

/-- Witness: `Style(link="a b")` prints as `link a b`, which parses — to the link `a` with `bold` on. -/
theorem link_two_words_witness :
    (match init StyleVariant.fixed none none [] (some (cl! "a b")) with
     | .ok s => some (str s, (parse StyleVariant.fixed (str s)).toOption.map (fun t => (t.link, t.attr 0, eq t s)))
     | .error _ => none) = some (cl! "link a b", some (some ['a'], some true, false)) := by
  decide

/-- The word after `link` is stored verbatim (no lower-casing), for every one-word link: `normalize` and
`str()` keep the letter case of a URL. -/
theorem link_word_verbatim (T : StrTables) [T.Lawful] (v : StyleVariant) (l : List Char) (hne : l ≠ [])
    (hns : T.noSpace l = true) :
    ∃ s', parseT T v (cl! "link " ++ l) = .ok s' ∧ s'.link = some l ∧ normalizeT T v (cl! "link " ++ l) = .ok (cl! "link " ++ l) := by
  let s : Style := { color := none, bgcolor := none, attributes := 0, setAttributes := 0, link := some l,
                     hash := ⟨none, none, some 0, some 0, some l⟩, isNull := false, styleDef := none }
  have hne' : l.isEmpty = false := by cases l <;> simp_all
  have hwf : wfT T v s = true := by simp [wfT, s, wfLinkT, hns, hne']
  have hrender : render s = cl! "link " ++ l := by
    cases l with
    | nil => exact absurd rfl hne
    | cons x r => simp [render, strElems, s, strTruthy, joinSpace]
  obtain ⟨s', h1, h2⟩ := parse_render_roundtrip T v s hwf
  rw [hrender] at h1
  rw [eq_iff] at h2
  refine ⟨s', h1, h2.2.2.2.2, ?_⟩
  have e1 : str s' = render s' := (parse_wf h1).2
  have : render s' = render s := render_eq_of_eq (by rw [eq_iff]; exact h2)
  simp only [normalizeT, h1]
  rw [e1, this, hrender]

/-! ## The remaining public constructors -/

/-- `background_style` is `Style(bgcolor=self.bgcolor)`: constructible (so `eq_hash` covers it), only the
background set; with no background it is a `_null` style with the fields of `NULL_STYLE`. -/
theorem background_style_spec (T : StrTables) (v : StyleVariant) (s : Style) :
    ∃ t, backgroundStyleT T v s = .ok t ∧ Reachable v t ∧ t.bgcolor = s.bgcolor ∧ t.color = none ∧
      t.setAttributes = 0 ∧ t.link = none ∧ t.hashKey = t.fieldsKey ∧ t.isNull = s.bgcolor.isNone := by
  cases hb : s.bgcolor with
  | none =>
    have h : backgroundStyleT T v s = initT T v none none [] none := by unfold backgroundStyleT; rw [hb]; rfl
    have h2 : initT T v none none [] none = .ok ⟨none, none, 0, 0, none, ⟨none, none, some 0, some 0, none⟩, true, none⟩ := by
      simp [initT, kwSet_nil, storedLink, linkVal, strTruthy]
    rw [h2] at h
    refine ⟨_, h, Reachable.init (T := T) h2, ?_⟩
    simp [fieldsKey, hashKey]
  | some c =>
    have h := backgroundStyle_some T v hb
    refine ⟨_, h, Reachable.init h, ?_⟩
    simp [onlyColor, fieldsKey, hashKey]

/-- `Style.pick_first(*values)` returns the first non-`None` value itself, and raises `ValueError` exactly
when there is none; `Style.combine` is `Style.chain`; `sum(styles, start)` is the left fold of `+`. -/
theorem pick_first_combine_sum (v : StyleVariant) (l : List (Option Style)) (start : Style) (ss : List Style) :
    (pickFirst l = match l.find? Option.isSome with
      | some (some s) => .ok s
      | _ => .error .valueError) ∧
    combine v ss = chain v ss ∧ sumFrom v start ss = ss.foldl (add v) start ∧
    chain v (start :: ss) = .ok (sumFrom v start ss) :=
  ⟨pickFirst_spec l, rfl, rfl, rfl⟩

/-- …and they stay inside the constructible styles, so `eq_hash`, the algebra and the round trip cover them. -/
theorem pick_first_sum_reachable (v : StyleVariant) (l : List (Option Style)) (start s : Style) (ss : List Style)
    (hl : ∀ x, some x ∈ l → Reachable v x) (h0 : Reachable v start) (hs : ∀ x ∈ ss, Reachable v x) :
    (pickFirst l = .ok s → Reachable v s) ∧ Reachable v (sumFrom v start ss) :=
  ⟨fun h => hl s (pickFirst_mem h), Reachable.foldl ss h0 hs⟩

/-- `transparent_background`: no background, or the default colour. -/
theorem transparent_background_spec (s : Style) :
    s.transparentBackground = true ↔ (s.bgcolor = none ∨ ∃ c, s.bgcolor = some c ∧ c.type = .default) := by
  unfold transparentBackground
  cases s.bgcolor with
  | none => simp
  | some c =>
    obtain ⟨n, ty, num, tr⟩ := c
    simp only [reduceCtorEq, false_or, Option.some.injEq, exists_eq_left']
    cases ty <;> decide

/-! ## Equal styles have equal hashes -/

/-- With the four hash repairs, every constructible style stores the hash of its own five compared fields. -/
theorem hash_from_fields (v : StyleVariant) (h1 : v.addHash = false) (h2 : v.fromColorHash = false)
    (h3 : v.withoutColorHash = false) (h4 : v.updateLinkHash = false) (s : Style) (hs : Reachable v s) :
    s.hashKey = s.fieldsKey :=
  hs.hashOk h1 h2 h3 h4

/-- **`a == b → hash(a) == hash(b)`** for every two styles, however each was constructed (keywords,
`from_color`, `parse`, `+`, `chain`/`combine`, `copy`, `update_link`, `without_color`, after `str()`),
by induction on the construction routes. -/
theorem eq_hash (v : StyleVariant) (h1 : v.addHash = false) (h2 : v.fromColorHash = false)
    (h3 : v.withoutColorHash = false) (h4 : v.updateLinkHash = false) (a b : Style)
    (ha : Reachable v a) (hb : Reachable v b) (h : eq a b = true) : a.hashKey = b.hashKey := by
  rw [hash_from_fields v h1 h2 h3 h4 a ha, hash_from_fields v h1 h2 h3 h4 b hb]
  exact fieldsKey_eq_of_eq h

/-- `chain` / `combine` stay inside the constructible styles (so `eq_hash` covers them). -/
theorem chain_reachable (v : StyleVariant) (l : List Style) (s : Style) (hl : ∀ x ∈ l, Reachable v x)
    (h : chain v l = .ok s) : Reachable v s :=
  Reachable.chain hl h

/-! ## Witnesses: the defects found in the code as it stood (`StyleVariant.old`) -/

/-- Evaluate `k` on three keyword-built styles (they always build: no colour strings). -/
def with3 (kw1 kw2 kw3 : Kwargs) (l3 : Option (List Char)) (k : Style → Style → Style → Bool × Bool) : Option (Bool × Bool) :=
  match init StyleVariant.old none none kw1 none, init StyleVariant.old none none kw2 none, init StyleVariant.old none none kw3 l3 with
  | .ok a, .ok b, .ok c => some (k a b c)
  | _, _, _ => none

/-- F3: `Style(bold=True) + Style(italic=True) == Style(bold=True, italic=True)` but the stored hashes differ. -/
theorem old_add_hash_wrong :
    with3 [some true] [none, none, some true] [some true, none, some true] none
      (fun a b c => (eq (add StyleVariant.old a b) c, decide ((add StyleVariant.old a b).hashKey = c.hashKey))) = some (true, false) := by
  decide

/-- F4: `Style.from_color(None, None) == Style()` but the stored hashes differ (`None` vs `0` attributes). -/
theorem old_from_color_hash_wrong :
    eq (fromColor StyleVariant.old none none) Style.null = true ∧
    (fromColor StyleVariant.old none none).hashKey ≠ Style.null.hashKey := by
  decide

/-- F5: `Style.from_color(default).without_color == Style()` but it keeps the hash of the coloured style. -/
theorem old_without_color_hash_wrong :
    eq (withoutColor StyleVariant.old (fromColor StyleVariant.old (some defaultColor) none)) Style.null = true ∧
    (withoutColor StyleVariant.old (fromColor StyleVariant.old (some defaultColor) none)).hashKey ≠ Style.null.hashKey := by
  decide

/-- F6: `Style(bold=True).update_link("x") == Style(bold=True, link="x")` but it keeps the hash of the link-less style. -/
theorem old_update_link_hash_wrong :
    with3 [some true] [] [some true] (some ['x'])
      (fun a _ c => (eq (updateLink StyleVariant.old a (some ['x'])) c,
        decide ((updateLink StyleVariant.old a (some ['x'])).hashKey = c.hashKey))) = some (true, false) := by
  decide

/-- F26: after `str(s)`, `s.update_link("x")` still says `str() == "bold"`, which does not parse back
to it (the style is well-formed, so `parse_str_roundtrip` would apply with the repair). -/
theorem old_update_link_stale_str :
    with3 [some true] [] [] none
      (fun a _ _ =>
        let t := updateLink StyleVariant.old a.strTouch (some ['x'])
        (wf StyleVariant.old t && decide (str t = cl! "bold"),
         match parse StyleVariant.old (str t) with
         | .ok back => eq back t
         | .error _ => false)) = some (true, false) := by
  decide

/-- F30: `Style(link="")` is `_null`, so `NULL_STYLE + Style(link="")` is `NULL_STYLE`, whose link is
`None` — not `==` to `Style(link="")`; likewise `Style(link="").copy()`. -/
theorem old_empty_link_breaks_identity :
    (match init StyleVariant.old none none [] (some []) with
     | .ok a => some (eq (add StyleVariant.old Style.null a) a, eq a.copy a, a.isNull)
     | .error _ => none) = some (false, false, true) := by
  decide

/-! ## Non-vacuity: the hypotheses are met by concrete non-trivial values -/

/-- `bold not italic red on #0000ff link https://x.y` as a style: -/
def sample : Style :=
  { color := some { name := cl! "red", type := .standard, number := some 1 },
    bgcolor := some { name := cl! "#0000ff", type := .truecolor, triplet := some ⟨0, 0, 255⟩ },
    attributes := 1, setAttributes := 5, link := some (cl! "https://x.y"),
    hash := ⟨none, none, none, none, none⟩, isNull := false, styleDef := none }

example : wf StyleVariant.fixed sample = true := by decide
example : render sample = cl! "bold not italic red on #0000ff link https://x.y" := by decide
example : Reachable StyleVariant.fixed (add StyleVariant.fixed (fromColor StyleVariant.fixed (some defaultColor) none) Style.null) :=
  Reachable.add (Reachable.fromColor _ _) Reachable.null
example : StyleVariant.fixed.addHash = false ∧ StyleVariant.fixed.updateLinkDef = false := ⟨rfl, rfl⟩
example : (cl! "uu", 9) ∈ documentedAttrs := by decide
example : (cl! "grey37", 59) ∈ Gen.ansiColorNames := by decide
-- all code points: KELVIN SIGN lower-cases to `k`, ARABIC-INDIC / FULLWIDTH digits are `\d` digits, U+3000 is white space
example : (parseT StrTables.real StyleVariant.fixed (cl! "lin\u212a x on BLAC\u212a")).toOption.map
    (fun s => (s.link, s.bgcolor.map (·.name))) = some (some ['x'], some (cl! "black")) := by decide +kernel
example : (Color.parseT StrTables.real StyleVariant.fixed (cl! "\u3000rgb(\u0661,\uff12, 3)")).toOption.map (·.triplet) =
    some (some ⟨1, 2, 3⟩) := by decide +kernel
example : (parse StyleVariant.fixed (cl! "bold red")).toOption.map (fun s => (s.attr 0, s.attr 1)) = some (some true, none) := by
  decide

-- the new hypotheses are satisfiable by concrete non-trivial values
example : MadeColor (Color.fromAnsi 16) := MadeColor.ansi (by decide)
example : MadeColor (Color.fromRgbQuarters 1023 67 0) := MadeColor.rgb (by decide) (by decide) (by decide)
example : (Color.fromAnsi 16).type = .eightBit ∧ (Color.fromAnsi 15).type = .standard := by decide
example : Color.tripletHex ⟨255, 15, 16⟩ = cl! "#ff0f10" := by decide
example : StrTables.ascii.noSpace (cl! "a b") = false ∧ StrTables.ascii.noSpace (cl! "HTTPS://X.y/%20") = true := by decide
example : pickFirst [none, some sample, some Style.null] = .ok sample := rfl

end RichModel.C06
