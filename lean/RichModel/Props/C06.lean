import RichModel.Lemmas.Style
import RichModel.Lemmas.StyleText
import RichModel.Lemmas.StyleParse
import RichModel.Lemmas.StyleSpell
import RichModel.Lemmas.StyleSpellNum
import RichModel.Lemmas.StyleSpellRgb
/-!
# C06 — styles form a consistent algebra, round-trip through text, and hash consistently

Property theorems only (helper lemmas live in `Lemmas/`).  `v : StyleVariant` selects the code variant
(`Model/ColorParse.lean`): the algebra and the text theorems hold for *every* variant unless a flag is
named in the hypotheses; the hash theorem needs the four hash repairs, the `str()` round trip of
arbitrary reachable styles needs the `update_link` cache repair.  `Reachable v s` = `s` can be built
with the public constructors (`Lemmas/Style.lean`).

`Style.eq` is `Style.__eq__`; `hashKey` is the tuple whose `hash()` the object stores.
-/
namespace RichModel.C06
open RichModel RichModel.Style RichModel.AsciiStr

/-! ## The `+` algebra -/

/-- `(a + b) + c` and `a + (b + c)` are the same object state — fields, `_null`, stored hash and
definition cache — for every three styles and every code variant. -/
theorem add_assoc (v : StyleVariant) (a b c : Style) : add v (add v a b) c = add v a (add v b c) :=
  Style.add_assoc v a b c

/-- The null style is a right identity (the very same object is returned), also for `+ None`. -/
theorem add_null_right (v : StyleVariant) (a : Style) :
    add v a Style.null = a ∧ addOpt v a (some Style.null) = a ∧ addOpt v a none = a :=
  ⟨Style.add_null_right v a, Style.add_null_right v a, rfl⟩

/-- The null style is a left identity up to `==`, for every constructible style whose link is not
the empty string (`Style(link="")` is `_null`, so `NULL_STYLE + Style(link="")` is `NULL_STYLE`,
whose link is `None`: outside the statement, see the assumptions). -/
theorem add_null_left (v : StyleVariant) (a : Style) (ha : Reachable v a) (hl : a.link ≠ some []) :
    eq (add v Style.null a) a = true := by
  cases hn : a.isNull with
  | false => rw [Style.add_null_left v a hn]; simp [eq]
  | true =>
    obtain ⟨h1, h2, h3, h4, h5⟩ := ha.inv.null_empty hn
    have : a.link = none := by
      cases hk : a.link with
      | none => rfl
      | some l =>
        cases l with
        | nil => exact absurd hk hl
        | cons x r => rw [hk] at h5; cases h5
    simp [add, hn, eq, Style.null, h1, h2, h3, h4, this]

/-- Right bias, attributes: bit by bit the right operand wins exactly where it specifies a value
(`attr` is the descriptor `style.bold`, `style.dim`, …: `none` = not set). -/
theorem add_right_bias_attr (v : StyleVariant) (a b : Style) (ha : Reachable v a) (hb : Reachable v b) (i : Nat) :
    (add v a b).attr i = (b.attr i).or (a.attr i) :=
  attr_add v ha.inv hb.inv i

/-- Right bias, colours. -/
theorem add_right_bias_color (v : StyleVariant) (a b : Style) (ha : Reachable v a) (hb : Reachable v b) :
    (add v a b).color = b.color.or a.color ∧ (add v a b).bgcolor = b.bgcolor.or a.bgcolor :=
  color_add v ha.inv hb.inv

/-- Right bias, link: the right operand's link wins exactly where it is a (non-empty) link;
`linkVal` reads the empty string as "no link", which is how `+`, `str`, `_null` and the renderer treat it. -/
theorem add_right_bias_link (v : StyleVariant) (a b : Style) (ha : Reachable v a) (hb : Reachable v b) :
    linkVal (add v a b).link = if strTruthy b.link then b.link else linkVal a.link :=
  link_add v ha.inv hb.inv

/-- …and literally, when neither link is the empty string. -/
theorem add_right_bias_link_exact (v : StyleVariant) (a b : Style) (ha : Reachable v a) (hb : Reachable v b)
    (hla : a.link ≠ some []) (hlb : b.link ≠ some []) :
    (add v a b).link = b.link.or a.link := by
  have h := add_right_bias_link v a b ha hb
  have tr : ∀ l : Option (List Char), l ≠ some [] → (strTruthy l = l.isSome ∧ linkVal l = l) := by
    intro l hl
    cases l with
    | none => exact ⟨rfl, rfl⟩
    | some w =>
      cases w with
      | nil => exact absurd rfl hl
      | cons x r => exact ⟨rfl, rfl⟩
  have hab : (add v a b).link ≠ some [] := by
    unfold add
    by_cases h1 : b.isNull = true
    · simpa [h1] using hla
    · by_cases h2 : a.isNull = true
      · simpa [h1, h2] using hlb
      · simp only [h1, h2, if_false, Bool.false_eq_true, linkOr]
        split <;> assumption
  rw [(tr _ hab).2, (tr _ hla).2, (tr _ hlb).1] at h
  rw [h]
  cases b.link <;> rfl

/-- `Style.chain(*styles)` / `Style.combine(styles)` is the left fold of `+`; on an empty iterable
`next()` raises `StopIteration`. -/
theorem chain_is_fold (v : StyleVariant) (first : Style) (rest : List Style) :
    chain v (first :: rest) = .ok (rest.foldl (add v) first) ∧ chain v [] = .error .stopIteration :=
  ⟨rfl, rfl⟩

/-! ## Text round trip -/

/-- **Round trip of the computed definition.**  For every well-formed style (`Style.wf`, decidable:
13 attribute bits with values only where set, colours whose name is a white-space-free definition
of that very colour, a link that is `None` or one non-empty word) the definition `__str__`
computes parses, and parses back to an equal style. -/
theorem parse_render_roundtrip (v : StyleVariant) (s : Style) (hwf : wf v s = true) :
    ∃ s', parse v (render s) = .ok s' ∧ eq s' s = true :=
  parse_render (wf_iff.mp hwf)

/-- **Round trip of `str()`** for every constructible well-formed style, once `update_link` no
longer copies the cached definition (otherwise false: `old_update_link_stale_str`). -/
theorem parse_str_roundtrip (v : StyleVariant) (hv : v.updateLinkDef = false) (s : Style) (hr : Reachable v s)
    (hwf : wf v s = true) : ∃ s', parse v (str s) = .ok s' ∧ eq s' s = true := by
  have : str s = render s := by
    rcases hr.cacheOk hv with h | h <;> simp [str, h]
  rw [this]
  exact parse_render_roundtrip v s hwf

/-- Every style that `Style.parse` returns is well-formed (so the round trip applies to it), for
every input string and every code variant. -/
theorem parse_result_wf (v : StyleVariant) (d : List Char) (s : Style) (h : parse v d = .ok s) : wf v s = true :=
  (parse_wf h).1

/-- `parse(str(parse(d))) == parse(d)` for every definition `d` that parses. -/
theorem parse_str_parse (v : StyleVariant) (d : List Char) (s : Style) (h : parse v d = .ok s) :
    ∃ s', parse v (str s) = .ok s' ∧ eq s' s = true := by
  rw [(parse_wf h).2]
  exact parse_render_roundtrip v s (parse_wf h).1

/-- `normalize(d)` parses back to `parse(d)`, for every definition that parses. -/
theorem normalize_roundtrip (v : StyleVariant) (d : List Char) (s : Style) (h : parse v d = .ok s) :
    ∃ t s', normalize v d = .ok t ∧ parse v t = .ok s' ∧ eq s' s = true := by
  obtain ⟨s', h1, h2⟩ := parse_str_parse v d s h
  exact ⟨str s, s', by simp [normalize, h], h1, h2⟩

/-- `normalize` is idempotent on every definition that parses: `normalize(normalize(d)) == normalize(d)`.

Full statement (no hypothesis on `d`) is **false on the code as it is**, see
`normalize_not_idempotent_unparseable`: the fallback `style.strip().lower()` of a definition that
does not parse can produce one that does (the word after `not` is the only one `parse` does not
lower-case) and is then normalised further.  Definitions that do not parse are outside the
statement of C06 ("the string form of any style"). -/
theorem normalize_idempotent (v : StyleVariant) (d : List Char) (s : Style) (h : parse v d = .ok s) :
    ∃ t, normalize v d = .ok t ∧ normalize v t = .ok t := by
  obtain ⟨s', h1, h2⟩ := parse_str_parse v d s h
  refine ⟨str s, by simp [normalize, h], ?_⟩
  have e1 : str s' = render s' := (parse_wf h1).2
  have e2 : str s = render s := (parse_wf h).2
  simp only [normalize, h1]
  rw [e1, e2, render_eq_of_eq h2]

/-- Witness for the remark above (any variant of the code). -/
theorem normalize_not_idempotent_unparseable :
    (normalize StyleVariant.old (cl! "italic not Bold")).toOption = some (cl! "italic not bold") ∧
    (normalize StyleVariant.old (cl! "italic not bold")).toOption = some (cl! "not bold italic") := by
  decide

/-! ## Documented spellings (table driven) -/

/-- The style with exactly attribute `i` specified, with value `on`, as `__init__` builds it. -/
def single (i : Nat) (on : Bool) : Style :=
  let a := if on then 1 <<< i else 0
  { color := none, bgcolor := none, attributes := a, setAttributes := 1 <<< i, link := none,
    hash := ⟨none, none, some a, some (1 <<< i), none⟩, isNull := false, styleDef := none }

/-- The documented attribute words (docs/source/style.rst and the `Style` docstring) with the bit
of the attribute each one names: 0 bold, 1 dim, 2 italic, 3 underline, 4 blink, 5 blink2, 6 reverse,
7 conceal, 8 strike, 9 underline2, 10 frame, 11 encircle, 12 overline. -/
def documentedAttrs : List (List Char × Nat) :=
  [(cl! "bold", 0), (cl! "b", 0), (cl! "dim", 1), (cl! "d", 1), (cl! "italic", 2), (cl! "i", 2),
   (cl! "underline", 3), (cl! "u", 3), (cl! "blink", 4), (cl! "blink2", 5), (cl! "reverse", 6), (cl! "r", 6),
   (cl! "conceal", 7), (cl! "c", 7), (cl! "strike", 8), (cl! "s", 8), (cl! "underline2", 9), (cl! "uu", 9),
   (cl! "frame", 10), (cl! "encircle", 11), (cl! "overline", 12), (cl! "o", 12)]

theorem attr_spellings_tbl :
    documentedAttrs.all (fun p =>
      isOk (parse StyleVariant.fixed p.1) (single p.2 true) &&
      isOk (parse StyleVariant.fixed (cl! "not " ++ p.1)) (single p.2 false)) = true := by
  decide +kernel

/-- Every documented attribute word parses to exactly that attribute switched on, and `not <word>`
to exactly that attribute switched off (nothing else set), in every code variant. -/
theorem attr_spellings (v : StyleVariant) (w : List Char) (i : Nat) (h : (w, i) ∈ documentedAttrs) :
    parse v w = .ok (single i true) ∧ parse v (cl! "not " ++ w) = .ok (single i false) := by
  have := List.all_eq_true.mp attr_spellings_tbl (w, i) h
  simp only [Bool.and_eq_true, isOk_iff] at this
  exact ⟨parse_ok_indep this.1, parse_ok_indep this.2⟩

/-- Every name in `ANSI_COLOR_NAMES` (as translated from rich/color.py on this run) parses to the
colour of that name and number — standard below 16, eight-bit from 16 — as a foreground colour, and
after `on` as a background colour; nothing else is set. -/
theorem named_color_spellings (v : StyleVariant) (name : List Char) (number : Nat)
    (h : (name, number) ∈ Gen.ansiColorNames) :
    let c : Color := { name := name, type := if number < 16 then .standard else .eightBit, number := some number }
    parse v name = .ok (onlyColor c true) ∧ parse v (cl! "on " ++ name) = .ok (onlyColor c false) :=
  parse_color_word (named_color_wf v h)

/-- The sixteen system colours carry their documented names. -/
theorem standard_color_names :
    ([cl! "black", cl! "red", cl! "green", cl! "yellow", cl! "blue", cl! "magenta", cl! "cyan", cl! "white",
      cl! "bright_black", cl! "bright_red", cl! "bright_green", cl! "bright_yellow", cl! "bright_blue",
      cl! "bright_magenta", cl! "bright_cyan", cl! "bright_white"].map ansiColorNumber) =
      (List.range 16).map some :=
  standard_names_tbl

/-- `color(n)` for every n ≤ 255 (decimal digits of n) is colour number n, foreground and background. -/
theorem color_number_spellings (v : StyleVariant) (n : Nat) (h : n < 256) :
    let text := cl! "color(" ++ Nat.toDigits 10 n ++ cl! ")"
    let c : Color := { name := text, type := if n < 16 then .standard else .eightBit, number := some n }
    parse v text = .ok (onlyColor c true) ∧ parse v (cl! "on " ++ text) = .ok (onlyColor c false) :=
  parse_color_word (numbered_color_wf v h)

/-- `default` is the default colour (`default on default` is what the documentation calls the
terminal's starting style). -/
theorem default_color_spelling (v : StyleVariant) :
    parse v (cl! "default") = .ok (onlyColor defaultColor true) ∧
    parse v (cl! "on default") = .ok (onlyColor defaultColor false) :=
  parse_color_word (default_color_wf v)

/-- `#` followed by three pairs of (lower-case) hex digits is the truecolor with those components,
foreground and background — for all 16^6 such strings.  (Upper-case digits are lower-cased by
`Color.parse` first; that path is exercised by the correspondence, not stated here.) -/
theorem hex_color_spellings (v : StyleVariant) (a b c d e f : Char) (h : [a, b, c, d, e, f].all isHexLower = true) :
    let text := ['#', a, b, c, d, e, f]
    let col : Color := { name := text, type := .truecolor,
                         triplet := some ⟨16 * hexVal a + hexVal b, 16 * hexVal c + hexVal d, 16 * hexVal e + hexVal f⟩ }
    parse v text = .ok (onlyColor col true) ∧ parse v (cl! "on " ++ text) = .ok (onlyColor col false) :=
  parse_color_word (hex_color_wf v a b c d e f h)

/-- `hexVal` reads the sixteen digits as 0..15. -/
theorem hex_digit_values : (cl! "0123456789abcdef").map hexVal = List.range 16 ∧
    (cl! "0123456789abcdef").all isHexLower = true := by
  decide

/-- `rgb(r,g,b)` with decimal r, g, b ≤ 255 is the truecolor with those components, foreground and
background — for all 2^24 triplets. -/
theorem rgb_color_spellings (v : StyleVariant) (r g b : Nat) (hr : r < 256) (hg : g < 256) (hb : b < 256) :
    let text := cl! "rgb(" ++ (Nat.toDigits 10 r ++ ',' :: (Nat.toDigits 10 g ++ ',' :: Nat.toDigits 10 b)) ++ [')']
    let col : Color := { name := text, type := .truecolor, triplet := some ⟨r, g, b⟩ }
    parse v text = .ok (onlyColor col true) ∧ parse v (cl! "on " ++ text) = .ok (onlyColor col false) :=
  parse_color_word (rgb_color_wf v r g b hr hg hb)

/-- The words the style grammar gives a meaning of their own (`on not link none` and the 22
attribute words) are not colour definitions on this run's `ANSI_COLOR_NAMES` — the side condition
that makes the round trip unambiguous. -/
theorem keywords_are_not_colors (v : StyleVariant) (k : List Char) (hk : k ∈ styleKeywords) :
    Color.parse v k = .error .colorParse :=
  keyword_not_color v hk

/-! ## Equal styles have equal hashes -/

/-- With the four hash repairs, every constructible style stores the hash of its own five compared fields. -/
theorem hash_from_fields (v : StyleVariant) (h1 : v.addHash = false) (h2 : v.fromColorHash = false)
    (h3 : v.withoutColorHash = false) (h4 : v.updateLinkHash = false) (s : Style) (hs : Reachable v s) :
    s.hashKey = s.fieldsKey :=
  hs.hashOk h1 h2 h3 h4

/-- **`a == b → hash(a) == hash(b)`** for every two styles, however each was constructed (keywords,
`from_color`, `parse`, `+`, `chain`/`combine`, `copy`, `update_link`, `without_color`, after `str()`),
by induction on the construction routes. -/
theorem eq_hash (v : StyleVariant) (h1 : v.addHash = false) (h2 : v.fromColorHash = false)
    (h3 : v.withoutColorHash = false) (h4 : v.updateLinkHash = false) (a b : Style)
    (ha : Reachable v a) (hb : Reachable v b) (h : eq a b = true) : a.hashKey = b.hashKey := by
  rw [hash_from_fields v h1 h2 h3 h4 a ha, hash_from_fields v h1 h2 h3 h4 b hb]
  exact fieldsKey_eq_of_eq h

/-- `chain` / `combine` stay inside the constructible styles (so `eq_hash` covers them). -/
theorem chain_reachable (v : StyleVariant) (l : List Style) (s : Style) (hl : ∀ x ∈ l, Reachable v x)
    (h : chain v l = .ok s) : Reachable v s :=
  Reachable.chain hl h

/-! ## Witnesses: the defects found in the code as it stood (`StyleVariant.old`) -/

/-- Evaluate `k` on three keyword-built styles (they always build: no colour strings). -/
def with3 (kw1 kw2 kw3 : Kwargs) (l3 : Option (List Char)) (k : Style → Style → Style → Bool × Bool) : Option (Bool × Bool) :=
  match init StyleVariant.old none none kw1 none, init StyleVariant.old none none kw2 none, init StyleVariant.old none none kw3 l3 with
  | .ok a, .ok b, .ok c => some (k a b c)
  | _, _, _ => none

/-- F3: `Style(bold=True) + Style(italic=True) == Style(bold=True, italic=True)` but the stored hashes differ. -/
theorem old_add_hash_wrong :
    with3 [some true] [none, none, some true] [some true, none, some true] none
      (fun a b c => (eq (add StyleVariant.old a b) c, decide ((add StyleVariant.old a b).hashKey = c.hashKey))) = some (true, false) := by
  decide

/-- F4: `Style.from_color(None, None) == Style()` but the stored hashes differ (`None` vs `0` attributes). -/
theorem old_from_color_hash_wrong :
    eq (fromColor StyleVariant.old none none) Style.null = true ∧
    (fromColor StyleVariant.old none none).hashKey ≠ Style.null.hashKey := by
  decide

/-- F5: `Style.from_color(default).without_color == Style()` but it keeps the hash of the coloured style. -/
theorem old_without_color_hash_wrong :
    eq (withoutColor StyleVariant.old (fromColor StyleVariant.old (some defaultColor) none)) Style.null = true ∧
    (withoutColor StyleVariant.old (fromColor StyleVariant.old (some defaultColor) none)).hashKey ≠ Style.null.hashKey := by
  decide

/-- F6: `Style(bold=True).update_link("x") == Style(bold=True, link="x")` but it keeps the hash of the link-less style. -/
theorem old_update_link_hash_wrong :
    with3 [some true] [] [some true] (some ['x'])
      (fun a _ c => (eq (updateLink StyleVariant.old a (some ['x'])) c,
        decide ((updateLink StyleVariant.old a (some ['x'])).hashKey = c.hashKey))) = some (true, false) := by
  decide

/-- F26: after `str(s)`, `s.update_link("x")` still says `str() == "bold"`, which does not parse back
to it (the style is well-formed, so `parse_str_roundtrip` would apply with the repair). -/
theorem old_update_link_stale_str :
    with3 [some true] [] [] none
      (fun a _ _ =>
        let t := updateLink StyleVariant.old a.strTouch (some ['x'])
        (wf StyleVariant.old t && decide (str t = cl! "bold"),
         match parse StyleVariant.old (str t) with
         | .ok back => eq back t
         | .error _ => false)) = some (true, false) := by
  decide

/-! ## Non-vacuity: the hypotheses are met by concrete non-trivial values -/

/-- `bold not italic red on #0000ff link https://x.y` as a style: -/
def sample : Style :=
  { color := some { name := cl! "red", type := .standard, number := some 1 },
    bgcolor := some { name := cl! "#0000ff", type := .truecolor, triplet := some ⟨0, 0, 255⟩ },
    attributes := 1, setAttributes := 5, link := some (cl! "https://x.y"),
    hash := ⟨none, none, none, none, none⟩, isNull := false, styleDef := none }

example : wf StyleVariant.fixed sample = true := by decide
example : render sample = cl! "bold not italic red on #0000ff link https://x.y" := by decide
example : Reachable StyleVariant.fixed (add StyleVariant.fixed (fromColor StyleVariant.fixed (some defaultColor) none) Style.null) :=
  Reachable.add (Reachable.fromColor _ _) Reachable.null
example : StyleVariant.fixed.addHash = false ∧ StyleVariant.fixed.updateLinkDef = false := ⟨rfl, rfl⟩
example : (cl! "uu", 9) ∈ documentedAttrs := by decide
example : (cl! "grey37", 59) ∈ Gen.ansiColorNames := by decide
example : (parse StyleVariant.fixed (cl! "bold red")).toOption.map (fun s => (s.attr 0, s.attr 1)) = some (some true, none) := by
  decide

end RichModel.C06
