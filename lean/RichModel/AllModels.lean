import RichModel.Model.ConsoleLog
import RichModel.Model.ConsolePrint
import RichModel.Model.FramesStyled
import RichModel.Model.FramesTitle
import RichModel.Model.SyntaxWrap
import RichModel.Model.ThemeThreads
import RichModel.Model.TotalityPrint
import RichModel.Model.Ansi
import RichModel.Model.AnsiRender
import RichModel.Model.AnsiTerm
import RichModel.Model.Cells
import RichModel.Model.Color
import RichModel.Model.ColorCore
import RichModel.Model.ColorParse
import RichModel.Model.Conc
import RichModel.Model.ConfigParser
import RichModel.Model.Console
import RichModel.Model.Frames
import RichModel.Model.FramesColumns
import RichModel.Model.FramesTree
import RichModel.Model.Layout
import RichModel.Model.Live
import RichModel.Model.Markup
import RichModel.Model.Pretty
import RichModel.Model.Progress
import RichModel.Model.Ratio
import RichModel.Model.Segment
import RichModel.Model.Style
import RichModel.Model.Syntax
import RichModel.Model.Table
import RichModel.Model.Term
import RichModel.Model.Text
import RichModel.Model.Theme
import RichModel.Model.Totality
import RichModel.Model.Wrap
/-
Imports every Model file at once.  Nothing depends on it: build it (`tools/lk build RichModel.AllModels`) to notice
two models declaring the same `RichModel.*` name (the models must stay importable together).
-/
