import RichModel.Model.Cells
/-
Model of rich/syntax.py (`Syntax.highlight`, `_numbers_column_width`, `__rich_console__`) as far as it
decides WHICH characters appear on WHICH row under WHICH number, of the parts of rich/text.py it goes
through (`append`, `append_tokens`, `remove_suffix`, `split`, `join`, `with_indent_guides`, the no-wrap
half of `wrap`), and of the choice of options in `Traceback._render_stack`.

Self-contained: plain strings (`List Char`) and lists of lines; the row model has no styles (they never
change a character); token styles exist only as opaque ids up to `Syntax.highlight` (`highlightStyled`, added in the
deepening round for `C17.highlight_styles_follow_tokens`).  The Pygments lexer is a PARAMETER: the model receives the token texts and the
theorems assume the contract `tokens.flatten = pygPre … (code handed to the lexer)`.

Every definition mirrors the Python statement by statement; quirks are kept.  Three *variant flags* exist
(`true` = rich as it was before the corresponding fix):
  `rangePop`    true  = `lines = text.split("\n")` also when a range is given, and the indent-guide step
                        `Text("\n").join(lines).with_indent_guides(..).split("\n")`: an EMPTY line that ends the
                        selected range is lost (twice over with guides), an empty selection with guides shows one row;
                false = repaired: `split("\n", allow_blank=bool(line_range))`, guides only for a non-empty
                        selection, on `join(lines) + "\n"`, split with `allow_blank=True`;
  `stripnl`     true  = the `get_lexer_by_name(name)` of rich 9.10.0 as found (Pygments default `stripnl=True`),
                false = repaired `get_lexer_by_name(name, stripnl=False)` (fix 92fb879, what /repo contains now);
  `skipRaises`  true  = the bare `next(tokens)` in `tokens_to_spans` of rich 9.10.0 as found (StopIteration inside a generator
                        becomes RuntimeError), false = repaired `except StopIteration: break` (fix 1d638e8, what /repo contains now).
-/
namespace RichModel.Syntax

abbrev Line := List Char

/-- Python exceptions that can leave `Syntax.__rich_console__`. -/
inductive Err
  | runtimeStopIteration   -- RuntimeError("generator raised StopIteration") from tokens_to_spans
  | zeroDivision           -- divmod(len(indent), 0) in with_indent_guides when tab_size == 0
deriving Repr, DecidableEq, BEq

/-! ### Python string primitives -/

/-- `str.expandtabs(tabsize)` (CPython unicode_expandtabs_impl): the column restarts after `\n` and `\r`;
`tabsize <= 0` deletes tabs. -/
def expandTabsFrom (ts : Nat) : Nat → List Char → List Char
  | _, [] => []
  | col, c :: rest =>
    if c == '\t' then
      if ts > 0 then
        let incr := ts - col % ts
        List.replicate incr ' ' ++ expandTabsFrom ts (col + incr) rest
      else expandTabsFrom ts col rest
    else if c == '\n' || c == '\r' then c :: expandTabsFrom ts 0 rest
    else c :: expandTabsFrom ts (col + 1) rest

def expandTabs (ts : Nat) (s : List Char) : List Char := expandTabsFrom ts 0 s

/-- `str.split("\n")`: always at least one piece. -/
def splitNL : List Char → List Line
  | [] => [[]]
  | c :: rest =>
    if c == '\n' then [] :: splitNL rest
    else match splitNL rest with
      | [] => [[c]]            -- unreachable (splitNL is never empty); kept total
      | l :: ls => (c :: l) :: ls

/-- `"\n".join(lines)` -/
def joinNL : List Line → List Char
  | [] => []
  | [l] => l
  | l :: ls => l ++ '\n' :: joinNL ls

def endsNL (s : List Char) : Bool := s.getLast? == some '\n'

/-- `str(n)` for a natural number. -/
def natStr (n : Nat) : List Char :=
  if n < 10 then [Char.ofNat (48 + n)] else natStr (n / 10) ++ [Char.ofNat (48 + n % 10)]
termination_by n
decreasing_by omega

/-- `s.rjust(w)` -/
def rjust (s : List Char) (w : Nat) : List Char := List.replicate (w - s.length) ' ' ++ s

/-- `lines[lo:hi]` for `lo >= 0` and any Python int `hi` (negative counts from the end, clamped). -/
def pySlice (lines : List α) (lo : Nat) (hi : Int) : List α :=
  let n := lines.length
  let hi' : Nat := if hi < 0 then ((n : Int) + hi).toNat else min n hi.toNat
  (lines.take hi').drop lo

/-! ### rich/control.py and the part of rich/text.py used -/

/-- `strip_control_codes`: deletes code points 8, 11, 12, 13 (table `STRIP_CONTROL_CODES`). -/
def isStripCtl (c : Char) : Bool := c.toNat == 8 || c.toNat == 11 || c.toNat == 12 || c.toNat == 13

def stripCtl (s : List Char) : List Char := s.filter (fun c => !isStripCtl c)

/-- `Text.remove_suffix("\n")`: `if plain.endswith("\n"): right_crop(1)`. -/
def removeSuffixNL (s : List Char) : List Char := if endsNL s then s.dropLast else s

/-- `Text.split("\n", allow_blank=…)` on the plain text: pieces between separators; the last (empty) piece
is popped when the text ends with the separator and blanks are not allowed. -/
def textSplit (s : List Char) (allowBlank : Bool) : List Line :=
  let parts := splitNL s
  if !allowBlank && endsNL s then parts.dropLast else parts

/-- `Text.split("\n", allow_blank=…)` as /repo has it since fix b61fef8: the pieces are built with `Text(...)` (control
characters stripped) and the last one is popped when it is EMPTY and blanks are not allowed — which, beyond a text
ending in the separator, also hits a last line made of stripped control characters only.  Returns the unstripped pieces
that stay (stripping is applied by the caller). -/
def textSplitC (s : List Char) (allowBlank : Bool) : List Line :=
  let parts := splitNL s
  if !allowBlank && s.contains '\n' && (stripCtl (parts.getLast?.getD [])).isEmpty then parts.dropLast else parts

/-! ### Pygments `Lexer._preprocess_lexer_input` (what the lexer contract is stated against) -/

/-- `text.replace('\r\n', '\n').replace('\r', '\n')` in one pass. -/
def crlf : List Char → List Char
  | [] => []
  | '\r' :: '\n' :: rest => '\n' :: crlf rest
  | '\r' :: rest => '\n' :: crlf rest
  | c :: rest => c :: crlf rest

def stripLeadNL : List Char → List Char
  | '\n' :: rest => stripLeadNL rest
  | s => s

/-- `text.strip('\n')` -/
def stripNLBoth (s : List Char) : List Char := (stripLeadNL (stripLeadNL s).reverse).reverse

def dropBOM : List Char → List Char
  | c :: rest => if c.toNat == 0xFEFF then rest else c :: rest
  | [] => []

/-- BOM removal, newline normalisation, `stripnl`, `ensurenl` (the Pygments defaults `stripall=False`,
`tabsize=0` do nothing). -/
def pygPre (stripnl : Bool) (s : List Char) : List Char :=
  let t := crlf (dropBOM s)
  let t := if stripnl then stripNLBoth t else t
  if endsNL t then t else t ++ ['\n']

/-! ### `Syntax.highlight` (syntax.py:350-419) -/

/-- `line_tokenize` for one token: `while token: line_token, new_line, token = token.partition("\n");
yield line_token + new_line`. -/
def pieces : List Char → List Line
  | [] => []
  | c :: rest =>
    if c == '\n' then ['\n'] :: pieces rest
    else match pieces rest with
      | [] => [[c]]
      | p :: ps => (c :: p) :: ps

def lineTokenize (toks : List Line) : List Line := toks.flatMap pieces

/-- "Skip over tokens until line start": `while line_no < _line_start: token = next(tokens); yield token;
if token.endswith("\n"): line_no += 1`.  Returns (yielded, line_no, remaining tokens). -/
def skipLoop (skipRaises : Bool) (target : Nat) : Nat → List Line → Except Err (List Line × Nat × List Line)
  | ln, [] => if ln < target then (if skipRaises then .error .runtimeStopIteration else .ok ([], ln, [])) else .ok ([], ln, [])
  | ln, p :: rest =>
    if ln < target then
      match skipLoop skipRaises target (if endsNL p then ln + 1 else ln) rest with
      | .error e => .error e
      | .ok (y, ln', r) => .ok (p :: y, ln', r)
    else .ok ([], ln, p :: rest)

/-- "Generate spans until line end": `for token in tokens: yield token; if token.endswith("\n"):
line_no += 1; if line_no >= line_end: break`. -/
def takeLoop (lineEnd : Int) : Nat → List Line → List Line
  | _, [] => []
  | ln, p :: rest =>
    if endsNL p then
      if ((ln + 1 : Nat) : Int) ≥ lineEnd then [p] else p :: takeLoop lineEnd (ln + 1) rest
    else p :: takeLoop lineEnd ln rest

/-- The plain text of `Syntax.highlight(code, line_range)`.
`found = false` is `ClassNotFound` (`text.append(code)`, which strips control codes);
otherwise `toks` are the token texts `lexer.get_tokens(code)` returned. -/
def highlight (skipRaises found : Bool) (toks : List Line) (code : List Char) (range : Option (Int × Int)) :
    Except Err (List Char) :=
  if !found then .ok (stripCtl code)
  else match range with
    | none => .ok toks.flatten
    | some (ls, le) =>
      match skipLoop skipRaises (ls - 1).toNat 0 (lineTokenize toks) with
      | .error e => .error e
      | .ok (y, ln, r) => .ok ((y ++ takeLoop le ln r).flatten)

/-! ### `Syntax.highlight` with styles: which token style every character of the text carries

Styles are opaque ids (the driver gets, for every token, the id of `theme.get_style_for_token(token_type)`).
A character carries `some id` when a span with that style covers it, `none` when no token span does
(the skipped lines of the ranged path, everything without a lexer). -/

abbrev StyleId := Nat
abbrev Styled := List (Char × Option StyleId)

def styleWith (st : Option StyleId) (t : Line) : Styled := t.map (fun c => (c, st))

/-- `line_tokenize` keeping the token type: every piece of a token has the token's style -/
def lineTokenizeS (toks : List (Line × StyleId)) : List (Line × StyleId) :=
  toks.flatMap (fun t => (pieces t.1).map (fun p => (p, t.2)))

/-- the skip loop with styles: `yield (token, None)` -/
def skipLoopS (skipRaises : Bool) (target : Nat) : Nat → List (Line × StyleId) → Except Err (Styled × Nat × List (Line × StyleId))
  | ln, [] => if ln < target then (if skipRaises then .error .runtimeStopIteration else .ok ([], ln, [])) else .ok ([], ln, [])
  | ln, p :: rest =>
    if ln < target then
      match skipLoopS skipRaises target (if endsNL p.1 then ln + 1 else ln) rest with
      | .error e => .error e
      | .ok (y, ln', r) => .ok (styleWith none p.1 ++ y, ln', r)
    else .ok ([], ln, p :: rest)

/-- the take loop with styles: `yield (token, _get_theme_style(token_type))` -/
def takeLoopS (lineEnd : Int) : Nat → List (Line × StyleId) → Styled
  | _, [] => []
  | ln, p :: rest =>
    if endsNL p.1 then
      if ((ln + 1 : Nat) : Int) ≥ lineEnd then styleWith (some p.2) p.1
      else styleWith (some p.2) p.1 ++ takeLoopS lineEnd (ln + 1) rest
    else styleWith (some p.2) p.1 ++ takeLoopS lineEnd ln rest

/-- `Syntax.highlight(code, line_range)` as a styled character stream. -/
def highlightStyled (skipRaises found : Bool) (toks : List (Line × StyleId)) (code : List Char) (range : Option (Int × Int)) :
    Except Err Styled :=
  if !found then .ok (styleWith none (stripCtl code))
  else match range with
    | none => .ok (toks.flatMap (fun t => styleWith (some t.2) t.1))
    | some (ls, le) =>
      match skipLoopS skipRaises (ls - 1).toNat 0 (lineTokenizeS toks) with
      | .error e => .error e
      | .ok (y, ln, r) => .ok (y ++ takeLoopS le ln r)

/-! ### `Text.with_indent_guides(indent_size)` on a list of lines -/

def guideChar : Char := '│'

def leadSpaces (l : Line) : Nat := (l.takeWhile (· == ' ')).length

/-- `new_indent = indent_line * full_indents + " " * remaining_space` for an indent of `n` spaces. -/
def newIndent (ts n : Nat) : Line :=
  (List.replicate (n / ts) (guideChar :: List.replicate (ts - 1) ' ')).flatten ++ List.replicate (n % ts) ' '

/-- The `for line in text.split()` loop: blank lines (nothing after the leading spaces) are replaced by the
guides of the next non-blank line, trailing blank lines by empty lines. -/
def guideLoop (ts : Nat) : Nat → List Line → Except Err (List Line)
  | blanks, [] => .ok (List.replicate blanks [])
  | blanks, l :: rest =>
    let n := leadSpaces l
    if (l.drop n).isEmpty then guideLoop ts (blanks + 1) rest
    else if ts == 0 then .error .zeroDivision
    else
      let ni := newIndent ts n
      match guideLoop ts 0 rest with
      | .error e => .error e
      | .ok r => .ok (List.replicate blanks ni ++ (ni ++ l.drop ni.length) :: r)

/-- The indent-guide step of `__rich_console__` (syntax.py:506-517).
`rangePop = true`:  `Text("\n").join(lines).with_indent_guides(tab_size).split("\n")` whatever `lines` is;
`rangePop = false`: skipped for an empty selection, else
                    `(Text("\n").join(lines) + "\n").with_indent_guides(tab_size).split("\n", allow_blank=True)`
(`with_indent_guides` itself splits its text without `allow_blank`, i.e. drops one trailing newline). -/
def indentGuides (rangePop : Bool) (ts : Nat) (lines : List Line) : Except Err (List Line) :=
  if rangePop then
    match guideLoop ts 0 (textSplit (joinNL lines) false) with
    | .error e => .error e
    | .ok ls => .ok (textSplit (joinNL ls) false)
  else if lines.isEmpty then .ok []
  else
    match guideLoop ts 0 (textSplit (joinNL lines ++ ['\n']) false) with
    | .error e => .error e
    | .ok ls => .ok (textSplit (joinNL ls) true)

/-! ### fitting one line into the code column -/

/-- One logical line -> the characters shown in the code column of width `w`.
* fits: unchanged, padded with spaces to `w` when `pad` (non-transparent background);
* too long: cropped by `set_cell_size` (a wide character cut in half becomes a space).
`noCrop` is `options.no_wrap` in the numbered, non-wrapping branch (`wrapped_lines = [segments]`). -/
def fitLine (cw : Char → Nat) (w : Nat) (pad noCrop : Bool) (l : Line) : Line :=
  if noCrop then l
  else
    let n := cellLen cw l
    if n < w then (if pad then l ++ List.replicate (w - n) ' ' else l)
    else if n > w then setCellSize cw l w
    else l

/-! ### `Syntax.__rich_console__` (syntax.py:470-562) -/

structure Opts where
  lineNumbers : Bool
  startLine : Nat
  lineRange : Option (Int × Int)
  highlightLines : List Nat
  codeWidth : Option Nat
  tabSize : Nat
  wordWrap : Bool
  indentGuides : Bool
  /- console / theme side -/
  maxWidth : Nat          -- options.max_width
  optNoWrap : Bool        -- options.no_wrap
  legacyWindows : Bool    -- options.legacy_windows
  asciiOnly : Bool        -- options.ascii_only
  pad : Bool              -- not transparent_background
  /-- `textwrap.dedent(self.code)` when `dedent` is on (a standard-library fact handed in like the tokens), else none -/
  dedented : Option (List Char) := none
deriving Repr

/-- `code = textwrap.dedent(self.code) if self.dedent else self.code`: the text that is shown.
(`_numbers_column_width` keeps counting the newlines of `self.code`.) -/
def shownCode (o : Opts) (code : List Char) : List Char := o.dedented.getD code

def countNL (s : List Char) : Nat := s.count '\n'

/-- `_numbers_column_width` -/
def numbersColumnWidth (o : Opts) (code : List Char) : Nat :=
  if o.lineNumbers then (natStr (o.startLine + countNL code)).length + 2 else 0

/-- `code_width` as a Python int. -/
def codeWidthInt (o : Opts) (code : List Char) : Int :=
  match o.codeWidth with
  | none => (o.maxWidth : Int) - (numbersColumnWidth o code : Int) - 1
  | some w => (w : Int)

def lineOffset (o : Opts) : Nat :=
  match o.lineRange with
  | some (s, _) => (s - 1).toNat      -- max(0, start_line - 1)
  | none => 0

/-- One displayed row of the numbered branch. -/
structure Row where
  num : Nat
  marked : Bool
  body : Line
deriving Repr, DecidableEq

def pointer (legacy : Bool) : List Char := if legacy then ['>', ' '] else ['❱', ' ']

/-- The characters of one numbered row: pointer or two spaces, the right-justified number, a space, the code. -/
def Row.render (ncw : Nat) (legacy : Bool) (r : Row) : List Char :=
  (if r.marked then pointer legacy else [' ', ' ']) ++ rjust (natStr r.num) (ncw - 2) ++ ' ' :: r.body

/-- `for line_no, line in enumerate(lines, start)`: consecutive numbers; the marker is `line_no in highlight_lines`. -/
def numberRows (start : Nat) (hl : List Nat) : List Line → List Row
  | [] => []
  | b :: bs => { num := start, marked := hl.contains start, body := b } :: numberRows (start + 1) hl bs

/-- Everything `__rich_console__` does between `text.remove_suffix("\n")` and the numbering loop, as a function of the
text it works on (`text` = the highlighted text AFTER `remove_suffix`). -/
def linesOfText (rangePop : Bool) (o : Opts) (text : List Char) : Except Err (List Line) :=
  -- `Text.split` builds every line with `Text(...)`, which strips BS/VT/FF/CR (nothing to strip without a lexer)
  let lines := (textSplitC text (!rangePop && o.lineRange.isSome)).map stripCtl
  let lines := match o.lineRange with
    | some (_, e) => pySlice lines (lineOffset o) e
    | none => lines
  if o.indentGuides && !o.asciiOnly then indentGuides rangePop o.tabSize lines else .ok lines

/-- The logical lines that get a number (after range selection and indent guides), before fitting. -/
def selectedLines (skipRaises rangePop : Bool) (o : Opts) (found : Bool) (lex : List Char → List Line) (code : List Char) :
    Except Err (List Line) :=
  let src := expandTabs o.tabSize (shownCode o code)
  match highlight skipRaises found (lex src) src o.lineRange with
  | .error e => .error e
  | .ok text => linesOfText rangePop o (removeSuffixNL text)

/-- The numbered branch as structured rows. -/
def numberedRows (cw : Char → Nat) (skipRaises rangePop : Bool) (o : Opts) (found : Bool) (lex : List Char → List Line)
    (code : List Char) : Except Err (List Row) :=
  match selectedLines skipRaises rangePop o found lex code with
  | .error e => .error e
  | .ok lines =>
    -- `console.render_lines(line, width < 1)` yields no line at all: with word wrap and no room, no row is written
    if o.wordWrap && decide (codeWidthInt o code < 1) then .ok []
    else
      let w := (codeWidthInt o code).toNat
      let noCrop := !o.wordWrap && o.optNoWrap
      .ok (numberRows (o.startLine + lineOffset o) o.highlightLines (lines.map (fitLine cw w o.pad noCrop)))

/-- The un-numbered branch: `console.render(text, width=code_width)` with `no_wrap`: every line of the text
(blank last line included), fitted. -/
def plainRows (cw : Char → Nat) (skipRaises : Bool) (o : Opts) (found : Bool) (lex : List Char → List Line)
    (code : List Char) : Except Err (List Line) :=
  let src := expandTabs o.tabSize (shownCode o code)
  match highlight skipRaises found (lex src) src o.lineRange with
  | .error e => .error e
  | .ok text =>
    -- `Console.render` returns nothing when `max_width < 1`
    if decide (codeWidthInt o code < 1) then .ok []
    else
      let w := (codeWidthInt o code).toNat
      .ok (((textSplit (removeSuffixNL text) true).map stripCtl).map (fitLine cw w o.pad false))

/-- Everything `console.render(Syntax(...), options)` writes, as a list of rows of characters. -/
def render (cw : Char → Nat) (skipRaises rangePop : Bool) (o : Opts) (found : Bool) (lex : List Char → List Line)
    (code : List Char) : Except Err (List Line) :=
  if o.lineNumbers then
    match numberedRows cw skipRaises rangePop o found lex code with
    | .error e => .error e
    | .ok rows => .ok (rows.map (Row.render (numbersColumnWidth o code) o.legacyWindows))
  else plainRows cw skipRaises o found lex code

/-- `Syntax.__rich_measure__(console, max_width)`: (minimum, maximum). -/
def measure (o : Opts) (code : List Char) (maxWidth : Nat) : Nat × Nat :=
  match o.codeWidth with
  | some w => (numbersColumnWidth o code, w + numbersColumnWidth o code)
  | none => (numbersColumnWidth o code, maxWidth)

/-- `Syntax.__rich_measure__` with its variant flag.
`short = true`:  rich 9.10.0 as found — with an explicit `code_width` the maximum is `code_width + numbers_column_width`,
                 one cell less than a numbered row takes (the blank after the number is forgotten);
`short = false`: repaired (pending_fixes/C09-syntax-measure-one-short.diff): `+ 1` when line numbers are shown. -/
def measureV (short : Bool) (o : Opts) (code : List Char) (maxWidth : Nat) : Nat × Nat :=
  match o.codeWidth with
  | some w => (numbersColumnWidth o code, w + numbersColumnWidth o code + (if !short && o.lineNumbers then 1 else 0))
  | none => (numbersColumnWidth o code, maxWidth)

/-! ### the domain in which `render` is claimed to equal the implementation -/

def hasZeroWidth (cw : Char → Nat) (l : Line) : Bool := l.any (fun c => cw c == 0)

/-- A line whose fitting the model reproduces: either it fits (in cells and in characters), or it is
cropped without a zero-width character being involved (then segment boundaries cannot matter) and
word wrapping is off. -/
def lineInDomain (cw : Char → Nat) (w : Nat) (wordWrap : Bool) (l : Line) : Bool :=
  (cellLen cw l ≤ w && l.length ≤ w) || (!wordWrap && !hasZeroWidth cw l)

/-- Outside this domain the driver answers `unmodelled`: a line that does not fit while word wrap is on
(folded rows are modelled in `Model/SyntaxWrap.lean`) or that has to be cropped through a zero-width character. -/
def inDomain (cw : Char → Nat) (skipRaises rangePop : Bool) (o : Opts) (found : Bool) (lex : List Char → List Line)
    (code : List Char) : Bool :=
  let w := (codeWidthInt o code).toNat
  if o.lineNumbers then
    match selectedLines skipRaises rangePop o found lex code with
    | .error _ => true
    | .ok ls => (o.wordWrap && decide (codeWidthInt o code < 1)) || ls.all (lineInDomain cw w o.wordWrap)
  else
    let src := expandTabs o.tabSize (shownCode o code)
    match highlight skipRaises found (lex src) src o.lineRange with
    | .error _ => true
    | .ok text => decide (codeWidthInt o code < 1) ||
        ((textSplit (removeSuffixNL text) true).map stripCtl).all (lineInDomain cw w o.wordWrap)

/-! ### `Traceback._render_stack` (traceback.py:483-500): the Syntax it builds for one frame -/

def tracebackOpts (lineno extra : Nat) (wordWrap indentGuides : Bool)
    (maxWidth : Nat) (optNoWrap legacyWindows asciiOnly pad : Bool) : Opts :=
  { lineNumbers := true, startLine := 1,
    lineRange := some ((lineno : Int) - extra, (lineno : Int) + extra),
    highlightLines := [lineno], codeWidth := some 88, tabSize := 4,
    wordWrap := wordWrap, indentGuides := indentGuides,
    maxWidth := maxWidth, optNoWrap := optNoWrap, legacyWindows := legacyWindows, asciiOnly := asciiOnly, pad := pad }

/-! ### one Syntax object rendered again and again

`__rich_console__` assigns to no attribute of `self`, and `highlight` builds a new `Text` on every call: the object
is the same before and after a render.  The state a render COULD leave behind is modelled explicitly, to say what
purity rules out: `cacheText = true` is a variant that keeps the highlighted `Text` on the instance and hands the very
same object out again — `text.remove_suffix("\n")` then crops the remembered text a little more on every render. -/

/-- `n` renders of one object with unchanged attributes.  `hl` is what `highlight` returns for them, `rest` everything
`__rich_console__` does after `remove_suffix` (a function of that text), `cache` the remembered text. -/
def objRenders (cacheText : Bool) (rest : List Char → β) (hl : Except Err (List Char)) : Option (List Char) → Nat → List (Except Err β)
  | _, 0 => []
  | cache, n + 1 =>
    match (if cacheText then cache else none) with
    | some t => .ok (rest (removeSuffixNL t)) :: objRenders cacheText rest hl (some (removeSuffixNL t)) n
    | none =>
      match hl with
      | .error e => .error e :: objRenders cacheText rest hl cache n
      | .ok t => .ok (rest (removeSuffixNL t)) :: objRenders cacheText rest hl (if cacheText then some (removeSuffixNL t) else cache) n

/-! ### `_render_syntax_error` (traceback.py:405-424): the offending line and the offset marker -/

/-- `offset = min(syntax_error.offset - 1, len(text))`; the rows are the (right-stripped) line and
`" " * offset + "▲"` (a negative count gives no spaces). -/
def syntaxErrorRows (text : List Char) (offset : Int) : List Line :=
  let off := min (offset - 1) (text.length : Int)
  -- the console expands tabs (tab_size 8) when it wraps the text; the marker row was built from the raw offset
  [expandTabs 8 text, List.replicate off.toNat ' ' ++ ['▲']]

/-! ### `read_code` inside `_render_stack` (traceback.py:438-456): a cache that lives for ONE call -/

abbrev FileId := Nat

/-- `code = code_cache.get(filename); if code is None: code = open(filename).read(); code_cache[filename] = code`.
`fs` is the file system at the moment of the call. -/
def readCode (fs : FileId → List Char) (cache : List (FileId × List Char)) (f : FileId) :
    List Char × List (FileId × List Char) :=
  match (cache.find? (fun p => p.1 == f)).map (·.2) with
  | some code => (code, cache)
  | none => (fs f, (f, fs f) :: cache)

/-- The code handed to `Syntax` for each frame of a stack, threading the cache. -/
def stackCodesFrom (fs : FileId → List Char) : List (FileId × List Char) → List FileId → List (List Char) × List (FileId × List Char)
  | cache, [] => ([], cache)
  | cache, f :: rest =>
    let r := readCode fs cache f
    let rs := stackCodesFrom fs r.2 rest
    (r.1 :: rs.1, rs.2)

/-- A history of `_render_stack` calls, each with the file system of its moment.  `persist = false` is the
code as it is (`code_cache = {}` at the top of every call); `persist = true` would be a cache that survives calls. -/
def renderHistory (persist : Bool) : List (FileId × List Char) → List ((FileId → List Char) × List FileId) → List (List (List Char))
  | _, [] => []
  | cache, (fs, frames) :: rest =>
    let r := stackCodesFrom fs (if persist then cache else []) frames
    r.1 :: renderHistory persist r.2 rest

end RichModel.Syntax
