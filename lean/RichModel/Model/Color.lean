import RichModel.Model.ColorCore
import RichModel.Gen.Palettes
/-!
Executable model of the colour conversion code of Rich (property C18):

* `Palette.match`            rich/palette.py:44-79   → `colorDist2`, `minIndex`, `paletteMatch`
* `Color.system`             rich/color.py:261-266   → `Color.system`
* `Color.get_truecolor`      rich/color.py:278-310   → `getTruecolorT`, `getTruecolor`; `TerminalTheme.__init__` → `TerminalTheme.init`
* `ColorTriplet.hex`, `parse_rgb_hex`, `blend_rgb` → `Triplet.hex`, `parseRgbHex`, `blendRgb`
* `Color.get_ansi_codes`     rich/color.py:442-468   → `getAnsiCodes`
* `Color.downgrade`          rich/color.py:470-521   → `downgrade`
* `ColorTriplet.normalized`, `colorsys.rgb_to_hls`, `round` — IEEE-double runtime facts, modelled with
  exact integer / rational arithmetic (`pyRound`, `satLow`); the finitely many places where the double
  computation of the saturation test falls on the other side of `0.1` are the *parameter*
  `Cfg.satExc`, validated exhaustively by the correspondence on every run.

Everything Python can raise is an `Except ColorErr` branch.  Core Lean only.
-/
namespace RichModel

/-- The Python exceptions the modelled colour code can raise. -/
inductive ColorErr where
  | assertionError   -- `assert self.number is not None`, `assert self.triplet is not None`, …
  | indexError       -- `EIGHT_BIT_PALETTE[self.number]` out of range
  | valueError       -- `min()` of an empty palette
deriving Repr, BEq, DecidableEq

/-- `Except` has no `DecidableEq` instance in core; needed for `decide`d witnesses. -/
instance exceptDecEqColorModel {ε α : Type} [DecidableEq ε] [DecidableEq α] : DecidableEq (Except ε α)
  | .ok a, .ok b => if h : a = b then isTrue (by rw [h]) else isFalse (by intro h'; cases h'; exact h rfl)
  | .error a, .error b => if h : a = b then isTrue (by rw [h]) else isFalse (by intro h'; cases h'; exact h rfl)
  | .ok _, .error _ => isFalse (by intro h'; cases h')
  | .error _, .ok _ => isFalse (by intro h'; cases h')

/-- The three palettes of `rich/_palettes.py` plus the default terminal theme's constructor arguments. -/
structure Palettes where
  standard : List Triplet
  windows : List Triplet
  eightBit : List Triplet
  themeBackground : Triplet
  themeForeground : Triplet
  themeNormal : List Triplet
  themeBright : Option (List Triplet)

/-- The tables translated from the working tree on this run. -/
def richPalettes : Palettes where
  standard := Gen.standardPalette
  windows := Gen.windowsPalette
  eightBit := Gen.eightBitPalette
  themeBackground := Gen.themeBackground
  themeForeground := Gen.themeForeground
  themeNormal := Gen.themeNormal
  themeBright := Gen.themeBright

/-- A `TerminalTheme` object (rich/terminal_theme.py) after `__init__`. -/
structure TerminalTheme where
  backgroundColor : Triplet
  foregroundColor : Triplet
  ansiColors : List Triplet
deriving Repr, DecidableEq

/-- `TerminalTheme.__init__(background, foreground, normal, bright=None)`:
`self.ansi_colors = Palette(normal + (bright or normal))` — an empty `bright` list is falsy, like `None`. -/
def TerminalTheme.init (background foreground : Triplet) (normal : List Triplet)
    (bright : Option (List Triplet)) : TerminalTheme where
  backgroundColor := background
  foregroundColor := foreground
  ansiColors := normal ++ (match bright with
    | none => normal
    | some [] => normal
    | some b => b)

/-- `DEFAULT_TERMINAL_THEME`, built from its translated constructor arguments. -/
def Palettes.defaultTheme (P : Palettes) : TerminalTheme :=
  TerminalTheme.init P.themeBackground P.themeForeground P.themeNormal P.themeBright

/-- `DEFAULT_TERMINAL_THEME.ansi_colors`. -/
def Palettes.ansiColors (P : Palettes) : List Triplet := P.defaultTheme.ansiColors

/-- Code-variant flags and runtime (floating point) facts the model is parametrised by. -/
structure Cfg where
  /-- `true`: the code as found — `downgrade(STANDARD)` sends *every* non-truecolor colour (also a
  16-colour WINDOWS one) through `EIGHT_BIT_PALETTE[number]` and the palette search.
  `false`: the repaired code — numbers below 16 are kept, as the WINDOWS branch already does. -/
  stdViaPalette : Bool
  /-- (max, min) channel pairs at which `colorsys.rgb_to_hls(...)[2] < 0.1` computed in IEEE doubles
  differs from the exact rational comparison. -/
  satExc : List (Nat × Nat)

/-- The nine pairs found (and re-validated on every run over all 32,896 pairs); each is an exact tie
`s = 1/10` whose double computation lands one ulp below `0.1`. -/
def satExcDouble : List (Nat × Nat) :=
  [(55, 45), (77, 63), (110, 90), (121, 99), (147, 123), (174, 156), (201, 189), (210, 200), (246, 244)]

/-! ## Python arithmetic -/

/-- Python `round(n/d)` for exact `n/d ≥ 0`: round half to even. -/
def pyRound (n d : Nat) : Nat :=
  let q := n / d
  let r := n % d
  if 2 * r < d then q
  else if d < 2 * r then q + 1
  else if q % 2 = 0 then q else q + 1

def absDiff (a b : Nat) : Nat := if b ≤ a then a - b else b - a

/-! ## `Palette.match` -/

/-- The radicand of `get_color_distance` (palette.py:61-73): the code takes `sqrt` of this integer.
`>> 8` is floor division by 256; `red * red` of a signed difference is the square of `absDiff`. -/
def colorDist2 (c p : Triplet) : Nat :=
  let redMean := (c.red + p.red) / 2
  let red := absDiff c.red p.red
  let green := absDiff c.green p.green
  let blue := absDiff c.blue p.blue
  ((512 + redMean) * red * red) / 256 + 4 * green * green + ((767 - redMean) * blue * blue) / 256

/-- `min(range(len(ks)), key=ks.__getitem__)` after the first element: CPython keeps the current
best unless a *strictly* smaller key shows up, so the first minimum wins. -/
def minIndexAux : List Nat → Nat → Nat → Nat → Nat
  | [], _, best, _ => best
  | k :: ks, i, best, bestKey =>
    if k < bestKey then minIndexAux ks (i + 1) i k else minIndexAux ks (i + 1) best bestKey

/-- `min(range(len(ks)), key=…)`; `none` = `ValueError` on an empty sequence. -/
def minIndex : List Nat → Option Nat
  | [] => none
  | k :: ks => some (minIndexAux ks 1 0 k)

/-- `Palette.match(color)`.  `sqrt` is strictly increasing on the integers that occur (validated),
so comparing radicands is comparing distances. -/
def paletteMatch (pal : List Triplet) (c : Triplet) : Except ColorErr Nat :=
  match minIndex (pal.map (colorDist2 c)) with
  | none => .error .valueError
  | some i => .ok i

/-- `Palette.__getitem__` → `self._colors[number]` for `number ≥ 0`. -/
def paletteGet (pal : List Triplet) (n : Nat) : Except ColorErr Triplet :=
  match pal[n]? with
  | some t => .ok t
  | none => .error .indexError

/-! ## `Color` -/

/-- `Color.system` (color.py:261): DEFAULT counts as STANDARD, otherwise `ColorSystem(int(self.type))`. -/
def Color.system (c : Color) : ColorSystem :=
  match c.type with
  | .default => .standard
  | .standard => .standard
  | .eightBit => .eightBit
  | .truecolor => .truecolor
  | .windows => .windows

/-- `assert x is not None`. -/
def assertSome {α : Type} : Option α → Except ColorErr α
  | some a => .ok a
  | none => .error .assertionError

/-- `Color.get_truecolor(theme, foreground)` (color.py:278-310) for an explicit theme. -/
def getTruecolorT (P : Palettes) (theme : TerminalTheme) (c : Color) (foreground : Bool) : Except ColorErr Triplet :=
  match c.type with
  | .truecolor => assertSome c.triplet
  | .eightBit => do let n ← assertSome c.number; paletteGet P.eightBit n
  | .standard => do let n ← assertSome c.number; paletteGet theme.ansiColors n
  | .windows => do let n ← assertSome c.number; paletteGet P.windows n
  | .default =>
    match c.number with
    | some _ => .error .assertionError      -- `assert self.number is None`
    | none => .ok (if foreground then theme.foregroundColor else theme.backgroundColor)

/-- `Color.get_truecolor(theme=None, foreground)`: `if theme is None: theme = DEFAULT_TERMINAL_THEME`. -/
def getTruecolor (P : Palettes) (c : Color) (foreground : Bool) : Except ColorErr Triplet :=
  getTruecolorT P P.defaultTheme c foreground

/-- `Color.get_ansi_codes(foreground)`: the SGR parameters, each a decimal number (`str(int)`). -/
def getAnsiCodes (c : Color) (foreground : Bool) : Except ColorErr (List Nat) :=
  match c.type with
  | .default => .ok [if foreground then 39 else 49]
  | .windows => do
    let number ← assertSome c.number
    let (fore, back) := if number < 8 then (30, 40) else (82, 92)
    .ok [if foreground then fore + number else back + number]
  | .standard => do
    let number ← assertSome c.number
    let (fore, back) := if number < 8 then (30, 40) else (82, 92)
    .ok [if foreground then fore + number else back + number]
  | .eightBit => do
    let number ← assertSome c.number
    .ok [if foreground then 38 else 48, 5, number]
  | .truecolor => do
    let t ← assertSome c.triplet
    .ok [if foreground then 38 else 48, 2, t.red, t.green, t.blue]

def Triplet.maxc (t : Triplet) : Nat := max t.red (max t.green t.blue)
def Triplet.minc (t : Triplet) : Nat := min t.red (min t.green t.blue)

/-- The exact-rational reading of `rgb_to_hls(r/255, g/255, b/255)[2] < 0.1` for `max ≠ min`:
`l = (M+m)/510`; `s = (M-m)/(M+m)` if `l ≤ 1/2` else `(M-m)/(510-M-m)`. -/
def satLowExact (M m : Nat) : Bool :=
  let den := if M + m ≤ 255 then M + m else 510 - M - m
  decide (10 * (M - m) < den)

/-- `s < 0.1` as the running Python decides it: `rgb_to_hls` returns `s = 0.0` when `minc == maxc`;
otherwise the exact comparison, flipped at the tabulated pairs. -/
def satLow (exc : List (Nat × Nat)) (t : Triplet) : Bool :=
  let M := t.maxc
  let m := t.minc
  if M = m then true else (satLowExact M m != exc.contains (M, m))

/-- `gray = round(l * 25.0)` with `l = (M/255 + m/255)/2`, exactly `25(M+m)/510`. -/
def grayLevel (t : Triplet) : Nat := pyRound (25 * (t.maxc + t.minc)) 510

/-- `round(c/255.0 * 5.0)`, exactly `5c/255`. -/
def cubeCoord (c : Nat) : Nat := pyRound (5 * c) 255

/-- Truecolor → 8-bit colour number (color.py:478-495). -/
def toEightBitNumber (exc : List (Nat × Nat)) (t : Triplet) : Nat :=
  if satLow exc t then
    let gray := grayLevel t
    if gray = 0 then 16
    else if gray = 25 then 231
    else 231 + gray
  else
    16 + 36 * cubeCoord t.red + 6 * cubeCoord t.green + cubeCoord t.blue

/-- `Color.downgrade(system)` (color.py:470-521), statement by statement. -/
def downgrade (cfg : Cfg) (P : Palettes) (c : Color) (system : ColorSystem) : Except ColorErr Color :=
  -- `if self.type == ColorType.DEFAULT or self.type == system: return self`  (IntEnum: compared as ints)
  if c.type = .default ∨ c.type.toNat = system.toNat then .ok c
  else if system = .eightBit ∧ c.system = .truecolor then do
    let t ← assertSome c.triplet
    .ok { name := c.name, type := .eightBit, number := some (toEightBitNumber cfg.satExc t), triplet := none }
  else if system = .standard then do
    if c.system = .truecolor then do
      let t ← assertSome c.triplet
      let n ← paletteMatch P.standard t
      .ok { name := c.name, type := .standard, number := some n, triplet := none }
    else do  -- the comment says EIGHT_BIT; it is also reached by WINDOWS colours
      let number ← assertSome c.number
      if cfg.stdViaPalette = false ∧ number < 16 then   -- repaired variant only
        .ok { name := c.name, type := .standard, number := some number, triplet := none }
      else do
        let t ← paletteGet P.eightBit number
        let n ← paletteMatch P.standard t
        .ok { name := c.name, type := .standard, number := some n, triplet := none }
  else if system = .windows then do
    if c.system = .truecolor then do
      let t ← assertSome c.triplet
      let n ← paletteMatch P.windows t
      .ok { name := c.name, type := .windows, number := some n, triplet := none }
    else do
      let number ← assertSome c.number
      if number < 16 then
        .ok { name := c.name, type := .windows, number := some number, triplet := none }
      else do
        let t ← paletteGet P.eightBit number
        let n ← paletteMatch P.windows t
        .ok { name := c.name, type := .windows, number := some n, triplet := none }
  else .ok c

/-- rich 9.10.0 as found (before fix 2cec9e1; the name `today` dates from then) with the IEEE-double facts of the running Python. -/
def Cfg.today : Cfg := { stdViaPalette := true, satExc := satExcDouble }
/-- The repaired code (fix 2cec9e1, the former pending_fixes/C18-*.diff; what /repo contains now) with the same runtime facts. -/
def Cfg.repaired : Cfg := { stdViaPalette := false, satExc := satExcDouble }

/-! ## `ColorTriplet.hex`, `parse_rgb_hex`, `blend_rgb` -/

/-- `f"{c:02x}"`: lower-case hexadecimal, zero-padded to two digits (more digits if `c ≥ 256`). -/
def hexByte (c : Nat) : List Char :=
  if c < 16 then '0' :: Nat.toDigits 16 c else Nat.toDigits 16 c

/-- `ColorTriplet.hex`: `f"#{red:02x}{green:02x}{blue:02x}"`. -/
def Triplet.hex (t : Triplet) : List Char := '#' :: (hexByte t.red ++ hexByte t.green ++ hexByte t.blue)

/-- value of an ASCII hexadecimal digit. -/
def hexDigitVal? (c : Char) : Option Nat :=
  let n := c.toNat
  if 48 ≤ n ∧ n ≤ 57 then some (n - 48)
  else if 97 ≤ n ∧ n ≤ 102 then some (n - 87)
  else if 65 ≤ n ∧ n ≤ 70 then some (n - 55)
  else none

/-- ASCII characters `int()` strips: TAB LF VT FF CR SPACE (not FS..US, unlike `str.isspace`). -/
def intSpaceAscii (c : Char) : Bool := c.toNat == 32 || (9 ≤ c.toNat && c.toNat ≤ 13)

/-- `int(s, 16)` for a two-character **ASCII** string `s = [a, b]`: two hex digits; or one hex digit
with leading / trailing white space; or a sign followed by a digit.  Everything else (`0x`, `_`, empty
after stripping …) is `ValueError`. -/
def pyIntHex2 (a b : Char) : Except ColorErr Int :=
  match hexDigitVal? a, hexDigitVal? b with
  | some x, some y => .ok (16 * x + y : Nat)
  | none, some y =>
    if intSpaceAscii a || a == '+' then .ok (y : Nat)
    else if a == '-' then .ok (-(y : Nat))
    else .error .valueError
  | some x, none => if intSpaceAscii b then .ok (x : Nat) else .error .valueError
  | none, none => .error .valueError

/-- `parse_rgb_hex(hex_color)` (color.py:524): `assert len(hex_color) == 6`, then three `int(…, 16)`.
Components can be negative (`"-f…"`), so they are integers here. -/
def parseRgbHex (s : List Char) : Except ColorErr (Int × Int × Int) :=
  match s with
  | [a, b, c, d, e, f] => do
    let r ← pyIntHex2 a b
    let g ← pyIntHex2 c d
    let bl ← pyIntHex2 e f
    .ok (r, g, bl)
  | _ => .error .assertionError

/-- One channel of `blend_rgb`: `int(c1 + (c2 - c1) * cross_fade)` for the dyadic rational
`cross_fade = k / 2^n` (exact in IEEE doubles for the sizes the driver admits); `int()` truncates
toward zero. -/
def blendChannel (c1 c2 : Nat) (k : Int) (n : Nat) : Int :=
  Int.tdiv ((c1 : Int) * (2 ^ n : Nat) + ((c2 : Int) - (c1 : Int)) * k) ((2 ^ n : Nat) : Int)

/-- `blend_rgb(color1, color2, cross_fade = k / 2^n)` (color.py:533). -/
def blendRgb (t1 t2 : Triplet) (k : Int) (n : Nat) : Int × Int × Int :=
  (blendChannel t1.red t2.red k n, blendChannel t1.green t2.green k n, blendChannel t1.blue t2.blue k n)

end RichModel
