import RichModel.Model.ColorCore
import RichModel.Model.ColorParse
/-
Model of `rich.style.Style` (rich/style.py), statement by statement, quirks included.

Import-free apart from `RichModel.Model.*` / `RichModel.Gen.*`.

What is modelled
* the five compared fields `_color _bgcolor _attributes _set_attributes _link`;
* `_hash` — **not** the integer (that is the Python runtime) but the tuple that was passed to
  `hash()` when the object was built (`HashKey`), exactly as every constructor computes or copies it;
* `_null` (stored, *not* recomputed: `Style(color="red").without_color` has empty fields and `_null == False`);
* `_style_definition`, the cache filled by `__str__` (copied by `copy` and `update_link`);
* constructors `__init__`, `from_color`, `null`, `parse`, `__add__`, `copy`, `update_link`,
  `without_color`, `chain`/`combine`; observers `__eq__`, `__hash__`, `__bool__`, `__str__`, `normalize`,
  the attribute descriptors (`_Bit.__get__`).

What is not modelled
* `_link_id` (random, not part of `==` or of the hash), `_ansi` (C03), rendering, `get_html_style`;
* `functools.lru_cache` on `parse` / `normalize` (assumed transparent);
* `str.lower()` of a string containing GREEK CAPITAL SIGMA (see Model/ColorParse.lean).

`NULL_STYLE` is one shared object per process; the first `str()` of it fills its `_style_definition`
with "none" for good.  The model represents it in that absorbing state (`Style.null`); the harness
establishes it before every case.

Attributes are numbered as the bits of `_attributes`:
0 bold, 1 dim, 2 italic, 3 underline, 4 blink, 5 blink2, 6 reverse, 7 conceal, 8 strike,
9 underline2, 10 frame, 11 encircle, 12 overline.
-/
namespace RichModel
open AsciiStr

/-- The tuple passed to `hash()` (style.py:162-170, 195-203): `(color, bgcolor, attributes,
set_attributes, link)`; `from_color` passes `None` for the last three. -/
structure HashKey where
  color : Option Color
  bgcolor : Option Color
  attributes : Option Nat
  setAttributes : Option Nat
  link : Option (List Char)
deriving Repr, BEq, DecidableEq

/-- A `Style` object. -/
structure Style where
  /-- `_color` -/
  color : Option Color
  /-- `_bgcolor` -/
  bgcolor : Option Color
  /-- `_attributes`: bit i = attribute i is on (meaningful where `setAttributes` has bit i) -/
  attributes : Nat
  /-- `_set_attributes`: bit i = attribute i is specified -/
  setAttributes : Nat
  /-- `_link` (`some []` is the empty string: falsy but not `None`) -/
  link : Option (List Char)
  /-- `_hash`, as the tuple that was hashed -/
  hash : HashKey
  /-- `_null` -/
  isNull : Bool
  /-- `_style_definition` -/
  styleDef : Option (List Char)
deriving Repr, BEq, DecidableEq

/-- `a & ~b` on non-negative Python ints: the bits of `a` that are not in `b`. -/
def andNot (a b : Nat) : Nat := a ^^^ (a &&& b)

/-- Python truthiness of `Optional[str]`: `None` and `""` are falsy. -/
def strTruthy : Option (List Char) → Bool
  | some (_ :: _) => true
  | _ => false

/-- `x or y` on `Optional[str]` (`style._link or self._link`). -/
def linkOr (x y : Option (List Char)) : Option (List Char) := if strTruthy x then x else y

namespace Style

/-- `""` and `None` both mean "no link": the link with the empty string read as `None`. -/
def linkVal (l : Option (List Char)) : Option (List Char) := if strTruthy l then l else none

/-- The link `__init__` / `update_link` store: as given (rich 9.10.0), or `link or None` (repaired). -/
def storedLink (v : StyleVariant) (l : Option (List Char)) : Option (List Char) :=
  if v.emptyLink then l else linkVal l

/-- Whatever the variant, a stored link that is some `l` is the link that was given. -/
theorem storedLink_some {v : StyleVariant} {x : Option (List Char)} {l : List Char}
    (h : storedLink v x = some l) : x = some l := by
  unfold storedLink linkVal at h
  split at h
  · exact h
  · split at h
    · exact h
    · cases h

/-- The tuple `__init__` hashes, recomputed from the current fields. -/
def fieldsKey (s : Style) : HashKey :=
  ⟨s.color, s.bgcolor, some s.attributes, some s.setAttributes, s.link⟩

/-- `Style.__eq__` (style.py:347-356); `Color` is a NamedTuple, so colours compare field-wise
including the name. -/
def eq (a b : Style) : Bool :=
  decide (a.color = b.color ∧ a.bgcolor = b.bgcolor ∧ a.setAttributes = b.setAttributes ∧
          a.attributes = b.attributes ∧ a.link = b.link)

/-- `Style.__hash__` returns the stored `_hash`. -/
def hashKey (s : Style) : HashKey := s.hash

/-- `Style.__bool__`. -/
def toBool (s : Style) : Bool := !s.isNull

/-- `_Bit.__get__` (style.py:23-26): the tri-state value of attribute `i`. -/
def attr (s : Style) (i : Nat) : Option Bool :=
  if s.setAttributes.testBit i then some (s.attributes.testBit i) else none

/-- `NULL_STYLE = Style()` in its steady state (see the header). -/
def null : Style :=
  { color := none, bgcolor := none, attributes := 0, setAttributes := 0, link := none,
    hash := ⟨none, none, some 0, some 0, none⟩, isNull := true, styleDef := some (cl! "none") }

/-! ### `__init__` -/

/-- A `color=` / `bgcolor=` argument: a string to be parsed, or a `Color`. -/
inductive ColorArg where
  | str (s : List Char)
  | color (c : Color)
deriving Repr, BEq, DecidableEq

/-- `_make_color` (style.py:116). -/
def makeColorT (T : StrTables) (v : StyleVariant) : ColorArg → Except StyleErr Color
  | .str s => Color.parseT T v s
  | .color c => .ok c

/-- Little-endian bits to number: `sum(b0 and 1, b1 and 2, b2 and 4, …)`. -/
def bitsToNat : List Bool → Nat
  | [] => 0
  | b :: r => (if b then 1 else 0) + 2 * bitsToNat r

/-- The 13 keyword arguments `bold … overline`, in bit order; a shorter list means the rest are `None`. -/
abbrev Kwargs := List (Option Bool)

/-- `_set_attributes = sum((bold is not None, dim is not None and 2, …))` (style.py:121-137). -/
def kwSet (kw : Kwargs) : Nat :=
  bitsToNat ((List.range 13).map fun i => (kw.getD i none).isSome)

/-- `sum((bold and 1 or 0, dim and 2 or 0, …))` (style.py:139-155). -/
def kwVal (kw : Kwargs) : Nat :=
  bitsToNat ((List.range 13).map fun i => kw.getD i none == some true)

/-- `Style.__init__` (style.py:93-171).  `color` is evaluated before `bgcolor`. -/
def initT (T : StrTables) (v : StyleVariant) (color bgcolor : Option ColorArg) (kw : Kwargs)
    (link : Option (List Char)) : Except StyleErr Style :=
  match (match color with | none => Except.ok none | some c => (makeColorT T v c).map some) with
  | .error e => .error e
  | .ok c =>
    match (match bgcolor with | none => Except.ok none | some b => (makeColorT T v b).map some) with
    | .error e => .error e
    | .ok b =>
      let setA := kwSet kw
      let attrs := if setA ≠ 0 then kwVal kw else 0
      let link := storedLink v link
      .ok { color := c, bgcolor := b, attributes := attrs, setAttributes := setA, link := link,
            hash := ⟨c, b, some attrs, some setA, link⟩,
            -- `not (self._set_attributes or color or bgcolor or link)`: a colour argument that got
            -- this far is truthy (a Color tuple, or a non-empty string)
            isNull := !(setA ≠ 0 || color.isSome || bgcolor.isSome || strTruthy link),
            styleDef := none }

/-- `Style.__init__` on ASCII text (the instance other models use). -/
abbrev init (v : StyleVariant) (color bgcolor : Option ColorArg) (kw : Kwargs) (link : Option (List Char)) :
    Except StyleErr Style := initT StrTables.ascii v color bgcolor kw link

/-- `Style.from_color` (style.py:178-205). -/
def fromColor (v : StyleVariant) (color bgcolor : Option Color) : Style :=
  { color := color, bgcolor := bgcolor, attributes := 0, setAttributes := 0, link := none,
    hash := if v.fromColorHash then ⟨color, bgcolor, none, none, none⟩
            else ⟨color, bgcolor, some 0, some 0, none⟩,
    isNull := !(color.isSome || bgcolor.isSome), styleDef := none }

/-! ### `__add__`, `copy`, `update_link`, `without_color`, `chain` -/

/-- `Style.__add__` (style.py:637-657) for a `Style` right operand. -/
def add (v : StyleVariant) (self style : Style) : Style :=
  if style.isNull then self
  else if self.isNull then style
  else
    -- `style._color or self._color`: a `Color` (non-empty tuple) is always truthy
    let color := style.color.or self.color
    let bgcolor := style.bgcolor.or self.bgcolor
    let attributes := andNot self.attributes style.setAttributes ||| (style.attributes &&& style.setAttributes)
    let setAttributes := self.setAttributes ||| style.setAttributes
    let link := linkOr style.link self.link
    { color := color, bgcolor := bgcolor, attributes := attributes, setAttributes := setAttributes,
      link := link,
      hash := if v.addHash then style.hash else ⟨color, bgcolor, some attributes, some setAttributes, link⟩,
      isNull := self.isNull || style.isNull, styleDef := none }

/-- `Style.__add__` with an `Optional[Style]` right operand (`style is None` returns `self`). -/
def addOpt (v : StyleVariant) (self : Style) : Option Style → Style
  | none => self
  | some style => add v self style

/-- `Style.copy` (style.py:556-575). -/
def copy (s : Style) : Style :=
  if s.isNull then Style.null
  else { s with isNull := false }

/-- `Style.update_link` (style.py:577-597). -/
def updateLink (v : StyleVariant) (s : Style) (link : Option (List Char)) : Style :=
  let link := storedLink v link
  { color := s.color, bgcolor := s.bgcolor, attributes := s.attributes, setAttributes := s.setAttributes,
    link := link,
    hash := if v.updateLinkHash then s.hash
            else ⟨s.color, s.bgcolor, some s.attributes, some s.setAttributes, link⟩,
    isNull := false,
    styleDef := if v.updateLinkDef then s.styleDef else none }

theorem updateLink_link_some {v : StyleVariant} {s : Style} {x : Option (List Char)} {l : List Char}
    (h : (updateLink v s x).link = some l) : x = some l :=
  storedLink_some h

/-- `Style.without_color` (style.py:386-402). -/
def withoutColor (v : StyleVariant) (s : Style) : Style :=
  if s.isNull then Style.null
  else
    { color := none, bgcolor := none, attributes := s.attributes, setAttributes := s.setAttributes,
      link := s.link,
      hash := if v.withoutColorHash then s.hash
              else ⟨none, none, some s.attributes, some s.setAttributes, s.link⟩,
      isNull := false, styleDef := none }

/-- `Style.chain(*styles)` / `Style.combine(styles)`: `sum(iter_styles, next(iter_styles))`
(style.py:530-554) — a left fold of `__add__` starting from the first style. -/
def chain (v : StyleVariant) : List Style → Except StyleErr Style
  | [] => .error .stopIteration
  | first :: rest => .ok (rest.foldl (add v) first)

/-! ### `__str__` -/

def attrNames : List (List Char) :=
  [cl! "bold", cl! "dim", cl! "italic", cl! "underline", cl! "blink", cl! "blink2", cl! "reverse",
   cl! "conceal", cl! "strike", cl! "underline2", cl! "frame", cl! "encircle", cl! "overline"]

/-- `if bits & (1 << i): append(name if self.<name> else "not " + name)` -/
def attrElem (s : Style) (i : Nat) (name : List Char) : List (List Char) :=
  if s.setAttributes.testBit i then
    [if s.attr i == some true then name else cl! "not " ++ name]
  else []

/-- The list `attributes` built by `__str__` (style.py:229-268), with its three group guards. -/
def strElems (s : Style) : List (List Char) :=
  let bits := s.setAttributes
  (if bits &&& 0b0000000001111 ≠ 0 then
    attrElem s 0 (cl! "bold") ++ attrElem s 1 (cl! "dim") ++ attrElem s 2 (cl! "italic") ++
    attrElem s 3 (cl! "underline") else []) ++
  (if bits &&& 0b0000111110000 ≠ 0 then
    attrElem s 4 (cl! "blink") ++ attrElem s 5 (cl! "blink2") ++ attrElem s 6 (cl! "reverse") ++
    attrElem s 7 (cl! "conceal") ++ attrElem s 8 (cl! "strike") else []) ++
  (if bits &&& 0b1111000000000 ≠ 0 then
    attrElem s 9 (cl! "underline2") ++ attrElem s 10 (cl! "frame") ++ attrElem s 11 (cl! "encircle") ++
    attrElem s 12 (cl! "overline") else []) ++
  (match s.color with | some c => [c.name] | none => []) ++
  (match s.bgcolor with | some c => [cl! "on", c.name] | none => []) ++
  (if strTruthy s.link then [cl! "link", s.link.getD []] else [])

/-- `" ".join(attributes) or "none"`: what `__str__` computes when the cache is empty. -/
def render (s : Style) : List Char :=
  let d := joinSpace (strElems s)
  if d.isEmpty then cl! "none" else d

/-- `str(style)`: the cached definition if there is one. -/
def str (s : Style) : List Char :=
  match s.styleDef with
  | some d => d
  | none => render s

/-- The object after `str(style)` has been called on it (the cache is now filled). -/
def strTouch (s : Style) : Style := { s with styleDef := some (str s) }

/-! ### `parse`, `normalize` -/

/-- `style_attributes` (style.py:421-444), as word ↦ bit number of the attribute it names. -/
def styleAttributes : List (List Char × Nat) :=
  [(cl! "dim", 1), (cl! "d", 1), (cl! "bold", 0), (cl! "b", 0), (cl! "italic", 2), (cl! "i", 2),
   (cl! "underline", 3), (cl! "u", 3), (cl! "blink", 4), (cl! "blink2", 5), (cl! "reverse", 6),
   (cl! "r", 6), (cl! "conceal", 7), (cl! "c", 7), (cl! "strike", 8), (cl! "s", 8),
   (cl! "underline2", 9), (cl! "uu", 9), (cl! "frame", 10), (cl! "encircle", 11),
   (cl! "overline", 12), (cl! "o", 12)]

/-- `style_attributes.get(word)` -/
def attrIndex (word : List Char) : Option Nat :=
  (styleAttributes.find? fun p => p.1 == word).map (·.2)

/-- The local variables of the `for original_word in words` loop. -/
structure ParseState where
  color : Option (List Char) := none
  bgcolor : Option (List Char) := none
  attributes : Kwargs := List.replicate 13 none
  link : Option (List Char) := none
deriving Repr, BEq, DecidableEq

/-- The loop of `Style.parse` (style.py:450-490); `next(words, "")` consumes the following word. -/
def parseLoopT (T : StrTables) (v : StyleVariant) : List (List Char) → ParseState → Except StyleErr ParseState
  | [], st => .ok st
  | originalWord :: rest, st =>
    let word := T.lower originalWord
    if word == cl! "on" then
      match rest with
      | [] => .error .styleSyntax                       -- `next(words, "")` is "" : "color expected after 'on'"
      | w :: rest' =>
        match Color.parseT T v w with
        | .error .colorParse => .error .styleSyntax
        | .error e => .error e                            -- anything else (ValueError) is not caught
        | .ok _ => parseLoopT T v rest' { st with bgcolor := some w }
    else if word == cl! "not" then
      match rest with
      | [] => .error .styleSyntax                       -- `style_attributes.get("")` is None
      | w :: rest' =>
        match attrIndex w with                           -- NB: `w` is not lower-cased
        | none => .error .styleSyntax
        | some i => parseLoopT T v rest' { st with attributes := st.attributes.set i (some false) }
    else if word == cl! "link" then
      match rest with
      | [] => .error .styleSyntax
      | w :: rest' => parseLoopT T v rest' { st with link := some w }
    else
      match attrIndex word with
      | some i => parseLoopT T v rest { st with attributes := st.attributes.set i (some true) }
      | none =>
        match Color.parseT T v word with
        | .error .colorParse => .error .styleSyntax
        | .error e => .error e
        | .ok _ => parseLoopT T v rest { st with color := some word }

/-- `Style.parse(style_definition)` (style.py:404-492), without the (transparent) `lru_cache`. -/
def parseT (T : StrTables) (v : StyleVariant) (styleDefinition : List Char) : Except StyleErr Style :=
  if T.strip styleDefinition == cl! "none" || styleDefinition.isEmpty then .ok Style.null
  else
    match parseLoopT T v (T.split styleDefinition) {} with
    | .error e => .error e
    | .ok st => initT T v (st.color.map .str) (st.bgcolor.map .str) st.attributes st.link

/-- `Style.normalize(style)` (style.py:318-333): only `StyleSyntaxError` is caught. -/
def normalizeT (T : StrTables) (v : StyleVariant) (style : List Char) : Except StyleErr (List Char) :=
  match parseT T v style with
  | .ok s => .ok (str s)
  | .error .styleSyntax => .ok (T.lower (T.strip style))
  | .error e => .error e

/-- `Style.parse` / `Style.normalize` on ASCII text (the instances other models use). -/
abbrev parse (v : StyleVariant) (styleDefinition : List Char) : Except StyleErr Style :=
  parseT StrTables.ascii v styleDefinition
abbrev normalize (v : StyleVariant) (style : List Char) : Except StyleErr (List Char) :=
  normalizeT StrTables.ascii v style

/-! ### well-formedness: the styles whose string form parses back to themselves

Decidable, and satisfied by every style `parse` returns (`Lemmas/StyleText.lean`).  It excludes what
the grammar of style definitions cannot express: a link that is empty or contains white space, a
colour whose name is not a definition of that very colour (e.g. a down-converted colour, which keeps
its name but changes its type), attribute bits outside the 13 known ones. -/

/-- The colour's name is white-space free and is a definition of this very colour. -/
def wfColorT (T : StrTables) (v : StyleVariant) (c : Color) : Bool :=
  T.noSpace c.name &&
    match Color.parseT T v c.name with
    | .ok c' => decide (c' = c)
    | .error _ => false

/-- `None`, or a non-empty word. -/
def wfLinkT (T : StrTables) : Option (List Char) → Bool
  | none => true
  | some l => !l.isEmpty && T.noSpace l

def wfT (T : StrTables) (v : StyleVariant) (s : Style) : Bool :=
  decide (s.attributes &&& s.setAttributes = s.attributes) && decide (s.setAttributes < 8192) &&
    (match s.color with | none => true | some c => wfColorT T v c) &&
    (match s.bgcolor with | none => true | some c => wfColorT T v c) &&
    wfLinkT T s.link

/-- Well-formedness on ASCII text. -/
abbrev wf (v : StyleVariant) (s : Style) : Bool := wfT StrTables.ascii v s

end Style
end RichModel
