/-
Model of the ROW BOOKKEEPING of rich/table.py: `Table.add_row` (table.py: padding a short row with `None`, a surplus cell creating
a `Column` that is back-filled with one `Text("")` per existing row, `None` → `""`, `NotRenderableError` for anything that is not
renderable — raised in the MIDDLE of the loop, the cells already appended stay), `Row(style, end_section)` appended last, and
`Table.get_row_style` (`row_styles[index % len(row_styles)]` then the row's own style).

Cells are abstract values of a type `α` (the renderable objects); `blank` is the `""` that stands for `None` / a missing cell and
`blankText` the `Text("")` a created column is back-filled with.  Import-free.
-/
namespace RichModel.TableRows

/-- One positional argument of `add_row`: `None`, a renderable, or something `is_renderable` rejects. -/
inductive Arg (α : Type) where
  | none
  | ok (a : α)
  | bad
deriving Repr, DecidableEq

/-- `rich.table.Row`: `style` (an id, `none` = `None`) and `end_section`. -/
structure RowMeta where
  style : Option Nat := none
  endSection : Bool := false
deriving Repr, DecidableEq

/-- The part of a `Table` that `add_row` touches: every column's `_cells` (in column order) and `table.rows`. -/
structure Builder (α : Type) where
  cols : List (List α)
  rows : List RowMeta
deriving Repr, DecidableEq

/-- What ends up in the column for an accepted argument: `""` for `None`, the renderable itself otherwise. -/
def Arg.val {α : Type} (blank : α) : Arg α → α
  | .none => blank
  | .ok a => a
  | .bad => blank

/-- `for index, renderable in enumerate(cell_renderables):` — the arguments left to right against the columns that exist; when the
columns run out (`index == len(columns)`) a column is created, back-filled with `nrows` × `Text("")` and appended BEFORE the
renderable is looked at.  Returns the columns and `false` if `NotRenderableError` was raised (the loop stops there: the columns
to the left already hold their new cell, this one and those to the right do not). -/
def addCells {α : Type} (blank blankText : α) (nrows : Nat) : List (Arg α) → List (List α) → List (List α) × Bool
  | [], cols => (cols, true)
  | a :: as, cols =>
    let col := cols.headD (List.replicate nrows blankText)
    let rest := cols.tail
    match a with
    | .bad => (col :: rest, false)
    | a =>
      let r := addCells blank blankText nrows as rest
      ((col ++ [a.val blank]) :: r.1, r.2)

/-- `if len(cell_renderables) < len(columns): cell_renderables = [*cell_renderables, *[None] * (len(columns) - len(cell_renderables))]` -/
def padArgs {α : Type} (ncols : Nat) (args : List (Arg α)) : List (Arg α) :=
  if args.length < ncols then args ++ List.replicate (ncols - args.length) Arg.none else args

/-- `Table.add_row(*renderables, style=…, end_section=…)`; the flag is `false` when `NotRenderableError` was raised (then no `Row`
is appended, but the cells added before the offending argument remain — the code as it stands). -/
def Builder.addRow {α : Type} (blank blankText : α) (b : Builder α) (args : List (Arg α)) (m : RowMeta) : Builder α × Bool :=
  let r := addCells blank blankText b.rows.length (padArgs b.cols.length args) b.cols
  if r.2 then ({ cols := r.1, rows := b.rows ++ [m] }, true) else ({ cols := r.1, rows := b.rows }, false)

/-- A sequence of `add_row` calls, stopping at the first that raises. -/
def Builder.addRows {α : Type} (blank blankText : α) (b : Builder α) : List (List (Arg α) × RowMeta) → Builder α × Bool
  | [] => (b, true)
  | c :: cs =>
    let r := b.addRow blank blankText c.1 c.2
    if r.2 then Builder.addRows blank blankText r.1 cs else r

/-- Row `k` as `zip(*columns)` reads it: the `k`-th cell of every column. -/
def Builder.row {α : Type} (blank : α) (b : Builder α) (k : Nat) : List α := b.cols.map (fun c => c.getD k blank)

/-! ### `Table.get_row_style` and the styles `_render` composes

Styles are SYMBOLIC: a style is the list of the sources it was `+`-composed from, left to right (`Style.__add__` is associative with
`Style.null()` as unit — C06), so "which style a character carries" is a list of `Src`. -/

inductive Src where
  | table                    -- `self.style`
  | border                   -- `self.border_style`
  | rowStyles (i : Nat)      -- `self.row_styles[i]`
  | row (s : Nat)            -- `self.rows[r].style` (id `s`)
  | tableHeader | tableFooter  -- `self.header_style`, `self.footer_style`
  | colHeader (j : Nat) | colFooter (j : Nat) | colStyle (j : Nat)   -- `column.header_style` / `footer_style` / `style`
  | own (id : Nat)           -- the style the cell's own rendering put on the character
  | bgOf (row : List Src)    -- `row_style.background_style` (only the background of the composed row style)

/-- `Table.get_row_style(console, index)`: `row_styles[index % len(row_styles)]` if any, then the row's own style if not `None`. -/
def getRowStyle (nRowStyles : Nat) (rows : List RowMeta) (index : Nat) : List Src :=
  (if nRowStyles = 0 then [] else [Src.rowStyles (index % nRowStyles)]) ++
    (match (rows.getD index {}).style with
     | some s => [Src.row s]
     | none => [])

/-- The kind of the zipped row at `index` of `n` (`loop_first_last` + `show_header` / `show_footer`). -/
inductive RowKind where
  | header | footer | data (r : Nat)
deriving Repr, DecidableEq

/-- `header_row = first and show_header`, `footer_row = last and show_footer`, else `self.rows[index - show_header]`. -/
def rowKind (showHeader showFooter : Bool) (n index : Nat) : RowKind :=
  if index == 0 && showHeader then .header
  else if index + 1 == n && showFooter then .footer
  else .data (index - (if showHeader then 1 else 0))

/-- `row_style`: `Style.null()` for the header and footer rows, `get_style(get_row_style(console, index - 1 if show_header else index))` otherwise. -/
def rowStyle (nRowStyles : Nat) (rows : List RowMeta) : RowKind → List Src
  | .header => []
  | .footer => []
  | .data r => getRowStyle nRowStyles rows r

/-- `_Cell.style` as `_get_cells` computes it for entry `e` of the `m` entries of column `j` (the header first if shown, the footer
last if shown — PER COLUMN, which is not the zipped row's kind when columns hold different numbers of cells). -/
def cellOwnStyle (showHeader showFooter : Bool) (j m e : Nat) : List Src :=
  if e == 0 && showHeader then [Src.tableHeader, Src.colHeader j]
  else if e + 1 == m && showFooter then [Src.tableFooter, Src.colFooter j]
  else [Src.table, Src.colStyle j]

/-- `cell_style = table_style + row_style + get_style(cell.style)` -/
def cellStyle (showHeader showFooter : Bool) (nRowStyles : Nat) (rows : List RowMeta) (n index j m : Nat) : List Src :=
  [Src.table] ++ rowStyle nRowStyles rows (rowKind showHeader showFooter n index) ++ cellOwnStyle showHeader showFooter j m index

/-- `border_style = table_style + get_style(self.border_style or "")` -/
def borderStyle : List Src := [Src.table, Src.border]

/-- The style of the blank lines `set_shape` appends (and of its width padding): `table_style + row_style`. -/
def fillStyle (showHeader showFooter : Bool) (nRowStyles : Nat) (rows : List RowMeta) (n index : Nat) : List Src :=
  [Src.table] ++ rowStyle nRowStyles rows (rowKind showHeader showFooter n index)

/-- The divider between two cells of a row: `border_style`, or — when the divider character is whitespace —
`row_style.background_style + border_style`. -/
def dividerStyle (dividerIsSpace : Bool) (showHeader showFooter : Bool) (nRowStyles : Nat) (rows : List RowMeta) (n index : Nat) : List Src :=
  if dividerIsSpace then [Src.bgOf (rowStyle nRowStyles rows (rowKind showHeader showFooter n index))] ++ borderStyle else borderStyle

end RichModel.TableRows
