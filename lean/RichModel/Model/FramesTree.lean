import RichModel.Model.Frames
/-
Model of rich/tree.py (`Tree.__rich_console__`, `Tree.__rich_measure__`) — the explicit stack walk,
statement by statement — together with the structurally recursive reference walk `specTree` it is
proved equal to in Lemmas/FramesTree.lean.

Labels are child oracles.  Of a style only the two attributes `make_guide` branches on are kept
(`bold`, `underline2`, tri-state as in `Style`): `GStyle`.
-/
namespace RichModel.Frames
open RichModel

variable {σ : Type}

/-- `bold` / `underline2` of a `Style` (None = not set). -/
structure GStyle where
  bold : Option Bool := none
  ul2 : Option Bool := none
deriving Repr, BEq, DecidableEq

/-- `Style.__add__` restricted to the two attributes (right operand wins where it sets a value). -/
def GStyle.add (a b : GStyle) : GStyle :=
  ⟨match b.bold with | some x => some x | none => a.bold, match b.ul2 with | some x => some x | none => a.ul2⟩

/-- A tree node: label oracle, `get_style(node.guide_style)` (two attributes), `expanded`, children. -/
inductive TreeN (σ : Type) where
  | node (label : Child σ) (gs : GStyle) (expanded : Bool) (children : List (TreeN σ))

def TreeN.label : TreeN σ → Child σ | .node l _ _ _ => l
def TreeN.gs : TreeN σ → GStyle | .node _ g _ _ => g
def TreeN.expanded : TreeN σ → Bool | .node _ _ e _ => e
def TreeN.children : TreeN σ → List (TreeN σ) | .node _ _ _ c => c

/-- One entry of `levels`: guide kind (0 SPACE, 1 CONTINUE, 2 FORK, 3 END) and the segment's style. -/
structure Guide where
  idx : Nat
  st : GStyle
deriving Repr, BEq, DecidableEq

def asciiGuides : List (List Char) := ["    ".toList, "|   ".toList, "+-- ".toList, "`-- ".toList]
def treeGuides : List (List (List Char)) := [
  ["    ".toList, "│   ".toList, "├── ".toList, "└── ".toList],
  ["    ".toList, "┃   ".toList, "┣━━ ".toList, "┗━━ ".toList],
  ["    ".toList, "║   ".toList, "╠══ ".toList, "╚══ ".toList]]

/-- `make_guide(index, style).text` (tree.py:88-95). -/
def guideText (env : Env) (g : Guide) : List Char :=
  if env.asciiOnly then asciiGuides.getD g.idx []
  else
    let kind := if g.st.bold == some true then 1 else if g.st.ul2 == some true then 2 else 0
    (treeGuides.getD (if env.legacyWindows then 0 else kind) []).getD g.idx []

def guideSeg (env : Env) (g : Guide) : Segment σ := seg (guideText env g)

/-- The lines of one node: `for first, line in loop_first(renderable_lines)` (tree.py:131-144);
`pfx` is `prefix` (in order), `cont` the guide that replaces `prefix[-1]` after the first line. -/
def emitNode (env : Env) (pfx : List Guide) (cont : Guide) (lines : List (Line σ)) : List (Segment σ) :=
  match lines with
  | [] => []
  | l :: ls =>
    let p1 : List (Segment σ) := pfx.map (guideSeg env)
    let p2 : List (Segment σ) := if pfx.isEmpty then [] else (pfx.dropLast ++ [cont]).map (guideSeg env)
    p1 ++ l ++ [nl] ++ ls.flatMap (fun l => p2 ++ l ++ [nl])

/-- State of the `while stack:` loop.  `levels` and `gstack` are stored top first
(`levels.head` is `levels[-1]`, `gstack.head` is `guide_style_stack.current`). -/
structure TState (σ : Type) where
  stack : List (List (TreeN σ))
  levels : List Guide
  gstack : List GStyle
  out : List (Segment σ)

/-- One iteration of `while stack:` (tree.py:104-158); `none` = the loop has ended. -/
def treeStep (cw : Char → Nat) (env : Env) (w : Int) (s : TState σ) : Option (TState σ) :=
  match s.stack with
  | [] => none
  | [] :: rest =>
    -- StopIteration: levels.pop(); if levels: levels[-1] = FORK; both style stacks pop
    let levels := s.levels.tail
    match levels with
    | [] => some { s with stack := rest, levels := [] }
    | g :: gs => some { s with stack := rest, levels := ⟨2, g.st⟩ :: gs, gstack := s.gstack.tail }
  | (node :: more) :: rest =>
    let last := more.isEmpty
    let levels := match s.levels with
      | [] => []
      | g :: gs => if last then ⟨3, g.st⟩ :: gs else g :: gs
    let cur := s.gstack.headD {}
    let guideStyle := cur.add node.gs
    let pfx := levels.reverse.tail            -- levels[1:]
    let pfxLen : Int := ((pfx.map (fun g => cellLen cw (guideText env g))).sum : Nat)
    let lines := node.label.linesAt cw (w - pfxLen) true
    let cont : Guide := ⟨if last then 0 else 1, (levels.headD ⟨0, {}⟩).st⟩
    let out := s.out ++ emitNode env pfx cont lines
    if node.expanded && !node.children.isEmpty then
      let levels := match levels with
        | [] => []
        | g :: gs => ⟨if last then 0 else 1, g.st⟩ :: gs
      let levels := ⟨if node.children.length == 1 then 3 else 2, guideStyle⟩ :: levels
      some { stack := node.children :: more :: rest, levels := levels, gstack := guideStyle :: s.gstack, out := out }
    else
      some { s with stack := more :: rest, levels := levels, out := out }

def treeLoop (cw : Char → Nat) (env : Env) (w : Int) : Nat → TState σ → TState σ
  | 0, s => s
  | fuel+1, s =>
    match treeStep cw env w s with
    | none => s
    | some s' => treeLoop cw env w fuel s'

mutual
/-- number of nodes -/
def TreeN.size : TreeN σ → Nat
  | .node _ _ _ cs => 1 + sizeList cs
def sizeList : List (TreeN σ) → Nat
  | [] => 0
  | t :: ts => t.size + sizeList ts
end

/-- `Tree.__rich_console__` (tree.py:70-158) with `options.max_width = w`; the fuel
`2 * size + 2` is shown sufficient in Lemmas/FramesTree (`treeConsole_eq_spec`). -/
def treeConsole (cw : Char → Nat) (env : Env) (root : TreeN σ) (w : Int) : List (Segment σ) :=
  let g0 : GStyle := root.gs
  (treeLoop cw env w (2 * root.size + 2)
    { stack := [[root]], levels := [⟨1, g0⟩], gstack := [g0], out := [] }).out

/-! ### Reference walk (specification): depth first, one guide per ancestor level. -/

mutual
/-- `anc` = guides of the strict ancestors below the root (SPACE / CONTINUE, outermost first);
`own` = this node's own guide style (`none` for the root, which has no guide); `last` = last sibling;
`cur` = `guide_style_stack.current` when the node is visited. -/
def specNode (cw : Char → Nat) (env : Env) (w : Int) (anc : List Guide) (own : Option GStyle) (last : Bool)
    (cur : GStyle) : TreeN σ → List (Segment σ)
  | .node label gs expanded children =>
    let pfx : List Guide := match own with
      | none => []
      | some st => anc ++ [⟨if last then 3 else 2, st⟩]
    let cont : Guide := ⟨if last then 0 else 1, (own.getD cur)⟩
    let pfxLen : Int := ((pfx.map (fun g => cellLen cw (guideText env g))).sum : Nat)
    let lines := label.linesAt cw (w - pfxLen) true
    let here := emitNode env pfx cont lines
    let anc' : List Guide := match own with
      | none => []
      | some _ => anc ++ [cont]
    let gstyle := cur.add gs
    if expanded then here ++ specNodes cw env w anc' gstyle gstyle children else here
def specNodes (cw : Char → Nat) (env : Env) (w : Int) (anc : List Guide) (st : GStyle) (cur : GStyle) :
    List (TreeN σ) → List (Segment σ)
  | [] => []
  | t :: ts => specNode cw env w anc (some st) ts.isEmpty cur t ++ specNodes cw env w anc st cur ts
end

/-- The reference rendering of a tree. -/
def specTree (cw : Char → Nat) (env : Env) (root : TreeN σ) (w : Int) : List (Segment σ) :=
  specNode cw env w [] none true root.gs root

/-! ### `Tree.__rich_measure__` (tree.py:160-182): the same walk, keeping `level`. -/

structure MState (σ : Type) where
  stack : List (List (TreeN σ))
  level : Int
  minimum : Int
  maximum : Int

def measureStep (maxWidth : Int) (s : MState σ) : Option (MState σ) :=
  match s.stack with
  | [] => none
  | [] :: rest => some { s with stack := rest, level := s.level - 1 }
  | (t :: more) :: rest =>
    let m := t.label.measureAt maxWidth
    let indent := s.level * 4
    let minimum := max (m.minimum + indent) s.minimum
    let maximum := max (m.maximum + indent) s.maximum
    if t.expanded && !t.children.isEmpty then
      some { stack := t.children :: more :: rest, level := s.level + 1, minimum := minimum, maximum := maximum }
    else some { stack := more :: rest, level := s.level, minimum := minimum, maximum := maximum }

def measureLoop (maxWidth : Int) : Nat → MState σ → MState σ
  | 0, s => s
  | fuel+1, s =>
    match measureStep maxWidth s with
    | none => s
    | some s' => measureLoop maxWidth fuel s'

def treeRichMeasure (root : TreeN σ) (maxWidth : Int) : Measurement :=
  let s := measureLoop maxWidth (2 * root.size + 2) { stack := [[root]], level := 0, minimum := 0, maximum := 0 }
  ⟨s.minimum, s.maximum⟩

def treeChild (cw : Char → Nat) (env : Env) (root : TreeN σ) : Child σ :=
  asChild (treeConsole cw env root) (treeRichMeasure root)

end RichModel.Frames
