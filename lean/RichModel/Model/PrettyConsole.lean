import RichModel.Model.Pretty
import RichModel.Model.Syntax
/-
Deepening round 4 of property C16: the rest of `Pretty.__rich_console__` / `__rich_measure__` (pretty.py:177-214).

* `withIndentGuides`: `Text.with_indent_guides(indent_size, style="repr.indent")` on the characters of the text
  (text.py:1072-1118): `text.split()` (the current `Text.split`, `Syntax.textSplitC`), the `^( *)(.*)$` loop with its
  blank-line counter, `divmod(len(indent), indent_size)` — `ZeroDivisionError` for `indent_size == 0` at the first
  non-blank line, Python's floor division / `str * negative == ""` for a negative `indent_size` — and
  `Text("\n").join(new_lines)`.  `expand_tabs` is the identity when the text has no tab; a text with a tab is outside
  the modelled domain (the driver answers `unmodelled`).  The loop and `new_indent` for a positive size are the ones
  property C17 already models (`Syntax.guideLoop`, `Syntax.newIndent`); imported read-only.
* `prettyConsoleFull`: everything `__rich_console__` yields, as characters: the optional `""` first
  (`self.insert_line and "\n" in pretty_text`, evaluated on the text AFTER the guides were applied) and the text.
  The highlighter is a span source: `Highlighter.__call__` only appends spans (`Text.stylize`), it has no access to the
  characters, so it does not appear in the character model; the harness runs the real `ReprHighlighter`.
* `prettyMeasureM`: `__rich_measure__` with the `margin` option.  Variant flag `ignoreMargin`:
  `true`  = the code as it is (the measurement never looks at `self.margin`, although `__rich_console__` renders at
            `options.max_width - self.margin`);
  `false` = the minimal repair: measure what `__rich_console__` will render (`max_width - margin`) and report the
            width the renderable needs to render like that (`text_width + margin`).
-/
namespace RichModel.Pretty
open RichModel

/-- errors of the console path. -/
inductive CErr where
  | zeroDivision    -- divmod(len(indent), 0) in with_indent_guides
  | valueError      -- max() of an empty sequence in __rich_measure__
deriving DecidableEq, Repr

/-- `new_indent = f"{indent_line * full_indents}{' ' * remaining_space}"` for any non-zero integer `indent_size`:
for a negative size `full_indents <= 0` and `remaining_space <= 0`, both products are `""`. -/
def newIndentI (k : Int) (n : Nat) : Str :=
  if k > 0 then Syntax.newIndent k.toNat n else []

/-- the `for line in text.split()` loop of `with_indent_guides` for an integer indent size. -/
def guideLoopI (k : Int) : Nat → List Str → Except CErr (List Str)
  | blanks, [] => .ok (List.replicate blanks [])
  | blanks, l :: rest =>
    let n := Syntax.leadSpaces l
    if (l.drop n).isEmpty then guideLoopI k (blanks + 1) rest
    else if k == 0 then .error .zeroDivision
    else
      let ni := newIndentI k n
      match guideLoopI k 0 rest with
      | .error e => .error e
      | .ok r => .ok (List.replicate blanks ni ++ (ni ++ l.drop ni.length) :: r)

/-- `Text.with_indent_guides(indent_size)` on the characters of a text without tabs. -/
def withIndentGuides (k : Int) (s : Str) : Except CErr Str :=
  (guideLoopI k 0 (Syntax.textSplitC s false)).map Syntax.joinNL

/-- what `__rich_console__` yields, as characters: `parts` are the plain strings of the yielded renderables in order
(`""` first when a line is inserted), the attributes are those of the `Text`. -/
structure ConsoleFull where
  parts : List Str
  justify : Option Str
  overflow : Option Str
  noWrap : Bool
deriving DecidableEq

/-- `Pretty.__rich_console__(console, options)` on an already traversed object, guides included. -/
def prettyConsoleFull (cw : Char → Nat) (v : Variant) (n : Node) (p : PrettyOpts) (o : ConsoleOpts) :
    Except CErr ConsoleFull :=
  let s := stripControl (render cw v n (o.maxWidth - p.margin) p.indentSize p.expandAll)
  let guided : Except CErr Str :=
    if p.indentGuides && !o.asciiOnly then withIndentGuides p.indentSize s else .ok s
  -- `with_indent_guides` returns `Text("\n").join(new_lines)`: a NEW Text whose `justify` / `overflow` / `no_wrap`
  -- are `None` — the attributes computed above are lost whenever the guides are applied (quirk kept)
  let applied := p.indentGuides && !o.asciiOnly
  guided.map fun t =>
    { parts := (if p.insertLine && t.contains '\n' then [[]] else []) ++ [t],
      justify := if applied then none else strOr p.justify o.justify,
      overflow := if applied then none else strOr p.overflow o.overflow,
      noWrap := if applied then false else pickBool p.noWrap o.noWrap }

/-- `Pretty.__rich_measure__(console, max_width)` with the `margin` option: the `w` of `Measurement(w, w)`. -/
def prettyMeasureM (ignoreMargin : Bool) (cw : Char → Nat) (v : Variant) (n : Node)
    (maxWidth indentSize : Int) (expandAll : Bool) (margin : Int) : Except Err Int :=
  if ignoreMargin then (prettyMeasure cw v n maxWidth indentSize expandAll).map fun m => (m : Int)
  else (prettyMeasure cw v n (maxWidth - margin) indentSize expandAll).map fun m => (m : Int) + margin

end RichModel.Pretty
