import RichModel.Model.AnsiRender
/-
Model of the route from `Console.print` to the terminal (property C03, deepening round 4), statement by
statement, on the same heap of shared `Style` objects as `Model/AnsiRender.lean`:

* `Segment.apply_style(segments, style)`     rich/segment.py:72-107 (the `style=` argument of `print`;
  `post_style` is `None` on this route)                                         → `applyStyleHeap`
  with `Style.__add__` (style.py:650-678) as it treats *objects*: the right operand `None` or null returns
  `self` — the very same object, cache included; a null `self` returns the right operand object; anything else
  allocates a new `Style` with `_ansi = None`;
* `Console.print` (console.py:1177-1261) from the segments `Console.render` yielded for the renderables
  (`end` is already inside them: `_collect_renderables` gives it to the `Text` that is rendered): the `soft_wrap`
  resolution (`None` → `console.soft_wrap`; soft wrap switches `crop` off), `apply_style` when `style is not None`,
  `Segment.split_and_crop_lines(new_segments, self.width, pad=False)` (C13's model, real cell widths `cw`) or the
  segments as they are, appended to `_buffer`                                   → `printBuffer`
* leaving the `with self:` block at nesting level 0: `_check_buffer` → `_render_buffer(self._buffer[:])`,
  `del self._buffer[:]`, `file.write(text)`                                       → `printWrite`, `printChars`
* histories mixing such prints with the operations of `AnsiRender.Op`           → `POp`, `runPOps`

What is *input* here (rendering belongs to C05 / C02 / C15): the segments `Console.render(renderable, options)`
yields.  The harness takes them from real renderables (`str`, `Text` with styles and spans, raw segments).
-/
namespace RichModel.AnsiRender
open RichModel RichModel.AnsiTerm

/-- `style.__add__(seg_style)` on objects: the index of the resulting object and the heap afterwards. -/
def addObj (heap : Heap) (j : Nat) (sj : StyleObj) (segStyle : Option Nat) : Except RenderErr (Nat × Heap) :=
  match segStyle with
  | none => .ok (j, heap)                                        -- `style is None: return self`
  | some i =>
    match heap[i]? with
    | none => .error .badRef
    | some oi =>
      if oi.style.isNull then .ok (j, heap)                      -- `style._null: return self`
      else if sj.style.isNull then .ok (i, heap)                 -- `self._null: return style`
      else .ok (heap.length, heap ++ [{ style := Style.add StyleVariant.fixed sj.style oi.style, ansi := none }])

/-- `Segment.apply_style(segments, heap[j])`, `post_style=None`: control segments lose their style. -/
def applyStyleHeap (j : Nat) : Heap → List Seg → Except RenderErr (List Seg × Heap)
  | heap, [] => .ok ([], heap)
  | heap, seg :: rest =>
    match heap[j]? with
    | none => .error .badRef
    | some sj =>
      if seg.control then do
        let (segs', heap') ← applyStyleHeap j heap rest
        .ok ({ seg with style := none } :: segs', heap')
      else do
        let (k, heap1) ← addObj heap j sj seg.style
        let (segs', heap') ← applyStyleHeap j heap1 rest
        .ok ({ seg with style := some k } :: segs', heap')

/-- One `console.print(…)` call, after rendering. -/
structure PrintCall where
  /-- what `Console.render` yielded for the renderables, concatenated, `end` included -/
  segs : List Seg
  /-- the `style=` argument after `get_style`: an object of the heap -/
  style : Option Nat := none
  /-- `crop=` -/
  crop : Bool := true
  /-- `soft_wrap=` -/
  softWrap : Option Bool := none
deriving Repr, DecidableEq

/-- What `print` reads off the console besides `Config`. -/
structure PEnv where
  /-- `console.width` -/
  width : Nat
  /-- `console.soft_wrap` -/
  softWrap : Bool := false
deriving Repr, DecidableEq

/-- Is the output cropped?  `if soft_wrap is None: soft_wrap = self.soft_wrap; if soft_wrap: crop = False`. -/
def PrintCall.crops (env : PEnv) (p : PrintCall) : Bool :=
  if p.softWrap.getD env.softWrap then false else p.crop

/-- The tail of `print`: `split_and_crop_lines(new_segments, self.width, pad=False)`, lines chained, or nothing. -/
def finishPrint (cw : Char → Nat) (env : PEnv) (p : PrintCall) (segs : List Seg) : List Seg :=
  if p.crops env then (splitAndCropLines cw segs env.width none false true false).flatten else segs

/-- What `print` appends to `_buffer`, and the heap afterwards (`apply_style` may allocate). -/
def printBuffer (cw : Char → Nat) (env : PEnv) (heap : Heap) (p : PrintCall) : Except RenderErr (List Seg × Heap) :=
  match p.style with
  | none => .ok (finishPrint cw env p p.segs, heap)
  | some j => do
    let (segs', heap') ← applyStyleHeap j heap p.segs
    .ok (finishPrint cw env p segs', heap')

/-- `print` at nesting level 0 on an empty buffer: the tokens written to `console.file`. -/
def printWrite (v : RVariant) (cc : Cfg) (P : Palettes) (cw : Char → Nat) (cfg : Config) (env : PEnv) (heap : Heap)
    (p : PrintCall) : Except RenderErr (List Tok × Heap) := do
  let (buffer, heap1) ← printBuffer cw env heap p
  renderBuffer v cc P cfg heap1 buffer

/-- …and the characters. -/
def printChars (v : RVariant) (cc : Cfg) (P : Palettes) (cw : Char → Nat) (cfg : Config) (env : PEnv) (heap : Heap)
    (p : PrintCall) : Except RenderErr (List Char × Heap) :=
  match printWrite v cc P cw cfg env heap p with
  | .ok (toks, heap') => .ok (serialise toks, heap')
  | .error e => .error e

/-! ## histories with prints -/

inductive POp where
  /-- an operation of `AnsiRender.Op` -/
  | op (o : Op)
  /-- `console.print(…)` on a console with these attributes -/
  | print (cfg : Config) (env : PEnv) (p : PrintCall)
deriving Repr, DecidableEq

def stepPOp (v : RVariant) (cc : Cfg) (P : Palettes) (cw : Char → Nat) (heap : Heap) :
    POp → Except RenderErr (Heap × Option (List Tok))
  | .op o => stepOp v cc P heap o
  | .print cfg env p => do
    let (toks, heap') ← printWrite v cc P cw cfg env heap p
    .ok (heap', some toks)

/-- A history: what every writing step wrote, in order; the first exception ends it. -/
def runPOps (v : RVariant) (cc : Cfg) (P : Palettes) (cw : Char → Nat) : Heap → List POp → List (Except RenderErr (List Tok))
  | _, [] => []
  | heap, op :: rest =>
    match stepPOp v cc P cw heap op with
    | .error e => [.error e]
    | .ok (heap', none) => runPOps v cc P cw heap' rest
    | .ok (heap', some toks) => .ok toks :: runPOps v cc P cw heap' rest

/-! ## the specification side -/

/-- The style a character printed through `print(…, style=S)` must be shown with: `S + segment style`
(`Style.__add__`), nothing for a control segment. -/
def printedStyle (sj : Option Style) (control : Bool) (own : Option Style) : Option Style :=
  match sj with
  | none => own
  | some sj => if control then none else some (Style.addOpt StyleVariant.fixed sj own)

/-- A segment as the specification sees it: text, control flag, the *style value* it is printed with. -/
abbrev VSeg := List Char × Bool × Option Style

/-- The cells a terminal must show for a list of such segments. -/
def cellsOfV (cc : Cfg) (P : Palettes) (cfg : Config) (vs : List VSeg) : List Cell :=
  (vs.filter fun v => cfg.isTerminal || !v.2.1).flatMap fun v =>
    let e := expected cc P cfg v.2.2
    v.1.map fun c => ⟨c, e.1, e.2⟩

/-- The view of heap segments. -/
def viewSegs (heap : Heap) (segs : List Seg) : List VSeg := segs.map fun s => (s.text, s.control, segStyle heap s)

end RichModel.AnsiRender
