import RichModel.Model.Cells
import RichModel.Model.Segment
import RichModel.Model.Ratio
import RichModel.Gen.Boxes
/-
Model of the framing renderables of Rich 9.10.0:
  rich/console.py  `Console.render` guard + `Console.render_lines`
  rich/padding.py  `Padding`            rich/panel.py    `Panel`
  rich/align.py    `Align`              rich/constrain.py `Constrain`
  rich/styled.py   `Styled`             rich/rule.py     `Rule`
  rich/bar.py      `Bar`                rich/progress_bar.py `ProgressBar`
  rich/box.py      `Box.__init__`, `Box.substitute`, `get_top`, `get_bottom`
(Columns and Tree live in Model/FramesColumns.lean and Model/FramesTree.lean.)

DECOUPLING.  Children are arbitrary renderables and are NOT modelled: a child is an oracle
(`Child`) tabulated on real rich.  Every frame is a pure function of its options, the console
environment `Env`, the child oracle(s) and `options.max_width`.  Interface: see FRAMES_API.md.

Styles: frames never branch on a style except `Tree` (bold / underline2 of the guide style), so
the segments a frame creates itself carry `style := none`; child segments are passed through
untouched.  What is modelled is the text, the segmentation and the control flag.

Widths are Python ints (`Int`): `width - 2` may be negative, `" " * n` is empty for `n ≤ 0`.
Import-free apart from `RichModel.Model.*` / `RichModel.Gen.*`.
-/
namespace RichModel.Frames
open RichModel

variable {σ : Type}

abbrev Line (σ : Type) := List (Segment σ)

/-- Python exceptions a frame can raise. -/
inductive PyErr where
  | valueError
  | zeroDivision
  | indexError
deriving Repr, BEq, DecidableEq

/-- The console-level facts the frames read (`console.width`, `options.ascii_only`,
`options.legacy_windows`, `console.safe_box`, `console.no_color`, `console.color_system`). -/
structure Env where
  consoleWidth : Nat
  asciiOnly : Bool := false
  legacyWindows : Bool := false
  safeBox : Bool := true
  noColor : Bool := false
  /-- 0 = None, 1 = "standard", 2 = "256", 3 = "truecolor", 4 = "windows". -/
  colorSystem : Nat := 0
deriving Repr

/-- Code-variant flags (`true` = rich 9.10.0 as found; all four defects are repaired in /repo — fixes a9def3a, 8879061,
f5f2be9, f7ecf83 — and the harness passes `false` for each).  `zeroWidthChild`: the non-expanding frames
(`Align`, `Padding(expand=False)`, `Panel(expand=False)`) render the child at its measured maximum
even when that is 0, where `Console.render` yields nothing (pre-finding F25); `false` = the
repair `max(1, maximum)` (fix a9def3a). -/
structure Variant where
  zeroWidthChild : Bool := true
  /-- `Rule(align="right")` repeats `characters` `width - title - 1` TIMES instead of filling that many
  CELLS (rule.py:98), so any multi-cell `characters` pushes the title out of the rule; `false` = the
  repair (fill exactly `width - title - 1` cells; fix 8879061). -/
  ruleRightRepeat : Bool := true
  /-- `Text.rstrip_end` compares the number of CHARACTERS with the cell width (text.py:487), so a text with
  zero-width characters that exactly fills its width loses trailing blanks; `false` = the
  repair (`cell_len(self.plain)`; fix f5f2be9). -/
  rstripCountsChars : Bool := true
  /-- `Columns(width=…)` computes `max_width // (width + padding)` columns, possibly 0, and then raises
  `ZeroDivisionError` (F11); `false` = the repair `max(1, …)` (fix f7ecf83). -/
  columnsZeroCount : Bool := true
deriving Repr

/-- A child renderable as an oracle.
* `measure w` = `Measurement.get(console, child, w)` for `w ≥ 1`
* `render w`  = `list(console.render(child, options.update(width=w)))` for `w ≥ 1`. -/
structure Child (σ : Type) where
  measure : Nat → Measurement
  render : Nat → List (Segment σ)

/-- `Measurement.get(console, child, w)`: `if _max_width < 1: return Measurement(0, 0)` (measure.py:94). -/
def Child.measureAt (c : Child σ) (w : Int) : Measurement :=
  if w < 1 then ⟨0, 0⟩ else c.measure w.toNat

/-- `console.render(child, options.update(width=w))`: `if _options.max_width < 1: return` (console.py:868). -/
def Child.renderAt (c : Child σ) (w : Int) : List (Segment σ) :=
  if w < 1 then [] else c.render w.toNat

/-- A frame-created text segment `Segment(text, <some style>)`. -/
def seg (t : List Char) : Segment σ := { text := t, style := none, control := false }

/-- `Segment.line()`. -/
def nl : Segment σ := seg ['\n']

/-- `" " * n` / `ch * n` for a Python int `n`. -/
def rep (n : Int) (c : Char) : List Char := List.replicate n.toNat c

/-- `s * n` for a string `s`. -/
def repStr (n : Int) (s : List Char) : List Char := (List.replicate n.toNat s).flatten

/-- `Console.render_lines(renderable, options.update(width=w), pad=pad)` where `rendered` is
`console.render(renderable, <those options>)` (console.py:921-930; `style` only restyles). -/
def renderLines (cw : Char → Nat) (rendered : List (Segment σ)) (w : Int) (pad : Bool) : List (Line σ) :=
  splitAndCropLines cw rendered w.toNat none pad false false

/-- `Child` version: render at `w`, split, crop and pad. -/
def Child.linesAt (cw : Char → Nat) (c : Child σ) (w : Int) (pad : Bool) : List (Line σ) :=
  renderLines cw (c.renderAt w) w pad

/-- The measured width a non-expanding frame gives its child (variant flag, see `Variant`). -/
def fitWidth (v : Variant) (maximum : Int) : Int :=
  if v.zeroWidthChild then maximum else max 1 maximum

/-! ## Padding (padding.py) -/

structure PadDims where
  top : Nat
  right : Nat
  bottom : Nat
  left : Nat
deriving Repr, BEq, DecidableEq

/-- `Padding.unpack` (padding.py:58-72); an `int` is passed as a one-element list. -/
def unpackPad : List Nat → Except PyErr PadDims
  | [p] => .ok ⟨p, p, p, p⟩
  | [t, r] => .ok ⟨t, r, t, r⟩
  | [t, r, b, l] => .ok ⟨t, r, b, l⟩
  | _ => .error .valueError

/-- `Padding.__rich_console__` (padding.py:77-113), called with `options.max_width = w ≥ 1`. -/
def paddingConsole (cw : Char → Nat) (v : Variant) (p : PadDims) (expand : Bool) (c : Child σ) (w : Int) :
    List (Segment σ) :=
  let width : Int :=
    if expand then w
    else min (fitWidth v (c.measureAt w).maximum + p.left + p.right) w
  let childW : Int := width - p.left - p.right
  let lines := c.linesAt cw childW false
  let lines := setShape cw lines childW.toNat none none
  let blank : Segment σ := seg (rep width ' ' ++ ['\n'])
  let left : List (Segment σ) := if p.left != 0 then [seg (rep p.left ' ')] else []
  let right : List (Segment σ) := if p.right != 0 then [seg (rep p.right ' ')] else []
  List.replicate p.top blank
    ++ lines.flatMap (fun l => left ++ l ++ right ++ [nl])
    ++ List.replicate p.bottom blank

/-- `Padding.__rich_measure__` (padding.py:115-124). -/
def paddingRichMeasure (p : PadDims) (c : Child σ) (maxWidth : Int) : Measurement :=
  let extra : Int := p.left + p.right
  if maxWidth - extra < 1 then ⟨maxWidth, maxWidth⟩
  else
    let m := c.measureAt (max 0 (maxWidth - extra))
    (Measurement.mk (m.minimum + extra) (m.maximum + extra)).withMaximum maxWidth

/-- A frame seen as a child of an enclosing frame: `Console.render` guard + `Measurement.get` post-processing. -/
def asChild (console : Int → List (Segment σ)) (richMeasure : Int → Measurement) : Child σ :=
  { measure := fun w => Measurement.getPost (w : Int) (some (richMeasure (w : Int))),
    render := fun w => console (w : Int) }

def paddingChild (cw : Char → Nat) (v : Variant) (p : PadDims) (expand : Bool) (c : Child σ) : Child σ :=
  asChild (paddingConsole cw v p expand c) (paddingRichMeasure p c)

/-! ## Constrain (constrain.py) and Styled (styled.py) -/

/-- `Constrain.__rich_console__`: `width=None` yields the child itself (rendered with the same options). -/
def constrainConsole (width : Option Int) (c : Child σ) (w : Int) : List (Segment σ) :=
  match width with
  | none => c.renderAt w
  | some cwid => c.renderAt (min cwid w)

/-- `Constrain.__rich_measure__`. -/
def constrainRichMeasure (width : Option Int) (c : Child σ) (maxWidth : Int) : Measurement :=
  match width with
  | none => c.measureAt maxWidth
  | some cwid => c.measureAt (min cwid maxWidth)

def constrainChild (width : Option Int) (c : Child σ) : Child σ :=
  asChild (constrainConsole width c) (constrainRichMeasure width c)

/-- `Styled.__rich_console__`: the child's segments restyled (text, order and control flags unchanged). -/
def styledConsole (c : Child σ) (w : Int) : List (Segment σ) := c.renderAt w
def styledRichMeasure (c : Child σ) (maxWidth : Int) : Measurement := c.measureAt maxWidth
def styledChild (c : Child σ) : Child σ := asChild (styledConsole c) (styledRichMeasure c)

/-! ## Plain-text pieces of rich/text.py used by Panel titles and Rule -/

/-- `set_cell_size(text, total)` for a Python int `total`; a negative total crops everything
(the pop loop empties the text and `excess` ends at `-total ≥ 1`, never `-1`). -/
def setCellSizeI (cw : Char → Nat) (text : List Char) (total : Int) : List Char :=
  if total < 0 then [] else setCellSize cw text total.toNat

inductive Overflow where
  | fold | crop | ellipsis | ignore
deriving Repr, BEq, DecidableEq

/-- `Text.truncate(max_width, overflow=…)` on the plain text (text.py:661-686, `pad=False`). -/
def textTruncate (cw : Char → Nat) (plain : List Char) (maxWidth : Int) (ov : Overflow) : List Char :=
  if ov == .ignore then plain
  else if (cellLen cw plain : Int) > maxWidth then
    if ov == .ellipsis then setCellSizeI cw plain (maxWidth - 1) ++ ['…']
    else setCellSizeI cw plain maxWidth
  else plain

inductive AlignM where
  | left | center | right
deriving Repr, BEq, DecidableEq

/-- `Text.align(align, width, character)` on the plain text (text.py:745-763). -/
def textAlign (cw : Char → Nat) (plain : List Char) (a : AlignM) (width : Int) (ch : Char) : List Char :=
  let p := textTruncate cw plain width .fold
  let excess : Int := width - cellLen cw p
  if excess != 0 then
    match a with
    | .left => p ++ rep excess ch
    | .center =>
      let left := excess / 2
      rep left ch ++ p ++ rep (excess - left) ch
    | .right => rep excess ch ++ p
  else p

/-- Characters for which the simple `Text.__rich_console__` path below is claimed: no line break, no
tab, no whitespace other than U+0020 (Python `str.isspace` characters), no stripped control code. -/
def simpleChar (c : Char) : Bool :=
  let n := c.toNat
  !(n < 32 || n == 0x7f || n == 0x85 || n == 0xa0 || n == 0x1680 || (0x2000 ≤ n && n ≤ 0x200a)
    || n == 0x2028 || n == 0x2029 || n == 0x202f || n == 0x205f || n == 0x3000)

/-- number of trailing U+0020 (`_re_whitespace = r"\s+$"` on a `simpleChar` string). -/
def trailingSpaces (s : List Char) : Nat := (s.reverse.takeWhile (· == ' ')).length

/-- `Text.rstrip_end(size)` (text.py:481-493): rich 9.10.0 as found compares the *character* count with `size`
(`v.rstripCountsChars`); the repaired code (fix f5f2be9, what /repo contains now) compares the cell length. -/
def rstripEnd (cw : Char → Nat) (v : Variant) (plain : List Char) (size : Int) : List Char :=
  let textLength : Int := if v.rstripCountsChars then (plain.length : Int) else (cellLen cw plain : Int)
  if textLength > size then
    let excess : Int := textLength - size
    let ws := trailingSpaces plain
    if ws != 0 then plain.take (plain.length - (min (ws : Int) excess).toNat) else plain
  else plain

/-- `Text.__rich_console__` + `Text.render` for a one-line text that needs no wrapping:
all characters `simpleChar`, `cell_len(plain) ≤ options.max_width`, default justify/overflow
(text.py:504-524, wrap 980-1028: `divide_line` finds no break, `rstrip_end`, `truncate` is a no-op).
`none` = outside this domain (unmodelled). -/
def textConsoleSimple (cw : Char → Nat) (v : Variant) (plain endS : List Char) (w : Int) : Option (List (Segment σ)) :=
  if plain.all simpleChar && (cellLen cw plain : Int) ≤ w then
    let p := rstripEnd cw v plain w
    some ((if p.isEmpty then [] else [seg p]) ++ (if endS.isEmpty then [] else [seg endS]))
  else none

/-! ## Box (box.py) -/

structure Box where
  topLeft : Char
  top : Char
  topRight : Char
  midLeft : Char
  midRight : Char
  bottomLeft : Char
  bottom : Char
  bottomRight : Char
  ascii : Bool
deriving Repr, BEq, DecidableEq

/-- `Box.__init__` (box.py:27-61): eight lines of exactly four characters (anything else raises
`ValueError` when rich/box.py is imported). -/
def Box.ofLines (ascii : Bool) : List (List Char) → Option Box
  | [[tl, t, _, tr], [_, _, _, _], [_, _, _, _], [ml, _, _, mr], [_, _, _, _], [_, _, _, _], [_, _, _, _], [bl, b, _, br]] =>
    some ⟨tl, t, tr, ml, mr, bl, b, br, ascii⟩
  | _ => none

/-- The named box number `i` of the translated table. -/
def boxAt (i : Nat) : Option Box :=
  match Gen.boxes[i]? with
  | some (a, ls) => Box.ofLines a ls
  | none => none

/-- `Box.substitute(options, safe)` (box.py:70-87) on table indices. -/
def substituteBox (env : Env) (safe : Bool) (i : Nat) : Nat :=
  let i := if env.legacyWindows && safe then
      match Gen.legacyWindowsSubstitutions.find? (·.1 == i) with
      | some p => p.2
      | none => i
    else i
  let isAscii := match Gen.boxes[i]? with | some (a, _) => a | none => false
  if env.asciiOnly && !isAscii then Gen.asciiBox else i

/-- `Box.get_top([n])` / `get_bottom([n])`. -/
def boxTop (b : Box) (n : Int) : List Char := [b.topLeft] ++ rep n b.top ++ [b.topRight]
def boxBottom (b : Box) (n : Int) : List Char := [b.bottomLeft] ++ rep n b.bottom ++ [b.bottomRight]

/-! ## Panel (panel.py) -/

structure PanelOpts where
  box : Nat
  /-- `.plain` of the title `Text` (`Text.from_markup(title)` for a `str`); `[]` = no title (`None`, `""`, `Text("")`). -/
  title : List Char := []
  titleAlign : AlignM := .center
  safeBox : Option Bool := none
  expand : Bool := true
  width : Option Int := none
  padding : List Nat := [0, 1]
deriving Repr

/-- `Panel._title` (panel.py:94-108) on the plain text: newlines become spaces, one space each side.
(`expand_tabs` is the identity on the claimed domain: no tab.) -/
def panelTitle (title : List Char) : Option (List Char) :=
  if title.isEmpty then none
  else some ([' '] ++ title.map (fun c => if c == '\n' then ' ' else c) ++ [' '])

/-- The `renderable` of `Panel.__rich_console__`: `Padding(child, pad) if any(pad) else child`. -/
def panelInner (cw : Char → Nat) (v : Variant) (p : PadDims) (c : Child σ) : Child σ :=
  if p.top != 0 || p.right != 0 || p.bottom != 0 || p.left != 0 then paddingChild cw v p true c else c

/-- `child_width` and `width` of `Panel.__rich_console__` (panel.py:117-139). -/
def panelChildWidth (cw : Char → Nat) (v : Variant) (o : PanelOpts) (inner : Child σ) (w : Int) : Int :=
  let width : Int := match o.width with | none => w | some pw => min w pw
  let childW : Int := if o.expand then width - 2 else fitWidth v (inner.measureAt (width - 2)).maximum
  match panelTitle o.title with
  | none => childW
  | some t => min (w - 2) (max childW (cellLen cw t + 2))

/-- `Panel.__rich_console__` (panel.py:110-162).  `none` = unmodelled (unknown box, title outside `simpleChar`). -/
def panelConsole (cw : Char → Nat) (env : Env) (v : Variant) (o : PanelOpts) (c : Child σ) (w : Int) :
    Except PyErr (Option (List (Segment σ))) :=
  match unpackPad o.padding with
  | .error e => .error e
  | .ok p =>
    let inner := panelInner cw v p c
    let safe := o.safeBox.getD env.safeBox
    match boxAt (substituteBox env safe o.box) with
    | none => .ok none
    | some box =>
      let childW := panelChildWidth cw v o inner w
      let width := childW + 2
      let lines := inner.linesAt cw childW true
      let top : Option (List (Segment σ)) :=
        match panelTitle o.title with
        | none => some [seg (boxTop box (width - 2))]
        | some t =>
          let aligned := textAlign cw t o.titleAlign (width - 4) box.top
          -- `console.render(title_text)` is called WITHOUT options: the title is rendered at `console.width`
          match textConsoleSimple cw v aligned [] (env.consoleWidth : Int) with
          | none => none
          | some ts => some ([seg [box.topLeft, box.top]] ++ ts ++ [seg [box.top, box.topRight]])
      match top with
      | none => .ok none
      | some top =>
        .ok (some (top ++ [nl]
          ++ lines.flatMap (fun l => [seg [box.midLeft]] ++ l ++ [seg [box.midRight]] ++ [nl])
          ++ [seg (boxBottom box (width - 2)), nl]))

/-- Words of a `simpleChar` string (`str.split()`): maximal runs of non-space characters. -/
def wordsOf : List Char → List Char → List (List Char)
  | [], cur => if cur.isEmpty then [] else [cur.reverse]
  | c :: rest, cur =>
    if c == ' ' then (if cur.isEmpty then wordsOf rest [] else cur.reverse :: wordsOf rest [])
    else wordsOf rest (c :: cur)

/-- `Text.__rich_measure__` (text.py:526-532) for a one-line `simpleChar` text, then `Measurement.get`. -/
def textMeasureSimple (cw : Char → Nat) (plain : List Char) (maxWidth : Int) : Measurement :=
  let ws := wordsOf plain []
  let m : Measurement :=
    if ws.isEmpty then ⟨cellLen cw plain, cellLen cw plain⟩
    else ⟨listMax (ws.map (fun x => (cellLen cw x : Int))), cellLen cw plain⟩
  Measurement.getPost maxWidth (some m)

/-- `Panel.__rich_measure__` (panel.py:164-181); `measure_renderables` over `[child, title]`. -/
def panelRichMeasure (cw : Char → Nat) (o : PanelOpts) (c : Child σ) (maxWidth : Int) : Except PyErr Measurement :=
  match unpackPad o.padding with
  | .error e => .error e
  | .ok p =>
    let padding : Int := p.left + p.right
    match o.width with
    | some pw => .ok ⟨pw, pw⟩
    | none =>
      let avail := maxWidth - padding - 2
      let mc := (c.measureAt avail).maximum
      let m := match panelTitle o.title with
        | none => mc
        | some t => max mc (textMeasureSimple cw t avail).maximum
      .ok ⟨m + padding + 2, m + padding + 2⟩

/-! ## Align (align.py) -/

structure AlignOpts where
  align : AlignM
  pad : Bool := true
  width : Option Int := none
deriving Repr

/-- `Segment.get_shape(lines)`'s width: `max(line lengths) if lines else 0`. -/
def shapeWidth (cw : Char → Nat) (lines : List (Line σ)) : Nat :=
  (lines.map (lineLength cw)).foldl max 0

/-- `Align.__rich_console__` (align.py:91-154), `options.max_width = w ≥ 1`.
Note the measurement is taken against `console.width`, not `options.max_width` (align.py:97). -/
def alignConsole (cw : Char → Nat) (env : Env) (v : Variant) (o : AlignOpts) (c : Child σ) (w : Int) :
    List (Segment σ) :=
  let measured : Int := fitWidth v (c.measureAt env.consoleWidth).maximum
  let cwid : Int := match o.width with | none => measured | some aw => min measured aw
  let rendered := constrainConsole (some cwid) c w
  let lines := splitLines rendered
  let width := shapeWidth cw lines
  let lines := setShape cw lines width (some lines.length) none
  let excess : Int := w - width
  if excess ≤ 0 then lines.flatMap (fun l => l ++ [nl])
  else match o.align with
    | .left =>
      let pad : List (Segment σ) := if o.pad then [seg (rep excess ' ')] else []
      lines.flatMap (fun l => l ++ pad ++ [nl])
    | .center =>
      let left := excess / 2
      let padL : List (Segment σ) := if left != 0 then [seg (rep left ' ')] else []
      let padR : List (Segment σ) := if o.pad then [seg (rep (excess - left) ' ')] else []
      lines.flatMap (fun l => padL ++ l ++ padR ++ [nl])
    | .right =>
      lines.flatMap (fun l => [seg (rep excess ' ')] ++ l ++ [nl])

/-- `Align.__rich_measure__`. -/
def alignRichMeasure (c : Child σ) (maxWidth : Int) : Measurement := c.measureAt maxWidth

def alignChild (cw : Char → Nat) (env : Env) (v : Variant) (o : AlignOpts) (c : Child σ) : Child σ :=
  asChild (alignConsole cw env v o c) (alignRichMeasure c)

/-! ## Rule (rule.py) -/

structure RuleOpts where
  /-- plain text of the title (`console.render_str(title)` for a `str`, `title.plain` for a `Text`); `[]` = no title -/
  title : List Char := []
  characters : List Char := ['─']
  endS : List Char := ['\n']
  align : AlignM := .center
deriving Repr

/-- `Rule.__init__`: `cell_len(characters) < 1` raises `ValueError`. -/
def ruleInit (cw : Char → Nat) (o : RuleOpts) : Except PyErr RuleOpts :=
  if cellLen cw o.characters < 1 then .error .valueError else .ok o

/-- The `Text` a rule yields: `(plain, end)` (rule.py:48-103).  `none` = a zero-width `characters`
under substitution cannot happen (`"-"`); kept total. -/
def ruleText (cw : Char → Nat) (env : Env) (v : Variant) (o : RuleOpts) (w : Int) : List Char × List Char :=
  let isascii := o.characters.all (fun c => c.toNat < 128)
  let characters := if env.asciiOnly && !isascii then ['-'] else o.characters
  let charsLen : Int := cellLen cw characters
  if o.title.isEmpty then
    let t := repStr (w / charsLen + 1) characters
    let t := textTruncate cw t w .fold
    (setCellSizeI cw t w, ['\n'])
  else
    let title := o.title.map (fun c => if c == '\n' then ' ' else c)
    let plain : List Char :=
      match o.align with
      | .center =>
        let title := textTruncate cw title (w - 4) .ellipsis
        let sideWidth : Int := (w - cellLen cw title) / 2
        let left := textTruncate cw (repStr (sideWidth / charsLen + 1) characters) (sideWidth - 1) .fold
        let rightLength : Int := w - cellLen cw left - cellLen cw title
        let right := textTruncate cw (repStr (sideWidth / charsLen + 1) characters) rightLength .fold
        left ++ [' '] ++ title ++ [' '] ++ right
      | .left =>
        let title := textTruncate cw title (w - 2) .ellipsis
        let t := title ++ [' ']
        t ++ repStr (w - cellLen cw t) characters
      | .right =>
        let title := textTruncate cw title (w - 2) .ellipsis
        let sideWidth : Int := w - cellLen cw title - 1
        let side :=
          if v.ruleRightRepeat then repStr sideWidth characters
          else setCellSizeI cw (repStr (sideWidth / charsLen + 1) characters) sideWidth
        side ++ [' '] ++ title
    (setCellSizeI cw plain w, o.endS)

/-- `Rule.__rich_console__` followed by the rendering of the yielded `Text`. -/
def ruleConsole (cw : Char → Nat) (env : Env) (v : Variant) (o : RuleOpts) (w : Int) : Option (List (Segment σ)) :=
  let (plain, e) := ruleText cw env v o w
  textConsoleSimple cw v plain e w

/-! ## Bar (bar.py) and ProgressBar (progress_bar.py)

Python floats are modelled as exact rationals `num / den` (`den > 0`); `int()` truncates toward zero. -/

structure Rat' where
  num : Int
  den : Nat
deriving Repr, BEq, DecidableEq

/-- `int(k * a / b)` for an integer `k` and rationals `a`, `b ≠ 0`. -/
def truncMulDiv (k : Int) (a b : Rat') : Int := Int.tdiv (k * a.num * b.den) (a.den * b.num)

def Rat'.le (a b : Rat') : Bool := a.num * b.den ≤ b.num * a.den
def Rat'.lt (a b : Rat') : Bool := a.num * b.den < b.num * a.den
def Rat'.isZero (a : Rat') : Bool := a.num == 0

def beginBlocks : List Char := ['█', '█', '█', '▐', '▐', '▐', '▕', '▕']
def endBlocks : List Char := [' ', '▏', '▎', '▍', '▌', '▋', '▊', '▉']

structure BarOpts where
  size : Rat'
  beginV : Rat'
  endV : Rat'
  width : Option Int := none
deriving Repr

/-- `Bar.__init__`: `begin = max(begin, 0)`, `end = min(end, size)`. -/
def barInit (o : BarOpts) : BarOpts :=
  { o with beginV := if o.beginV.lt ⟨0, 1⟩ then ⟨0, 1⟩ else o.beginV,
           endV := if o.size.lt o.endV then o.size else o.endV }

/-- `min(self.width or options.max_width, options.max_width)` (`0` is falsy). -/
def barWidth (width : Option Int) (w : Int) : Int :=
  match width with
  | none => w
  | some bw => if bw == 0 then w else min bw w

/-- `Bar.__rich_console__` (bar.py:49-88) on an initialised bar. -/
def barConsole (o : BarOpts) (w : Int) : List (Segment σ) :=
  let width := barWidth o.width w
  if o.endV.le o.beginV then [seg (rep width ' '), nl]
  else
    let pce := truncMulDiv (width * 8) o.beginV o.size
    let pbc := pce / 8
    let pec := pce % 8
    let bce := truncMulDiv (width * 8) o.endV o.size
    let bbc := bce / 8
    let bec := bce % 8
    let prefix_ := rep pbc ' ' ++ (if pec != 0 then [beginBlocks.getD pec.toNat ' '] else [])
    let body := rep bbc '█' ++ (if bec != 0 then [endBlocks.getD bec.toNat ' '] else [])
    let suffix := rep (width - body.length) ' '
    [seg (prefix_ ++ body.drop prefix_.length ++ suffix), nl]

/-- `Bar.__rich_measure__` / `ProgressBar.__rich_measure__`. -/
def barRichMeasure (width : Option Int) (maxWidth : Int) : Measurement :=
  match width with
  | some bw => ⟨bw, bw⟩
  | none => ⟨4, maxWidth⟩

structure ProgressOpts where
  total : Rat'
  completed : Rat'
  width : Option Int := none
  pulse : Bool := false
  /-- `animation_time` (the harness always supplies one). -/
  time : Rat' := ⟨0, 1⟩
deriving Repr

def pulseSize : Nat := 20

/-- `_get_pulse_segments` as characters, one per segment (progress_bar.py:69-112). -/
def pulseChars (env : Env) (ascii : Bool) : List Char :=
  let bar := if ascii then '-' else '━'
  if !(env.colorSystem == 1 || env.colorSystem == 2 || env.colorSystem == 3) || env.noColor then
    List.replicate (pulseSize / 2) bar ++ List.replicate (pulseSize - pulseSize / 2) (if env.noColor then ' ' else bar)
  else List.replicate pulseSize bar

/-- `l[start:stop]` for `0 ≤ start` and any Python int `stop` (a negative `stop` counts from the end). -/
def pySlice {α : Type} (l : List α) (start stop : Int) : List α :=
  let stop' : Int := if stop < 0 then max 0 ((l.length : Int) + stop) else min stop l.length
  (l.take stop'.toNat).drop start.toNat

/-- `ProgressBar.__rich_console__` (progress_bar.py:154-197). -/
def progressConsole (env : Env) (o : ProgressOpts) (w : Int) : List (Segment σ) :=
  let width := barWidth o.width w
  let ascii := env.legacyWindows || env.asciiOnly
  if o.pulse then
    let ps := pulseChars env ascii
    let count : Int := ps.length
    -- `int(width / segment_count) + 2` copies; `int(-current_time * 15) % segment_count`
    let segs := (List.replicate (Int.tdiv width count + 2).toNat ps).flatten
    let offset := (Int.tdiv (-(o.time.num) * 15) o.time.den) % count
    (pySlice segs offset (offset + width)).map (fun ch => seg [ch])
  else
    -- completed = min(total, max(0, completed))
    let c0 : Rat' := if o.completed.lt ⟨0, 1⟩ then ⟨0, 1⟩ else o.completed
    let completed : Rat' := if o.total.lt c0 then o.total else c0
    let bar := if ascii then '-' else '━'
    let halfR := if ascii then ' ' else '╸'
    let halfL := if ascii then ' ' else '╺'
    let halves : Int := if o.total.isZero then width * 2 else truncMulDiv (width * 2) completed o.total
    let barCount := halves / 2
    let halfCount := halves % 2
    let first : List (Segment σ) :=
      (if barCount != 0 then [seg (rep barCount bar)] else [])
      ++ (if halfCount != 0 then [seg (rep halfCount halfR)] else [])
    if !env.noColor then
      let remaining := width - barCount - halfCount
      if remaining != 0 && env.colorSystem != 0 then
        let useHalf := halfCount == 0 && barCount != 0
        let remaining' := if useHalf then remaining - 1 else remaining
        first ++ (if useHalf then [seg [halfL]] else [])
          ++ (if remaining' != 0 then [seg (rep remaining' bar)] else [])
      else first
    else first

end RichModel.Frames
