import RichModel.Model.Frames
/-
Styles of `ProgressBar.__rich_console__` (rich/progress_bar.py:154-191, the NON-pulse path) and of
`Bar.__rich_console__` (rich/bar.py:48-82), on top of the text-only model in Model/Frames.lean.

A styled segment is `(text, style id)`; the style id says WHICH of the renderable's own styles the code
passed to `Segment(...)`:
  ProgressBar: `complete`  = `console.get_style(self.complete_style)`   (chosen when `self.completed < self.total`)
               `finished`  = `console.get_style(self.finished_style)`   (otherwise)
               `back`      = `console.get_style(self.style)`
               `pulse`     = `self.pulse_style` — never produced here: the pulse path (`_render_pulse`) reads
                             `monotonic()` / blends colours with `math.cos`, and is EXCLUDED from this model
                             (`progressStyled` models the code after the `if self.pulse: ... return`).
  Bar:         `own`       = `self.style = Style(color=color, bgcolor=bgcolor)`
               `line`      = the style `None` of `Segment.line()`.
The float arithmetic is the exact-rational treatment of Model/Frames.lean (`truncMulDiv`), unchanged.
Import-free apart from `RichModel.Model.*`.
-/
namespace RichModel.Frames
open RichModel

inductive BarSty where
  | complete
  | finished
  | back
  | pulse
  | own
  | line
deriving Repr, BEq, DecidableEq

def BarSty.code : BarSty → Nat
  | .complete => 0
  | .finished => 1
  | .back => 2
  | .pulse => 3
  | .own => 4
  | .line => 5

/-- `Segment(text, style)` with the style recorded as an id. -/
abbrev SSeg := List Char × BarSty

/-- one entry per character: the character and the style it is drawn with -/
def styledCells (l : List SSeg) : List (Char × BarSty) := l.flatMap (fun p => p.1.map (fun c => (c, p.2)))

/-- forget the style ids: the segments as the text-only model builds them -/
def eraseSty {σ : Type} (l : List SSeg) : List (Segment σ) := l.map (fun p => seg p.1)

/-- `completed = min(self.total, max(0, self.completed))`;
`complete_halves = int(width * 2 * completed / self.total) if self.total else width * 2` (progress_bar.py:164-171). -/
def progressHalves (o : ProgressOpts) (width : Int) : Int :=
  let c0 : Rat' := if o.completed.lt ⟨0, 1⟩ then ⟨0, 1⟩ else o.completed
  let completed : Rat' := if o.total.lt c0 then o.total else c0
  if o.total.isZero then width * 2 else truncMulDiv (width * 2) completed o.total

/-- `self.complete_style if self.completed < self.total else self.finished_style` — the UNCLAMPED `self.completed`
(progress_bar.py:175-177). -/
def progressFillSty (o : ProgressOpts) : BarSty :=
  if o.completed.lt o.total then .complete else .finished

/-- `ProgressBar.__rich_console__` after the pulse branch (progress_bar.py:164-191), with style ids. -/
def progressStyled (env : Env) (o : ProgressOpts) (w : Int) : List SSeg :=
  -- width = min(self.width or options.max_width, options.max_width)
  let width := barWidth o.width w
  -- ascii = options.legacy_windows or options.ascii_only
  let ascii := env.legacyWindows || env.asciiOnly
  let bar := if ascii then '-' else '━'
  let halfR := if ascii then ' ' else '╸'
  let halfL := if ascii then ' ' else '╺'
  let halves : Int := progressHalves o width
  let barCount := halves / 2
  let halfCount := halves % 2
  -- style = console.get_style(self.style); complete_style = console.get_style(<complete or finished>)
  let fill := progressFillSty o
  -- if bar_count: yield Segment(bar * bar_count, complete_style)
  -- if half_bar_count: yield Segment(half_bar_right * half_bar_count, complete_style)
  let first : List SSeg :=
    (if barCount != 0 then [(rep barCount bar, fill)] else [])
    ++ (if halfCount != 0 then [(rep halfCount halfR, fill)] else [])
  -- if not console.no_color:
  if !env.noColor then
    let remaining := width - barCount - halfCount
    -- if remaining_bars and console.color_system is not None:
    if remaining != 0 && env.colorSystem != 0 then
      -- if not half_bar_count and bar_count: yield Segment(half_bar_left, style); remaining_bars -= 1
      let useHalf := halfCount == 0 && barCount != 0
      let remaining' := if useHalf then remaining - 1 else remaining
      first ++ (if useHalf then [([halfL], BarSty.back)] else [])
        -- if remaining_bars: yield Segment(bar * remaining_bars, style)
        ++ (if remaining' != 0 then [(rep remaining' bar, BarSty.back)] else [])
    else first
  else first

/-- the three pieces `Bar.__rich_console__` concatenates into its single segment (bar.py:71-81) -/
structure BarParts where
  prefix_ : List Char
  body : List Char
  suffix : List Char
deriving Repr

/-- `prefix`, `body`, `suffix` of bar.py:59-79, or `none` on the `self.begin >= self.end` path (bar.py:54). -/
def barParts (o : BarOpts) (w : Int) : Option BarParts :=
  let width := barWidth o.width w
  if o.endV.le o.beginV then none
  else
    let pce := truncMulDiv (width * 8) o.beginV o.size
    let pbc := pce / 8
    let pec := pce % 8
    let bce := truncMulDiv (width * 8) o.endV o.size
    let bbc := bce / 8
    let bec := bce % 8
    let prefix_ := rep pbc ' ' ++ (if pec != 0 then [beginBlocks.getD pec.toNat ' '] else [])
    let body := rep bbc '█' ++ (if bec != 0 then [endBlocks.getD bec.toNat ' '] else [])
    let suffix := rep (width - body.length) ' '
    some ⟨prefix_, body, suffix⟩

/-- `Bar.__rich_console__` on an initialised bar: `Segment(<text>, self.style)` then `Segment.line()`. -/
def barStyled (o : BarOpts) (w : Int) : List SSeg :=
  match barParts o w with
  | none => [(rep (barWidth o.width w) ' ', .own), (['\n'], .line)]
  | some p => [(p.prefix_ ++ p.body.drop p.prefix_.length ++ p.suffix, .own), (['\n'], .line)]

end RichModel.Frames
