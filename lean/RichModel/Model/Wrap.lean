import RichModel.Model.Text
/-!
Model of `rich/_wrap.py` (`words`, `divide_line`), `Text.wrap` (text.py:980-1028),
`Text.get_style_at_offset` (text.py:390-408) and `Lines.justify` (containers.py:105-161).
Core Lean only; imports the Text model of property C05 read-only.

Conventions
* widths are naturals (a negative `width` is outside the modelled domain);
* `cw : Char → Nat` is the cell-width function (`charWidthT Gen.cellWidths` in the driver);
* `\s` / `str.isspace` / `str.rstrip` is the generated class `pyIsSpace` (see `Model/Text.lean`);
* `StyleAlg σ` carries what full justification needs from the console's style algebra: the null style
  `""` of `Text("")`, the `Style` object `get_style_at_offset` computes from the base style and the
  covering spans (as the list of names combined, in order) and `Style.__eq__` on two such objects;
* `WVariant` = the C05 variant flags of the `Text` model, the `rstrip_end` flag (C08) and one flag for the defect of
  `Lines.justify` found by the C02 check (`true` = rich 9.10.0 as released).
-/
namespace RichModel
namespace Wrap

/-! ### `_wrap.py` -/

/-- One match of `re_word = \s*\S+\s*` anchored at the head of `s`: the matched word and the rest.
Three phases: leading whitespace, a non-empty run of non-whitespace, trailing whitespace (greedy `*` / `+`
never have to give anything back: the classes `\s` and `\S` are complementary). -/
def matchWord (s : List Char) : Option (List Char × List Char) :=
  let lead := s.takeWhile pyIsSpace
  let r1 := s.dropWhile pyIsSpace
  let body := r1.takeWhile (fun c => !pyIsSpace c)
  let r2 := r1.dropWhile (fun c => !pyIsSpace c)
  if body.isEmpty then none
  else some (lead ++ (body ++ r2.takeWhile pyIsSpace), r2.dropWhile pyIsSpace)

/-- `words(text)` from position `pos` on: `(start, end, word)` triples.  `fuel` bounds the number of
matches (every match consumes at least one character, `Lemmas/Wrap.lean`: `wordsFrom_fuel`). -/
def wordsFrom : Nat → Nat → List Char → List (Nat × Nat × List Char)
  | 0, _, _ => []
  | fuel + 1, pos, s =>
    match matchWord s with
    | none => []
    | some (w, rest) => (pos, pos + w.length, w) :: wordsFrom fuel (pos + w.length) rest

/-- `words(text)` (_wrap.py:10-17) -/
def words (text : List Char) : List (Nat × Nat × List Char) := wordsFrom text.length 0 text

/-- the `for last, line in loop_last(chop_cells(...))` loop: every piece but the last advances `start`
by its length and records it. -/
def chunkOffsets : Nat → List (List Char) → List Nat
  | _, [] => []
  | _, [_] => []
  | start, c :: rest => (start + c.length) :: chunkOffsets (start + c.length) rest

/-- the body of `for start, _end, word in words(text)` (_wrap.py:25-46): new `line_position` and the
offsets appended for this word. -/
def divideStep (cw : Char → Nat) (width : Nat) (fold : Bool) (linePos : Nat) (w : Nat × Nat × List Char) :
    Nat × List Nat :=
  let start := w.1
  let word := w.2.2
  let wordLength := cellLen cw (pyRstrip word)
  if linePos + wordLength > width then
    if wordLength > width then
      if fold then
        let chunks := chopCells cw word width linePos
        ((match chunks.getLast? with
          | some l => cellLen cw l
          | none => linePos), chunkOffsets start chunks)
      else (cellLen cw word, if start != 0 then [start] else [])
    else if linePos != 0 && start != 0 then (cellLen cw word, [start])
    else (linePos, [])
  else (linePos + cellLen cw word, [])

def divideGo (cw : Char → Nat) (width : Nat) (fold : Bool) : Nat → List (Nat × Nat × List Char) → List Nat
  | _, [] => []
  | linePos, w :: ws =>
    let r := divideStep cw width fold linePos w
    r.2 ++ divideGo cw width fold r.1 ws

/-- `divide_line(text, width, fold)` (_wrap.py:20-47) -/
def divideLine (cw : Char → Nat) (text : List Char) (width : Nat) (fold : Bool := true) : List Nat :=
  divideGo cw width fold 0 (words text)

/-! ### what full justification needs from the style algebra -/

structure StyleAlg (σ : Type) where
  /-- the style `""` of `Text("")` -/
  null : σ
  /-- the `Style` object `get_style_at_offset` returns for the names combined (in order) -/
  comb : List σ → σ
  /-- `Style.__eq__` -/
  eqv : σ → σ → Bool

/-- one flag per genuine defect (true = rich 9.10.0 as released) -/
structure WVariant where
  /-- the flags of the `Text` model (C05) -/
  text : Variant
  /-- `Lines.justify` "center"/"right" call `pad_left` with a *negative* count when the line stays wider
  than the width (overflow "ignore"): the characters stay and every span moves to the left (rich 9.10.0 as found; `false` = fix 90b2e96). -/
  justifyNeg : Bool
  /-- `Text.rstrip_end` compares the *character* count of the line with the cell width (`Text.rstripEndW true`; rich 9.10.0 as found);
  `false` = `cell_len(self.plain)` (fix f5f2be9, the former pending_fixes/C08-rstrip-end-counts-cells.diff; what /repo contains now). -/
  rstripChars : Bool
deriving Repr, BEq, DecidableEq

def WVariant.released : WVariant := ⟨Variant.released, true, true⟩
/-- the two repairs asked for by C05/C02 in place, `rstrip_end` in either variant (`chars = true`: as found; `false`: fix f5f2be9) -/
def WVariant.fixed (chars : Bool) : WVariant := ⟨Variant.repaired, false, chars⟩
def WVariant.repaired : WVariant := WVariant.fixed false

variable {σ : Type}

/-- `Text.get_style_at_offset(console, offset)` (text.py:390-408) -/
def styleAtOffset (A : StyleAlg σ) (t : Text σ) (offset : Int) : σ :=
  let off := if offset < 0 then t.length + offset else offset
  A.comb (t.style :: (t.spans.filter (fun sp => decide (off ≥ sp.start) && decide (off < sp.stop))).map (·.style))

/-! ### `Lines.justify` -/

/-- `spaces[len(spaces) - index - 1] += 1` -/
def bump : List Nat → Nat → List Nat
  | [], _ => []
  | x :: xs, 0 => (x + 1) :: xs
  | x :: xs, i + 1 => x :: bump xs i

/-- `while words_size + num_spaces < width:` … with `todo = width - (words_size + num_spaces)` iterations left -/
def spreadLoop (n : Nat) : Nat → Nat → List Nat → List Nat
  | 0, _, sp => sp
  | todo + 1, index, sp => spreadLoop n todo ((index + 1) % n) (bump sp (n - index - 1))

/-- the `spaces` list of the "full" branch -/
def fullSpaces (wordsSize numWords width : Nat) : List Nat :=
  let numSpaces := numWords - 1
  let spaces := List.replicate numSpaces 1
  if numSpaces = 0 then spaces else spreadLoop numSpaces (width - (wordsSize + numSpaces)) 0 spaces

/-- the `tokens` loop of the "full" branch -/
def fullTokens (v : Variant) (A : StyleAlg σ) (lineStyle : σ) : List (Text σ) → List Nat → List (Text σ)
  | [], _ => []
  | [word], _ => [word]
  | word :: next :: rest, sp =>
    match sp with
    | [] => word :: fullTokens v A lineStyle (next :: rest) []
    | n :: sp' =>
      let style := styleAtOffset A word (-1)
      let nextStyle := styleAtOffset A next 0
      let spaceStyle := if A.eqv style nextStyle then style else lineStyle
      word :: Text.new v (List.replicate n ' ') spaceStyle :: fullTokens v A lineStyle (next :: rest) sp'

/-- one line of the "full" branch (every line but the last) -/
def justifyFullLine [BEq σ] (v : Variant) (cw : Char → Nat) (A : StyleAlg σ) (line : Text σ) (width : Nat) :
    Except PyErr (Text σ) :=
  line.split v [' '] >>= fun ws =>
    let wordsSize := (ws.map (fun w => cellLen cw w.plain)).sum
    let spaces := fullSpaces wordsSize ws.length width
    .ok (Text.join v (Text.new v [] A.null) (fullTokens v A line.style ws spaces))

def justifyFull [BEq σ] (v : Variant) (cw : Char → Nat) (A : StyleAlg σ) (width : Nat) :
    List (Text σ) → Except PyErr (List (Text σ))
  | [] => .ok []
  | [last] => .ok [last]
  | line :: next :: rest =>
    justifyFullLine v cw A line width >>= fun l =>
    justifyFull v cw A width (next :: rest) >>= fun r =>
    .ok (l :: r)

/-- the count handed to `pad_left` -/
def padCount (wv : WVariant) (n : Int) : Int := if wv.justifyNeg then n else max 0 n

/-- `Lines.justify(console, width, justify, overflow)` (containers.py:105-161) -/
def justifyLines [BEq σ] (wv : WVariant) (cw : Char → Nat) (A : StyleAlg σ) (lines : List (Text σ)) (width : Nat)
    (justify : Justify) (overflow : Overflow) : Except PyErr (List (Text σ)) :=
  match justify with
  | .default => .ok lines
  | .left => .ok (lines.map (fun l => l.truncate cw width (some overflow) true))
  | .center => .ok (lines.map (fun l =>
      let l1 := (l.rstrip).truncate cw width (some overflow)
      let l2 := l1.padLeft (padCount wv (((width : Int) - (cellLen cw l1.plain : Int)) / 2))
      l2.padRight ((width : Int) - (cellLen cw l2.plain : Int))))
  | .right => .ok (lines.map (fun l =>
      let l1 := (l.rstrip).truncate cw width (some overflow)
      l1.padLeft (padCount wv ((width : Int) - (cellLen cw l1.plain : Int)))))
  | .full => justifyFull wv.text cw A width lines

/-! ### `Text.wrap` -/

/-- the body of `for line in self.split(allow_blank=True)` after tab expansion -/
def wrapLine [BEq σ] (wv : WVariant) (cw : Char → Nat) (A : StyleAlg σ) (line : Text σ) (width : Nat)
    (wrapJustify : Justify) (wrapOverflow : Overflow) (noWrap : Bool) : Except PyErr (List (Text σ)) :=
  (if noWrap then .ok [line]
   else line.divide wv.text (divideLine cw line.plain width (wrapOverflow == Overflow.fold))) >>= fun newLines =>
  justifyLines wv cw A (newLines.map (fun l => Text.rstripEndW wv.rstripChars cw wv.text l width)) width wrapJustify wrapOverflow >>= fun justified =>
  .ok (justified.map (fun l => l.truncate cw width (some wrapOverflow)))

def wrapParagraphs [BEq σ] (wv : WVariant) (cw : Char → Nat) (A : StyleAlg σ) (width : Nat)
    (wrapJustify : Justify) (wrapOverflow : Overflow) (noWrap : Bool) (tabSize : Option Nat) :
    List (Text σ) → Except PyErr (List (Text σ))
  | [] => .ok []
  | line :: rest =>
    (if line.plain.contains '\t' then line.expandTabs wv.text tabSize else .ok line) >>= fun line' =>
    wrapLine wv cw A line' width wrapJustify wrapOverflow noWrap >>= fun ls =>
    wrapParagraphs wv cw A width wrapJustify wrapOverflow noWrap tabSize rest >>= fun more =>
    .ok (ls ++ more)

/-- `justify or self.justify or DEFAULT_JUSTIFY` -/
def wrapJustifyOf (t : Text σ) (justify : Option Justify) : Justify :=
  (justify.orElse (fun _ => t.justify)).getD Justify.default

/-- `overflow or self.overflow or DEFAULT_OVERFLOW` -/
def wrapOverflowOf (t : Text σ) (overflow : Option Overflow) : Overflow :=
  (overflow.orElse (fun _ => t.overflow)).getD Overflow.fold

/-- `pick_bool(no_wrap, self.no_wrap, False) or overflow == "ignore"` — the *argument* `overflow`, not the
effective one: a text whose own `overflow` is "ignore" is still wrapped. -/
def noWrapOf (t : Text σ) (overflow : Option Overflow) (noWrap : Option Bool) : Bool :=
  (noWrap.orElse (fun _ => t.noWrap)).getD false || overflow == some Overflow.ignore

/-- `Text.wrap(console, width, justify=, overflow=, tab_size=, no_wrap=)` (text.py:980-1028) -/
def wrap [BEq σ] (wv : WVariant) (cw : Char → Nat) (A : StyleAlg σ) (t : Text σ) (width : Nat)
    (justify : Option Justify := none) (overflow : Option Overflow := none) (tabSize : Option Nat := some 8)
    (noWrap : Option Bool := none) : Except PyErr (List (Text σ)) :=
  t.split wv.text ['\n'] false true >>= fun lines =>
  wrapParagraphs wv cw A width (wrapJustifyOf t justify) (wrapOverflowOf t overflow) (noWrapOf t overflow noWrap)
    tabSize lines

/-! ### the object-level reading: `text.wrap(...)` called several times on one object -/

/-- the arguments of one call -/
structure WrapArgs where
  width : Nat
  justify : Option Justify := none
  overflow : Option Overflow := none
  tabSize : Option Nat := some 8
  noWrap : Option Bool := none

/-- one call on the object in state `t`: the state of the receiver afterwards and the answer.  `Text.wrap` works on
copies (`split` / `divide` / `copy`) and never assigns to `self`: the receiver is handed on unchanged. -/
def wrapCall [BEq σ] (wv : WVariant) (cw : Char → Nat) (A : StyleAlg σ) (t : Text σ) (c : WrapArgs) :
    Text σ × Except PyErr (List (Text σ)) :=
  (t, wrap wv cw A t c.width c.justify c.overflow c.tabSize c.noWrap)

/-- a history of calls on one object: final state of the receiver and the answers in order -/
def wrapHistory [BEq σ] (wv : WVariant) (cw : Char → Nat) (A : StyleAlg σ) :
    Text σ → List WrapArgs → Text σ × List (Except PyErr (List (Text σ)))
  | t, [] => (t, [])
  | t, c :: cs =>
    let r := wrapCall wv cw A t c
    let rest := wrapHistory wv cw A r.1 cs
    (rest.1, r.2 :: rest.2)

end Wrap
end RichModel
