import RichModel.Model.Syntax
/-
Model of the selection logic of rich/traceback.py around the per-frame `Syntax` (which `Model/Syntax.lean` has):

* `Traceback.extract` (traceback.py:231-321): the walk over `__cause__` / `__context__` / `__suppress_context__` that
  builds `Trace.stacks` NEWEST first, each stack with its own frames in `walk_tb` order and the flag `is_cause`;
* `Traceback.__rich_console__` (traceback.py:323-403): `loop_last(reversed(stacks))` — per stack the panel (only when it
  has frames), the SyntaxError panel, the `Type: message` line, and between two stacks the sentence chosen by the
  OLDER stack's `is_cause`;
* `Traceback._render_stack` (traceback.py:434-515): per frame the blank separator, the header `file:lineno in name`,
  and — unless the file name starts with "<" — `read_code` (per-call cache, `open` may raise), `_guess_lexer`
  (`LEXERS.get(ext) or guess_lexer_for_filename(filename, code).name`, which raises `ClassNotFound` when no Pygments
  lexer claims the file NAME), then the `Syntax` with the options `tracebackOpts` describes; any exception of the
  `try` block is shown as an error row INSTEAD of the code.

Variant flag `guessRaises`:
  true  = rich 9.10.0 as found: `ClassNotFound` from `guess_lexer_for_filename` lands in `except Exception`, a READABLE file
          whose name no lexer claims (no extension, unknown extension) gets the row "no lexer for filename … found" and no code;
  false = repaired (pending_fixes/C17-traceback-unknown-extension-shows-no-source.diff): `_guess_lexer` falls back to
          the lexer "text", the excerpt is shown (un-highlighted) with its numbers and the failing-line marker.

Exceptions are finite trees (a cyclic `__context__` chain makes `extract` loop for ever; CPython itself never builds one).
Names, messages, locals, styles and the panel frame are not modelled: an exception is known by an id.
-/
namespace RichModel.Syntax

/-- what `walk_tb` yields, as far as the selection goes: the code object's file and the line number -/
structure Frame where
  file : FileId
  lineno : Nat
deriving Repr, DecidableEq, BEq

/-- An exception object as `extract` looks at it: `truthy` = `bool(exc)` (an exception class may define `__len__` /
`__bool__`), `hasTb` = `exc.__traceback__` is not None, `frames` = `walk_tb(exc.__traceback__)`,
`suppress` = `__suppress_context__`, `isSyn` = `isinstance(exc, SyntaxError)`. -/
inductive Exc where
  | mk (name : Nat) (frames : List Frame) (truthy hasTb suppress isSyn : Bool) (cause context : Option Exc)
deriving Repr

def Exc.name : Exc → Nat | .mk n _ _ _ _ _ _ _ => n
def Exc.frames : Exc → List Frame | .mk _ f _ _ _ _ _ _ => f
def Exc.suppress : Exc → Bool | .mk _ _ _ _ s _ _ _ => s
def Exc.isSyn : Exc → Bool | .mk _ _ _ _ _ s _ _ => s
def Exc.cause : Exc → Option Exc | .mk _ _ _ _ _ _ c _ => c
def Exc.context : Exc → Option Exc | .mk _ _ _ _ _ _ _ c => c
/-- `cause and cause.__traceback__` -/
def Exc.usable : Exc → Bool | .mk _ _ t h _ _ _ _ => t && h

/-- `Stack` of rich/traceback.py (exc_type, is_cause, syntax_error is not None, frames) -/
structure Stack where
  name : Nat
  isCause : Bool
  isSyn : Bool
  frames : List Frame
deriving Repr, DecidableEq

/-- `Traceback.extract`: the `while True` loop; `isCause` is the flag the NEXT stack is created with. -/
def extract (isCause : Bool) : Exc → List Stack
  | .mk name frames _ _ suppress isSyn cause context =>
    let st : Stack := { name := name, isCause := isCause, isSyn := isSyn, frames := frames }
    match cause, context with
    | some c, ctx =>
      -- `cause = getattr(exc_value, "__cause__", None); if cause and cause.__traceback__: … is_cause = True; continue`
      if c.usable then st :: extract true c
      else match ctx with
        -- `cause = exc_value.__context__; if cause and cause.__traceback__ and not __suppress_context__: … is_cause = False`
        | some x => if x.usable && !suppress then st :: extract false x else [st]
        | none => [st]
    | none, some x => if x.usable && !suppress then st :: extract false x else [st]
    | none, none => [st]

/-- what `Traceback.__rich_console__` yields, one entry per renderable -/
inductive Item where
  | panel (frames : List Frame)          -- `Panel(self._render_stack(stack), …)`, only `if stack.frames`
  | synPanel                             -- the panel of `_render_syntax_error`
  | excLine (name : Nat) (syn : Bool)    -- `Type: message` (the SyntaxError's `msg` when `syn`)
  | link (directCause : Bool)            -- true: "The above exception was the direct cause of the following exception:",
                                         -- false: "During handling of the above exception, another exception occurred:"
deriving Repr, DecidableEq

/-- the body of `for last, stack in loop_last(…)` over a list ALREADY in rendering order -/
def renderStacks : List Stack → List Item
  | [] => []
  | st :: rest =>
    (if st.frames.isEmpty then [] else [Item.panel st.frames]) ++
    (if st.isSyn then [Item.synPanel] else []) ++
    Item.excLine st.name st.isSyn ::
    ((if rest.isEmpty then [] else [Item.link st.isCause]) ++ renderStacks rest)

/-- `for last, stack in loop_last(reversed(self.trace.stacks))` -/
def renderTrace (stacks : List Stack) : List Item := renderStacks stacks.reverse

/-- `Traceback.from_exception(type, value, tb)` printed: extract, then render -/
def renderException (e : Exc) : List Item := renderTrace (extract false e)

/-! ### `_render_stack` -/

/-- what `_render_stack` yields, one entry per renderable (locals are not modelled) -/
inductive FrameItem where
  | blank                                   -- `yield ""`
  | header (file : FileId) (lineno : Nat)   -- `file:lineno in name`
  | syntax (code : List Char) (lineno : Nat) (lexerKnown : Bool)
      -- `Syntax(code, lexer_name, line_numbers=True, line_range=(lineno - extra, lineno + extra), highlight_lines={lineno}, …)`:
      -- the options are `tracebackOpts lineno extra …`; `lexerKnown = false`: the fallback lexer "text" of the repaired variant
  | error                                   -- `Text.assemble((f"\n{error}", "traceback.error"))`: no code is shown
deriving Repr, DecidableEq

/-- `read_code` where `open` may raise (`fs f = none`): nothing is cached then. -/
def readCodeOpt (fs : FileId → Option (List Char)) (cache : List (FileId × List Char)) (f : FileId) :
    Option (List Char × List (FileId × List Char)) :=
  match (cache.find? (fun p => p.1 == f)).map (·.2) with
  | some code => some (code, cache)
  | none => match fs f with
    | some code => some (code, (f, code) :: cache)
    | none => none

/-- The loop `for first, frame in loop_first(stack.frames)`.
`special f` = `filename.startswith("<")`, `known f` = some lexer claims the file name (`LEXERS.get(ext)` or
`guess_lexer_for_filename` finds one — it looks at the NAME to decide whether any lexer matches, at the code only to rank). -/
def renderStackFrom (guessRaises : Bool) (special known : FileId → Bool) (fs : FileId → Option (List Char)) :
    List (FileId × List Char) → Bool → List Frame → List FrameItem
  | _, _, [] => []
  | cache, first, fr :: rest =>
    let head := (if !special fr.file && !first then [FrameItem.blank] else []) ++ [FrameItem.header fr.file fr.lineno]
    if special fr.file then head ++ renderStackFrom guessRaises special known fs cache false rest
    else match readCodeOpt fs cache fr.file with
      | none => head ++ FrameItem.error :: renderStackFrom guessRaises special known fs cache false rest
      | some (code, cache') =>
        if !known fr.file && guessRaises then
          -- the code was read (and cached) before `_guess_lexer` raised
          head ++ FrameItem.error :: renderStackFrom guessRaises special known fs cache' false rest
        else
          head ++ FrameItem.blank :: FrameItem.syntax code fr.lineno (known fr.file) ::
            renderStackFrom guessRaises special known fs cache' false rest

/-- `_render_stack(stack)`: `code_cache = {}` at the top of every call -/
def renderStack (guessRaises : Bool) (special known : FileId → Bool) (fs : FileId → Option (List Char)) (frames : List Frame) :
    List FrameItem :=
  renderStackFrom guessRaises special known fs [] true frames

end RichModel.Syntax
