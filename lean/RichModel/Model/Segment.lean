import RichModel.Model.Cells
/-
Model of rich/segment.py (line shaping part): split_lines, split_and_crop_lines,
adjust_line_length, set_shape, simplify; and, further down (added in the deepening round of C13), the style-level
helpers apply_style, filter_control, strip_styles, strip_links, remove_color, get_shape, whose `Style` operations
are parameters.  Styles are opaque values of a type `σ`
compared with `==` (the driver instantiates σ := Nat, a style id).
-/
namespace RichModel

structure Segment (σ : Type) where
  text : List Char
  style : Option σ
  control : Bool := false
deriving Repr, BEq, DecidableEq

variable {σ : Type}

/-- `Segment.cell_length`: `0 if is_control else cell_len(text)`. -/
def Segment.cellLength (cw : Char → Nat) (s : Segment σ) : Nat :=
  if s.control then 0 else cellLen cw s.text

/-- `sum(segment.cell_length for segment in line)` -/
def lineLength (cw : Char → Nat) (line : List (Segment σ)) : Nat :=
  (line.map (Segment.cellLength cw)).sum

/-- The flattened (character, style, is_control) stream a list of segments denotes. -/
def stream (line : List (Segment σ)) : List (Char × Option σ × Bool) :=
  line.flatMap (fun s => s.text.map (fun c => (c, s.style, s.control)))

/-- The `while text: _text, new_line, text = text.partition("\n")` loop, as the list of
`(_text, new_line != "")` pairs it visits.  `cur` accumulates `_text` reversed. -/
def nlPieces : List Char → List Char → List (List Char × Bool)
  | [], cur => if cur.isEmpty then [] else [(cur.reverse, false)]
  | c :: rest, cur =>
    if c == '\n' then (cur.reverse, true) :: nlPieces rest []
    else nlPieces rest (c :: cur)

/-- `Segment.adjust_line_length` crop loop (segment.py:229-240): returns the new line. -/
def cropLoop (cw : Char → Nat) (length : Nat) : List (Segment σ) → Nat → List (Segment σ)
  | [], _ => []
  | seg :: rest, lineLen =>
    let segLen := seg.cellLength cw
    if lineLen + segLen < length || seg.control then
      seg :: cropLoop cw length rest (lineLen + segLen)
    else
      [{ text := setCellSize cw seg.text (length - lineLen), style := seg.style, control := false }]

/-- `Segment.adjust_line_length` (segment.py:204-243). -/
def adjustLineLength (cw : Char → Nat) (line : List (Segment σ)) (length : Nat)
    (style : Option σ) (pad : Bool := true) : List (Segment σ) :=
  let ll := lineLength cw line
  if ll < length then
    if pad then line ++ [{ text := List.replicate (length - ll) ' ', style := style, control := false }]
    else line
  else if ll > length then cropLoop cw length line 0
  else line

/-- State of the `split_lines` generator: current `line` (in order) and yielded lines (reversed). -/
def splitLinesStep (st : List (Segment σ) × List (List (Segment σ))) (seg : Segment σ) :
    List (Segment σ) × List (List (Segment σ)) :=
  if seg.text.contains '\n' && !seg.control then
    (nlPieces seg.text []).foldl (fun (st : List (Segment σ) × List (List (Segment σ))) p =>
      let line := if p.1.isEmpty then st.1 else st.1 ++ [{ text := p.1, style := seg.style, control := false }]
      if p.2 then ([], line :: st.2) else (line, st.2)) st
  else (st.1 ++ [seg], st.2)

/-- `Segment.split_lines` (segment.py:129-155). -/
def splitLines (segs : List (Segment σ)) : List (List (Segment σ)) :=
  let st := segs.foldl splitLinesStep ([], [])
  (if st.1.isEmpty then st.2 else st.1 :: st.2).reverse

/-- State of `split_and_crop_lines`: (line, pad style *as currently bound*, yielded reversed). -/
structure CropState (σ : Type) where
  line : List (Segment σ)
  padStyle : Option σ
  out : List (List (Segment σ))

/-- `Segment.split_and_crop_lines` (segment.py:157-202).
`rebind = true` models the code as it stood before the `fix:` commit, where
`text, style, _ = segment` overwrote the `style` *parameter* (padding style) with the style of
the last newline-bearing segment; `rebind = false` is the repaired code. -/
def splitAndCropStep (cw : Char → Nat) (length : Nat) (pad inclNL rebind : Bool)
    (st : CropState σ) (seg : Segment σ) : CropState σ :=
  if seg.text.contains '\n' && !seg.control then
    let st0 : CropState σ := if rebind then { st with padStyle := seg.style } else st
    (nlPieces seg.text []).foldl (fun (st : CropState σ) p =>
      let line := if p.1.isEmpty then st.line else st.line ++ [{ text := p.1, style := seg.style, control := false }]
      if p.2 then
        let cropped := adjustLineLength cw line length st.padStyle pad
        let cropped := if inclNL then cropped ++ [{ text := ['\n'], style := none, control := false }] else cropped
        { st with line := [], out := cropped :: st.out }
      else { st with line := line }) st0
  else { st with line := st.line ++ [seg] }

def splitAndCropLines (cw : Char → Nat) (segs : List (Segment σ)) (length : Nat) (style : Option σ)
    (pad : Bool := true) (inclNL : Bool := true) (rebind : Bool := false) : List (List (Segment σ)) :=
  let st := segs.foldl (splitAndCropStep cw length pad inclNL rebind) { line := [], padStyle := style, out := [] }
  (if st.line.isEmpty then st.out else adjustLineLength cw st.line length st.padStyle pad :: st.out).reverse

/-- `Segment.set_shape` (segment.py:271-302): `zip_longest(lines, range(height))`. -/
def setShape (cw : Char → Nat) (lines : List (List (Segment σ))) (width : Nat) (height : Option Nat)
    (style : Option σ) : List (List (Segment σ)) :=
  let h := height.getD lines.length
  let padLine : List (Segment σ) := [{ text := List.replicate width ' ', style := style, control := false }]
  lines.map (fun l => adjustLineLength cw l width style) ++ List.replicate (h - lines.length) padLine

/-- `Segment.simplify` (segment.py:304-329).  `mergeCtl = true` models the code before the `fix:`
commit (a control `last_segment` was merged with following same-style text into a non-control
segment); `false` is the repaired code, which never merges into a control segment. -/
def simplifyLoop [BEq σ] (mergeCtl : Bool) : Segment σ → List (Segment σ) → List (Segment σ)
  | last, [] => [last]
  | last, seg :: rest =>
    if last.style == seg.style && !seg.control && (mergeCtl || !last.control) then
      simplifyLoop mergeCtl { text := last.text ++ seg.text, style := last.style, control := false } rest
    else last :: simplifyLoop mergeCtl seg rest

def simplify [BEq σ] (segs : List (Segment σ)) (mergeCtl : Bool := false) : List (Segment σ) :=
  match segs with
  | [] => []
  | s :: rest => simplifyLoop mergeCtl s rest

/-! ### style-level helpers of segment.py (apply_style, filter_control, strip_*, remove_color, get_shape)

Styles stay opaque: `add` is `Style.__add__` (with `None` on the right returning the left operand, as
`Style.__add__` does), `truthy` is `Style.__bool__`, `noLink` is `style.update_link(None)`, `noColor` is
`style.without_color`. -/

/-- `Segment.apply_style` (segment.py:72-108): two lazy passes; control segments lose their style. -/
def applyStyle (add : σ → σ → σ) (truthy : σ → Bool) (segs : List (Segment σ)) (style postStyle : Option σ) :
    List (Segment σ) :=
  let pass1 := match style with
    | none => segs
    | some st => segs.map fun s =>
        { text := s.text, control := s.control,
          style := if s.control then none else some (match s.style with | some x => add st x | none => st) }
  match postStyle with
  | none => pass1
  | some ps => pass1.map fun s =>
      { text := s.text, control := s.control,
        style := if s.control then none else
          some (match s.style with
                | some x => if truthy x then add x ps else ps
                | none => ps) }

/-- `Segment.filter_control(segments, is_control)`. -/
def filterControl (segs : List (Segment σ)) (isControl : Bool := false) : List (Segment σ) :=
  segs.filter (fun s => s.control == isControl)

/-- `Segment.strip_styles`. -/
def stripStyles (segs : List (Segment σ)) : List (Segment σ) :=
  segs.map fun s => { text := s.text, style := none, control := s.control }

/-- `Segment.strip_links` (note: the rebuilt segment is never a control segment — it was not one). -/
def stripLinks (truthy : σ → Bool) (noLink : σ → σ) (segs : List (Segment σ)) : List (Segment σ) :=
  segs.map fun s =>
    match s.style with
    | none => s
    | some st => if s.control then s
                 else { text := s.text, style := if truthy st then some (noLink st) else none, control := false }

/-- `Segment.remove_color`: a falsy (null) style becomes `None`; the `is_control` flag is kept. -/
def removeColor (truthy : σ → Bool) (noColor : σ → σ) (segs : List (Segment σ)) : List (Segment σ) :=
  segs.map fun s =>
    { text := s.text, control := s.control,
      style := match s.style with
        | some st => if truthy st then some (noColor st) else none
        | none => none }

/-- `Segment.get_shape`: (max line length, number of lines). -/
def getShape (cw : Char → Nat) (lines : List (List (Segment σ))) : Nat × Nat :=
  ((lines.map (lineLength cw)).foldl max 0, lines.length)

end RichModel
