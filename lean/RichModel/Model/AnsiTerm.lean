/-
Independent interpreter of the escape-coded character stream Rich writes (property C03).  Import-free.

Written from ECMA-48 (8.3.117 SGR — SELECT GRAPHIC RENDITION), the xterm control-sequence
documentation (`CSI Pm m`, "ISO-8613-6 colour": `38;5;Ps`, `38;2;Pr;Pg;Pb`, aixterm bright colours
90-97 / 100-107) and the OSC 8 hyperlink convention (`OSC 8 ; params ; URI ST`, empty URI closes).
It shares nothing with `rich/ansi.py` nor with the encoder model (`Model/AnsiRender.lean`).

* `Tok`        what a terminal's parser hands to its screen: printable text, one SGR sequence with its
               parameters, one OSC 8 sequence;
* `Rendition`  the graphic rendition a terminal keeps: 13 on/off aspects, foreground, background;
* `sgr1`       the effect of one SGR parameter; `sgrParams` a parameter string, left to right, with
               the two extended-colour introducers consuming their sub-parameters;
* `interp`     replays tokens from the power-on state: every printed character together with the
               rendition and hyperlink it is shown with;
* `serialise`  tokens → the characters on the wire (ESC `[` p1 `;` p2 … `m`, ESC `]8;` params `;` uri ESC `\`).
-/
namespace RichModel.AnsiTerm

/-- One parsed unit of the output stream. -/
inductive Tok where
  /-- characters that are not part of an escape sequence, in order -/
  | text (s : List Char)
  /-- `CSI p1 ; p2 ; … m` -/
  | sgr (ps : List Nat)
  /-- `OSC 8 ; params ; uri ST` -/
  | osc8 (params : List Char) (uri : List Char)
deriving Repr, DecidableEq

/-- A colour as the terminal holds it.  `indexed n`: entry `n` of the 256-colour table, whose first
16 entries are the ANSI colours selected by 30-37 / 90-97 (40-47 / 100-107) as well. -/
inductive TermColor where
  | default
  | indexed (n : Nat)
  | rgb (r g b : Nat)
deriving Repr, DecidableEq

/-- The graphic rendition state (ECMA-48 names in the comments). -/
structure Rendition where
  bold : Bool := false        -- 1  bold or increased intensity
  dim : Bool := false         -- 2  faint
  italic : Bool := false      -- 3  italicized
  underline : Bool := false   -- 4  singly underlined
  blink : Bool := false       -- 5  slowly blinking
  blink2 : Bool := false      -- 6  rapidly blinking
  reverse : Bool := false     -- 7  negative image
  conceal : Bool := false     -- 8  concealed characters
  strike : Bool := false      -- 9  crossed-out
  underline2 : Bool := false  -- 21 doubly underlined
  frame : Bool := false       -- 51 framed
  encircle : Bool := false    -- 52 encircled
  overline : Bool := false    -- 53 overlined
  fg : TermColor := .default
  bg : TermColor := .default
deriving Repr, DecidableEq

/-- The effect of one SGR parameter that takes no sub-parameters.  Unknown parameters are ignored. -/
def sgr1 (r : Rendition) (p : Nat) : Rendition :=
  if p = 0 then {}                                              -- default rendition
  else if p = 1 then { r with bold := true }
  else if p = 2 then { r with dim := true }
  else if p = 3 then { r with italic := true }
  else if p = 4 then { r with underline := true }
  else if p = 5 then { r with blink := true }
  else if p = 6 then { r with blink2 := true }
  else if p = 7 then { r with reverse := true }
  else if p = 8 then { r with conceal := true }
  else if p = 9 then { r with strike := true }
  else if p = 21 then { r with underline2 := true }
  else if p = 22 then { r with bold := false, dim := false }    -- normal intensity
  else if p = 23 then { r with italic := false }
  else if p = 24 then { r with underline := false, underline2 := false }
  else if p = 25 then { r with blink := false, blink2 := false }  -- steady
  else if p = 27 then { r with reverse := false }               -- positive image
  else if p = 28 then { r with conceal := false }               -- revealed
  else if p = 29 then { r with strike := false }
  else if 30 ≤ p ∧ p ≤ 37 then { r with fg := .indexed (p - 30) }
  else if p = 39 then { r with fg := .default }
  else if 40 ≤ p ∧ p ≤ 47 then { r with bg := .indexed (p - 40) }
  else if p = 49 then { r with bg := .default }
  else if p = 51 then { r with frame := true }
  else if p = 52 then { r with encircle := true }
  else if p = 53 then { r with overline := true }
  else if p = 54 then { r with frame := false, encircle := false }
  else if p = 55 then { r with overline := false }
  else if 90 ≤ p ∧ p ≤ 97 then { r with fg := .indexed (p - 90 + 8) }
  else if 100 ≤ p ∧ p ≤ 107 then { r with bg := .indexed (p - 100 + 8) }
  else r

/-- A whole parameter string, left to right.  `38` / `48` introduce an extended colour and consume
`5;n` or `2;r;g;b`; anything else after them is malformed and the rest of the sequence is dropped
(xterm ignores it). -/
def sgrParams (r : Rendition) : List Nat → Rendition
  | [] => r
  | p :: rest =>
    if p = 38 then
      match rest with
      | 5 :: n :: rest' => sgrParams { r with fg := .indexed n } rest'
      | 2 :: red :: green :: blue :: rest' => sgrParams { r with fg := .rgb red green blue } rest'
      | _ => r
    else if p = 48 then
      match rest with
      | 5 :: n :: rest' => sgrParams { r with bg := .indexed n } rest'
      | 2 :: red :: green :: blue :: rest' => sgrParams { r with bg := .rgb red green blue } rest'
      | _ => r
    else sgrParams (sgr1 r p) rest

/-- One SGR sequence: an empty parameter string is `0`. -/
def applySgr (r : Rendition) (ps : List Nat) : Rendition :=
  if ps.isEmpty then {} else sgrParams r ps

/-- What the terminal carries from one token to the next. -/
structure TermState where
  rend : Rendition := {}
  /-- the active hyperlink (OSC 8); not touched by SGR -/
  link : Option (List Char) := none
deriving Repr, DecidableEq

/-- A printed character with what it is shown with. -/
structure Cell where
  char : Char
  rend : Rendition
  link : Option (List Char)
deriving Repr, DecidableEq

/-- One token: new state and the cells it prints. -/
def stepTok (st : TermState) : Tok → TermState × List Cell
  | .text s => (st, s.map fun c => ⟨c, st.rend, st.link⟩)
  | .sgr ps => ({ st with rend := applySgr st.rend ps }, [])
  | .osc8 _ uri => ({ st with link := if uri.isEmpty then none else some uri }, [])

/-- Replay from a given state: final state and every printed cell in order. -/
def interpFrom (st : TermState) : List Tok → TermState × List Cell
  | [] => (st, [])
  | t :: ts =>
    let r := stepTok st t
    let r' := interpFrom r.1 ts
    (r'.1, r.2 ++ r'.2)

/-- Replay from the power-on state. -/
def interp (toks : List Tok) : List Cell := (interpFrom {} toks).2

/-- The state the terminal is left in. -/
def finalState (toks : List Tok) : TermState := (interpFrom {} toks).1

/-! ## the wire format -/

def ESC : Char := Char.ofNat 27

/-- `str(int)`. -/
def natDigits (n : Nat) : List Char := Nat.toDigits 10 n

/-- `";".join(...)`. -/
def joinSemi : List (List Char) → List Char
  | [] => []
  | [a] => a
  | a :: rest => a ++ ';' :: joinSemi rest

def serialiseTok : Tok → List Char
  | .text s => s
  | .sgr ps => ESC :: '[' :: (joinSemi (ps.map natDigits) ++ ['m'])
  | .osc8 params uri => ESC :: ']' :: '8' :: ';' :: (params ++ ';' :: (uri ++ [ESC, '\\']))

def serialise (toks : List Tok) : List Char := toks.flatMap serialiseTok

/-- Adjacent text tokens are one run of characters for a terminal; empty runs are nothing. -/
def normalise : List Tok → List Tok
  | [] => []
  | .text s :: rest =>
    if s.isEmpty then normalise rest
    else match normalise rest with
      | .text s' :: rest' => .text (s ++ s') :: rest'
      | r => .text s :: r
  | t :: rest => t :: normalise rest

/-! ## the terminal's reading of the character stream

`tokenize` is what a terminal's parser does with the characters it receives, restricted to the two
sequences this property is about (everything else is ordinary text, one character at a time):

* `ESC [` *params* `m` with *params* made of decimal digits and `;` only — an SGR sequence; the
  parameter string is split at `;`, an empty parameter is `0` (ECMA-48 5.4.2), an empty string is no
  parameter at all;
* `ESC ] 8 ;` *params* `;` *uri* terminated by `ESC \` (ST) or BEL — an OSC 8 hyperlink; *params*
  ends at the first `;`, neither part contains ESC or BEL.

An ESC that does not start one of these is passed on as a text character.  Written independently of
`serialise`; `Lemmas/AnsiWire.lean` proves that it reads back what `serialise` writes. -/

def BEL : Char := Char.ofNat 7

/-- the longest prefix satisfying `p`, and the rest -/
def takeWhileP (p : Char → Bool) : List Char → List Char × List Char
  | [] => ([], [])
  | c :: cs => if p c then ((c :: (takeWhileP p cs).1), (takeWhileP p cs).2) else ([], c :: cs)

/-- split at every `;` (like `str.split(";")`: n separators give n+1 fields) -/
def splitSemi : List Char → List (List Char)
  | [] => [[]]
  | c :: cs =>
    if c = ';' then [] :: splitSemi cs
    else match splitSemi cs with
      | h :: t => (c :: h) :: t
      | [] => [[c]]

/-- a decimal parameter; the empty string is the default value 0 -/
def parseParam (ds : List Char) : Nat := Nat.ofDigitChars 10 ds 0

def parseParams (s : List Char) : List Nat := if s.isEmpty then [] else (splitSemi s).map parseParam

def isParamChar (c : Char) : Bool := c.isDigit || c == ';'

/-- after `ESC [`: the parameters and what follows the final `m` -/
def scanSgr (r : List Char) : Option (List Nat × List Char) :=
  match (takeWhileP isParamChar r).2 with
  | c :: r' => if c = 'm' then some (parseParams (takeWhileP isParamChar r).1, r') else none
  | [] => none

/-- after `ESC ]`: the hyperlink token and what follows its terminator -/
def scanOsc8 (r : List Char) : Option (Tok × List Char) :=
  match r with
  | c1 :: c2 :: r1 =>
    if c1 = '8' ∧ c2 = ';' then
      let p := takeWhileP (fun c => c != ';' && c != ESC && c != BEL) r1
      match p.2 with
      | c3 :: r2 =>
        if c3 = ';' then
          let u := takeWhileP (fun c => c != ESC && c != BEL) r2
          match u.2 with
          | c4 :: r3 =>
            if c4 = BEL then some (.osc8 p.1 u.1, r3)
            else match r3 with
              | c5 :: r4 => if c5 = '\\' then some (.osc8 p.1 u.1, r4) else none
              | [] => none
          | [] => none
        else none
      | [] => none
    else none
  | _ => none

/-- one token per step; every text character on its own (merged by `normalise` afterwards).
`fuel` bounds the number of steps; the length of the input is always enough. -/
def scan : Nat → List Char → List Tok
  | 0, _ => []
  | _, [] => []
  | fuel + 1, c :: cs =>
    if c = ESC then
      match cs with
      | k :: r =>
        if k = '[' then
          match scanSgr r with
          | some (ps, r') => .sgr ps :: scan fuel r'
          | none => .text [c] :: scan fuel cs
        else if k = ']' then
          match scanOsc8 r with
          | some (t, r') => t :: scan fuel r'
          | none => .text [c] :: scan fuel cs
        else .text [c] :: scan fuel cs
      | [] => [.text [c]]
    else .text [c] :: scan fuel cs

/-- The terminal's reading of a character stream. -/
def tokenize (s : List Char) : List Tok := normalise (scan s.length s)

end RichModel.AnsiTerm
