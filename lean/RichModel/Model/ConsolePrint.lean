import RichModel.Model.Console
import RichModel.Model.Wrap
import RichModel.Model.Frames
/-
What `Console.print` / `Console.out` / `Console.rule` append to the thread's buffer, *derived* (not observed) for the
simple paths (property C15, so that a change ahead of the buffer in these paths is seen by C15's own check):

  print(*strings, sep, end, style, overflow, no_wrap, width, crop, soft_wrap)
      on a console with markup / emoji / highlight off, `justify=None`, `console.style is None`, no render hooks
      console.py  print 1156-1257, _collect_renderables 1029-1108 (all objects `str`), render_str 986-999,
                  ConsoleOptions.update 114-140, Console.render 884-914
      text.py     Text.__rich_console__ 508-528  (wrap -> Text("\n").join -> render)
      segment.py  apply_style, split_and_crop_lines
  out(*strings, sep, end, style)            = print(sep.join(strings), style=…, no_wrap=True, overflow="ignore", crop=False, end=end)
  rule(characters=…, style=…) without title = print(Rule(...)); rule.py 48-69

Built from the models of other properties (read-only): `Model/Text` (C05: Text.new / join / render), `Model/Wrap`
(C02: Text.wrap), `Model/Segment` (C13: split_and_crop_lines), `Model/Frames` (C08: the text of a title-less rule).

Style *names* inside a `Text` are numbers: 0 = "" (the null style), k > 0 = a named style of the call.  The `Style`
object `Text.render` computes with `Style.combine` is reduced to a console-model style id only in the cases this
domain produces (all names null -> the null style's id; one distinct non-null name -> that style's id); anything else
answers `none` (unmodelled).
-/
namespace RichModel.ConsolePrint
open RichModel

abbrev Name := Nat
abbrev TT := Text Name

/-- What the derivation reads off the console. -/
structure Env where
  /-- `console.width` -/
  width : Nat
  /-- `console.tab_size` -/
  tabSize : Nat := 8
  /-- `console.soft_wrap` -/
  softWrap : Bool := false
  /-- console-model id of the null style (`Style.null()`, what `get_style("")` gives) -/
  nullId : Nat
  /-- console-model id of a named style -/
  styleId : Name → Nat

/-- only used by `justify="full"`, which this domain never reaches -/
def alg : Wrap.StyleAlg Name := { null := 0, comb := fun l => l.foldl max 0, eqv := fun a b => a == b }

/-- `Style.combine(names)` reduced to a style id (see the header). -/
def combine (env : Env) : Option (List Name) → Option (Option Nat)
  | none => some none
  | some names =>
    match (names.filter (· != 0)).eraseDups with
    | [] => some (some env.nullId)
    | [k] => some (some (env.styleId k))
    | _ => none

def toSegs (env : Env) : List (Text.RSeg Name) → Option (List (Segment Nat))
  | [] => some []
  | r :: rest =>
    match combine env r.styles, toSegs env rest with
    | some st, some more => some ({ text := r.text, style := st, control := false } :: more)
    | _, _ => none

/-- `Text.__rich_console__` (text.py:508-528) followed by `Console.render`'s pass-through of the segments. -/
def textConsole (wv : Wrap.WVariant) (cw : Char → Nat) (env : Env) (t : TT) (maxWidth : Nat)
    (optOverflow : Option Overflow) (optNoWrap : Option Bool) : Except PyErr (List (Text.RSeg Name)) :=
  -- tab_size = console.tab_size or self.tab_size or 8
  let tabSize : Nat := if env.tabSize != 0 then env.tabSize else
    match t.tabSize with
    | some n => if n != 0 then n else 8
    | none => 8
  -- justify = self.justify or options.justify ("default", set by print)
  let justify : Justify := t.justify.getD Justify.default
  -- overflow = self.overflow or options.overflow or DEFAULT_OVERFLOW
  let overflow : Overflow := (t.overflow.orElse (fun _ => optOverflow)).getD Overflow.fold
  -- no_wrap = pick_bool(self.no_wrap, options.no_wrap, False)
  let noWrap : Bool := (t.noWrap.orElse (fun _ => optNoWrap)).getD false
  Wrap.wrap wv cw alg t maxWidth (some justify) (some overflow) (some tabSize) (some noWrap) >>= fun lines =>
  let all := Text.join wv.text (Text.new wv.text ['\n'] 0) lines
  all.render t.endStr

/-- `Console.render(renderable, options)` for a `Text`: nothing when `options.max_width < 1`. -/
def renderText (wv : Wrap.WVariant) (cw : Char → Nat) (env : Env) (t : TT) (maxWidth : Nat)
    (optOverflow : Option Overflow) (optNoWrap : Option Bool) : Except PyErr (Option (List (Segment Nat))) :=
  if maxWidth < 1 then .ok (some [])
  else textConsole wv cw env t maxWidth optOverflow optNoWrap >>= fun rsegs => .ok (toSegs env rsegs)

/-- `Segment.apply_style(segments, style)` with a given style id, on segments whose own style is `None` or null:
`style + None = style`, `style + null = style`; control segments keep `None`. -/
def applyStyle (style : Option Nat) (segs : List (Segment Nat)) : List (Segment Nat) :=
  match style with
  | none => segs
  | some x => segs.map (fun s => { s with style := if s.control then none else some x })

/-- The tail of `print`: crop to the console width (`split_and_crop_lines(..., pad=False)`) or not. -/
def finish (cw : Char → Nat) (env : Env) (crop : Bool) (segs : List (Segment Nat)) : List (Segment Nat) :=
  if crop then (splitAndCropLines cw segs env.width none false true false).flatten else segs

structure PrintArgs where
  strs : List (List Char)
  sep : List Char := [' ']
  endStr : List Char := ['\n']
  /-- resolved `style=` argument (a console-model style id) -/
  style : Option Nat := none
  overflow : Option Overflow := none
  noWrap : Option Bool := none
  width : Option Nat := none
  crop : Bool := true
  softWrap : Option Bool := none

/-- `print(*strs, …)`; `none` inside = outside the derivable domain.  `strs = []` is `line()`, not handled here. -/
def printSegs (wv : Wrap.WVariant) (cw : Char → Nat) (env : Env) (a : PrintArgs) :
    Except PyErr (Option (List (Segment Nat))) :=
  let soft := a.softWrap.getD env.softWrap
  let noWrap := if soft then a.noWrap.orElse (fun _ => some true) else a.noWrap
  let overflow := if soft then a.overflow.orElse (fun _ => some Overflow.ignore) else a.overflow
  let crop := if soft then false else a.crop
  -- _collect_renderables: every object is a str -> Text(str); check_text(): Text(sep, end=end).join(texts)
  let texts := a.strs.map (fun s => Text.new wv.text s 0)
  let sepText := Text.new wv.text a.sep 0 (endStr := a.endStr)
  let t := Text.join wv.text sepText texts
  -- render_options = options.update(justify="default", overflow=overflow, width=min(width, self.width) if width else None, no_wrap=no_wrap)
  let maxWidth := match a.width with
    | some w => if w != 0 then min w env.width else env.width
    | none => env.width
  renderText wv cw env t maxWidth overflow noWrap >>= fun r =>
  .ok (r.map (fun segs => finish cw env crop (applyStyle a.style segs)))

/-- `print()` / `log()` without objects: `objects = (NewLine(),)` (console.py:1207-1208, 1318-1320), whose
`__rich_console__` yields `Segment("\n")`; then the usual crop. -/
def print0Segs (cw : Char → Nat) (env : Env) : List (Segment Nat) :=
  if env.width < 1 then finish cw env true []
  else finish cw env true [{ text := ['\n'], style := none, control := false }]

/-- `out(*strs, sep, end, style)` (console.py:1141-1172). -/
def outSegs (wv : Wrap.WVariant) (cw : Char → Nat) (env : Env) (strs : List (List Char)) (sep endStr : List Char)
    (style : Option Nat) : Except PyErr (Option (List (Segment Nat))) :=
  let raw := joinChars sep strs
  printSegs wv cw env { strs := [raw], endStr := endStr, style := style, noWrap := some true,
                        overflow := some Overflow.ignore, crop := false }
where
  joinChars (sep : List Char) : List (List Char) → List Char
    | [] => []
    | [x] => x
    | x :: rest => x ++ sep ++ joinChars sep rest

/-- `rule(characters=…, style=…)` with an empty title: `print(Rule(...))`.  `Rule.__init__` raises `ValueError` for
`cell_len(characters) < 1`; the style is name 1 of `env.styleId`. -/
def ruleSegs (wv : Wrap.WVariant) (cw : Char → Nat) (env : Env) (characters : List Char) :
    Except PyErr (Option (List (Segment Nat))) :=
  if cellLen cw characters < 1 then .error .valueError
  else if env.width < 1 then .ok (some [])      -- Console.render: options.max_width < 1
  else
    let fv : Frames.Variant := { zeroWidthChild := false, ruleRightRepeat := false, rstripCountsChars := false, columnsZeroCount := false }
    let fenv : Frames.Env := { consoleWidth := env.width }
    let pe := Frames.ruleText cw fenv fv { characters := characters } (env.width : Int)
    -- rule_text = Text(plain, self.style)  [the end of this Text is the default "\n"]
    let t : TT := { Text.new wv.text pe.1 1 with plain := pe.1, length := (pe.1.length : Int) }
    renderText wv cw env t env.width none none >>= fun r =>
    .ok (r.map (fun segs => finish cw env true segs))

end RichModel.ConsolePrint
