import RichModel.Model.Term
/-
Styles are zero-width for the cursor (C10, deepening 4).  `plainOps` is the part of a terminal stream that decides
*where* characters land: rendition (SGR) and hyperlink (OSC 8) operations dropped, adjacent text runs merged — the same normal form as `plain_ops` of harness/term.py, which the correspondence of C10 compares
the real streams in.  Import-free apart from `Model/Term`.
-/
namespace RichModel

/-- Rendition / hyperlink operations: they do not move the cursor and write no cell. -/
def TermOp.isStyle : TermOp → Bool
  | .sgr _ | .osc8 _ => true
  | _ => false

/-- Put a text run in front of a normalised stream, merging with a text run that follows.  (An empty run is kept:
in `Model/Term` writing no character at a column beyond the end of the row still pads the row with blanks; neither
the model of C10 nor a tokenised real stream contains empty runs.) -/
def consText (s : List Char) : List TermOp → List TermOp
  | .text t :: more => .text (s ++ t) :: more
  | r => .text s :: r

/-- The stream without styles, text runs merged (normal form shared with `plain_ops` of harness/term.py). -/
def plainOps : List TermOp → List TermOp
  | [] => []
  | .sgr _ :: rest => plainOps rest
  | .osc8 _ :: rest => plainOps rest
  | .text s :: rest => consText s (plainOps rest)
  | o :: rest => o :: plainOps rest

end RichModel
