import RichModel.Model.Layout
import RichModel.Model.Markup
/-!
Model for property C14: `Console.print(s, markup=False)` for a `str` `s` (console.py:1173-1258), i.e.

  `_collect_renderables` → `render_str(s, markup=False)` (console.py:949-999: `_emoji_replace`, `Text(...)`, the
  highlighter, `copy_styles`) → `Text(sep, end=end).join([text])` → `Console.render` → `Text.__rich_console__`
  (wrap, join, render) → `Segment.split_and_crop_lines(segments, console.width, pad=False)`.

Nothing is re-modelled: `_emoji_replace` is C04's (`Markup.emojiReplace`), `Text` is C05's, `Text.__rich_console__` is the glue of
`Model/Layout.lean` (C01: `textConsoleE`, over C02's `Wrap.wrap`), the crop is C13's `splitAndCropLines`.

Parameters: the emoji table (`none` = `emoji=False`) and the highlighter (`none` = highlighting off), a function from the
plain text to the spans it adds — its contract (every span inside `[0, len]`) is a hypothesis of `print_plain_total` and is
checked per case on real rich's `ReprHighlighter`.  Not modelled: `justify="left" | "center" | "right"` (the text is then
wrapped in `Align`: the frame layer), `console.style`, render hooks, `soft_wrap` (= `no_wrap` + `overflow="ignore"` + no crop).
-/
namespace RichModel.Totality
open RichModel RichModel.Layout

structure PrintOpts where
  /-- `EMOJI.get(name.lower())`; `none` = `emoji=False` -/
  emoji : Option (List Char → Option (List Char)) := none
  /-- `str.isspace` (the emoji pattern is `:(\S*?):`) -/
  isSpace : Char → Bool := Markup.pyIsSpace
  /-- the spans `console.highlighter` adds to the plain text; `none` = highlighting off -/
  highlighter : Option (List Char → List (Span S)) := none
  /-- `print(..., overflow=)` -/
  overflow : Option RichModel.Overflow := none
  /-- `print(..., no_wrap=)`; `options.no_wrap` is `False` unless given -/
  noWrap : Option Bool := some false
  /-- `print(..., sep=, end=)` -/
  sep : List Char := [' ']
  endStr : List Char := ['\n']
  /-- `print(..., crop=)` -/
  crop : Bool := true

/-- `Console.render_str(s, markup=False, highlighter=…)` (console.py:949-999). -/
def renderStrPlain (po : PrintOpts) (s : List Char) : T :=
  let txt := match po.emoji with
    | some lookup => Markup.emojiReplace po.isSpace lookup s
    | none => s
  let rich : T := Text.new Variant.repaired txt [0]
  match po.highlighter with
  | none => rich
  | some hl =>
    -- `highlight_text = Text(str(rich_text)); highlighter.highlight(highlight_text); highlight_text.copy_styles(rich_text)`
    ((Text.new Variant.repaired rich.plain ([0] : S)).addSpans (hl rich.plain)).copyStyles rich

/-- `Console.print(s, markup=False)` on a console `w` cells wide: the lines handed to the buffer, or the exception. -/
def printPlainE (cfg : Cfg) (po : PrintOpts) (s : List Char) (w : Nat) : Except PyErr (List Ln) :=
  let sepText : T := Text.new Variant.repaired po.sep [0] [] none none none po.endStr
  let joined := Text.join Variant.repaired sepText [renderStrPlain po s]
  textConsoleE cfg joined { justify := some Justify.default, overflow := po.overflow, noWrap := po.noWrap } w >>= fun segs =>
  .ok (if po.crop then splitAndCropLines cfg.cw segs w none false else [segs])

/-! ## `Text.__rich_measure__` with the `max()` of an empty sequence as an error (text.py:526-532)

`Model/Layout.lean: textRichMeasure` folds `max` from 0, so the `ValueError: max() iterable argument is empty` that
Python raises is invisible there.  Here the two `max()` calls can fail, and the blank-text guard (`if not text.strip():`)
and `str.split()` take their white-space classes as two parameters: the code is safe exactly because both use the SAME
class (every character `split()` splits on is one `strip()` strips). -/

/-- Python's `max(iterable)` -/
def pyMax : List Nat → Except PyErr Nat
  | [] => .error .valueError
  | x :: xs => .ok (xs.foldl max x)

/-- `str.split()` over the white-space class `p`: the maximal non-empty runs of other characters -/
def splitWords (p : Char → Bool) : List Char → List Char → List (List Char)
  | [], cur => if cur.isEmpty then [] else [cur.reverse]
  | c :: r, cur =>
    if p c then (if cur.isEmpty then splitWords p r [] else cur.reverse :: splitWords p r [])
    else splitWords p r (c :: cur)

/-- `str.splitlines()` (no line for the empty remainder after a final line break; `""` has no line at all) -/
def splitLinesPy : List Char → List Char → List (List Char)
  | [], cur => if cur.isEmpty then [] else [cur.reverse]
  | c :: r, cur => if isLineBreak c then cur.reverse :: splitLinesPy r [] else splitLinesPy r (c :: cur)

/-- `Text.__rich_measure__`: `guard` = what `text.strip()` strips, `split` = what `text.split()` splits on. -/
def textRichMeasureE (guard split : Char → Bool) (cw : Char → Nat) (plain : List Char) : Except PyErr Measurement :=
  if plain.all guard then .ok ⟨cellLen cw plain, cellLen cw plain⟩
  else
    pyMax ((splitLinesPy plain []).map (cellLen cw)) >>= fun maxW =>
    pyMax ((splitWords split plain []).map (cellLen cw)) >>= fun minW =>
    .ok ⟨(minW : Int), (maxW : Int)⟩

/-- `str.split("\n")`: always at least one line (`"".split("\n") == [""]`) -/
def splitNLPy : List Char → List Char → List (List Char)
  | [], cur => [cur.reverse]
  | c :: r, cur => if c == '\n' then cur.reverse :: splitNLPy r [] else splitNLPy r (c :: cur)

/-- `Text.__rich_measure__` as /repo has it since fix 542a59e (2026-09-29): the maximum is taken over `text.split("\n")`
(the lines `Text.wrap` produces) instead of `text.splitlines()`; everything else as `textRichMeasureE`, which is the code
before that fix. -/
def textRichMeasureNL (guard split : Char → Bool) (cw : Char → Nat) (plain : List Char) : Except PyErr Measurement :=
  if plain.all guard then .ok ⟨cellLen cw plain, cellLen cw plain⟩
  else
    pyMax ((splitNLPy plain []).map (cellLen cw)) >>= fun maxW =>
    pyMax ((splitWords split plain []).map (cellLen cw)) >>= fun minW =>
    .ok ⟨(minW : Int), (maxW : Int)⟩

/-- `" \t\n"`: the blanks a narrower guard would strip -/
def asciiBlank (c : Char) : Bool := c == ' ' || c == '\t' || c == '\n'

end RichModel.Totality
