import RichModel.Model.Segment
/-
Deepening round 4 of C13: the remaining small pieces of rich/segment.py and rich/cells.py.
 * `Segment.control`, `Segment.make_control`, `Segment.line`, `Segment.__bool__`, `Segment.get_line_length`
   (= `lineLength`, given a driver entry of its own here);
 * `set_cell_size(text, total)` with `total` an arbitrary Python int (negative included): `setCellSizeI`.
New file so that `Model/Cells.lean` / `Model/Segment.lean`, imported by many properties, stay untouched.
-/
namespace RichModel

variable {σ : Type}

/-- `Segment.control(text, style)`: `cls(text, style, is_control=True)`. -/
def Segment.mkControl (text : List Char) (style : Option σ) : Segment σ :=
  { text := text, style := style, control := true }

/-- `Segment.make_control(segments)`: `[cls(text, style, True) for text, style, _ in segments]`. -/
def makeControl (segs : List (Segment σ)) : List (Segment σ) :=
  segs.map fun s => { text := s.text, style := s.style, control := true }

/-- `Segment.line(is_control)`: `cls("\n", is_control=is_control)` (style `None`). -/
def Segment.newLine (isControl : Bool := false) : Segment σ :=
  { text := ['\n'], style := none, control := isControl }

/-- `Segment.__bool__`: `bool(self.text)`. -/
def Segment.truthy (s : Segment σ) : Bool := !s.text.isEmpty

/-- `set_cell_size` with `total : int` (cells.py:74-91), every statement as in `setCellSize` but over `Int`:
`cell_size == total`, `cell_size < total`, `" " * (total - cell_size)`, `excess = cell_size - total`. -/
def setCellSizeI (cw : Char → Nat) (text : List Char) (total : Int) : List Char :=
  let cellSize : Int := (cellLen cw text : Nat)
  if cellSize == total then text
  else if cellSize < total then text ++ List.replicate (total - cellSize).toNat ' '
  else
    let sizes := text.map cw
    let (remaining, excess) := popLoop sizes.reverse (cellSize - total)
    let text' := text.take remaining.length
    if excess == -1 then text' ++ [' '] else text'

end RichModel
