import RichModel.Model.Theme
import RichModel.Gen.PyLower
/-
Model of the part of CPython 3.12 `configparser.ConfigParser` (default arguments: delimiters `=` `:`,
comment prefixes `#` `;`, no inline comments, strict, `BasicInterpolation`, `optionxform = str.lower`)
that `Theme.from_file` exercises: `read_file(f)` followed by `items("styles")`, and of
`Theme.from_file` / `Theme.read` (theme.py:36-68) on top of it.

`configparser` is not part of Rich: this model is an *assumption about the runtime* that is validated by
the correspondence run on every generated config text.  It never defaults: inputs it does not cover
(`%(name)s` references while interpolation is on, option names containing U+03A3 while lower-casing
is on) answer `unmodelled`.  Covered: comments, empty lines inside values, indented continuation lines,
any number of sections, `[DEFAULT]` inheritance into `[styles]`, duplicate sections / options,
lines without delimiter, empty option names.

Two variant flags select the behaviour of `Theme.from_file`'s parser:
* `lower  = true`  : `optionxform = str.lower` (the code as found);  `false`: `optionxform = str`;
* `interp = true`  : `BasicInterpolation` (the code as found);       `false`: `interpolation=None`.
-/
namespace RichModel.Cfg
open RichModel.Theme

/-- `str.isspace()` of a one-character string (CPython 3.12, Unicode 15). -/
def isSpace (c : Char) : Bool :=
  let n := c.toNat
  (9 ≤ n && n ≤ 13) || (28 ≤ n && n ≤ 32) || n = 133 || n = 160 || n = 5760 ||
  (8192 ≤ n && n ≤ 8202) || n = 8232 || n = 8233 || n = 8239 || n = 8287 || n = 12288

def lstrip (s : List Char) : List Char := s.dropWhile isSpace
def rstrip (s : List Char) : List Char := (s.reverse.dropWhile isSpace).reverse
/-- `str.strip()` -/
def strip (s : List Char) : List Char := rstrip (lstrip s)

/-- `str.lower()` restricted to ASCII. -/
def asciiLower (c : Char) : Char :=
  if 65 ≤ c.toNat ∧ c.toNat ≤ 90 then Char.ofNat (c.toNat + 32) else c

def isAscii (c : Char) : Bool := c.toNat < 128

/-- lookup in the generated table (first match; a list, so that the kernel can evaluate it) -/
def lowerLookup : List (Nat × List Nat) → Nat → Option (List Nat)
  | [], _ => none
  | r :: rest, cp => if r.1 = cp then some r.2 else lowerLookup rest cp

/-- `str.lower()` of one character that is not U+03A3: ASCII directly, the rest from the table
translated from the running Python (`Gen.pyLower`; a character may lower to several). -/
def lowerChar (c : Char) : List Char :=
  if c.toNat < 128 then [asciiLower c]
  else
    match lowerLookup Gen.pyLower c.toNat with
    | some r => r.map Char.ofNat
    | none => [c]

/-- `str.lower()`; `none` when the string contains a capital sigma (U+03A3), whose lower-casing
depends on its position in the word in CPython (outside the model). -/
def lowerName (n : Name) : Option Name :=
  if n.any (fun c => c.toNat = 0x3A3) then none else some (n.flatMap lowerChar)

/-- Iterating an `io.StringIO`: lines end at `\n` only.  (The pieces are returned without their
terminator, and a text ending in `\n` yields a final empty piece: an empty line is skipped by
`_read`; when this note was written no modelled input had continuation lines — they are modelled since the
deepening round, and a trailing empty piece adds nothing to a continuation either.) -/
def splitNL : List Char → List (List Char)
  | [] => [[]]
  | c :: cs =>
    if c = '\n' then [] :: splitNL cs
    else
      match splitNL cs with
      | l :: ls => (c :: l) :: ls
      | [] => [[c]]

inductive CfgErr where
  | missingSectionHeader
  | duplicateSection
  | duplicateOption
  | parsing
  | noSection
  | interpolationSyntax
deriving Repr, BEq, DecidableEq

inductive Res (α : Type) where
  | ok (a : α)
  | err (e : CfgErr)
  | unmodelled
deriving Repr, BEq, DecidableEq

/-- value lines of one option (joined with `\n` and right-stripped at the end of `_read`) -/
abbrev Opts := Dict (List (List Char))

/-- Reader state of `RawConfigParser._read`: the sections created so far (`_sections`, and
`_defaults` under the name `DEFAULT`) with their options in file order, `cursect` (by name),
`optname`, `indent_level`, and whether a non-fatal `ParsingError` is pending. -/
structure RS where
  secs : Dict Opts := []
  cur : Option Name := none
  optname : Option Name := none
  indent : Nat := 0
  perr : Bool := false
deriving Repr, BEq, DecidableEq

def defaultSect : Name := ['D', 'E', 'F', 'A', 'U', 'L', 'T']
def stylesSect : Name := ['s', 't', 'y', 'l', 'e', 's']

/-- index of the last `]` -/
def lastClose (s : List Char) : Option Nat :=
  match s.reverse.idxOf? ']' with
  | none => none
  | some i => some (s.length - 1 - i)

/-- `SECTCRE.match(value)`: `\[(?P<header>.+)\]` anchored at the start, greedy. -/
def sectionHeader (v : List Char) : Option (List Char) :=
  match v with
  | '[' :: rest =>
    match lastClose rest with
    | none => none
    | some i => if i = 0 then none else some (rest.take i)
  | _ => none

def isDelim (c : Char) : Bool := c = '=' || c = ':'

/-- `cursect[optname].append(line)` -/
def appendLine (secs : Dict Opts) (s o : Name) (l : List Char) : Dict Opts :=
  match dget secs s with
  | none => secs
  | some opts =>
    match dget opts o with
    | none => secs
    | some ls => dset secs s (dset opts o (ls ++ [l]))

/-- `cursect is not None and optname` (an empty option name is falsy) -/
def openOption (st : RS) : Option (Name × Name) :=
  match st.cur, st.optname with
  | some s, some o => if o.isEmpty then none else some (s, o)
  | _, _ => none

/-- One iteration of the `for lineno, line in enumerate(fp)` loop of `RawConfigParser._read`
(`empty_lines_in_values=True`, no inline comment prefixes, strict). -/
def step (lower : Bool) (st : RS) (line : List Char) : Res RS :=
  let v := strip line
  match v with
  | [] =>                                                    -- empty line: kept as part of the current value
    match openOption st with
    | some (s, o) => .ok { st with secs := appendLine st.secs s o [] }
    | none => .ok st
  | c0 :: _ =>
    if c0 = '#' || c0 = ';' then .ok st                      -- full-line comment (`line.strip().startswith(prefix)`)
    else
      let curIndent := (line.findIdx? (fun c => !isSpace c)).getD 0      -- NONSPACECRE.search(line).start()
      match (match openOption st with | some so => if curIndent > st.indent then some so else none | none => none) with
      | some (s, o) => .ok { st with secs := appendLine st.secs s o v }    -- continuation line
      | none =>
        match sectionHeader v with
        | some h =>
          if h = defaultSect then
            .ok { st with secs := (if (dget st.secs h).isSome then st.secs else dset st.secs h []),
                          cur := some h, optname := none, indent := curIndent }
          else if (dget st.secs h).isSome then .err .duplicateSection
          else .ok { st with secs := dset st.secs h [], cur := some h, optname := none, indent := curIndent }
        | none =>
          match st.cur with
          | none => .err .missingSectionHeader
          | some s =>
            match v.findIdx? isDelim with
            | none => .ok { st with perr := true, indent := curIndent }      -- `_handle_error`, keep going
            | some d =>
              let raw := rstrip (v.take d)
              match (if lower then lowerName raw else some raw) with        -- optionxform
              | none => .unmodelled
              | some name =>
                let opts := (dget st.secs s).getD []
                if (dget opts name).isSome then .err .duplicateOption
                else .ok { st with secs := dset st.secs s (dset opts name [strip (v.drop (d + 1))]),
                                   optname := some name, indent := curIndent, perr := st.perr || raw.isEmpty }

def readLines (lower : Bool) : RS → List (List Char) → Res RS
  | st, [] => .ok st
  | st, l :: ls =>
    match step lower st l with
    | .ok st' => readLines lower st' ls
    | .err e => .err e
    | .unmodelled => .unmodelled

/-- `_join_multiline_values`: `'\n'.join(val).rstrip()` for every option -/
def finishOpts (opts : Opts) : List (Name × List Char) := opts.map (fun p => (p.1, rstrip (joinNL p.2)))

def Res.map {α β : Type} (g : α → β) : Res α → Res β
  | .ok a => .ok (g a)
  | .err e => .err e
  | .unmodelled => .unmodelled

/-- `BasicInterpolation._interpolate_some` as a scanner; `pending` = the previous character was an
unconsumed `%`.  `%%` → `%`; `%(`… is a reference to another option (not modelled); `%` followed by
anything else, or at the end, is `InterpolationSyntaxError`. -/
def interpGo : Bool → List Char → Res (List Char)
  | false, [] => .ok []
  | true, [] => .err .interpolationSyntax
  | false, c :: r => if c = '%' then interpGo true r else (interpGo false r).map (c :: ·)
  | true, c :: r =>
    if c = '%' then (interpGo false r).map ('%' :: ·)
    else if c = '(' then .unmodelled
    else .err .interpolationSyntax

/-- `BasicInterpolation.before_get` on one value. -/
def interpolate (v : List Char) : Res (List Char) := interpGo false v

def interpItems : List (Name × List Char) → Res (List (Name × List Char))
  | [] => .ok []
  | (n, v) :: r =>
    match interpolate v with
    | .err e => .err e
    | .unmodelled => .unmodelled
    | .ok v' =>
      match interpItems r with
      | .ok r' => .ok ((n, v') :: r')
      | e => e

/-- `config.read_file(f); config.items("styles")`: the options of `[DEFAULT]` overridden by those of
`[styles]` (`d = self._defaults.copy(); d.update(self._sections[section])`). -/
def cfgItems (lower interp : Bool) (text : List Char) : Res (List (Name × List Char)) :=
  match readLines lower {} (splitNL text) with
  | .err e => .err e
  | .unmodelled => .unmodelled
  | .ok st =>
    if st.perr then .err .parsing
    else
      match dget st.secs stylesSect with
      | none => .err .noSection
      | some sopts =>
        let d := dupdate (finishOpts ((dget st.secs defaultSect).getD [])) (finishOpts sopts)
        if interp then interpItems d else .ok d

/-- text-mode `open(path, "rt")`: universal newlines (`\r\n` and a lone `\r` become `\n`).
`prevCR`: the previous character was a `\r` (already translated). -/
def universalNL : Bool → List Char → List Char
  | _, [] => []
  | prevCR, c :: r =>
    if c = '\r' then '\n' :: universalNL true r
    else if c = '\n' then (if prevCR then universalNL false r else '\n' :: universalNL false r)
    else c :: universalNL false r

/-! ## the domain of the config round trip (used by the theorems and, through the driver, by the harness) -/

/-- non-empty, and neither the first nor the last character is whitespace (so `strip` is the identity). -/
def noSpaceEnds (s : List Char) : Bool :=
  match s with
  | [] => false
  | c :: _ => !isSpace c && (match s.reverse with | d :: _ => !isSpace d | [] => false)

/-- Option names a config file can carry: non-empty, `strip()`-stable, without newline or delimiter,
not starting a comment or a section header; and, while the parser lower-cases names, unchanged by
`str.lower()` (and free of U+03A3, whose lower-casing is outside the model). -/
def safeName (lower : Bool) (n : Name) : Bool :=
  noSpaceEnds n && n.all (fun c => c != '\n' && !isDelim c) &&
  (match n with | c :: _ => c != '#' && c != ';' && c != '[' | [] => false) &&
  (!lower || lowerName n == some n)

/-- Values: non-empty, `strip()`-stable, one line; and, while the parser interpolates, without `%`. -/
def safeValue (interp : Bool) (v : List Char) : Bool :=
  noSpaceEnds v && v.all (fun c => c != '\n') && (!interp || v.all (fun c => c != '%'))

/-! ## `Theme.from_file` -/

inductive FErr where
  | cfg (e : CfgErr)
  | parse (e : PErr)
deriving Repr, BEq, DecidableEq

inductive FRes (α : Type) where
  | ok (a : α)
  | err (e : FErr)
  | unmodelled
deriving Repr, BEq, DecidableEq

variable {σ : Type}

/-- `Theme.from_file(config_file, inherit=…)` (theme.py:36-54) over an arbitrary reader `read`
standing for `config.read_file(f); config.items("styles")`. -/
def fromFileWith (read : List Char → Res (List (Name × List Char))) (defaults : Dict σ) (parse : Parse σ)
    (text : List Char) (inherit : Bool) : FRes (Theme σ) :=
  match read text with
  | .err e => .err (.cfg e)
  | .unmodelled => .unmodelled
  | .ok items =>
    -- styles = {name: Style.parse(value) for name, value in config.items("styles")}
    match evalItems parse (items.map (fun p => (p.1, SV.str p.2))) with
    | .error e => .err (.parse e)
    | .ok parsed =>
      let styles : Dict σ := dupdate [] parsed
      -- theme = Theme(styles, inherit=inherit)
      match Theme.new defaults parse (some (styles.map (fun p => (p.1, SV.style p.2)))) inherit with
      | .error e => .err (.parse e)
      | .ok t => .ok t

/-- `Theme.from_file` with the modelled `configparser`. -/
def fromFile (defaults : Dict σ) (parse : Parse σ) (lower interp : Bool) (text : List Char)
    (inherit : Bool) : FRes (Theme σ) :=
  fromFileWith (cfgItems lower interp) defaults parse text inherit

/-- `Theme.read(path, inherit=…)` (theme.py:56-68): the file is opened in text mode (universal
newlines; the bytes are assumed to decode to `fileText` — no BOM handling, no `encoding` argument). -/
def readPath (defaults : Dict σ) (parse : Parse σ) (lower interp : Bool) (fileText : List Char)
    (inherit : Bool) : FRes (Theme σ) :=
  fromFile defaults parse lower interp (universalNL false fileText) inherit

end RichModel.Cfg
