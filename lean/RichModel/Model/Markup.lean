/-
Model of rich/markup.py (RE_TAGS tokenizer, `escape`, `_parse`, `Tag`, `render`) and of
rich/_emoji_replace.py, with the pieces of rich/text.py that `render` goes through
(`Text.__init__`, `Text.append`, `strip_control_codes`, the `spans` setter).

Python `str` = `List Char` (code points).  Nothing here imports anything: the driver links it.

Parameters (opaque to the model, see `Cfg`):
* `norm`     — `Style.normalize` (rich/style.py:320), applied to tag names only;
* `emoji`    — `none` for `emoji=False`, `some lookup` for `emoji=True` where
               `lookup name = EMOJI.get(name.lower())`;
* `isSpace`  — `str.isspace` / regex `\s` of the running Python;
* `sortSpans`— CODE VARIANT FLAG.  `true` = the `text.spans = sorted(spans)` of rich 9.10.0 as found (pre-finding F8);
               `false` = the repaired code (fix 623ba68, what /repo contains now), which keeps one span slot per opening tag, in opening order.
-/
namespace RichModel.Markup

/-! ## The tokenizer for `((\\*)\[([a-z#\/].*?)\])`  (markup.py:10-13) -/

/-- the character class `[a-z#\/]` -/
def isTagStart (c : Char) : Bool :=
  (97 ≤ c.toNat && c.toNat ≤ 122) || c == '#' || c == '/'

/-- `.*?\]` after the first body character: lazily up to the first `]`; `.` does not match a
line feed (no DOTALL flag).  Returns (what `.*?` matched, the rest after `]`). -/
def untilClose : List Char → Option (List Char × List Char)
  | [] => none
  | c :: cs =>
    if c = ']' then some ([], cs)
    else if c = '\n' then none
    else match untilClose cs with
      | some (b, r) => some (c :: b, r)
      | none => none

/-- `([a-z#\/].*?)\]` tried right after a `[`: (group 3 = tag text, rest after the `]`). -/
def tagBody : List Char → Option (List Char × List Char)
  | [] => none
  | c :: cs =>
    if isTagStart c then
      match untilClose cs with
      | some (b, r) => some (c :: b, r)
      | none => none
    else none

/-- What `RE_TAGS.finditer` sees, character by character: a character outside every match, or one
match with `k = len(group 2)` backslashes and `body = group 3`. -/
inductive Lx where
  | ch (c : Char)
  | tag (k : Nat) (body : List Char)
deriving Repr, DecidableEq

def bsl (k : Nat) : List Char := List.replicate k '\\'

/-- Left-to-right scan.  `skip` = characters of an already reported match still to step over,
`k` = length of the backslash run immediately to the left (greedy `\\*`: a match can only begin at
the first backslash of the maximal run in front of its `[`). -/
def lexGo : Nat → Nat → List Char → List Lx
  | _, k, [] => List.replicate k (Lx.ch '\\')
  | skip + 1, k, _ :: cs => lexGo skip k cs
  | 0, k, c :: cs =>
    if c = '\\' then lexGo 0 (k + 1) cs
    else if c = '[' then
      match tagBody cs with
      | some (body, _) => Lx.tag k body :: lexGo (body.length + 1) 0 cs
      | none => List.replicate k (Lx.ch '\\') ++ Lx.ch '[' :: lexGo 0 0 cs
    else List.replicate k (Lx.ch '\\') ++ Lx.ch c :: lexGo 0 0 cs

def lex (s : List Char) : List Lx := lexGo 0 0 s

/-- the source text of one item -/
def Lx.flat : Lx → List Char
  | .ch c => [c]
  | .tag k body => bsl k ++ '[' :: body ++ [']']

def flatten (l : List Lx) : List Char := l.flatMap Lx.flat

/-! ## `escape`  (markup.py:39-55)

`re.sub` with `(\\*)(\[[a-z#\/].*?\])` — the same matches as `RE_TAGS` — copies the text between
matches and replaces each match by `backslashes + backslashes + "\\" + text`. -/

def Lx.esc : Lx → List Char
  | .ch c => [c]
  | .tag k body => bsl k ++ bsl k ++ '\\' :: '[' :: body ++ [']']

def escape (s : List Char) : List Char := (lex s).flatMap Lx.esc

/-! ## `_parse`  (markup.py:58-88) -/

structure Tag where
  name : List Char
  params : Option (List Char)
deriving Repr, DecidableEq

/-- `Tag.__str__` -/
def Tag.str (t : Tag) : List Char :=
  match t.params with
  | none => t.name
  | some p => t.name ++ ' ' :: p

/-- `Tag.markup` -/
def Tag.markup (t : Tag) : List Char :=
  match t.params with
  | none => '[' :: t.name ++ [']']
  | some p => '[' :: t.name ++ '=' :: p ++ [']']

/-- one `(position, text, tag)` tuple yielded by `_parse` -/
inductive PEv where
  | text (pos : Nat) (s : List Char)
  | tag (pos : Nat) (t : Tag)
deriving Repr, DecidableEq

/-- `text, equals, parameters = tag_text.partition("=")`: (text, parameters if equals else None) -/
def splitEq : List Char → List Char × Option (List Char)
  | [] => ([], none)
  | c :: cs =>
    if c = '=' then ([], some cs)
    else match splitEq cs with
      | (n, p) => (c :: n, p)

/-- `_Tag(text, parameters if equals else None)` (markup.py:84-85). -/
def mkTag (body : List Char) : Tag :=
  match splitEq body with
  | (n, p) => { name := n, params := p }

/-- What one match yields (markup.py:73-86), `start` = `match.start()`. -/
def tagYield (start k : Nat) (body : List Char) : List PEv :=
  if k = 0 then [PEv.tag start (mkTag body)]
  else
    let b := k / 2
    let l1 := if b = 0 then [] else [PEv.text start (bsl b)]
    let start' := if b = 0 then start else start + b * 2
    if k % 2 = 1 then l1 ++ [PEv.text start' ('[' :: body ++ [']'])]
    else l1 ++ [PEv.tag start' (mkTag body)]

/-- `off` = offset of the next item in the markup, `acc` = `markup[position:off]`. -/
def parseGo : Nat → List Char → List Lx → List PEv
  | off, acc, [] => if acc = [] then [] else [PEv.text (off - acc.length) acc]
  | off, acc, Lx.ch c :: r => parseGo (off + 1) (acc ++ [c]) r
  | off, acc, Lx.tag k body :: r =>
    (if acc = [] then [] else [PEv.text off acc]) ++ tagYield off k body ++
      parseGo (off + k + body.length + 2) [] r

def parse (s : List Char) : List PEv := parseGo 0 [] (lex s)

/-! ## `strip_control_codes`, `str.strip`, `_emoji_replace` -/

/-- rich/control.py `STRIP_CONTROL_CODES` = 8, 11, 12, 13 -/
def isStripped (c : Char) : Bool :=
  c.toNat == 8 || c.toNat == 11 || c.toNat == 12 || c.toNat == 13

def stripControl (s : List Char) : List Char := s.filter (fun c => !isStripped c)

/-- `str.isspace` / regex `\s` of CPython 3.12 (validated on every code point by the harness). -/
def pyIsSpace (c : Char) : Bool :=
  let n := c.toNat
  (9 ≤ n && n ≤ 13) || (28 ≤ n && n ≤ 32) || n == 133 || n == 160 || n == 5760 ||
  (8192 ≤ n && n ≤ 8202) || n == 8232 || n == 8233 || n == 8239 || n == 8287 || n == 12288

def pyStrip (isSpace : Char → Bool) (s : List Char) : List Char :=
  ((s.dropWhile isSpace).reverse.dropWhile isSpace).reverse

/-- `(\S*?):` tried right after a `:` — the name up to the next `:`, provided no white space comes
first.  Returns (name, rest after the closing colon). -/
def emojiName (isSpace : Char → Bool) : List Char → Option (List Char × List Char)
  | [] => none
  | c :: cs =>
    if c = ':' then some ([], cs)
    else if isSpace c then none
    else match emojiName isSpace cs with
      | some (n, r) => some (c :: n, r)
      | none => none

/-- `_emoji_replace` (`re.sub` with `(:(\S*?):)`); `lookup name = EMOJI.get(name.lower())`. -/
def emojiGo (isSpace : Char → Bool) (lookup : List Char → Option (List Char)) :
    Nat → List Char → List Char
  | _, [] => []
  | skip + 1, _ :: cs => emojiGo isSpace lookup skip cs
  | 0, c :: cs =>
    if c = ':' then
      match emojiName isSpace cs with
      | some (n, _) =>
        (match lookup n with
          | some e => e
          | none => ':' :: n ++ [':']) ++ emojiGo isSpace lookup (n.length + 1) cs
      | none => c :: emojiGo isSpace lookup 0 cs
    else c :: emojiGo isSpace lookup 0 cs

def emojiReplace (isSpace : Char → Bool) (lookup : List Char → Option (List Char)) (s : List Char) :
    List Char := emojiGo isSpace lookup 0 s

/-! ## `render`  (markup.py:91-160) -/

structure Span where
  start : Nat
  stop : Nat
  style : List Char
deriving Repr, DecidableEq

inductive MErr where
  /-- "closing tag '{tag.markup}' at position {position} doesn't match any open tag" -/
  | noMatch (pos : Nat) (markup : List Char)
  /-- "closing tag '[/]' at position {position} has nothing to close" -/
  | nothingToClose (pos : Nat)
deriving Repr, DecidableEq

structure Cfg where
  norm : List Char → List Char
  emoji : Option (List Char → Option (List Char))
  isSpace : Char → Bool
  sortSpans : Bool

/-- an entry of `style_stack`: (number of tags opened before this one, `len(text)` when it was
opened, the normalized tag).  rich 9.10.0 as found kept only the last two components; since fix 623ba68 the code in
/repo keeps all three (`(len(spans), len(text), normalized_tag)`). -/
structure Ent where
  idx : Nat
  start : Nat
  tag : Tag
deriving Repr, DecidableEq

structure St where
  text : List Char
  /-- `style_stack`, head = top -/
  stack : List Ent
  /-- `spans` of the as-found code (`sortSpans = true`): in closing order -/
  closed : List Span
  /-- `spans` of the repaired code: one slot per opening tag, filled when the tag is closed -/
  slots : List (Option Span)
deriving Repr, DecidableEq

def St.init : St := { text := [], stack := [], closed := [], slots := [] }

/-- `pop_style(style_name)`: remove the most recent entry whose tag name is `name`. -/
def popByName (name : List Char) : List Ent → Option (Ent × List Ent)
  | [] => none
  | e :: es =>
    if e.tag.name = name then some (e, es)
    else match popByName name es with
      | some (x, es') => some (x, e :: es')
      | none => none

/-- `append_span(_Span(start, len(text), str(open_tag)))` after a pop. -/
def St.close (st : St) (e : Ent) (stack' : List Ent) : St :=
  let sp : Span := { start := e.start, stop := st.text.length, style := e.tag.str }
  { st with stack := stack', closed := st.closed ++ [sp], slots := st.slots.set e.idx (some sp) }

/-- `text.append(emoji_replace(plain_text) if emoji else plain_text)` — `Text.append` strips the
control codes and grows `_length` by the stripped length. -/
def chunkText (cfg : Cfg) (s : List Char) : List Char :=
  stripControl (match cfg.emoji with
    | some lookup => emojiReplace cfg.isSpace lookup s
    | none => s)

/-- one iteration of `for position, plain_text, tag in _parse(markup)` -/
def step (cfg : Cfg) (st : St) : PEv → Except MErr St
  | .text _ s => .ok { st with text := st.text ++ chunkText cfg s }
  | .tag pos t =>
    if t.name.head? = some '/' then
      let sn := pyStrip cfg.isSpace t.name.tail
      if sn ≠ [] then
        match popByName (cfg.norm sn) st.stack with
        | some (e, stack') => .ok (st.close e stack')
        | none => .error (.noMatch pos t.markup)
      else
        match st.stack with
        | e :: stack' => .ok (st.close e stack')
        | [] => .error (.nothingToClose pos)
    else
      .ok { st with
        stack := { idx := st.slots.length, start := st.text.length,
                   tag := { name := cfg.norm t.name, params := t.params } } :: st.stack,
        slots := st.slots ++ [none] }

def run (cfg : Cfg) : St → List PEv → Except MErr St
  | st, [] => .ok st
  | st, e :: es =>
    match step cfg st e with
    | .ok st' => run cfg st' es
    | .error err => .error err

/-- `while style_stack: start, tag = style_stack.pop(); append_span(...)` -/
def drain : St → St
  | st => st.stack.foldl (fun (s : St) e => { s with
      closed := s.closed ++ [{ start := e.start, stop := st.text.length, style := e.tag.str }],
      slots := s.slots.set e.idx (some { start := e.start, stop := st.text.length, style := e.tag.str }) })
      { st with stack := [] }

/-- Python `<` on `str` (code-point lexicographic). -/
def strLt : List Char → List Char → Bool
  | [], [] => false
  | [], _ :: _ => true
  | _ :: _, [] => false
  | a :: as, b :: bs => if a.toNat < b.toNat then true else if b.toNat < a.toNat then false else strLt as bs

/-- Python `<` on `Span` (a NamedTuple: compares start, then end, then the style string). -/
def Span.lt (a b : Span) : Bool :=
  if a.start < b.start then true else if b.start < a.start then false
  else if a.stop < b.stop then true else if b.stop < a.stop then false
  else strLt a.style b.style

/-- `sorted(spans)`: stable insertion sort under `Span.lt` -/
def sortedSpans (l : List Span) : List Span :=
  l.foldl (fun acc x => insertAfterLe x acc) []
where
  insertAfterLe (x : Span) : List Span → List Span
    | [] => [x]
    | y :: ys => if Span.lt x y then x :: y :: ys else y :: insertAfterLe x ys

/-- the `Text` that `render` returns, as (plain, spans). -/
abbrev Rendered := List Char × List Span

def finish (cfg : Cfg) (st : St) : Rendered :=
  let st' := drain st
  (st'.text, if cfg.sortSpans then sortedSpans st'.closed else st'.slots.filterMap id)

def render (cfg : Cfg) (markup : List Char) : Except MErr Rendered :=
  if !markup.contains '[' then
    .ok (chunkText cfg markup, [])
  else
    match run cfg St.init (parse markup) with
    | .ok st => .ok (finish cfg st)
    | .error e => .error e

/-! ## Reference semantics: what a span list means (rich/text.py `Text.render`)

The style in force at character `i` is the combination, in list order (later wins), of the styles
of the spans that cover `i`. -/

def Span.covers (sp : Span) (i : Nat) : Bool := sp.start ≤ i && i < sp.stop

def effStyles (spans : List Span) (i : Nat) : List (List Char) :=
  (spans.filter (·.covers i)).map (·.style)

/-! ## Reference semantics of console markup (specification level, emoji off)

Independent of positions, chunking, stacks of offsets and span lists: the text is a sequence of
characters and tags; a character is annotated with the tags open when it is met, in opening order. -/

/-- what the tokenizer's items mean: literal characters and tags -/
inductive Ev where
  | chr (c : Char)
  | tag (t : Tag)
deriving Repr, DecidableEq

/-- `k` backslashes in front of `[body]`: `k / 2` literal backslashes, then the literal text
`[body]` when `k` is odd, the tag when `k` is even. -/
def Lx.evs : Lx → List Ev
  | .ch c => [Ev.chr c]
  | .tag k b =>
    (bsl (k / 2)).map Ev.chr ++
      (if k % 2 = 1 then ('[' :: b ++ [']']).map Ev.chr else [Ev.tag (mkTag b)])

def events (s : List Char) : List Ev := (lex s).flatMap Lx.evs

/-- an open tag: its normalized name (what a closing tag is compared with) and the style it applies -/
structure OTag where
  name : List Char
  style : List Char
deriving Repr, DecidableEq

inductive TagKind where
  | opening (o : OTag)
  | closeName (n : List Char)
  | closeTop
deriving Repr, DecidableEq

def classify (cfg : Cfg) (t : Tag) : TagKind :=
  if t.name.head? = some '/' then
    let sn := pyStrip cfg.isSpace t.name.tail
    if sn ≠ [] then .closeName (cfg.norm sn) else .closeTop
  else .opening { name := cfg.norm t.name, style := ({ name := cfg.norm t.name, params := t.params } : Tag).str }

/-- close the most recent open tag of that name (`op` lists the most recent first) -/
def closeRecent (name : List Char) : List OTag → Option (List OTag)
  | [] => none
  | o :: os =>
    if o.name = name then some os
    else match closeRecent name os with
      | some os' => some (o :: os')
      | none => none

/-- the characters of the rendered text, each with the styles of the tags open there in opening
order; `none` = a closing tag had nothing to close.  `op` = open tags, most recent first. -/
def sem (cfg : Cfg) : List OTag → List Ev → Option (List (Char × List (List Char)))
  | _, [] => some []
  | op, .chr c :: r =>
    if isStripped c then sem cfg op r
    else match sem cfg op r with
      | some a => some ((c, op.reverse.map (·.style)) :: a)
      | none => none
  | op, .tag t :: r =>
    match classify cfg t with
    | .opening o => sem cfg (o :: op) r
    | .closeName n =>
      (match closeRecent n op with
        | some op' => sem cfg op' r
        | none => none)
    | .closeTop =>
      (match op with
        | _ :: op' => sem cfg op' r
        | [] => none)

/-- the render loop fed with events instead of `_parse` tuples (no positions, one character at a time) -/
def stepEv (cfg : Cfg) (st : St) : Ev → Option St
  | .chr c => some { st with text := st.text ++ stripControl [c] }
  | .tag t => (step cfg st (.tag 0 t)).toOption

def runEv (cfg : Cfg) : St → List Ev → Option St
  | st, [] => some st
  | st, e :: es =>
    match stepEv cfg st e with
    | some st' => runEv cfg st' es
    | none => none

/-! ## Chunk-level reference semantics (emoji on or off)

`_parse` hands `render` the text in chunks (the text between two matches, a run of literal
backslashes, an escaped `[tag]`), and `render` passes every chunk through `_emoji_replace` (when
emoji is on) and `strip_control_codes` separately.  Position-free description of that chunking. -/

inductive CEv where
  | txt (s : List Char)
  | tag (t : Tag)
deriving Repr, DecidableEq

def PEv.toC : PEv → CEv
  | .text _ s => .txt s
  | .tag _ t => .tag t

def flushC (acc : List Char) : List CEv := if acc = [] then [] else [CEv.txt acc]

/-- the chunks one match yields (`tagYield` without positions) -/
def tagChunks (k : Nat) (body : List Char) : List CEv :=
  if k = 0 then [CEv.tag (mkTag body)]
  else
    (if k / 2 = 0 then [] else [CEv.txt (bsl (k / 2))]) ++
      (if k % 2 = 1 then [CEv.txt ('[' :: body ++ [']'])] else [CEv.tag (mkTag body)])

/-- chunker with the pending plain text made explicit: (chunks emitted, text still pending) -/
def chunkSt : List Char → List Lx → List CEv × List Char
  | acc, [] => ([], acc)
  | acc, Lx.ch c :: r => chunkSt (acc ++ [c]) r
  | acc, Lx.tag k body :: r =>
    match chunkSt [] r with
    | (e, a) => (flushC acc ++ tagChunks k body ++ e, a)

def chunkGo (acc : List Char) (l : List Lx) : List CEv :=
  (chunkSt acc l).1 ++ flushC (chunkSt acc l).2

/-- the chunks of a markup string: `[(text, tag) for _, text, tag in _parse(markup)]` -/
def chunks (s : List Char) : List CEv := chunkGo [] (lex s)

def CEv.text : CEv → List Char
  | .txt s => s
  | .tag _ => []

def CEv.isTxt : CEv → Bool
  | .txt _ => true
  | .tag _ => false

/-- forgetting the chunk boundaries: the events of the chunk -/
def CEv.evs : CEv → List Ev
  | .txt s => s.map Ev.chr
  | .tag t => [Ev.tag t]

/-- the characters of the rendered text (each chunk replaced and stripped on its own), each with
the styles of the tags open there in opening order — offsets are those of the *replaced* text;
`none` = a closing tag had nothing to close. -/
def semC (cfg : Cfg) : List OTag → List CEv → Option (List (Char × List (List Char)))
  | _, [] => some []
  | op, .txt s :: r =>
    match semC cfg op r with
    | some a => some ((chunkText cfg s).map (fun c => (c, op.reverse.map (·.style))) ++ a)
    | none => none
  | op, .tag t :: r =>
    match classify cfg t with
    | .opening o => semC cfg (o :: op) r
    | .closeName n =>
      (match closeRecent n op with
        | some op' => semC cfg op' r
        | none => none)
    | .closeTop =>
      (match op with
        | _ :: op' => semC cfg op' r
        | [] => none)

/-- the render loop fed with chunks (no positions) -/
def stepC (cfg : Cfg) (st : St) : CEv → Option St
  | .txt s => some { st with text := st.text ++ chunkText cfg s }
  | .tag t => (step cfg st (.tag 0 t)).toOption

def runC (cfg : Cfg) : St → List CEv → Option St
  | st, [] => some st
  | st, e :: es =>
    match stepC cfg st e with
    | some st' => runC cfg st' es
    | none => none

/-- no `:name:` with `name` in the emoji table anywhere in the text (between any two colons) -/
def NoEmojiCode (lookup : List Char → Option (List Char)) (s : List Char) : Prop :=
  ∀ pre name post, s = pre ++ ':' :: (name ++ ':' :: post) → lookup name = none

/-! ## Glue: `Console.render_str`, `Console.print` of strings (highlighting off)

console.py `render_str` decides from its arguments and the console's defaults whether markup is
interpreted and whether emoji codes are replaced. -/

/-- `x or (x is None and self._x)` -/
def triFlag (arg : Option Bool) (dflt : Bool) : Bool :=
  match arg with
  | some b => b
  | none => dflt

structure ConsoleFlags where
  /-- `Console(emoji=…)` -/
  emoji : Bool
  /-- `Console(markup=…)` -/
  markup : Bool

/-- `Console.render_str(text, emoji=…, markup=…)` with no highlighter: (plain, spans) of the `Text`.
`cfg.emoji` here is the emoji table itself (`some lookup`); whether it is used is decided here. -/
def renderStr (cfg : Cfg) (con : ConsoleFlags) (emoji markup : Option Bool) (text : List Char) :
    Except MErr Rendered :=
  let cfg' : Cfg := { cfg with emoji := if triFlag emoji con.emoji then cfg.emoji else none }
  if triFlag markup con.markup then render cfg' text
  else .ok (chunkText cfg' text, [])

/-- `Text(sep, …).join(texts)` as `Console._collect_renderables` uses it for the strings of one
`print` call: every joined `Text` has `style == ""` (not `None`), so `join` adds a span with the
empty style over each piece — the separator included — in front of the piece's own spans. -/
def joinRendered (sep : List Char) : Nat → Bool → List Rendered → Rendered
  | _, _, [] => ([], [])
  | off, first, (p, sp) :: rest =>
    let sepS := stripControl sep
    let pre : Rendered := if first || sepS = [] then ([], []) else (sepS, [{ start := off, stop := off + sepS.length, style := [] }])
    let off' := off + pre.1.length
    let here : List Span := { start := off', stop := off' + p.length, style := [] } ::
      sp.map (fun s => { start := off' + s.start, stop := off' + s.stop, style := s.style })
    match joinRendered sep (off' + p.length) false rest with
    | (p2, sp2) => (pre.1 ++ p ++ p2, pre.2 ++ here ++ sp2)

/-- `Console.print(*strings, sep=…, emoji=…, markup=…)` up to the `Text` it hands to the renderer
(`_collect_renderables`, highlighting off, no console style). -/
def printStrs (cfg : Cfg) (con : ConsoleFlags) (emoji markup : Option Bool) (sep : List Char)
    (objs : List (List Char)) : Except MErr Rendered :=
  match objs.mapM (renderStr cfg con emoji markup) with
  | .ok ts => .ok (joinRendered sep 0 true ts)
  | .error e => .error e

/-- message of the `MarkupError` -/
def MErr.message : MErr → String
  | .noMatch pos m => "closing tag '" ++ String.ofList m ++ "' at position " ++ toString pos ++ " doesn't match any open tag"
  | .nothingToClose pos => "closing tag '[/]' at position " ++ toString pos ++ " has nothing to close"

end RichModel.Markup
