import RichModel.Model.Style
import RichModel.Model.Color
import RichModel.Gen.SgrMap
import RichModel.Gen.PyDigits
import RichModel.Gen.TextTables
/-!
Executable model for property C19 (rich/ansi.py, rich/file_proxy.py, and the truecolor half of
rich/style.py `Style.render` / `_make_ansi_codes` that the round trip needs).

* `_ansi_tokenize`           rich/ansi.py:21-44    → `tokenize` (`re_ansi` leftmost / lazy, `re_csi` removal)
* `SGR_STYLE_MAP`            rich/ansi.py:47-105   → `Gen.sgrStyleMap` (translated on every run), `sgrLookup`
* `AnsiDecoder.decode_line`  rich/ansi.py:126-198  → `decodeTok`, `decodeToks`, `decodeLine`
* `AnsiDecoder.decode`       rich/ansi.py:114-124  → `splitlines`, `decode`
* `Style._make_ansi_codes`   rich/style.py:276-316 → `attrCodes`, `makeAnsiCodes` (colour system TRUECOLOR)
* `Style.render`             rich/style.py:609-633 → `renderSeg`     (legacy_windows = False)
* `Console._render_buffer`   rich/console.py:1402  → `encodeSegs`    (terminal, truecolor, no_color = False)
* `FileProxy.write / flush`  rich/file_proxy.py    → `Proxy.write`, `Proxy.flush`, `run`

Import-free apart from `RichModel.Model.*` / `RichModel.Gen.*`.  Python `str` = `List Char`.

Runtime facts that enter as generated tables (harness/gen/sgr_map.py, from the running Python):
`str.isdigit` (`Gen.pyDigitRanges`), the digits `int()` accepts (`Gen.pyDecimalRuns`) and
`sys.get_int_max_str_digits()` (`Gen.pyMaxStrDigits`).  `str.splitlines` separators are written out in
`isLineSep` and validated against the running Python over all code points by the harness.

Not modelled: `Style._ansi` (the per-object cache of `_make_ansi_codes`; in rich 9.10.0 as found it was keyed without
the colour system — C03's finding F7, repaired by fix c9ec5a8: the cache now remembers the colour system it was computed
for, so it is transparent for the truecolor encoder modelled here whatever rendered the style before; C19's harness
exercises this by interleaving colour systems on shared `Style` objects before the truecolor render, C03 models the cache),
`_link_id` generation (the id is a parameter of each segment), `functools.lru_cache` on `Style.parse`.
-/
namespace RichModel
namespace Ansi
open AsciiStr

/-- Which variant of the code is modelled (`true` = rich 9.10.0 as found, `false` = repaired). -/
structure Cfg where
  /-- F10: `int(_code)` for a code that passes `str.isdigit()` but that `int()` rejects (`"²"`, or more
  digits than `sys.get_int_max_str_digits()`) raises `ValueError` out of `decode_line`;
  repaired: such a code is skipped like every other invalid code. -/
  intRaises : Bool
  /-- F20: `FileProxy.flush` hands the pending text to `console.print(str)` — markup, emoji and
  highlighting on, no ANSI decoding; repaired: decoded and printed exactly like `write` does. -/
  flushRaw : Bool
  /-- F27: an omitted SGR parameter is dropped, so `ESC [ m` (ECMA-48: the same as `ESC [ 0 m`) does nothing and
  `ESC [ ; 1 m` does not reset; repaired: an omitted parameter stands for 0 (ECMA-48 5.4.2). -/
  emptyIgnored : Bool
  /-- F28: SGR 0 replaces the running style by the null style, dropping the OSC 8 hyperlink with it (SGR does
  not govern hyperlinks: text after a reset inside a link is still linked on a terminal); repaired: the link is kept. -/
  resetDropsLink : Bool
  /-- F29: 24 / 25 read "not underline" / "not blink" only, leaving the double underline (21) / rapid blink (6)
  on, where ECMA-48 says "not underlined (neither singly nor doubly)" / "steady"; repaired: both are cleared. -/
  offSingle : Bool
  /-- F31: `line.rsplit("\r", 1)[-1]` keeps what follows the LAST carriage return, so a line that ENDS in CR — every
  line of CR LF terminated output — decodes to nothing; repaired: trailing CRs are stripped first
  (`line.rstrip("\r").rsplit("\r", 1)[-1]`). -/
  crErases : Bool
  /-- F32: the first alternative of `re_ansi` is `\x1b\[(.*?)m`: ANY `ESC [` is taken for the start of an SGR sequence
  reaching to the next `m`, so a CSI sequence with another final byte (`ESC[?25l`, `ESC[2K`, `ESC[1A`) swallows the text
  that follows it up to the next letter m; repaired: `\x1b\[([0-9;:]*)m` — other CSI sequences stay in the text, where
  `re_csi` removes them. -/
  sgrLazy : Bool
  /-- F33: the second alternative of `re_ansi` ends an OSC string at `ESC \\` only; the BEL-terminated form — the one most
  programs write (`ESC ] 8 ; ; url BEL` of `ls --hyperlink`, gcc, systemd; `ESC ] 0 ; title BEL`) — is not recognised: the
  hyperlink is lost and `8;;url` / `0;title` is printed as text; repaired: `(?:\x1b\\|\x07)`. -/
  oscStOnly : Bool
deriving Repr, DecidableEq

def Cfg.old : Cfg := ⟨true, true, true, true, true, true, true, true⟩
def Cfg.repaired : Cfg := ⟨false, false, false, false, false, false, false, false⟩

/-- The variant of the Style model (C06) the decoder's style operations are taken at: the repaired one.  Only the
five compared fields of a style and `_null` are observed here; on the decoder's inputs (table entries without `rgb(…)`
or links, `from_color`, `update_link` with a non-empty link or `None`) no flag of `StyleVariant` changes them — the
correspondence compares exactly those fields on every run. -/
abbrev Cfg.sv (_ : Cfg) : StyleVariant := StyleVariant.fixed

def ESC : Char := Char.ofNat 27
def BEL : Char := Char.ofNat 7

/-! ## Python `str` facts -/

def inRanges (rs : List (Nat × Nat)) (n : Nat) : Bool := rs.any fun r => r.1 ≤ n && n ≤ r.2

/-- one character of `str.isdigit()` -/
def pyIsDigit (c : Char) : Bool := inRanges Gen.pyDigitRanges c.toNat

/-- the value `int()` gives the character, `none` = not accepted -/
def pyDecimal (c : Char) : Option Nat :=
  (Gen.pyDecimalRuns.find? fun r => r.1 ≤ c.toNat && c.toNat ≤ r.2.1).map fun r => r.2.2 + (c.toNat - r.1)

/-- `s.isdigit()`: non-empty and every character is a digit. -/
def strIsDigit (s : List Char) : Bool := !s.isEmpty && s.all pyIsDigit

/-- one step of reading a decimal string left to right -/
def intStep (acc : Option Nat) (c : Char) : Option Nat :=
  match acc, pyDecimal c with
  | some a, some d => some (10 * a + d)
  | _, _ => none

/-- `int(s)` for a string with `s.isdigit()` (no sign, no blank, no underscore can occur):
`none` = `ValueError`. -/
def pyIntDigits (s : List Char) : Option Nat :=
  if Gen.pyMaxStrDigits ≠ 0 ∧ Gen.pyMaxStrDigits < s.length then none
  else s.foldl intStep (some 0)

/-- `str(n)` -/
def natStr (n : Nat) : List Char := Nat.toDigits 10 n

/-- loop of `s.split(sep)` for a one-character separator -/
def splitOnAux (sep : Char) : List Char → List Char → List (List Char)
  | [], cur => [cur]
  | c :: r, cur => if c = sep then cur :: splitOnAux sep r [] else splitOnAux sep r (cur ++ [c])

/-- `s.split(sep)` -/
def splitOn (sep : Char) (s : List Char) : List (List Char) := splitOnAux sep s []

/-- `sep.join(parts)` -/
def joinWith (sep : Char) : List (List Char) → List Char
  | [] => []
  | [w] => w
  | w :: rest => w ++ sep :: joinWith sep rest

/-- `s.partition(sep)`: (before, separator found, after). -/
def partitionAt (sep : Char) : List Char → List Char × Bool × List Char
  | [] => ([], false, [])
  | c :: r =>
    if c = sep then ([], true, r)
    else
      let p := partitionAt sep r
      (c :: p.1, p.2.1, p.2.2)

/-- `line.rsplit("\r", 1)[-1]`: what follows the last carriage return. -/
def afterLastCRAsFound (s : List Char) : List Char :=
  s.foldl (fun acc c => if c = '\r' then [] else acc ++ [c]) []

/-- `line.rstrip("\r")` -/
def rstripCR (s : List Char) : List Char := (s.reverse.dropWhile (· = '\r')).reverse

/-- the line `decode_line` goes on with: as found `line.rsplit("\r", 1)[-1]`, repaired (F31)
`line.rstrip("\r").rsplit("\r", 1)[-1]` -/
def afterLastCR (asFound : Bool) (s : List Char) : List Char :=
  if asFound then afterLastCRAsFound s else afterLastCRAsFound (rstripCR s)

/-- the characters `str.splitlines()` breaks at (besides the pair CR LF) -/
def isLineSep (c : Char) : Bool :=
  let n := c.toNat
  n == 10 || n == 11 || n == 12 || n == 13 || n == 28 || n == 29 || n == 30 || n == 133 || n == 8232 || n == 8233

def splitlinesAux : List Char → Bool → List Char → List (List Char)
  | [], _, cur => if cur.isEmpty then [] else [cur]
  | c :: r, afterCR, cur =>
    if afterCR ∧ c = '\n' then splitlinesAux r false cur       -- the LF of a CR LF pair (`cur` is empty)
    else if c = '\r' then cur :: splitlinesAux r true []
    else if isLineSep c then cur :: splitlinesAux r false []
    else splitlinesAux r false (cur ++ [c])

/-- `s.splitlines()` -/
def splitlines (s : List Char) : List (List Char) := splitlinesAux s false []

/-- `strip_control_codes` (rich/control.py) -/
def stripCtl (s : List Char) : List Char := s.filter fun c => !Gen.stripControlCodes.contains c.toNat

/-! ## `_ansi_tokenize` -/

/-- `_AnsiToken(plain, sgr, osc)`: a text token has `sgr = osc = ""`, a match of the first
alternative of `re_ansi` has `plain = ""`, `osc = None`, a match of the second `plain = ""`, `sgr = None`. -/
inductive Token where
  | plain (s : List Char)
  | sgr (s : List Char)
  | osc (s : List Char)
deriving Repr, DecidableEq

/-- `(.*?)m` at the start of `s`: the lazy group takes everything up to the first `m`, and `.` does
not match a newline.  `none` = no match. -/
def findLazyM : List Char → Option (List Char)
  | [] => none
  | c :: r => if c = 'm' then some [] else if c = '\n' then none else (findLazyM r).map (c :: ·)

/-- `[0-9;:]` (a regex class on a `str` pattern: ASCII digits only) -/
def isSgrParam (c : Char) : Bool := (48 ≤ c.toNat && c.toNat ≤ 57) || c == ';' || c == ':'

/-- `([0-9;:]*)m` at the start of `s` (repaired F32): greedy, and `m` is not in the class, so no backtracking. -/
def findSgrM : List Char → Option (List Char)
  | [] => none
  | c :: r => if c = 'm' then some [] else if isSgrParam c then (findSgrM r).map (c :: ·) else none

/-- the group of the first alternative of `re_ansi` after `ESC [` -/
def findM (lazy : Bool) (s : List Char) : Option (List Char) := if lazy then findLazyM s else findSgrM s

/-- `(.*?)\x1b\\` at the start of `s` — repaired (F33, `bel`): `(.*?)(?:\x1b\\|\x07)`, an OSC string may also end with BEL.
Returns the group and the length of the terminator. -/
def findST (bel : Bool) : List Char → Option (List Char × Nat)
  | [] => none
  | c :: r =>
    if c = ESC ∧ r.head? = some '\\' then some ([], 2)
    else if bel ∧ c = BEL then some ([], 1)
    else if c = '\n' then none else (findST bel r).map fun p => (c :: p.1, p.2)

def isCsiParam (c : Char) : Bool := 0x30 ≤ c.toNat && c.toNat ≤ 0x3F     -- [0-?]
def isCsiInter (c : Char) : Bool := 0x20 ≤ c.toNat && c.toNat ≤ 0x2F     -- space .. slash
def isCsiFinal (c : Char) : Bool := 0x40 ≤ c.toNat && c.toNat ≤ 0x7E     -- [@-~]
def isEscFinal (c : Char) : Bool :=                                       -- [@-Z\\-_]
  (0x40 ≤ c.toNat && c.toNat ≤ 0x5A) || (0x5C ≤ c.toNat && c.toNat ≤ 0x5F)

/-- Number of characters `[0-?]*[space-slash]*[@-~]` matches at the start of `s` (`none` = no match).  The
three classes are disjoint, so the greedy choice is the only one. -/
def csiTail (s : List Char) : Option Nat :=
  let s1 := s.dropWhile isCsiParam
  match s1.dropWhile isCsiInter with
  | c :: _ =>
    if isCsiFinal c then some ((s.takeWhile isCsiParam).length + (s1.takeWhile isCsiInter).length + 1) else none
  | [] => none

/-- `re_csi.sub("", s)`; the second argument counts characters of a match still to be dropped. -/
def removeCsiAux : List Char → Nat → List Char
  | [], _ => []
  | _ :: r, k + 1 => removeCsiAux r k
  | c :: r, 0 =>
    if c = ESC then
      match r with
      | d :: r' =>
        if isEscFinal d then removeCsiAux r 1
        else if d = '[' then
          match csiTail r' with
          | some n => removeCsiAux r (n + 1)
          | none => c :: removeCsiAux r 0
        else c :: removeCsiAux r 0
      | [] => [c]
    else c :: removeCsiAux r 0

def removeCsi (s : List Char) : List Char := removeCsiAux s 0

/-- `if start > position: yield _AnsiToken(remove_csi(ansi_text[position:start]))` -/
def flushPlain (acc : List Char) : List Token := if acc.isEmpty then [] else [.plain (removeCsi acc)]

/-- `re_ansi.finditer` with the text between matches; `k` counts characters of the current match
still to be skipped, `acc` is the text since the end of the last match. -/
def tokAux (lazy bel : Bool) : List Char → Nat → List Char → List Token
  | [], _, acc => flushPlain acc
  | _ :: r, k + 1, acc => tokAux lazy bel r k acc
  | c :: r, 0, acc =>
    if c = ESC then
      match r with
      | d :: r' =>
        if d = '[' then
          match findM lazy r' with
          | some body => flushPlain acc ++ .sgr body :: tokAux lazy bel r (body.length + 2) []
          | none => tokAux lazy bel r 0 (acc ++ [c])
        else if d = ']' then
          match findST bel r' with
          | some (body, tl) => flushPlain acc ++ .osc body :: tokAux lazy bel r (body.length + 1 + tl) []
          | none => tokAux lazy bel r 0 (acc ++ [c])
        else tokAux lazy bel r 0 (acc ++ [c])
      | [] => tokAux lazy bel r 0 (acc ++ [c])
    else tokAux lazy bel r 0 (acc ++ [c])

/-- `_ansi_tokenize(ansi_text)` -/
def tokenize (lazy bel : Bool) (s : List Char) : List Token := tokAux lazy bel s 0 []

/-! ## `AnsiDecoder` -/

inductive DecErr where
  /-- `ValueError` out of `int(_code)` -/
  | valueError
  /-- an exception out of `Style.parse(SGR_STYLE_MAP[code])` -/
  | style (e : StyleErr)
deriving Repr, DecidableEq

/-- `SGR_STYLE_MAP.get(code)` -/
def sgrLookup (code : Nat) : Option (List Char) :=
  (Gen.sgrStyleMap.find? fun p => p.1 == code).map (·.2)

/-- `SGR_STYLE_MAP.get(code)` with the two rows that F29 is about taken from the variant flag instead of the
translated table (the correspondence ties the flag to the working tree: every code is compared on every run). -/
def sgrLookupV (cfg : Cfg) (code : Nat) : Option (List Char) :=
  if code = 24 then some (if cfg.offSingle then cl! "not underline" else cl! "not underline not underline2")
  else if code = 25 then some (if cfg.offSingle then cl! "not blink" else cl! "not blink not blink2")
  else sgrLookup code

/-- `[min(255, int(_code)) for _code in … if _code.isdigit()]`; repaired (F27): an empty `_code` is 0. -/
def codesLoop (cfg : Cfg) : List (List Char) → Except DecErr (List Nat)
  | [] => .ok []
  | c :: r =>
    if c.isEmpty then
      if cfg.emptyIgnored then codesLoop cfg r else (codesLoop cfg r).map (0 :: ·)
    else if strIsDigit c then
      match pyIntDigits c with
      | some n => (codesLoop cfg r).map (min 255 n :: ·)
      | none => if cfg.intRaises then .error .valueError else codesLoop cfg r
    else codesLoop cfg r

def sgrCodes (cfg : Cfg) (sgr : List Char) : Except DecErr (List Nat) := codesLoop cfg (splitOn ';' sgr)

/-- `Color.from_ansi(number)` -/
def fromAnsi (n : Nat) : Color :=
  { name := cl! "color(" ++ natStr n ++ [')'], type := numberType n, number := some n }

def hexDigit (n : Nat) : Char := if n < 10 then Char.ofNat (48 + n) else Char.ofNat (87 + n)
/-- `f"{n:02x}"` for `n ≤ 255` -/
def hex2 (n : Nat) : List Char := [hexDigit (n / 16), hexDigit (n % 16)]

/-- `Color.from_rgb(r, g, b)` → `from_triplet`: the name is `triplet.hex`. -/
def fromRgb (r g b : Nat) : Color :=
  { name := '#' :: (hex2 r ++ hex2 g ++ hex2 b), type := .truecolor, triplet := some ⟨r, g, b⟩ }

/-- The sub-parser of 38 / 48 (ansi.py:166-179): what `next(iter_codes)` … read.  `none`: the iterator
ran dry (`StopIteration`, suppressed; the `for` loop then ends too).  Otherwise the colour read (if the
colour type was 5 or 2) and the number of codes consumed. -/
def extColor : List Nat → Option (Option Color × Nat)
  | [] => none
  | ct :: r1 =>
    if ct = 5 then
      match r1 with
      | [] => none
      | n :: _ => some (some (fromAnsi n), 2)
    else if ct = 2 then
      match r1 with
      | a :: b :: c :: _ => some (some (fromRgb a b c), 4)
      | _ => none
    else some (none, 1)

/-- `Style(link=link)`: what `__init__` builds when only a (truthy) link is given. -/
def linkOnly (link : Option (List Char)) : Style :=
  { color := none, bgcolor := none, attributes := 0, setAttributes := 0, link := link,
    hash := ⟨none, none, some 0, some 0, link⟩, isNull := false, styleDef := none }

/-- The style after SGR 0.  As found: `Style.null()`.  Repaired (F28):
`Style(link=self.style.link) if self.style.link else Style.null()`. -/
def resetOf (cfg : Cfg) (st : Style) : Style :=
  if cfg.resetDropsLink then Style.null
  else if strTruthy st.link then linkOnly st.link else Style.null

/-- The `for code in iter_codes` loop (ansi.py:157-196).  The sub-parsers of 38 / 48 pull further codes
from the same iterator: the third argument counts codes already consumed that way.
Returns the style reached and the exception, if one was raised. -/
def applyCodes (cfg : Cfg) : Style → List Nat → Nat → Style × Option DecErr
  | st, [], _ => (st, none)
  | st, _ :: r, k + 1 => applyCodes cfg st r k
  | st, code :: r, 0 =>
    if code = 0 then applyCodes cfg (resetOf cfg st) r 0
    else
      match sgrLookupV cfg code with
      | some d =>
        match Style.parse cfg.sv d with
        | .ok s => applyCodes cfg (Style.add cfg.sv st s) r 0
        | .error e => (st, some (.style e))
      | none =>
        if code = 38 then
          match extColor r with
          | none => (st, none)
          | some (some c, n) => applyCodes cfg (Style.add cfg.sv st (Style.fromColor cfg.sv (some c) none)) r n
          | some (none, n) => applyCodes cfg st r n
        else if code = 48 then
          match extColor r with
          | none => (st, none)
          | some (some c, n) => applyCodes cfg (Style.add cfg.sv st (Style.fromColor cfg.sv none (some c))) r n
          | some (none, n) => applyCodes cfg st r n
        else applyCodes cfg st r 0

/-- What one `text.append(plain_text, self.style or None)` adds: the stripped characters and the span's
style (`none` = no span). -/
structure Run where
  text : List Char
  style : Option Style
deriving Repr, DecidableEq

/-- `link or None` -/
def linkOrNone (l : List Char) : Option (List Char) := if l.isEmpty then none else some l

/-- One iteration of the token loop of `decode_line`: the new `self.style`, the run appended to `text`
(if any) and the exception raised (if any). -/
def decodeTok (cfg : Cfg) (st : Style) : Token → Style × Option Run × Option DecErr
  | .plain p =>
    if p.isEmpty then (st, none, none)
    else (st, some ⟨stripCtl p, if st.toBool then some st else none⟩, none)
  | .osc o =>
    if o.isEmpty then (st, none, none)
    else
      match dropPrefix? ['8', ';'] o with
      | some rest =>
        let p := partitionAt ';' rest
        if p.2.1 then (Style.updateLink cfg.sv st (linkOrNone p.2.2), none, none) else (st, none, none)
      | none => (st, none, none)
  | .sgr s =>
    -- as found: `elif sgr:` skips the empty parameter string; repaired (F27): every SGR match is read
    if s.isEmpty && cfg.emptyIgnored then (st, none, none)
    else
      match sgrCodes cfg s with
      | .error e => (st, none, some e)
      | .ok codes =>
        let r := applyCodes cfg st codes 0
        (r.1, none, r.2)

/-- The token loop: final `self.style` and the runs of the returned `Text`, or the exception. -/
def decodeToks (cfg : Cfg) : Style → List Token → Style × Except DecErr (List Run)
  | st, [] => (st, .ok [])
  | st, t :: r =>
    match decodeTok cfg st t with
    | (st', _, some e) => (st', .error e)
    | (st', run, none) =>
      let rest := decodeToks cfg st' r
      (rest.1, rest.2.map (run.toList ++ ·))

/-- `AnsiDecoder.decode_line(line)` from decoder state `st`. -/
def decodeLine (cfg : Cfg) (st : Style) (line : List Char) : Style × Except DecErr (List Run) :=
  decodeToks cfg st (tokenize cfg.sgrLazy (!cfg.oscStOnly) (afterLastCR cfg.crErases line))

/-- Lines decoded one after the other with the style carried over; stops at the first exception. -/
def decodeMany (cfg : Cfg) : Style → List (List Char) → Style × Except DecErr (List (List Run))
  | st, [] => (st, .ok [])
  | st, l :: r =>
    match decodeLine cfg st l with
    | (st', .error e) => (st', .error e)
    | (st', .ok runs) =>
      let rest := decodeMany cfg st' r
      (rest.1, rest.2.map (runs :: ·))

/-- `list(AnsiDecoder.decode(terminal_text))` from decoder state `st`. -/
def decode (cfg : Cfg) (st : Style) (text : List Char) : Style × Except DecErr (List (List Run)) :=
  decodeMany cfg st (splitlines text)

/-! ### The `Text` a list of runs stands for -/

def plainOf (runs : List Run) : List Char := runs.flatMap (·.text)

structure Span where
  start : Nat
  stop : Nat
  style : Style
deriving Repr, DecidableEq

/-- `Span(offset, offset + len(text), style)` for every run that has a style. -/
def spansFrom : List Run → Nat → List Span
  | [], _ => []
  | r :: rs, off =>
    (match r.style with
     | some s => [⟨off, off + r.text.length, s⟩]
     | none => []) ++ spansFrom rs (off + r.text.length)

def spansOf (runs : List Run) : List Span := spansFrom runs 0

/-! ## The encoder: `Style.render` for a truecolor terminal -/

inductive EncErr where
  /-- `_style_map[bit]` -/
  | keyError
  /-- `assert` in `Color.get_ansi_codes` / `downgrade` -/
  | color (e : ColorErr)
deriving Repr, DecidableEq

/-- `Style._style_map.get(bit)` -/
def styleMapCode (bit : Nat) : Option (List Char) :=
  (Gen.styleMapCodes.find? fun p => p.1 == bit).map (·.2)

/-- `if attributes & (1 << bit): append(_style_map[bit])` -/
def bitCode (a bit : Nat) : Except EncErr (List (List Char)) :=
  if a.testBit bit then
    match styleMapCode bit with
    | some c => .ok [c]
    | none => .error .keyError
  else .ok []

/-- `for bit in bits: if attributes & (1 << bit): append(_style_map[bit])` -/
def bitCodes (a : Nat) : List Nat → Except EncErr (List (List Char))
  | [] => .ok []
  | b :: bs =>
    match bitCode a b with
    | .error e => .error e
    | .ok c => (bitCodes a bs).map (c ++ ·)

/-- The attribute part of `_make_ansi_codes` (style.py:289-306) with its guards. -/
def attrCodes (a : Nat) : Except EncErr (List (List Char)) :=
  if a ≠ 0 then
    match bitCodes a [0, 1, 2, 3] with
    | .error e => .error e
    | .ok c0 =>
      match (if a &&& 0b0000111110000 ≠ 0 then bitCodes a [4, 5, 6, 7, 8] else .ok []) with
      | .error e => .error e
      | .ok c1 =>
        match (if a &&& 0b1111000000000 ≠ 0 then bitCodes a [9, 10, 11, 12] else .ok []) with
        | .error e => .error e
        | .ok c2 => .ok (c0 ++ c1 ++ c2)
  else .ok []

/-- `color.downgrade(ColorSystem.TRUECOLOR).get_ansi_codes(foreground)` as parameter texts. -/
def colorCodes (c : Color) (foreground : Bool) : Except EncErr (List (List Char)) :=
  match downgrade RichModel.Cfg.repaired richPalettes c .truecolor with
  | .error e => .error (.color e)
  | .ok c' =>
    match getAnsiCodes c' foreground with
    | .error e => .error (.color e)
    | .ok ns => .ok (ns.map natStr)

/-- `if self._color is not None: sgr.extend(self._color.downgrade(color_system).get_ansi_codes(…))` -/
def optColorCodes : Option Color → Bool → Except EncErr (List (List Char))
  | none, _ => .ok []
  | some c, fg => colorCodes c fg

/-- `Style._make_ansi_codes(ColorSystem.TRUECOLOR)` on an empty `_ansi` cache. -/
def makeAnsiCodes (s : Style) : Except EncErr (List Char) :=
  match attrCodes (s.attributes &&& s.setAttributes) with
  | .error e => .error e
  | .ok a =>
    match optColorCodes s.color true with
    | .error e => .error e
    | .ok f =>
      match optColorCodes s.bgcolor false with
      | .error e => .error e
      | .ok b => .ok (joinWith ';' (a ++ f ++ b))

def oscOpen (linkId link : List Char) : List Char :=
  [ESC, ']', '8', ';', 'i', 'd', '='] ++ linkId ++ ';' :: link ++ [ESC, '\\']
def oscClose : List Char := [ESC, ']', '8', ';', ';', ESC, '\\']
def sgrOpen (attrs : List Char) : List Char := ESC :: '[' :: attrs ++ ['m']
def sgrReset : List Char := [ESC, '[', '0', 'm']

/-- `Style.render(text, color_system=TRUECOLOR, legacy_windows=legacy)`; `linkId` is `_link_id`.
The hyperlink is written only `if self._link and not legacy_windows`. -/
def renderSeg (legacy : Bool) (linkId : List Char) (s : Style) (text : List Char) : Except EncErr (List Char) :=
  if text.isEmpty then .ok text
  else
    match makeAnsiCodes s with
    | .error e => .error e
    | .ok attrs =>
      let rendered := if attrs.isEmpty then text else sgrOpen attrs ++ text ++ sgrReset
      if strTruthy s.link && !legacy then .ok (oscOpen linkId (s.link.getD []) ++ rendered ++ oscClose)
      else .ok rendered

/-- A segment as `_render_buffer` sees it (not a control segment). -/
structure Seg where
  text : List Char
  style : Option Style
  /-- `style._link_id` -/
  linkId : List Char := []
deriving Repr, DecidableEq

/-- `if style: append(style.render(text, …, legacy_windows=legacy)) else: append(text)` -/
def encodeSeg (legacy : Bool) (g : Seg) : Except EncErr (List Char) :=
  match g.style with
  | some s => if s.toBool then renderSeg legacy g.linkId s g.text else .ok g.text
  | none => .ok g.text

/-- `Console._render_buffer` of one line of segments on a truecolor terminal (`legacy` = `console.legacy_windows`). -/
def encodeSegs (legacy : Bool) : List Seg → Except EncErr (List Char)
  | [] => .ok []
  | g :: gs =>
    match encodeSeg legacy g with
    | .error e => .error e
    | .ok x => (encodeSegs legacy gs).map (x ++ ·)

/-! ## `FileProxy` -/

/-- What the proxy asks of the console. -/
inductive Call where
  /-- `console.print(Text("\n").join(parts), markup=False, emoji=False, highlight=False)` where every
  part came out of the proxy's `AnsiDecoder` -/
  | printText (parts : List (List Run))
  /-- `console.print(text, markup=False, emoji=False, highlight=False)` where `text` is what the proxy's
  `AnsiDecoder.decode_line` returned (the repaired `flush`) -/
  | printOne (runs : List Run)
  /-- `console.print(s)`: a `str`, with markup / emoji / highlight left to the console's defaults -/
  | printStr (s : List Char)
deriving Repr, DecidableEq

inductive Event where
  | call (c : Call)
  /-- an exception left `write` / `flush`; nothing was printed by that call -/
  | raised (e : DecErr)
deriving Repr, DecidableEq

structure Proxy where
  /-- `self.__buffer`: the chunks of the incomplete line -/
  buffer : List (List Char)
  /-- `self.__ansi_decoder.style` -/
  style : Style
deriving Repr, DecidableEq

def Proxy.init : Proxy := ⟨[], Style.null⟩

/-- The `while text:` loop of `write` (file_proxy.py:33-40): `cur` is the part of `text` since the
last newline.  Returns the completed lines and the new buffer. -/
def writeLoop : List Char → List Char → List (List Char) → List (List Char) → List (List Char) × List (List Char)
  | [], cur, buf, lines => (lines, if cur.isEmpty then buf else buf ++ [cur])
  | c :: r, cur, buf, lines =>
    if c = '\n' then writeLoop r [] [] (lines ++ [buf.flatten ++ cur])
    else writeLoop r (cur ++ [c]) buf lines

/-- `FileProxy.write(text)`.  (The return value of the real method is `len("")` = 0 for every text.) -/
def Proxy.write (cfg : Cfg) (p : Proxy) (text : List Char) : Proxy × List Event :=
  let r := writeLoop text [] p.buffer []
  if r.1.isEmpty then ({ p with buffer := r.2 }, [])
  else
    match decodeMany cfg p.style r.1 with
    | (st, .ok parts) => (⟨r.2, st⟩, [.call (.printText parts)])
    | (st, .error e) => (⟨r.2, st⟩, [.raised e])

/-- `FileProxy.flush()`.  `printRaises` is the environment's answer to "did `console.print(str)` raise"
(markup errors; only consulted by the `flushRaw` variant: the buffer is cleared *after* the print). -/
def Proxy.flush (cfg : Cfg) (p : Proxy) (printRaises : Bool) : Proxy × List Event :=
  if p.buffer.isEmpty then (p, [])
  else if cfg.flushRaw then
    (if printRaises then p else { p with buffer := [] }, [.call (.printStr p.buffer.flatten)])
  else
    match decodeLine cfg p.style p.buffer.flatten with
    | (st, .ok runs) => (⟨[], st⟩, [.call (.printOne runs)])
    | (st, .error e) => (⟨p.buffer, st⟩, [.raised e])

inductive Op where
  | write (s : List Char)
  | flush (printRaises : Bool := false)
deriving Repr, DecidableEq

def Proxy.step (cfg : Cfg) (p : Proxy) : Op → Proxy × List Event
  | .write s => p.write cfg s
  | .flush b => p.flush cfg b

/-- A history of calls on one proxy: final state and everything that happened, in order. -/
def run (cfg : Cfg) : Proxy → List Op → Proxy × List Event
  | p, [] => (p, [])
  | p, op :: h =>
    let a := p.step cfg op
    let b := run cfg a.1 h
    (b.1, a.2 ++ b.2)

/-! ### The two proxies a live display installs

`Live.start` / `Progress.start` → `_enable_redirect_io` (live.py:196-204, progress.py:634-642):
`sys.stdout = FileProxy(self.console, sys.stdout)`, `sys.stderr = FileProxy(self.console, sys.stderr)` — two
proxy objects, each with its own buffer and its own decoder, printing through the SAME console. -/

structure Proxies where
  out : Proxy
  err : Proxy
deriving Repr, DecidableEq

def Proxies.init : Proxies := ⟨Proxy.init, Proxy.init⟩

/-- `false` = stdout, `true` = stderr -/
def Proxies.get (ps : Proxies) (b : Bool) : Proxy := if b then ps.err else ps.out
def Proxies.set (ps : Proxies) (b : Bool) (p : Proxy) : Proxies := if b then { ps with err := p } else { ps with out := p }

/-- A history of calls on the two streams, in program order: final states and what the one console was
asked to print, in order, each event tagged with the stream it came from. -/
def run2 (cfg : Cfg) : Proxies → List (Bool × Op) → Proxies × List (Bool × Event)
  | ps, [] => (ps, [])
  | ps, (b, op) :: h =>
    let a := (ps.get b).step cfg op
    let r := run2 cfg (ps.set b a.1) h
    (r.1, a.2.map (fun e => (b, e)) ++ r.2)

/-! ### `Text("\n").join(parts)` as handed to `console.print` -/

/-- A span of the joined text; `style = none` is the `""` style `Text.join` records for every piece
(the separator's and each part's own `Text.style`). -/
structure JSpan where
  start : Nat
  stop : Nat
  style : Option Style
deriving Repr, DecidableEq

/-- `Text.join` (text.py:592-629): pieces are part, "\n", part, … ; for each piece first the span of
its own style `""`, then its spans shifted. -/
def joinPieces : List (List Run) → Nat → List Char × List JSpan
  | [], _ => ([], [])
  | [p], off =>
    let n := (plainOf p).length
    (plainOf p, ⟨off, off + n, none⟩ :: (spansFrom p off).map fun s => ⟨s.start, s.stop, some s.style⟩)
  | p :: rest, off =>
    let n := (plainOf p).length
    let r := joinPieces rest (off + n + 1)
    (plainOf p ++ '\n' :: r.1,
     (⟨off, off + n, none⟩ :: (spansFrom p off).map fun s => ⟨s.start, s.stop, some s.style⟩) ++
       ⟨off + n, off + n + 1, none⟩ :: r.2)

end Ansi
end RichModel
